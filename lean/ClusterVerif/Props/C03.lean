import ClusterVerif.Lemmas.C03
import ClusterVerif.Lemmas.C03Sort
import ClusterVerif.Lemmas.C03Pipeline
import ClusterVerif.Lemmas.C03Block
import ClusterVerif.Lemmas.C03Alloc
import ClusterVerif.Model.C03Skeleton
import ClusterVerif.Gen.C03

/-!
# C03 — allocations honour the replication factors and use only healthy peers

Property theorems only (helper lemmas are in `Lemmas/C03.lean`).

* `allowed_holds`   — every output the model of `allocate` admits (for any
  iteration order of Go's maps and any tie-breaking of its unstable sort)
  satisfies every clause of the property, for every input. No size bound.
* `valid_factors_no_panic` — the factor pairs the cluster accepts never reach
  the out-of-range slice.
-/
namespace CV.C03

/-- C03 for every input and every resolution of the choices Go leaves open. -/
theorem allowed_holds (i : Input) (o : Output) (hw : wf i = true) (h : allowed i o = true) :
    holds i o = true := by
  unfold holds clauses
  by_cases hev : (i.rmin == -1 && i.rmax == -1) = true
  · -- replication factor -1: the empty list, meaning every peer
    simp only [hev, if_true, List.all_cons, List.all_nil, Bool.and_true]
    simp only [Bool.and_eq_true, beq_iff_eq] at hev
    unfold allowed at h
    have h1 : ¬ (i.rmin + i.rmax == 0) = true := by simp only [beq_iff_eq]; omega
    have h2 : (decide (i.rmin < 0) && decide (i.rmax < 0)) = true := by
      simp only [Bool.and_eq_true, decide_eq_true_eq]; omega
    simpa [h1, h2] using h
  · simp only [hev, Bool.false_eq_true, if_false]
    by_cases hpos : positive i = true
    · simp only [hpos, if_true]
      have hp : 0 < i.rmin ∧ i.rmin ≤ i.rmax := by simpa [positive] using hpos
      unfold allowed at h
      have h1 : ¬ (i.rmin + i.rmax == 0) = true := by simp only [beq_iff_eq]; omega
      have h2 : ¬ (decide (i.rmin < 0) && decide (i.rmax < 0)) = true := by
        simp only [Bool.and_eq_true, decide_eq_true_eq]; omega
      simp only [h1, h2, Bool.false_eq_true, if_false] at h
      have finish : ∀ out, okClauses i out → ([("nodup", cNodup i out), ("added_healthy", cAdded i out),
          ("keep_current", cKeep i out), ("count_min_max", cCount i out), ("priority_first", cPriority i out),
          ("rank_best", cRank i out)] : List (String × Bool)).all (·.2) = true := by
        rintro out ⟨a, b, c, d, e, f⟩; simp [a, b, c, d, e, f]
      by_cases hwant : i.rmax - ((curIds i).length : Int) < 0
      · -- more healthy holders than max
        have hnp : ¬ (((curIds i).length : Int) + (i.rmax - ((curIds i).length : Int)) < 0) := by omega
        simp only [hwant, hnp, if_true, if_false, okWith_iff, okTrunc_iff] at h
        obtain ⟨l, rfl, hlen, hnd, hsub⟩ := h
        apply finish
        refine arm_truncate hw hp ?_ hnd hsub (by omega)
        rw [hlen]; omega
      · simp only [hwant, if_false] at h
        by_cases hneed : i.rmin - ((curIds i).length : Int) ≤ 0
        · -- min already met
          simp only [hneed, if_true, beq_iff_eq] at h
          subst h
          exact finish _ (arm_keep hw (by omega) (by omega))
        · simp only [hneed, if_false] at h
          by_cases hfew : (((priM i).length : Int) + ((candM i).length : Int)) < i.rmin - ((curIds i).length : Int)
          · simp only [hfew, if_true, beq_iff_eq] at h
            subst h
            have := numerics_length_le (priM i)
            have := numerics_length_le (candM i)
            simp only [List.all_cons, List.all_nil, Bool.and_true]
            exact arm_err hw (by push_cast; omega)
          · simp only [hfew, if_false] at h
            by_cases hnum : (((numerics (priM i)).length + (numerics (candM i)).length : Nat) : Int) < i.rmin - ((curIds i).length : Int)
            · simp only [hnum, if_true, beq_iff_eq] at h
              subst h
              simp only [List.all_cons, List.all_nil, Bool.and_true]
              exact arm_err hw hnum
            · simp only [hnum, if_false, okWith_iff, okAlloc_iff] at h
              obtain ⟨l, rfl, hhead, hrest, ha, hb⟩ := h
              apply finish
              refine arm_alloc hw ?_ ?_ rfl hhead hrest ha hb
              · push_cast at hnum ⊢; omega
              · push_cast at hnum ⊢; omega
    · simp [hpos]

/-- The deterministic model (`allocate`: insertion sort, fixed tie-break and map order) always
    produces an output the relation admits: the relation is inhabited on every well-formed input,
    so `allowed_holds` is not vacuous anywhere, and the functional model satisfies the property. -/
theorem allocate_allowed (i : Input) (hw : wf i = true) : allowed i (allocate i) = true :=
  allocate_allowed_aux i hw

theorem allocate_holds (i : Input) (hw : wf i = true) : holds i (allocate i) = true :=
  allowed_holds i (allocate i) hw (allocate_allowed i hw)

/-- With factor pairs accepted by `isReplicationFactorValid`, `allocate` never
    reaches the out-of-range slice expression. -/
theorem valid_factors_no_panic (i : Input) (o : Output) (hv : factorsValid i.rmin i.rmax = true)
    (h : allowed i o = true) : o ≠ .panic := by
  intro ho; subst ho
  unfold factorsValid at hv
  simp only [Bool.and_eq_true, Bool.not_eq_true', Bool.or_eq_false_iff, beq_eq_false_iff_ne, ne_eq,
    decide_eq_false_iff_not, Bool.and_eq_false_iff, bne_eq_false_iff_eq, beq_iff_eq, bne_iff_ne] at hv
  unfold allowed at h
  by_cases h1 : (i.rmin + i.rmax == 0) = true
  · simp [h1] at h
  · by_cases h2 : (decide (i.rmin < 0) && decide (i.rmax < 0)) = true
    · simp [h1, h2] at h
    · simp only [h1, h2, if_false] at h
      simp only [Bool.and_eq_true, decide_eq_true_eq, beq_iff_eq] at h1 h2
      by_cases hwant : i.rmax - ((curIds i).length : Int) < 0
      · have hnp : ¬ (((curIds i).length : Int) + (i.rmax - ((curIds i).length : Int)) < 0) := by omega
        simp [hwant, hnp, Output.okWith] at h
      · simp only [hwant, if_false] at h
        by_cases hneed : i.rmin - ((curIds i).length : Int) ≤ 0
        · simp [hneed] at h
        · simp only [hneed, if_false] at h
          split at h
          · simp at h
          · split at h <;> simp [Output.okWith] at h

/-- The accepted factor pairs are exactly: both -1, or 0 < min ≤ max. -/
theorem factorsValid_iff (a b : Int) :
    factorsValid a b = true ↔ (a = -1 ∧ b = -1) ∨ (0 < a ∧ a ≤ b) := by
  unfold factorsValid
  simp only [Bool.and_eq_true, Bool.not_eq_true', Bool.or_eq_false_iff, beq_eq_false_iff_ne, ne_eq,
    decide_eq_false_iff_not, Bool.and_eq_false_iff, bne_eq_false_iff_eq, beq_iff_eq, bne_iff_ne]
  omega

/-! Non-vacuity: concrete inputs meet the hypotheses and reach the allocating arm. -/
private def ex1 : Input :=
  { desc := false, rmin := 2, rmax := 3, blacklist := [4], priority := [3], current := [0, 9],
    peers := [(0, .valid 5), (1, .valid 1), (2, .valid 1), (3, .valid 7), (4, .valid 0), (5, .expired), (6, .nonNumeric)] }
example : wf ex1 = true ∧ allocate ex1 = .ok [0, 3, 1] ∧ allowed ex1 (allocate ex1) = true ∧
    allowed ex1 (.ok [0, 3, 2]) = true ∧ allowed ex1 (.ok [0, 1, 2]) = false ∧ holds ex1 (.ok [0, 1, 2]) = false := by decide


/-! ## Round 7 — from raw metric arrivals to the abstract input

`Model/C03Pipeline.lean` transcribes `Store.Add`/`Window.Latest` → `Store.LatestValid` → `Monitor.LatestMetrics`
(peerset filter) → classification → `SortNumeric`. The theorems below show the composition equals the abstract
"peers with a metric state" input of `Model/C03.lean` (`rawInput`), so `allowed_holds` speaks about raw arrivals:
several metrics per peer, any arrival order, metrics of other names, metrics from non-members. -/

/-- The metrics `LatestMetrics` hands to allocate(), read as (peer, state), are exactly the healthy entries of the
    abstract input computed from the raw arrivals — for every arrival list, every order of the store's map,
    every peerset view. -/
theorem pipeline_yields_states (order : List Nat) (arr : List RawMetric) (name : Nat) (view : PeersetView)
    (desc : Bool) (rmin rmax : Int) (cur bl pri : List Nat) :
    (latestMetrics order arr name view).map (fun m => (m.peer, m.state)) =
      metrics (rawInput order arr name view desc rmin rmax cur bl pri) :=
  pipeline_yields_states_aux order arr name view desc rmin rmax cur bl pri

/-- …and the abstract input is well-formed (one entry per peer) whenever the store's map has one window per peer. -/
theorem rawInput_wellformed (order : List Nat) (arr : List RawMetric) (name : Nat) (view : PeersetView)
    (desc : Bool) (rmin rmax : Int) (cur bl pri : List Nat) (h : order.Nodup) :
    wf (rawInput order arr name view desc rmin rmax cur bl pri) = true :=
  rawInput_wf order arr name view desc rmin rmax cur bl pri h

/-- C03 over raw inputs: every output the model admits on the input the raw arrivals stand for satisfies every
    clause of the property. -/
theorem allowed_holds_raw (order : List Nat) (arr : List RawMetric) (name : Nat) (view : PeersetView)
    (desc : Bool) (rmin rmax : Int) (cur bl pri : List Nat) (o : Output) (h : order.Nodup)
    (ha : allowed (rawInput order arr name view desc rmin rmax cur bl pri) o = true) :
    holds (rawInput order arr name view desc rmin rmax cur bl pri) o = true :=
  allowed_holds _ o (rawInput_wf order arr name view desc rmin rmax cur bl pri h) ha

/-- Only the LAST arrival under (allocation metric's name, peer) decides a peer's state: a later metric replaces
    an earlier one even if it expires sooner (out-of-order arrival), and arrivals of another name or peer change
    nothing. -/
theorem last_arrival_decides (arr : List RawMetric) (m : RawMetric) (name : Nat) (view : PeersetView) (p : Nat) :
    stateOfRaw (arr ++ [m]) name view p =
      if m.name = name ∧ m.peer = p then stateOfRaw [m] name view p else stateOfRaw arr name view p := by
  unfold stateOfRaw
  by_cases h : m.name = name ∧ m.peer = p
  · obtain ⟨rfl, rfl⟩ := h
    have : windowLatest [m] m.name m.peer = some m := by simpa using windowLatest_append_same [] m
    rw [windowLatest_append_same, this]; simp
  · rw [windowLatest_append_other arr m name p h, if_neg h]

/-- A peer outside the peerset, or any peer when the peerset provider fails, has no metric state at all. -/
theorem non_member_absent (arr : List RawMetric) (name : Nat) (view : PeersetView) (p : Nat)
    (h : view.admits p = false) : stateOfRaw arr name view p = .absent := by
  simp [stateOfRaw, h]

/-- `SortNumeric` re-tests `Discard()` and parses the value: on what `LatestMetrics` returned this keeps exactly the
    model's `numerics` (valid numeric states). -/
theorem sorter_sees_model_numerics (order : List Nat) (arr : List RawMetric) (name : Nat) (view : PeersetView)
    (f : RawMetric → Bool) :
    numericsRaw ((latestMetrics order arr name view).filter f) =
      numerics (((latestMetrics order arr name view).filter f).map (fun m => (m.peer, m.state))) :=
  numericsRaw_eq _ (fun _ hm => latestMetrics_not_discard (List.mem_of_mem_filter hm))

/-! ### the classification switch: precedence as a theorem about the regenerated skeleton -/

/-- blacklist > current holder > priority > candidate, for ALL overlaps of the three lists: the classifier the
    translator read out of today's allocate() files every peer exactly as the model's split does. -/
theorem classification_precedence (bl cur pri : List Nat) (p : Nat) :
    classifyWith Gen.classifier bl cur pri p = classifySpec bl cur pri p := by
  unfold classifySpec
  by_cases h1 : bl.contains p = true <;> by_cases h2 : cur.contains p = true <;> by_cases h3 : pri.contains p = true <;>
    simp [Gen.classifier, classifyWith, switchDest, Guard.eval, Which.sel, h1, h2, h3]

/-- hence the model's three groups are the classes of the regenerated classifier -/
theorem classification_groups (i : Input) :
    curIds i = ((metrics i).filter (fun q => classifyWith Gen.classifier i.blacklist i.current i.priority q.1 == .current)).map (·.1) ∧
    priM i = (metrics i).filter (fun q => classifyWith Gen.classifier i.blacklist i.current i.priority q.1 == .priority) ∧
    candM i = (metrics i).filter (fun q => classifyWith Gen.classifier i.blacklist i.current i.priority q.1 == .candidate) := by
  simp only [classification_precedence]
  exact model_groups_are_classes i

/-- a healthy current holder that the request also names in its priority list is a CURRENT holder (seeded C03f) -/
theorem holder_named_in_priority_is_current (bl cur pri : List Nat) (p : Nat)
    (hb : p ∉ bl) (hc : p ∈ cur) (_hp : p ∈ pri) : classifyWith Gen.classifier bl cur pri p = .current := by
  rw [classification_precedence]; simp [classifySpec, hb, hc]

/-- the fill order of seeded change C03f (current, priority, blacklist — later fills overwrite) is NOT the
    precedence: the witness is a holder also named in the priority list -/
theorem lookup_wrong_order_breaks_precedence :
    ∃ bl cur pri p, classifyWith (.lookup [(.current, .current), (.priority, .priority), (.blacklist, .skip)] .candidate) bl cur pri p
      ≠ classifySpec bl cur pri p := ⟨[], [1], [1], 1, by decide⟩

/-- …whereas a lookup map filled priority, current, blacklist would be -/
theorem lookup_right_order_is_precedence (bl cur pri : List Nat) (p : Nat) :
    classifyWith (.lookup [(.priority, .priority), (.current, .current), (.blacklist, .skip)] .candidate) bl cur pri p
      = classifySpec bl cur pri p := by
  unfold classifySpec
  by_cases h1 : p ∈ bl <;> by_cases h2 : p ∈ cur <;> by_cases h3 : p ∈ pri <;>
    simp [classifyWith, Which.sel, List.find?, h1, h2, h3]

/-! ### the numeric sorter: discard/parse structure and comparison, regenerated -/

/-- today's `SortNumeric` skips discarded and unparsable metrics (base 10, 64 bits) and `Less` is the strict
    order of the strategy -/
theorem sort_shape_sound :
    Gen.sortShape.skipDiscarded = true ∧ Gen.sortShape.skipUnparsable = true ∧
    Gen.sortShape.base = 10 ∧ Gen.sortShape.bits = 64 ∧
    ∀ desc x y, Gen.sortShape.less desc x y = if desc then decide (x > y) else decide (x < y) := by
  refine ⟨rfl, rfl, rfl, rfl, ?_⟩
  intro desc x y
  cases desc <;> simp [SortShape.less, Gen.sortShape, Cmp.eval]

/-- so whatever `sort.Sort` returns under that `Less` (no adjacent inversion) is in the model's strategy order
    (`before`, ties in any order — what `isTopK` admits) -/
theorem sorted_output_in_strategy_order (desc : Bool) (l : List Nat)
    (h : noInversion (Gen.sortShape.less desc) l = true) :
    (l.zip l.tail).all (fun (x, y) => before desc x y) = true :=
  noInversion_before desc _ (fun x y => sort_shape_sound.2.2.2.2 desc x y) l h

/-! ### BlockAllocate, adds, and Cluster.Pin's priority list: instances of the same relation -/

/-- `BlockAllocate` consults allocate() with exactly the input the property reads off the request:
    stored holders as current, nobody excluded, the request's UserAllocations as priority list. -/
theorem blockAllocate_input (cfg : C04.Cfg) (pre : PinMap) (undef : Bool) (p : Pin) (ping chosen : List Nat) (ai : Input)
    (h : (blockAllocate cfg pre undef p ping chosen).alloc = some ai) : ai = blockInput cfg pre undef p :=
  blockAllocate_input_aux cfg pre undef p ping chosen ai h

/-- hence every answer of `BlockAllocate` that the C03 relation admits satisfies every clause of C03 -/
theorem blockAllocate_holds (cfg : C04.Cfg) (pre : PinMap) (undef : Bool) (p : Pin) (ping chosen : List Nat) (ai : Input)
    (hcfg : (cfg.peers.map (·.1)).Nodup)
    (h : (blockAllocate cfg pre undef p ping chosen).alloc = some ai) (ha : allowed ai (.ok chosen) = true) :
    holds (blockInput cfg pre undef p) (.ok chosen) = true := by
  have := blockAllocate_input cfg pre undef p ping chosen ai h
  subst this
  exact allowed_holds _ _ (by simp only [wf, blockInput]; exact decide_eq_true hcfg) ha

/-- the allocation made for an add (`cid.Undef`, nothing stored): no current holders, nobody excluded -/
theorem add_allocation_instance (cfg : C04.Cfg) (pre : PinMap) (p : Pin) (ping chosen : List Nat) (ai : Input)
    (h : (blockAllocate cfg pre true p ping chosen).alloc = some ai) :
    ai.current = [] ∧ ai.blacklist = [] ∧ ai.priority = p.opts.ualloc ∧ ai.peers = cfg.peers ∧
    ai.rmin = C04.effRmin cfg p ∧ ai.rmax = C04.effRmax cfg p := by
  have := blockAllocate_input cfg pre true p ping chosen ai h
  subst this
  simp [blockInput]

/-- for a CID that is not pinned, `BlockAllocate` and `Cluster.pin` consult allocate() with the same input -/
theorem block_and_pin_same_instance (cfg : C04.Cfg) (pre : PinMap) (p : Pin) (ping chosen : List Nat)
    (habs : pre.get p.cid = none) (hty : p.type ≠ .metaT) (hal : p.allocs = []) (hfol : cfg.follower = false)
    (hpos : 0 ≤ C04.effRmin cfg p) :
    (blockAllocate cfg pre false p ping chosen).alloc = (C04.pinBody cfg pre p [] chosen).alloc :=
  block_pin_same_aux cfg pre p ping chosen habs hty hal hfol hpos

/-- `Cluster.pin` always hands allocate() a priority list that is a permutation of the request's
    UserAllocations, the caller's blacklist, the stored allocations as current holders and the monitor's peers -/
theorem pin_priority_is_user_allocations (cfg : C04.Cfg) (pre : PinMap) (p : Pin) (bl chosen : List Nat) (ai : Input)
    (h : (C04.pinBody cfg pre p bl chosen).alloc = some ai) :
    ai.priority.Perm p.opts.ualloc ∧ ai.blacklist = bl ∧
    ai.current = ((pre.get p.cid).map (·.allocs)).getD [] ∧ ai.peers = cfg.peers ∧ ai.desc = cfg.desc :=
  pin_priority_aux cfg pre p bl chosen ai h

/-- with factor -1 `BlockAllocate` answers every peer that has a valid ping metric (the block destinations of
    "everywhere"); the pin's allocation list stays empty (`allowed` on (-1,-1)) -/
theorem blockAllocate_everywhere (cfg : C04.Cfg) (pre : PinMap) (undef : Bool) (p : Pin) (ping chosen : List Nat)
    (hfol : cfg.follower = false) (hev : C04.effRmin cfg p = -1 ∧ C04.effRmax cfg p = -1)
    (hexp : p.opts.expire.beforeNow = false)
    (hty : C04.typeOk (if undef then none else pre.get p.cid) (C04.setupFactors cfg p) = true) :
    (blockAllocate cfg pre undef p ping chosen).out = .ok ping :=
  blockAllocate_everywhere_aux cfg pre undef p ping chosen hfol hev hexp hty

/-! Non-vacuity of the raw pipeline: three metrics for peer 1 (the last one decides), a metric of another name, a
    non-member, an out-of-order arrival (peer 2's later metric is already expired). -/
private def exArr : List RawMetric :=
  [ { name := 7, peer := 1, valid := true, expired := true, val := .num 9 },
    { name := 7, peer := 2, valid := true, expired := false, val := .num 4 },
    { name := 8, peer := 1, valid := false, expired := false, val := .text },
    { name := 7, peer := 1, valid := true, expired := false, val := .num 3 },
    { name := 7, peer := 5, valid := true, expired := false, val := .num 0 },
    { name := 7, peer := 2, valid := true, expired := true, val := .num 1 },
    { name := 7, peer := 3, valid := true, expired := false, val := .text } ]
example :
    (rawInput [3, 2, 1, 5] exArr 7 (.members [1, 2, 3]) false 1 2 [] [] []).peers =
      [(3, .nonNumeric), (2, .expired), (1, .valid 3), (5, .absent)] ∧
    (latestMetrics [3, 2, 1, 5] exArr 7 (.members [1, 2, 3])).map (·.peer) = [3, 1] ∧
    allocate (rawInput [3, 2, 1, 5] exArr 7 (.members [1, 2, 3]) false 1 2 [] [] []) = .ok [1] := by decide


/-! ## Round 8 — the allocators and the callers as interpreted structures; stability; excluded peers; Prop reading -/

/-- The model's allocator step IS the interpretation of what the translator read out of today's ascendalloc /
    descendalloc (`Gen.ascShape`, `Gen.descShape`: which map parameter — by position — is sorted in which direction,
    concatenated in which order) and of the argument order of `c.allocator.Allocate(...)` in obtainAllocations
    (`Gen.allocatorCallGroups`), for every input. A swapped concatenation, a flipped direction, swapped parameter
    names or swapped call arguments change `allocateWith` and this theorem stops checking. -/
theorem allocate_interprets_gen (i : Input) :
    allocateWith Gen.ascShape Gen.descShape Gen.allocatorCallGroups i = allocate i :=
  allocateWith_gen_aux i

/-- hence the interpreted code satisfies every clause on every well-formed input -/
theorem interpreted_allocators_hold (i : Input) (hw : wf i = true) :
    holds i (allocateWith Gen.ascShape Gen.descShape Gen.allocatorCallGroups i) = true := by
  rw [allocate_interprets_gen]; exact allocate_holds i hw

private def exShape : Input :=
  { desc := false, rmin := 1, rmax := 1, blacklist := [], priority := [2], current := [],
    peers := [(1, .valid 1), (2, .valid 5), (3, .valid 9)] }
private def exShape2 : Input := { exShape with rmax := 2, rmin := 2, priority := [] }

/-- candidates before the requested peers (the two `SortNumeric` results concatenated the other way round): refuted -/
theorem candidates_first_breaks_priority :
    ∃ i, wf i = true ∧ positive i = true ∧
      holds i (allocateWith (.concat [⟨.candidates, false⟩, ⟨.priority, false⟩]) Gen.descShape Gen.allocatorCallGroups i) = false :=
  ⟨exShape, by decide⟩

/-- the ascending allocator sorting one of its groups in descending order: refuted -/
theorem mixed_direction_breaks_rank :
    ∃ i, wf i = true ∧ positive i = true ∧
      holds i (allocateWith (.concat [⟨.priority, false⟩, ⟨.candidates, true⟩]) Gen.descShape Gen.allocatorCallGroups i) = false :=
  ⟨{ exShape with priority := [] }, by decide⟩

/-- obtainAllocations handing the priority map in the candidates position (and vice versa): refuted -/
theorem swapped_call_arguments_break_priority :
    ∃ i, wf i = true ∧ positive i = true ∧
      holds i (allocateWith Gen.ascShape Gen.descShape [.current, .priority, .candidates] i) = false :=
  ⟨exShape, by decide⟩

/-- an allocator that forgets one group (returns only the requested peers): the request fails although enough
    healthy peers are reachable -/
theorem forgetting_candidates_breaks_reachability :
    ∃ i, wf i = true ∧ positive i = true ∧
      holds i (allocateWith (.concat [⟨.priority, false⟩]) Gen.descShape Gen.allocatorCallGroups i) = false :=
  ⟨exShape2, by decide⟩

example : allocateWith Gen.ascShape Gen.descShape Gen.allocatorCallGroups exShape = .ok [2] ∧
    allocateWith Gen.ascShape Gen.descShape Gen.allocatorCallGroups exShape2 = .ok [1, 2] := by decide

/-- STABILITY. Any stored allocation that has between min and max healthy, non-excluded holders is a fixed point of
    allocate(): re-allocating the CID with that list as current holders, under the same metrics and exclusions, returns
    it verbatim — for every tie-break, both strategies, whatever the priority list. -/
theorem stable_of_count (i : Input) (out : List Nat) (o : Output) (hw : wf i = true) (hpos : positive i = true)
    (hc : cCount i out = true) (h : allowed (reallocInput i out i.blacklist) o = true) : o = .ok out :=
  stable_of_count_aux hw hpos hc o h

/-- IDEMPOTENCE. Allocating again from ANY result the code may produce (same metrics, same exclusions) keeps the
    allocation: no holder is moved without a cause. -/
theorem allocate_idempotent (i : Input) (out : List Nat) (o : Output) (hw : wf i = true) (hpos : positive i = true)
    (h1 : allowed i (.ok out) = true) (h2 : allowed (reallocInput i out i.blacklist) o = true) : o = .ok out :=
  stable_of_count i out o hw hpos (holds_ok_count hpos (allowed_holds i _ hw h1)) h2

example : wf ex1 = true ∧ positive ex1 = true ∧ allowed ex1 (.ok [0, 3, 2]) = true ∧
    allocate (reallocInput ex1 [0, 3, 2] ex1.blacklist) = .ok [0, 3, 2] := by decide

/-- the same with a DIFFERENT priority list the second time (a re-pin with other user allocations does not move
    holders either) -/
theorem stable_under_new_priorities (i : Input) (out pri : List Nat) (o : Output) (hw : wf i = true)
    (hpos : positive i = true) (h1 : allowed i (.ok out) = true)
    (h2 : allowed (reallocInput { i with priority := pri } out i.blacklist) o = true) : o = .ok out :=
  have hc : cCount i out = true := holds_ok_count hpos (allowed_holds i _ hw h1)
  stable_of_count { i with priority := pri } out o hw hpos hc h2

/-- EXCLUDED PEERS. An excluded peer is never added, and it survives in an admitted allocation only when the code
    returns the stored list verbatim, which happens only when min healthy non-excluded holders remain. -/
theorem blacklisted_only_kept_verbatim (i : Input) (out : List Nat) (f : Nat) (hw : wf i = true)
    (hpos : positive i = true) (h : allowed i (.ok out) = true) (hb : f ∈ i.blacklist) (hf : f ∈ out) :
    out = i.current ∧ i.rmin ≤ ((healthyCurrent i).length : Int) :=
  blacklisted_only_verbatim_aux hw hpos h hb hf

/-- so when fewer than min healthy holders remain, nothing excluded is in the result -/
theorem blacklisted_dropped_when_below_min (i : Input) (out : List Nat) (hw : wf i = true) (hpos : positive i = true)
    (h : allowed i (.ok out) = true) (hlt : ((healthyCurrent i).length : Int) < i.rmin) :
    ∀ f ∈ i.blacklist, f ∉ out := by
  intro f hb hf
  have := (blacklisted_only_kept_verbatim i out f hw hpos h hb hf).2
  omega

private def exBl : Input :=
  { desc := false, rmin := 2, rmax := 2, blacklist := [1], priority := [], current := [1, 2],
    peers := [(1, .valid 1), (2, .valid 5), (3, .valid 9)] }
example : wf exBl = true ∧ positive exBl = true ∧ allocate exBl = .ok [2, 3] ∧
    allocate { exBl with rmin := 1 } = .ok [1, 2] := by decide

/-! ### repinFromPeer / vacatePeer: the request they prepare -/

/-- today's repinFromPeer clears the allocations, re-submits the very pin of the sweep, excludes exactly the failed
    peer; vacatePeer re-pins only pins allocated to the peer (regenerated from the AST) -/
theorem repin_shape_sound :
    Gen.repinShape = { clearsAllocations := true, blacklistFailed := true, pinsGivenPin := true, vacateGuard := true } := by
  decide

/-- hence the interpreted re-pin is `Cluster.pin` on the pin without allocations with the failed peer excluded (the
    `repinOut` of the C10 model), and vacatePeer's guard is membership in the allocations -/
theorem repin_is_pin_with_failed_excluded (cfg : C04.Cfg) (pre : PinMap) (f : Nat) (pin : Pin) (chosen : List Nat) :
    repinWith Gen.repinShape cfg pre f pin chosen = C04.pinOp cfg pre { pin with allocs := [] } [f] chosen ∧
    vacates Gen.repinShape f pin = pin.allocs.contains f := ⟨rfl, rfl⟩

/-- the input allocate() sees in a re-pin: the failed peer IS excluded, the stored holders are the current ones, the
    pin's own user allocations the priority list -/
theorem repin_input (cfg : C04.Cfg) (pre : PinMap) (f : Nat) (pin : Pin) (chosen : List Nat) (ai : Input)
    (h : (repinWith Gen.repinShape cfg pre f pin chosen).alloc = some ai) :
    f ∈ ai.blacklist ∧ ai.blacklist = [f] ∧ ai.current = ((pre.get pin.cid).map (·.allocs)).getD [] ∧
    ai.priority.Perm pin.opts.ualloc ∧ ai.peers = cfg.peers := by
  obtain ⟨a, b, c, d⟩ := repin_input_aux cfg pre f pin chosen ai h
  exact ⟨by rw [a]; simp, a, b, c, d⟩

/-- RE-PIN, composed: whatever a re-pin away from `f` may answer, `f` is never a NEW holder; it stays only if the
    stored list is returned verbatim with min other healthy holders; with fewer than min others it is gone, and the
    result satisfies every clause of the property with `f` excluded. -/
theorem repin_moves_away_from_failed (cfg : C04.Cfg) (pre : PinMap) (f : Nat) (pin : Pin) (chosen : List Nat) (ai : Input)
    (hcfg : (cfg.peers.map (·.1)).Nodup)
    (h : (repinWith Gen.repinShape cfg pre f pin chosen).alloc = some ai) (hpos : positive ai = true)
    (ha : allowed ai (.ok chosen) = true) :
    holds ai (.ok chosen) = true ∧
    (f ∈ chosen → chosen = ((pre.get pin.cid).map (·.allocs)).getD [] ∧ ai.rmin ≤ ((healthyCurrent ai).length : Int)) := by
  obtain ⟨hb, _, hc, _, hp⟩ := repin_input cfg pre f pin chosen ai h
  have hw : wf ai = true := by simp only [wf, hp]; exact decide_eq_true hcfg
  refine ⟨allowed_holds ai _ hw ha, fun hf => ?_⟩
  have := blacklisted_only_kept_verbatim ai chosen f hw hpos ha hb hf
  rw [hc] at this; exact this

/-- a re-pin that forgets the exclusion list keeps a holder that should have been replaced: with the failed peer's
    metric still valid (an alert can precede expiry; PeerRemove vacates a live peer) the stored list is returned as is -/
theorem dropping_blacklist_keeps_failed_holder :
    ∃ (i : Input) (f : Nat), wf i = true ∧ positive i = true ∧ f ∈ i.current ∧
      allocate (reallocInput i i.current []) = .ok i.current ∧
      (∀ out, allowed (reallocInput i i.current [f]) (.ok out) = true → f ∉ out) :=
  ⟨{ exBl with blacklist := [] }, 1, by decide, by decide, by decide, by decide, by
    intro out h hf
    have := blacklisted_only_kept_verbatim (reallocInput { exBl with blacklist := [] } [1, 2] [1]) out 1
      (by decide) (by decide) h (by decide) hf
    exact absurd this.2 (by decide)⟩

/-! ### the Prop-level reading of `holds` -/

/-- the property for an ok answer with positive factors, as a proposition -/
def HoldsOk (i : Input) (out : List Nat) : Prop :=
  (i.current.Nodup → out.Nodup) ∧
  (∀ p ∈ out, p ∈ i.current ∨ usable i p = true) ∧
  (if ((healthyCurrent i).length : Int) ≤ i.rmax then ∀ p ∈ healthyCurrent i, p ∈ out
   else (∀ p ∈ out, p ∈ healthyCurrent i) ∧ (out.length : Int) = i.rmax) ∧
  (i.rmin ≤ (((dedup out).filter (good i)).length : Int) ∧ (((dedup out).filter (good i)).length : Int) ≤ i.rmax) ∧
  (∀ p ∈ out, p ∈ i.current ∨ p ∈ i.priority ∨ ∀ q, usable i q = true → q ∈ i.priority → q ∈ out) ∧
  (∀ p ∈ out, p ∈ i.current ∨ ∀ q, usable i q = true →
      q ∈ out ∨ ¬ (p ∈ i.priority ↔ q ∈ i.priority) ∨ before i.desc (valOf i p) (valOf i q) = true)

/-- `holds` on an ok answer, positive factors, is exactly that proposition (and `usable`, `good` read as stated) -/
theorem holds_ok_iff (i : Input) (out : List Nat) (hpos : positive i = true) :
    holds i (.ok out) = true ↔ HoldsOk i out := by
  have hp : 0 < i.rmin ∧ i.rmin ≤ i.rmax := by simpa [positive] using hpos
  have hev : (i.rmin == -1 && i.rmax == -1) = false := by
    simp only [Bool.and_eq_false_iff, beq_eq_false_iff_ne, ne_eq]; left; omega
  unfold holds clauses HoldsOk
  simp only [hev, Bool.false_eq_true, if_false, hpos, if_true, List.all_cons, List.all_nil, Bool.and_true,
    Bool.and_eq_true]
  refine and_congr ?_ (and_congr ?_ (and_congr ?_ (and_congr ?_ (and_congr ?_ ?_))))
  · simp [cNodup]; tauto
  · simp [cAdded]
  · unfold cKeep; simp only []; split <;> simp
  · simp [cCount]
  · simp only [cPriority, List.all_eq_true, Bool.or_eq_true, List.contains_eq_mem, decide_eq_true_eq, mem_usableIds,
      Bool.not_eq_true', decide_eq_false_iff_not, or_assoc]
    exact forall₂_congr (fun p _ => or_congr Iff.rfl (or_congr Iff.rfl (forall₂_congr (fun q _ => by tauto))))
  · simp only [cRank, List.all_eq_true, Bool.or_eq_true, List.contains_eq_mem, decide_eq_true_eq, mem_usableIds,
      bne_iff_ne, ne_eq, or_assoc]
    refine forall₂_congr (fun p _ => or_congr Iff.rfl (forall₂_congr (fun q _ => or_congr Iff.rfl (or_congr ?_ Iff.rfl))))
    by_cases a : p ∈ i.priority <;> by_cases b : q ∈ i.priority <;> simp [a, b]

/-- what "may be added" and "healthy, not excluded" mean, down to the monitor's state of the peer -/
theorem usable_good_reading (i : Input) (p : Nat) :
    (usable i p = true ↔ (∃ v, stateOf i p = .valid v) ∧ p ∉ i.blacklist ∧ p ∉ i.current) ∧
    (good i p = true ↔ (stateOf i p = .nonNumeric ∨ ∃ v, stateOf i p = .valid v) ∧ p ∉ i.blacklist) := by
  constructor
  · rw [usable_iff, good_iff]
    constructor
    · rintro ⟨⟨_, hb⟩, hv, hc⟩; exact ⟨hv, hb, hc⟩
    · rintro ⟨⟨v, hv⟩, hb, hc⟩; exact ⟨⟨by rw [hv]; rfl, hb⟩, ⟨v, hv⟩, hc⟩
  · rw [good_iff]
    cases hs : stateOf i p <;> simp [MState.healthy]

/-- the error answer and the (−1,−1) answer as propositions -/
theorem holds_err_iff (i : Input) (hpos : positive i = true) :
    holds i .err = true ↔ (((healthyCurrent i).length + (usableIds i).length : Nat) : Int) < i.rmin := by
  have hp : 0 < i.rmin ∧ i.rmin ≤ i.rmax := by simpa [positive] using hpos
  have hev : (i.rmin == -1 && i.rmax == -1) = false := by
    simp only [Bool.and_eq_false_iff, beq_eq_false_iff_ne, ne_eq]; left; omega
  unfold holds clauses
  simp [hev, hpos, cErr]

theorem holds_everywhere_iff (i : Input) (o : Output) (h : i.rmin = -1 ∧ i.rmax = -1) :
    holds i o = true ↔ o = .ok [] := by
  unfold holds clauses
  simp [h.1, h.2]

example : HoldsOk ex1 [0, 3, 1] := (holds_ok_iff ex1 _ (by decide)).1 (by decide)

/-- every admitted ok answer satisfies the property as a proposition -/
theorem allowed_HoldsOk (i : Input) (out : List Nat) (hw : wf i = true) (hpos : positive i = true)
    (h : allowed i (.ok out) = true) : HoldsOk i out :=
  (holds_ok_iff i out hpos).1 (allowed_holds i _ hw h)

/-! ### Round 8b: BlockAllocate interpreted, daemon wiring, whole histories -/

/-- the regenerated structure of `BlockAllocate` is the one the model was written against -/
theorem block_shape_is_todays : Gen.blockShape = blockShapeToday := by decide

/-- the model of `BlockAllocate` IS the interpretation of the regenerated structure, for every configuration, pinset,
    request, monitor answer and allocator choice (the everywhere arm reads the PING metric) -/
theorem block_allocate_interprets_gen (cfg : C04.Cfg) (pre : PinMap) (undef : Bool) (p : Pin)
    (mp : MetricSrc → List Nat) (chosen : List Nat) :
    blockAllocateWith Gen.blockShape cfg pre undef p mp chosen
      = some (blockAllocate cfg pre undef p (mp .ping) chosen) := rfl

/-- a body with anything the translator does not expect (a short-cut such as seeded change C03g, a second call, an
    extra guard) is not interpreted at all: no theorem about it goes through -/
theorem unknown_block_shape_is_rejected (s : BlockShape) (cfg : C04.Cfg) (pre : PinMap) (undef : Bool) (p : Pin)
    (mp : MetricSrc → List Nat) (chosen : List Nat) (h : s.noOtherStatements = false) :
    blockAllocateWith s cfg pre undef p mp chosen = none := by
  simp [blockAllocateWith, h]

/-- whenever `BlockAllocate` consults allocate(), the input is the one the property reads off the request and its
    answer IS allocate()'s answer on that input: `chosen` when allocate() succeeds, an error when it fails -/
theorem block_allocate_is_allocate (cfg : C04.Cfg) (pre : PinMap) (undef : Bool) (p : Pin) (ping chosen : List Nat) (ai : Input)
    (h : (blockAllocate cfg pre undef p ping chosen).alloc = some ai) :
    ai = blockInput cfg pre undef p ∧
    (blockAllocate cfg pre undef p ping chosen).out =
      (match allocate ai with | .ok _ => BlockOut.ok chosen | _ => BlockOut.err) := by
  refine ⟨blockAllocate_input cfg pre undef p ping chosen ai h, ?_⟩
  simp only [blockAllocate] at h ⊢
  split_ifs at h ⊢ <;> try (simp at h)
  all_goals
    generalize C04.allocIn _ _ _ _ = X at h ⊢
    cases hA : allocate X <;> simp only [hA] at h ⊢ <;> simp at h <;> subst h <;> simp [hA]

/-- so an answer the relation admits for that input is admitted for the block allocation, and satisfies every clause -/
theorem block_answer_admitted_holds (cfg : C04.Cfg) (pre : PinMap) (undef : Bool) (p : Pin) (ping chosen : List Nat) (ai : Input)
    (hcfg : (cfg.peers.map (·.1)).Nodup)
    (h : (blockAllocate cfg pre undef p ping chosen).alloc = some ai)
    (ha : allowed ai (.ok chosen) = true) :
    allowed (blockInput cfg pre undef p) (.ok chosen) = true ∧ holds (blockInput cfg pre undef p) (.ok chosen) = true := by
  have := (block_allocate_is_allocate cfg pre undef p ping chosen ai h).1
  subst this
  exact ⟨ha, allowed_holds _ _ (by simp only [wf, blockInput]; exact decide_eq_true hcfg) ha⟩

/-! Witness for the block theorems and refutations: descendalloc, peers 0 (5), 1 (9), 2 (7); CID 1 is stored on peer 0;
    the request asks for min 2 / max 2 and names peer 2 (second witness: peers 0, 1 only, min 2 / max 3). -/
private def exBCfg : C04.Cfg :=
  { follower := false, defMin := 1, defMax := 1, desc := true, peers := [(0, .valid 5), (1, .valid 9), (2, .valid 7)], paths := [], blocks := [] }
private def exBCfg2 : C04.Cfg := { exBCfg with peers := [(0, .valid 5), (1, .valid 9)] }
private def exBOpts : Opts :=
  { rmin := 2, rmax := 2, name := 0, mode := .recursive, shard := 0, expire := .zero, metadata := [], update := none, origins := [], ualloc := [2] }
private def exBPre : PinMap := [{ pinWithOpts 1 { exBOpts with ualloc := [] } with allocs := [0] }]
private def exBPin : Pin := pinWithOpts 1 exBOpts
private def exBPin2 : Pin := pinWithOpts 1 { exBOpts with rmax := 3, ualloc := [] }
private def exMp : MetricSrc → List Nat
  | .ping => [0, 1, 2]
  | .informer 0 => [0, 1]
  | _ => []
/-- the interpreted BlockAllocate with the deterministic model of allocate() behind it: (was allocate() consulted,
    does the property hold, on the PROPERTY's input, for what comes back) -/
private def exBRun (s : BlockShape) (cfg : C04.Cfg) (pin : Pin) : Option Bool :=
  match blockAllocateWith s cfg exBPre false pin exMp [] with
  | some { alloc := some ai, .. } => some (holds (blockInput cfg exBPre false pin) (allocate ai))
  | _ => none

example : ((blockAllocate exBCfg exBPre false exBPin [0, 1, 2] [0, 2]).alloc.map (fun a => (a.current, a.blacklist, a.priority, a.rmin, a.rmax)))
    = some ([0], [], [2], 2, 2) := by decide
example : allocate (blockInput exBCfg exBPre false exBPin) = .ok [0, 2] := by decide
example : exBRun Gen.blockShape exBCfg exBPin = some true ∧ exBRun Gen.blockShape exBCfg2 exBPin2 = some true := by decide

/-- refuted: BlockAllocate passing no current pin (`nil` instead of `existing`) — the stored healthy holder 0 is forgotten -/
theorem block_without_current_forgets_holders :
    exBRun { blockShapeToday with allocArgs := [.ctx, .cid, .nilPin, .rmin, .rmax, .emptyPeers, .ualloc] } exBCfg exBPin = some false := by decide

/-- refuted: BlockAllocate dropping the user allocations — the preferred peer 2 is passed over for the best-ranked peer 1 -/
theorem block_without_user_allocations_breaks_priority :
    exBRun { blockShapeToday with allocArgs := [.ctx, .cid, .existing, .rmin, .rmax, .emptyPeers, .emptyPeers] } exBCfg exBPin = some false := by decide

/-- refuted: min and max handed over in the wrong order — a request whose min is reachable fails -/
theorem block_swapped_factors_fail_reachable_request :
    exBRun { blockShapeToday with allocArgs := [.ctx, .cid, .existing, .rmax, .rmin, .emptyPeers, .ualloc] } exBCfg2 exBPin2 = some false := by decide

/-- refuted: the everywhere arm reading the allocation informer's metric instead of ping: for EVERY request that reaches
    the arm the answer is that other list (in the witness peer 2, which pings, gets no blocks) -/
theorem block_everywhere_must_read_ping (cfg : C04.Cfg) (pre : PinMap) (undef : Bool) (p : Pin) (mp : MetricSrc → List Nat) (chosen : List Nat)
    (hfol : cfg.follower = false) (hev : C04.effRmin cfg p = -1 ∧ C04.effRmax cfg p = -1)
    (hexp : p.opts.expire.beforeNow = false)
    (hty : C04.typeOk (if undef then none else pre.get p.cid) (C04.setupFactors cfg p) = true) :
    (blockAllocateWith { blockShapeToday with everywhereMetric := .informer 0 } cfg pre undef p mp chosen).map (·.out) = some (.ok (mp (.informer 0))) ∧
    (blockAllocateWith Gen.blockShape cfg pre undef p mp chosen).map (·.out) = some (.ok (mp .ping)) := by
  have h := blockAllocate_everywhere cfg pre undef p (mp (.informer 0)) chosen hfol hev hexp hty
  have h2 := blockAllocate_everywhere cfg pre undef p (mp .ping) chosen hfol hev hexp hty
  refine ⟨?_, by rw [block_allocate_interprets_gen]; simp [h2]⟩
  have : blockAllocateWith { blockShapeToday with everywhereMetric := .informer 0 } cfg pre undef p mp chosen
      = some (blockAllocate cfg pre undef p (mp (.informer 0)) chosen) := rfl
  rw [this]; simp [h]

example : exMp (.informer 0) ≠ exMp .ping := by decide

/-! ### which informer's metric, and which allocator: the daemon's wiring (cmd/ipfs-cluster-service/daemon.go) -/

/-- today: createCluster builds the disk informer and descendalloc and hands exactly those to NewCluster; allocate() asks the
    monitor for the metric of `informers[0]`, i.e. the disk informer's; its default metric is free space = StorageMax − RepoSize -/
theorem daemon_wiring_today :
    Gen.wiring.informersArg = [Gen.wiring.informerBuilt] ∧ Gen.wiring.allocatorArg = Gen.wiring.allocatorBuilt ∧
    Gen.wiring.allocateMetric = .informer 0 ∧ Gen.wiring.allocationInformer = some .disk ∧
    Gen.wiring.allocatorArg = .descend ∧ Gen.wiring.diskDefault = .freespace := by decide

/-- the shipped pairing ranks the least loaded peers first -/
theorem daemon_pairing_least_loaded_first : Gen.wiring.leastLoadedFirst Gen.wiring.diskDefault = true := by decide

/-- what `leastLoadedFirst` means, for every wiring: of two peers with different metric values the strategy's order
    (`before`, the order `allowed`'s rank clause uses) puts first the one the informer reports as LESS loaded -/
theorem least_loaded_first_reading (w : Wiring) (d : DiskMetric) (h : w.leastLoadedFirst d = true) :
    ∃ k desc, w.allocationInformer = some k ∧ w.allocatorArg.desc = some desc ∧ largerMeansLessLoaded w k d = some desc ∧
      ∀ x y : Nat, x ≠ y → before desc x y = true → (if desc then y < x else x < y) := by
  unfold Wiring.leastLoadedFirst at h
  split at h
  · rename_i k desc hk hd
    refine ⟨k, desc, hk, hd, by simpa using h, ?_⟩
    intro x y hxy hb
    cases desc <;> simp [before] at hb ⊢ <;> omega
  · simp at h

/-- refuted: the same informer with the other allocator (ascendalloc on free space) fills the fullest peers first -/
theorem swapped_allocator_is_most_loaded_first :
    ({ Gen.wiring with allocatorArg := .ascend }).leastLoadedFirst .freespace = false := by decide

/-- refuted: a pin-count informer with the descending allocator -/
theorem numpin_with_descend_is_most_loaded_first :
    ({ Gen.wiring with informersArg := [.numpin] }).leastLoadedFirst .freespace = false ∧
    ({ Gen.wiring with informersArg := [.numpin], allocatorArg := .ascend }).leastLoadedFirst .freespace = true := by decide

/-- refuted: a second informer put FIRST in the list handed to NewCluster silently becomes the allocation metric -/
theorem reordered_informers_change_allocation_metric :
    ({ Gen.wiring with informersArg := [.numpin, .disk] }).allocationInformer = some .numpin ∧
    ({ Gen.wiring with informersArg := [.numpin, .disk] }).leastLoadedFirst .freespace = false ∧
    ({ Gen.wiring with informersArg := [.disk, .numpin] }).leastLoadedFirst .freespace = true := by decide

/-- observed on the unchanged tree (a configuration, not an edit): `metric_type: reposize` keeps the hard-wired descendalloc,
    which then ranks the peers with the LARGEST repository first -/
theorem reposize_metric_is_fullest_first : Gen.wiring.leastLoadedFirst .reposize = false := by decide

/-! ### whole histories -/

/-- one recorded decision preserves the invariant -/
theorem history_step_preserves (s : HState) (cid : Nat) (rmin rmax : Int) (bl pri : List Nat) (o : Output)
    (hi : HInv s) (ha : allowed (s.inputFor cid rmin rmax bl pri) o = true) :
    HInv (s.record cid (s.inputFor cid rmin rmax bl pri) o) := by
  obtain ⟨hn, hl, hs⟩ := hi
  have hh : holds (s.inputFor cid rmin rmax bl pri) o = true :=
    allowed_holds _ _ (by simp only [wf, HState.inputFor]; exact decide_eq_true hn) ha
  cases o with
  | ok l =>
    refine ⟨hn, ?_, ?_⟩
    · intro io hio
      simp only [HState.record, List.mem_cons] at hio
      rcases hio with rfl | hio
      · exact hh
      · exact hl io hio
    · intro cl hcl
      simp only [HState.record, List.mem_cons, List.mem_filter] at hcl ⊢
      rcases hcl with rfl | ⟨hcl, _⟩
      · exact ⟨_, Or.inl rfl⟩
      · obtain ⟨i, hi⟩ := hs cl hcl
        exact ⟨i, Or.inr hi⟩
  | err =>
    refine ⟨hn, ?_, ?_⟩
    · intro io hio
      simp only [HState.record, List.mem_cons] at hio
      rcases hio with rfl | hio
      · exact hh
      · exact hl io hio
    · intro cl hcl
      obtain ⟨i, hi⟩ := hs cl hcl
      exact ⟨i, by simp only [HState.record, List.mem_cons]; exact Or.inr hi⟩
  | panic =>
    refine ⟨hn, ?_, ?_⟩
    · intro io hio
      simp only [HState.record, List.mem_cons] at hio
      rcases hio with rfl | hio
      · exact hh
      · exact hl io hio
    · intro cl hcl
      obtain ⟨i, hi⟩ := hs cl hcl
      exact ⟨i, by simp only [HState.record, List.mem_cons]; exact Or.inr hi⟩

/-- WHOLE-HISTORY theorem: along any history of metric / peerset changes, strategy switches, pins, re-pins away from a
    failed peer and unpins over any number of CIDs — every answer being one the model of allocate() admits for the input
    at that moment (stored holders of that CID as current) — every decision in the log satisfies every clause of the
    property for the input at the time it was made, and every stored allocation is the answer of such a decision. -/
theorem history_all_decisions_hold (ops : List HOp) : ∀ (s0 : HState), HInv s0 → hAdmitted s0 ops = true →
    HInv (hrun s0 ops) := by
  induction ops with
  | nil => intro s0 h _; exact h
  | cons op rest ih =>
    intro s0 hi ha
    simp only [hAdmitted, Bool.and_eq_true] at ha
    simp only [hrun, List.foldl_cons]
    refine ih _ ?_ ha.2
    cases op with
    | setPeers ps => exact ⟨by simpa [hstep] using ha.1, hi.2.1, hi.2.2⟩
    | setStrategy d => exact hi
    | decide cid rmin rmax bl pri out => exact history_step_preserves s0 cid rmin rmax bl pri out hi ha.1
    | repin cid rmin rmax f out => exact history_step_preserves s0 cid rmin rmax [f] [] out hi ha.1
    | unpin cid =>
      refine ⟨hi.1, hi.2.1, ?_⟩
      intro cl hcl
      simp only [hstep, List.mem_filter] at hcl
      exact hi.2.2 cl hcl.1

/-- in particular from the empty cluster -/
theorem history_from_empty (desc : Bool) (ops : List HOp)
    (ha : hAdmitted { desc := desc, peers := [], stored := [], log := [] } ops = true) :
    ∀ io ∈ (hrun { desc := desc, peers := [], stored := [], log := [] } ops).log, holds io.1 io.2 = true :=
  (history_all_decisions_hold ops _ ⟨by simp, by simp, by simp⟩ ha).2.1

/-- a failed request stores nothing ("the request fails and nothing changes") -/
theorem failed_decision_changes_nothing (s : HState) (cid : Nat) (i : Input) :
    (s.record cid i .err).stored = s.stored ∧ (s.record cid i .err).peers = s.peers := ⟨rfl, rfl⟩

/-- a re-pin away from a failed peer along a history: the failed peer is in the new stored list only when the list is
    the old one verbatim and min OTHER healthy holders remain -/
theorem history_repin_moves_away (s : HState) (cid : Nat) (rmin rmax : Int) (f : Nat) (out : List Nat)
    (hn : (s.peers.map (·.1)).Nodup) (hpos : 0 < rmin ∧ rmin ≤ rmax)
    (ha : allowed (s.inputFor cid rmin rmax [f] []) (.ok out) = true) (hf : f ∈ out) :
    out = s.allocsOf cid ∧ rmin ≤ ((healthyCurrent (s.inputFor cid rmin rmax [f] [])).length : Int) :=
  blacklisted_only_kept_verbatim (s.inputFor cid rmin rmax [f] []) out f
    (by simp only [wf, HState.inputFor]; exact decide_eq_true hn)
    (by simp [positive, HState.inputFor, hpos.1, hpos.2]) ha (by simp [HState.inputFor]) hf

/-! Non-vacuity: a five-step history over two CIDs — metrics arrive, CID 1 pinned on the best two, CID 2 with a user
    allocation, peer 1's metric expires while peer 3 joins, CID 1 re-pinned away from peer 1. -/
private def exHist : List HOp :=
  [ .setPeers [(0, .valid 5), (1, .valid 9), (2, .valid 7)],
    .decide 1 2 2 [] [] (.ok [1, 2]),
    .decide 2 1 1 [] [0] (.ok [0]),
    .setPeers [(0, .valid 5), (1, .expired), (2, .valid 7), (3, .valid 8)],
    .repin 1 2 2 1 (.ok [2, 3]),
    .decide 2 4 4 [] [] .err ]
private def exH0 : HState := { desc := true, peers := [], stored := [], log := [] }
example : hAdmitted exH0 exHist = true := by decide
example : (hrun exH0 exHist).stored = [(1, [2, 3]), (2, [0])] := by decide
example : (hrun exH0 exHist).log.length = 4 := by decide

/-! ### The source still reads as the model was transcribed (regenerated on every run) -/

theorem gen_allocate_skeleton : Gen.allocateSkeleton = Expected.allocateSkeleton := by rfl
theorem gen_classification_order : Gen.classification = Expected.classification := by rfl
theorem gen_obtain_skeleton : Gen.obtainSkeleton = Expected.obtainSkeleton := by rfl
theorem gen_valid_skeleton : Gen.validSkeleton = Expected.validSkeleton := by rfl
theorem gen_allocators : Gen.ascendAllocate = Expected.ascendAllocate ∧ Gen.descendAllocate = Expected.descendAllocate ∧
    Gen.sortNumeric = Expected.sortNumeric ∧ Gen.sorterLess = Expected.sorterLess := ⟨rfl, rfl, rfl, rfl⟩

theorem gen_pipeline_source :
    Gen.storeAdd = Expected.storeAdd ∧ Gen.storeLatestValid = Expected.storeLatestValid ∧
    Gen.peersetFilter = Expected.peersetFilter ∧ Gen.monLatestMetrics = Expected.monLatestMetrics ∧
    Gen.windowAdd = Expected.windowAdd ∧ Gen.windowLatest = Expected.windowLatest ∧
    Gen.metricDiscard = Expected.metricDiscard ∧ Gen.metricExpired = Expected.metricExpired := ⟨rfl, rfl, rfl, rfl, rfl, rfl, rfl, rfl⟩
theorem gen_block_allocate_source : Gen.blockAllocate = Expected.blockAllocate := rfl
theorem gen_daemon_wiring_source : Gen.daemonWiringSource = Expected.daemonWiringSource := rfl
theorem gen_call_sites : Gen.obtainCall = Expected.obtainCall ∧ Gen.pinAllocateCall = Expected.pinAllocateCall := ⟨rfl, rfl⟩

end CV.C03
