import ClusterVerif.Lemmas.C06

/-!
# C06 — reported pin status is truthful and consistent between its two views

Property theorems only (helper lemmas are in `Lemmas/C06.lean`).

Tracker views (model of `Status`, `StatusAll`, `localStatus`, `ipfsStatusAll`,
`Operation.ToTrackerStatus`, `Match`):
* `filter_law` — `statusAll f = (statusAll 0).filter (match f)` for EVERY natural
  number `f` (not only the named bits), from the structure of the short-cuts;
  `filter_law_spec` is the same with the Spec's own reading of "restricted to".
* `views_agree_partial` / `views_agree_errclass` / `C06_tracker_full_fails` —
  the two views give the same status for every CID except in the recorded K02
  situation, where both give an error status; the strict statement is refuted
  by a concrete input.
* `model_holds_partial`, `model_holds_except_views_agree` — every clause of the
  Spec for the model's output.
Cluster-wide views (model of `globalPinInfoCid` / `globalPinInfoSlice`):
* `global_once`, `gc_holds`, `gs_once`.
Generated tables (`Gen/C06.lean`, regenerated from /repo on every run):
* `gen_*` — the constants the model uses are today's.
-/
namespace CV.C06

/-! ## the filter law -/

/-- A filtered listing is exactly the unfiltered listing restricted to the
filter, for every filter value. -/
theorem filter_law (i : Input) (f : Nat) (hup : i.ipfsUp = true) :
    statusAll i f = (statusAll i 0).filter (fun e => matchF e.2 f) :=
  statusAll_filter i f hup

/-- the same, with "restricted to the filter" as the Spec reads it -/
theorem filter_law_spec (i : Input) (f : Nat) (hup : i.ipfsUp = true) :
    statusAll i f = (statusAll i 0).filter (fun e => inFilter e.2 f) :=
  statusAll_filter_spec i f hup

example : statusAll ⟨0, true, [⟨1, some ⟨false, 1, 1, [0], -1⟩, .recursive, none⟩,
                              ⟨2, some ⟨false, 1, 1, [1], -1⟩, .unpinned, none⟩,
                              ⟨5, none, .unpinned, some ⟨.unpin, .error⟩⟩]⟩ (stPinned ||| stUnpinError)
        = [(1, stPinned), (5, stUnpinError)] := by decide

/-! ## the two views -/

/-- Outside the recorded situation (expected here, the expected pin not held,
no entry in the operation table) `Status` and the unfiltered listing give the
same status; a CID absent from the listing is `unpinned` in `Status`. -/
theorem views_agree_partial (i : Input) (r : Rec) (hup : i.ipfsUp = true) (hgap : gap i r = false) :
    status i r = (listEntry i 0 r).getD stUnpinned := by
  have h := rec_check i r hup
  simp only [recCheck, Bool.and_eq_true, Bool.or_eq_true, hgap, Bool.false_eq_true, false_or] at h
  simpa [vS, vL] using h.1.1.1.1

/-- Always: the two views are equal or both are error statuses. -/
theorem views_agree_errclass (i : Input) (r : Rec) (hup : i.ipfsUp = true) :
    status i r = (listEntry i 0 r).getD stUnpinned ∨
      (isErr (status i r) = true ∧ isErr ((listEntry i 0 r).getD stUnpinned) = true) := by
  have h := rec_check i r hup
  simp only [recCheck, Bool.and_eq_true, Bool.or_eq_true] at h
  rcases h.1.1.1.2 with h | h
  · left; simpa [vS, vL] using h
  · right; exact h

/-- Both views agree with the facts (Prop-level reading of the `truth_*`
clauses): on a quiescent CID with nothing pending or failed the status is
pinned exactly when IPFS holds the expected pin, remote exactly when allocated
elsewhere, sharded exactly for meta entries, unpinned exactly when not in the
pinset, an error status exactly when expected here and not held; a failed last
operation always gives an error status; queued / in-progress statuses only
with the matching pending operation. `v` ranges over the two views. -/
theorem truthful (i : Input) (r : Rec) (hup : i.ipfsUp = true) (hc : r.consistent i.self = true) :
    ∀ v, (v = status i r ∨ v = (listEntry i 0 r).getD stUnpinned) →
      (r.settled = true →
        (v = stPinned ↔ (r.expectedHere i.self = true ∧ r.held = true)) ∧
        (v = stRemote ↔ r.elsewhere i.self = true) ∧
        (v = stSharded ↔ r.isMetaPin = true) ∧
        (v = stUnpinned ↔ r.inPinset = false) ∧
        (isErr v = true ↔ (r.expectedHere i.self = true ∧ r.held = false))) ∧
      (r.failed = true → isErr v = true) ∧
      (v = stPinQueued → r.op = some ⟨.pin, .queued⟩) ∧ (v = stPinning → r.op = some ⟨.pin, .inProgress⟩) ∧
      (v = stUnpinQueued → r.op = some ⟨.unpin, .queued⟩) ∧ (v = stUnpinning → r.op = some ⟨.unpin, .inProgress⟩) :=
  truthful_views i r hup hc

/-- the model's output meets every clause of the Spec when no CID is in the
recorded situation -/
theorem model_holds_partial (i : Input) (fs : List Nat) (hw : wf i = true) (h0 : 0 ∈ fs)
    (hgap : ∀ r ∈ i.recs, gap i r = false) : holds i (modelOut i fs) = true := by
  obtain ⟨c2, c3, c4, c5, c6, c7, c8, c9, c10, c11⟩ := model_clauses i fs hw h0
  have c1 : i.recs.all (agreeStrict i (modelOut i fs)) = true := by
    apply List.all_eq_true.mpr
    intro r hr
    unfold agreeStrict
    cases hup : i.ipfsUp with
    | false => rfl
    | true =>
      rw [(views_modelOut i h0 hw hr).1, (views_modelOut i h0 hw hr).2]
      simp only [Bool.not_true, Bool.false_or, beq_iff_eq]
      exact views_agree_partial i r hup (hgap r hr)
  simp only [holds, clauses, List.all_cons, List.all_nil, Bool.and_true, Bool.and_eq_true]
  exact ⟨c1, c2, c3, c4, c5, c6, c7, c8, c9, c10, c11⟩

/-- without any exclusion: every clause but the strict `views_agree` -/
theorem model_holds_except_views_agree (i : Input) (fs : List Nat) (hw : wf i = true) (h0 : 0 ∈ fs) :
    ∀ c ∈ clauses i (modelOut i fs), c.1 ≠ "views_agree" → c.2 = true := by
  obtain ⟨c2, c3, c4, c5, c6, c7, c8, c9, c10, c11⟩ := model_clauses i fs hw h0
  intro c hc hne
  simp only [clauses, List.mem_cons, List.not_mem_nil, or_false] at hc
  rcases hc with rfl | rfl | rfl | rfl | rfl | rfl | rfl | rfl | rfl | rfl | rfl
  · exact absurd rfl hne
  all_goals assumption

/-- The full statement (strict agreement on every CID). -/
def C06_tracker_full : Prop :=
  ∀ (i : Input) (fs : List Nat), wf i = true → 0 ∈ fs → holds i (modelOut i fs) = true

/-- It fails (K02): a pin allocated to this peer, not pinned in IPFS, no
operation: `Status` says pin_error, the listing says unexpectedly_unpinned. -/
theorem C06_tracker_full_fails : ¬ C06_tracker_full := by
  intro h
  have := h ⟨0, true, [⟨0, some ⟨false, 1, 1, [0], -1⟩, .unpinned, none⟩]⟩ [0] (by decide) (by decide)
  revert this
  decide

example : wf ⟨0, true, [⟨0, some ⟨false, 1, 1, [0], -1⟩, .recursive, some ⟨.pin, .error⟩⟩,
                        ⟨3, some ⟨false, -1, -1, [], 0⟩, .direct, none⟩]⟩ = true ∧
    (∀ r ∈ [(⟨0, some ⟨false, 1, 1, [0], -1⟩, .recursive, some ⟨.pin, .error⟩⟩ : Rec),
            ⟨3, some ⟨false, -1, -1, [], 0⟩, .direct, none⟩], gap ⟨0, true, []⟩ r = false) := by decide

/-! ## the cluster-wide views -/

/-- `Cluster.Status`: a peer appears at most once per CID, for every member
list, pin, allocation list (repetitions included) and reply table. -/
theorem global_once (i : GCidInput) : peerOnce (globalCid i) = true := globalCid_once i

/-- `Cluster.Status`: every clause of the statement — allocated peers with their
own report, or cluster_error if they cannot be reached; other members remote;
a CID outside the pinset unpinned on every member; nobody else. -/
theorem gc_holds (i : GCidInput) : gcHolds i (globalCid i) = true := gc_holds_all i

example : globalCid ⟨0, false, [0, 1, 2, 7], some ⟨false, 1, 3, [1, 7, 1], -1⟩,
                     [(0, .ok stPinned), (1, .ok stPinError), (2, .auth)]⟩
        = [(0, stRemote), (2, stRemote), (1, stPinError), (7, stClusterError)] := by decide

/-- `Cluster.StatusAll`: every CID is listed once and a peer appears at most
once per CID, whatever the members answer. -/
theorem gs_once (i : GSliceInput) :
    (globalSlice i).all (fun e => peerOnce e.2) = true ∧
    peerOnce ((globalSlice i).map (fun e => (e.1, 0))) = true := by
  have h := globalSlice_inv i
  exact ⟨List.all_eq_true.mpr (fun e he => h.2 e he), (peerOnce_cids _).mpr h.1⟩

/-! ## generated tables: the constants of the model are today's -/

theorem gen_status_values :
    Gen.stUndefined = stUndefined ∧ Gen.stClusterError = stClusterError ∧ Gen.stPinError = stPinError ∧
    Gen.stUnpinError = stUnpinError ∧ Gen.stPinned = stPinned ∧ Gen.stPinning = stPinning ∧
    Gen.stUnpinning = stUnpinning ∧ Gen.stUnpinned = stUnpinned ∧ Gen.stRemote = stRemote ∧
    Gen.stPinQueued = stPinQueued ∧ Gen.stUnpinQueued = stUnpinQueued ∧ Gen.stSharded = stSharded ∧
    Gen.stUnexpectedlyUnpinned = stUnexpectedlyUnpinned ∧ Gen.stError = stError ∧ Gen.stQueued = stQueued := by
  decide

set_option maxRecDepth 16384 in
/-- `matchF` is `TrackerStatus.Match` on the sampled grid -/
theorem gen_match_table : Gen.matchTable.all (fun e => matchF e.1 e.2.1 == e.2.2) = true := by decide

theorem gen_ipfs_table :
    Gen.ipfsToTracker = [IpfsStatus.bug, .error, .direct, .recursive, .indirect, .unpinned].map ipfsToTracker := by
  decide

theorem gen_op_status :
    Gen.opStatus = [OpType.pin, .unpin, .remote].map (fun t =>
      [Phase.error, .queued, .inProgress, .done].map (fun ph => opStatus ⟨t, ph⟩)) := by decide

/-- the masks `localStatus` tests, the listings `ipfsStatusAll` asks for, and
the lookup by the pin's own mode -/
theorem gen_local_status_shape :
    Gen.localStatusMasks = [maskState, maskIpfs, stSharded, stRemote] ∧
    Gen.listedTypes = ["direct", "recursive"] ∧ Gen.lookupByPinMode = true := by decide

end CV.C06
