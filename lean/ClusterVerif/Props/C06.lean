import ClusterVerif.Lemmas.C06

namespace CV.C06

/-- the status constants of the model are today's `api.TrackerStatus*` values -/
theorem gen_status_values :
    Gen.stUndefined = stUndefined ∧ Gen.stClusterError = stClusterError ∧ Gen.stPinError = stPinError ∧
    Gen.stUnpinError = stUnpinError ∧ Gen.stPinned = stPinned ∧ Gen.stPinning = stPinning ∧
    Gen.stUnpinning = stUnpinning ∧ Gen.stUnpinned = stUnpinned ∧ Gen.stRemote = stRemote ∧
    Gen.stPinQueued = stPinQueued ∧ Gen.stUnpinQueued = stUnpinQueued ∧ Gen.stSharded = stSharded ∧
    Gen.stUnexpectedlyUnpinned = stUnexpectedlyUnpinned ∧ Gen.stError = stError ∧ Gen.stQueued = stQueued := by
  decide

end CV.C06
