import ClusterVerif.Lemmas.C06S
import ClusterVerif.Lemmas.C06G
import ClusterVerif.Model.C06O
import ClusterVerif.Spec.C06O

/-!
# C06 — reported pin status is truthful and consistent between its two views

Property theorems only (helper lemmas are in `Lemmas/C06.lean`).

Tracker views (model of `Status`, `StatusAll`, `localStatus`, `ipfsStatusAll`,
`Operation.ToTrackerStatus`, `Match`):
* `filter_law` — `statusAll f = (statusAll 0).filter (match f)` for EVERY natural
  number `f` (not only the named bits), from the structure of the short-cuts;
  `filter_law_spec` is the same with the Spec's own reading of "restricted to".
* `views_agree_partial` / `views_agree_errclass` / `C06_tracker_full_fails` —
  the two views give the same status for every CID except in the recorded K02
  situation, where both give an error status; the strict statement is refuted
  by a concrete input.
* `model_holds_partial`, `model_holds_except_views_agree` — every clause of the
  Spec for the model's output.
Cluster-wide views (model of `globalPinInfoCid` / `globalPinInfoSlice`):
* `global_once`, `gc_holds`, `gs_once`.
Generated tables (`Gen/C06.lean`, regenerated from /repo on every run):
* `gen_*` — the constants the model uses are today's.
-/
namespace CV.C06

/-! ## the filter law -/

/-- A filtered listing is exactly the unfiltered listing restricted to the
filter, for every filter value. -/
theorem filter_law (i : Input) (f : Nat) (hup : i.ipfsUp = true) :
    statusAll i f = (statusAll i 0).filter (fun e => matchF e.2 f) :=
  statusAll_filter i f hup

/-- the same, with "restricted to the filter" as the Spec reads it -/
theorem filter_law_spec (i : Input) (f : Nat) (hup : i.ipfsUp = true) :
    statusAll i f = (statusAll i 0).filter (fun e => inFilter e.2 f) :=
  statusAll_filter_spec i f hup

example : statusAll ⟨0, true, [⟨1, some ⟨false, 1, 1, [0], -1⟩, .recursive, none⟩,
                              ⟨2, some ⟨false, 1, 1, [1], -1⟩, .unpinned, none⟩,
                              ⟨5, none, .unpinned, some ⟨.unpin, .error⟩⟩]⟩ (stPinned ||| stUnpinError)
        = [(1, stPinned), (5, stUnpinError)] := by decide

/-! ## the two views -/

/-- Outside the recorded situation (expected here, the expected pin not held,
no entry in the operation table) `Status` and the unfiltered listing give the
same status; a CID absent from the listing is `unpinned` in `Status`. -/
theorem views_agree_partial (i : Input) (r : Rec) (hup : i.ipfsUp = true) (hgap : gap i r = false) :
    status i r = (listEntry i 0 r).getD stUnpinned := by
  have h := rec_check i r hup
  simp only [recCheck, Bool.and_eq_true, Bool.or_eq_true, hgap, Bool.false_eq_true, false_or] at h
  simpa [vS, vL] using h.1.1.1.1

/-- Always: the two views are equal or both are error statuses. -/
theorem views_agree_errclass (i : Input) (r : Rec) (hup : i.ipfsUp = true) :
    status i r = (listEntry i 0 r).getD stUnpinned ∨
      (isErr (status i r) = true ∧ isErr ((listEntry i 0 r).getD stUnpinned) = true) := by
  have h := rec_check i r hup
  simp only [recCheck, Bool.and_eq_true, Bool.or_eq_true] at h
  rcases h.1.1.1.2 with h | h
  · left; simpa [vS, vL] using h
  · right; exact h

/-- Both views agree with the facts (Prop-level reading of the `truth_*`
clauses): on a quiescent CID with nothing pending or failed the status is
pinned exactly when IPFS holds the expected pin, remote exactly when allocated
elsewhere, sharded exactly for meta entries, unpinned exactly when not in the
pinset, an error status exactly when expected here and not held; a failed last
operation always gives an error status; queued / in-progress statuses only
with the matching pending operation. `v` ranges over the two views. -/
theorem truthful (i : Input) (r : Rec) (hup : i.ipfsUp = true) (hc : r.consistent i.self = true) :
    ∀ v, (v = status i r ∨ v = (listEntry i 0 r).getD stUnpinned) →
      (r.settled = true →
        (v = stPinned ↔ (r.expectedHere i.self = true ∧ r.held = true)) ∧
        (v = stRemote ↔ r.elsewhere i.self = true) ∧
        (v = stSharded ↔ r.isMetaPin = true) ∧
        (v = stUnpinned ↔ r.inPinset = false) ∧
        (isErr v = true ↔ (r.expectedHere i.self = true ∧ r.held = false))) ∧
      (r.failed = true → isErr v = true) ∧
      (v = stPinQueued → r.op = some ⟨.pin, .queued⟩) ∧ (v = stPinning → r.op = some ⟨.pin, .inProgress⟩) ∧
      (v = stUnpinQueued → r.op = some ⟨.unpin, .queued⟩) ∧ (v = stUnpinning → r.op = some ⟨.unpin, .inProgress⟩) :=
  truthful_views i r hup hc

/-- the model's output meets every clause of the Spec when no CID is in the
recorded situation -/
theorem model_holds_partial (i : Input) (fs : List Nat) (hw : wf i = true) (h0 : 0 ∈ fs)
    (hgap : ∀ r ∈ i.recs, gap i r = false) : holds i (modelOut i fs) = true := by
  obtain ⟨c2, c3, c4, c5, c6, c7, c8, c9, c10, c11⟩ := model_clauses i fs hw h0
  have c1 : i.recs.all (agreeStrict i (modelOut i fs)) = true := by
    apply List.all_eq_true.mpr
    intro r hr
    unfold agreeStrict
    cases hup : i.ipfsUp with
    | false => rfl
    | true =>
      rw [(views_modelOut i h0 hw hr).1, (views_modelOut i h0 hw hr).2]
      simp only [Bool.not_true, Bool.false_or, beq_iff_eq]
      exact views_agree_partial i r hup (hgap r hr)
  simp only [holds, clauses, List.all_cons, List.all_nil, Bool.and_true, Bool.and_eq_true]
  exact ⟨c1, c2, c3, c4, c5, c6, c7, c8, c9, c10, c11⟩

/-- without any exclusion: every clause but the strict `views_agree` -/
theorem model_holds_except_views_agree (i : Input) (fs : List Nat) (hw : wf i = true) (h0 : 0 ∈ fs) :
    ∀ c ∈ clauses i (modelOut i fs), c.1 ≠ "views_agree" → c.2 = true := by
  obtain ⟨c2, c3, c4, c5, c6, c7, c8, c9, c10, c11⟩ := model_clauses i fs hw h0
  intro c hc hne
  simp only [clauses, List.mem_cons, List.not_mem_nil, or_false] at hc
  rcases hc with rfl | rfl | rfl | rfl | rfl | rfl | rfl | rfl | rfl | rfl | rfl
  · exact absurd rfl hne
  all_goals assumption

/-- The full statement (strict agreement on every CID). -/
def C06_tracker_full : Prop :=
  ∀ (i : Input) (fs : List Nat), wf i = true → 0 ∈ fs → holds i (modelOut i fs) = true

/-- It fails (K02): a pin allocated to this peer, not pinned in IPFS, no
operation: `Status` says pin_error, the listing says unexpectedly_unpinned. -/
theorem C06_tracker_full_fails : ¬ C06_tracker_full := by
  intro h
  have := h ⟨0, true, [⟨0, some ⟨false, 1, 1, [0], -1⟩, .unpinned, none⟩]⟩ [0] (by decide) (by decide)
  revert this
  decide

example : wf ⟨0, true, [⟨0, some ⟨false, 1, 1, [0], -1⟩, .recursive, some ⟨.pin, .error⟩⟩,
                        ⟨3, some ⟨false, -1, -1, [], 0⟩, .direct, none⟩]⟩ = true ∧
    (∀ r ∈ [(⟨0, some ⟨false, 1, 1, [0], -1⟩, .recursive, some ⟨.pin, .error⟩⟩ : Rec),
            ⟨3, some ⟨false, -1, -1, [], 0⟩, .direct, none⟩], gap ⟨0, true, []⟩ r = false) := by decide

/-! ## the cluster-wide views -/

/-- `Cluster.Status`: a peer appears at most once per CID, for every member
list, pin, allocation list (repetitions included) and reply table. -/
theorem global_once (i : GCidInput) : peerOnce (globalCid i) = true := globalCid_once i

/-- `Cluster.Status`: every clause of the statement — allocated peers with their
own report, or cluster_error if they cannot be reached; other members remote;
a CID outside the pinset unpinned on every member; nobody else. -/
theorem gc_holds (i : GCidInput) : gcHolds i (globalCid i) = true := gc_holds_all i

example : globalCid ⟨0, false, [0, 1, 2, 7], some ⟨false, 1, 3, [1, 7, 1], -1⟩,
                     [(0, .ok stPinned), (1, .ok stPinError), (2, .auth)]⟩
        = [(0, stRemote), (2, stRemote), (1, stPinError), (7, stClusterError)] := by decide

/-- `Cluster.StatusAll`: every CID is listed once and a peer appears at most
once per CID, whatever the members answer. -/
theorem gs_once (i : GSliceInput) :
    (globalSlice i).all (fun e => peerOnce e.2) = true ∧
    peerOnce ((globalSlice i).map (fun e => (e.1, 0))) = true := by
  have h := globalSlice_inv i
  exact ⟨List.all_eq_true.mpr (fun e he => h.2 e he), (peerOnce_cids _).mpr h.1⟩

/-! ## generated tables: the constants of the model are today's -/

theorem gen_status_values :
    Gen.stUndefined = stUndefined ∧ Gen.stClusterError = stClusterError ∧ Gen.stPinError = stPinError ∧
    Gen.stUnpinError = stUnpinError ∧ Gen.stPinned = stPinned ∧ Gen.stPinning = stPinning ∧
    Gen.stUnpinning = stUnpinning ∧ Gen.stUnpinned = stUnpinned ∧ Gen.stRemote = stRemote ∧
    Gen.stPinQueued = stPinQueued ∧ Gen.stUnpinQueued = stUnpinQueued ∧ Gen.stSharded = stSharded ∧
    Gen.stUnexpectedlyUnpinned = stUnexpectedlyUnpinned ∧ Gen.stError = stError ∧ Gen.stQueued = stQueued := by
  decide

set_option maxRecDepth 16384 in
/-- `matchF` is `TrackerStatus.Match` on the sampled grid -/
theorem gen_match_table : Gen.matchTable.all (fun e => matchF e.1 e.2.1 == e.2.2) = true := by decide

theorem gen_ipfs_table :
    Gen.ipfsToTracker = [IpfsStatus.bug, .error, .direct, .recursive, .indirect, .unpinned].map ipfsToTracker := by
  decide

theorem gen_op_status :
    Gen.opStatus = [OpType.pin, .unpin, .remote].map (fun t =>
      [Phase.error, .queued, .inProgress, .done].map (fun ph => opStatus ⟨t, ph⟩)) := by decide

/-- the masks `localStatus` tests, the listings `ipfsStatusAll` asks for, and
the lookup by the pin's own mode -/
theorem gen_local_status_shape :
    Gen.localStatusMasks = [maskState, maskIpfs, stSharded, stRemote] ∧
    Gen.listedTypes = ["direct", "recursive"] ∧ Gen.lookupByPinMode = true := by decide

/-! ## Round 7 — failing resources, any daemon answer, PinInfo content, Recover -/

/-- The model with failing resources and arbitrary daemon answers (`statusF`,
`statusAllF`) is the model of the theorems above when nothing fails and the
daemon is a go-ipfs one (a daemon that is down = every query fails). -/
theorem faultfree_refines (i : Input) (f : Nat) :
    statusAllF i.toF f = statusAll i f ∧ ∀ r, statusF i.toF (r.toF i.ipfsUp) = status i r :=
  ⟨statusAllF_toF i f, statusF_toF i⟩

/-- The filter law WITHOUT the assumption that the daemon is a go-ipfs one: for
every filter, whenever the unfiltered listing could be made and every answer the
listing uses is a pinned type (direct / recursive — in whichever of the two
listings, consistent with what is held or not). -/
theorem filter_law_any_answer (i : FInput) (f : Nat) (h0 : listFailed i 0 = false)
    (hs : ∀ r ∈ i.recs, saneMode r) :
    statusAllF i f = (statusAllF i 0).filter (fun e => matchF e.2 f) :=
  statusAllF_filter i f h0 hs

/-- a listing that lost a resource it needs is empty (never partial) -/
theorem listing_all_or_nothing (i : FInput) (f : Nat) (h : listFailed i f = true) : statusAllF i f = [] :=
  statusAllF_failed i f h

/-- … and a listing that lost none is complete: every CID whose per-CID status
is a definite one (not an error status, not unpinned) that matches the filter is
listed with that status (daemon answering from some IPFS pin set, no fault on
the path of `Status` for this CID). Together: no partial listing is ever
returned as a listing. -/
theorem listing_complete (i : FInput) (f : Nat) (r : FRec) (h : Ipfs) (hc : r.coherentHeld = some h)
    (hf : listFailed i f = false) (hs : sFault i r = false)
    (hne : statusF i r ≠ stUnpinned) (herr : isErr (statusF i r) = false) (hm : matchF (statusF i r) f = true) :
    listEntryF i f r = some (statusF i r) :=
  listEntryF_complete i f r h (coherentHeld_spec hc) hf hs hne herr hm

/-- The law for EVERY daemon answer. -/
def filter_law_every_answer : Prop :=
  ∀ (i : FInput) (f : Nat), listFailed i 0 = false →
    statusAllF i f = (statusAllF i 0).filter (fun e => matchF e.2 f)

/-- It fails: a daemon that lists a CID with a type string
`IPFSPinStatusFromString` does not know (status `undefined`, which matches every
filter) — and one that puts an `indirect` entry into a typed listing. Neither is
an IPFS pin set (go-ipfs answers `pin/ls?type=recursive|direct` with those types
only), so this is outside the statement's quantifier; the witnesses are replayed
on the real tracker by `corpus/C06/faults.txt`. -/
theorem filter_law_every_answer_fails : ¬ filter_law_every_answer := by
  intro h
  have := h ⟨0, false, false, false, false,
    [⟨0, some ⟨false, 1, 1, [0], -1⟩, ⟨none, some .bug, .bug⟩, none, false, false⟩]⟩ stPinError (by decide)
  revert this
  decide

example : statusAllF ⟨0, false, false, false, false,
    [⟨0, some ⟨false, 1, 1, [0], -1⟩, ⟨none, some .indirect, .indirect⟩, none, false, false⟩]⟩ 0 = [(0, stUnpinned)] ∧
  statusAllF ⟨0, false, false, false, false,
    [⟨0, some ⟨false, 1, 1, [0], -1⟩, ⟨none, some .indirect, .indirect⟩, none, false, false⟩]⟩ stUnpinned = [] := by decide

/-- Under faults the two views still agree, or both give an error status, or
the disagreement comes from a fault and the view that lost its resource says
so: the listing by failing as a whole (it has no error return: it is empty),
`Status` with cluster_error. For a daemon answering from some IPFS pin set. -/
theorem views_agree_under_faults (i : FInput) (r : FRec) (h : Ipfs) (hc : r.coherentHeld = some h) :
    statusF i r = (listEntryF i 0 r).getD stUnpinned ∨
    (isErr (statusF i r) = true ∧ isErr ((listEntryF i 0 r).getD stUnpinned) = true) ∨
    (listFailed i 0 = true ∧ listEntryF i 0 r = none) ∨
    (sFault i r = true ∧ statusF i r = stClusterError) :=
  agree_faults i r h (coherentHeld_spec hc)

example : (⟨0, some ⟨false, 1, 1, [0], -1⟩, wellBehaved (some ⟨false, 1, 1, [0], -1⟩) .recursive, none, false, true⟩ : FRec).coherentHeld
    = some .recursive := by decide

/-- Nothing is reported `pinned` that the daemon was not confirmed to hold, for
every fault combination and every answer: `Status` says pinned only if the state
and `PinLsCid` answered and the answer is a pinned type; a listing has a pinned
entry only if the listing lost no resource and the daemon's listing for the
pin's mode has the CID with a pinned type. -/
theorem truthful_under_faults (i : FInput) (r : FRec) :
    (statusF i r = stPinned →
      i.stateErr = false ∧ r.getErr = false ∧ r.lsCidErr = false ∧ r.expectedHere i.self = true ∧
        pinnedType r.ans.lsCid = true) ∧
    (∀ f, listEntryF i f r = some stPinned →
      listFailed i f = false ∧ r.expectedHere i.self = true ∧ ∃ s, r.modeAns = some s ∧ pinnedType s = true) :=
  ⟨pinnedS_faults i r, fun f => pinnedL_faults i f r⟩

/-- A fault on the path of `Status` is reported as cluster_error, not hidden
(unless the operation table answers, which needs none of the resources). -/
theorem status_fault_reported (i : FInput) (r : FRec) (ho : opEntryO r.op = none) :
    ((i.stateErr = true ∨ r.getErr = true) → statusF i r = stClusterError) ∧
    (r.expectedHere i.self = true → r.lsCidErr = true → statusF i r = stClusterError) :=
  fault_reported i r ho

/-- for a go-ipfs daemon "a pinned type was answered" is `IsPinned(depth)` -/
theorem wellBehaved_isPinned (p : Pin) (h : Ipfs) :
    pinnedType (pinLsCid p h) = ipfsIsPinned (pinLsCid p h) p.depth := by
  cases h <;> by_cases hd : p.depth = 0 <;> by_cases hn : p.depth < 0 <;>
    simp [pinLsCid, Pin.direct, pinnedType, ipfsIsPinned, hd, hn] <;> omega

/-- PinInfo content: the error text is non-empty exactly for the error
statuses — except for the failed no-op of a pin allocated elsewhere. -/
theorem error_text_iff_partial (i : FInput) (r : FRec) (h : r.op ≠ some ⟨.remote, .error⟩) :
    errTextS i r = isErr (statusF i r) :=
  errText_iff i r h

def error_text_iff_full : Prop := ∀ (i : FInput) (r : FRec), errTextS i r = isErr (statusF i r)

/-- K06e: status remote with an error text. -/
theorem error_text_iff_full_fails : ¬ error_text_iff_full := by
  intro h
  have := h ⟨0, false, false, false, false, []⟩
    ⟨0, some ⟨false, 1, 1, [1], -1⟩, ⟨none, none, .unpinned⟩, some ⟨.remote, .error⟩, false, false⟩
  revert this
  decide

/-- Recover: an item in a recoverable error is answered with the status of the
operation `Recover` has just enqueued — the same status both views give for the
state `Recover` leaves — and every other item with its unchanged status. -/
theorem recover_consistent (i : Input) (r : Rec) (ph : Phase) (hq : ph = .queued ∨ ph = .inProgress)
    (hup : i.ipfsUp = true) :
    (recoverable (status i r) = true →
      ∃ o, recoverOp (status i r) ph = some o ∧ recover i r ph = opStatus o ∧
        listEntry i 0 (afterRecover r (status i r) ph) = some (recover i r ph) ∧
        recoverable (recover i r ph) = false) ∧
    (recoverable (status i r) = false → recover i r ph = status i r) := by
  have hph : ph ≠ .done := by rcases hq with rfl | rfl <;> decide
  unfold recover afterRecover recoverOp recoverable
  constructor
  · intro h
    by_cases h1 : (status i r == stPinError || status i r == stUnexpectedlyUnpinned) = true
    · simp only [h1, ↓reduceIte]
      refine ⟨_, rfl, status_with_op i r _ hph, ?_, ?_⟩
      · rw [status_with_op i r _ hph]; exact listEntry_with_op i r _ hph hup
      · rw [status_with_op i r _ hph]; rcases hq with rfl | rfl <;> rfl
    · have h2 : (status i r == stUnpinError) = true := by
        simp only [Bool.or_eq_true, not_or] at h1 h
        rcases h with (h | h) | h
        · exact absurd h h1.1
        · exact h
        · exact absurd h h1.2
      simp only [h1, h2, Bool.false_eq_true, ↓reduceIte]
      refine ⟨_, rfl, status_with_op i r _ hph, ?_, ?_⟩
      · rw [status_with_op i r _ hph]; exact listEntry_with_op i r _ hph hup
      · rw [status_with_op i r _ hph]; rcases hq with rfl | rfl <;> rfl
  · intro h
    simp only [Bool.or_eq_false_iff] at h
    simp [h.1.1, h.1.2, h.2]

example : recover ⟨0, true, []⟩ ⟨0, some ⟨false, 1, 1, [0], -1⟩, .unpinned, none⟩ .queued = stPinQueued := by decide

/-- Cluster-wide views under faults: `Cluster.Status` / `Cluster.StatusAll`
return an error exactly when the state or `consensus.Peers` fail (no partial
map); otherwise every peer appears at most once, and a member whose call failed
is marked cluster_error — for an allocated peer in `Cluster.Status` (`gcHolds`),
for every listed CID in `Cluster.StatusAll` — never silently dropped. -/
theorem global_once_under_faults :
    (∀ i : GCidF,
      (globalCidF i = none ↔ (i.stateErr = true ∨ (i.base.follower = false ∧ i.peersErr = true))) ∧
      ∀ m, globalCidF i = some m → peerOnce m = true ∧ gcHolds i.base m = true) ∧
    (∀ i : GSliceF,
      (globalSliceF i = none ↔ (i.base.follower = false ∧ i.peersErr = true)) ∧
      ∀ m, globalSliceF i = some m →
        (∀ e ∈ m, peerOnce e.2 = true ∧ ∀ p ∈ erroredMembers i.base, lookup e.2 p = some stClusterError) ∧
        peerOnce (m.map (fun e => (e.1, 0))) = true) := by
  constructor
  · intro i
    unfold globalCidF
    constructor
    · cases i.stateErr <;> cases i.base.follower <;> cases i.peersErr <;> simp
    · intro m hm
      cases hs : i.stateErr <;> cases hf : i.base.follower <;> cases hp : i.peersErr <;>
        simp [hs, hf, hp] at hm <;> subst hm <;> exact ⟨global_once _, gc_holds _⟩
  · intro i
    unfold globalSliceF
    constructor
    · cases i.base.follower <;> cases i.peersErr <;> simp
    · intro m hm
      have hm' : m = globalSlice i.base := by
        cases hf : i.base.follower <;> cases hp : i.peersErr <;> simp [hf, hp] at hm <;> exact hm.symm
      subst hm'
      have h := globalSlice_inv i.base
      exact ⟨fun e he => ⟨h.2 e he, globalSlice_failed_marked i.base e he⟩, (peerOnce_cids _).mpr h.1⟩

example : globalSlice ⟨0, false, [0, 1, 2], [], [(0, .ok [(5, stPinned)]), (1, .err), (2, .ok [(5, stRemote), (5, stRemote)])]⟩
    = [(5, [(0, stPinned), (2, stRemote), (1, stClusterError)])] := by decide

/-- `IPFSPinStatusFromString`, `IsPinned`: the model's functions are today's
(the switch has the three cases the model has; samples and near misses
evaluated with the linked function). -/
theorem gen_from_string :
    Gen.fromStringCases = ["prefix:indirect", "prefix:recursive", "exact:direct"] ∧
    Gen.fromStringSamples.all (fun e =>
      (match ipfsFromString e.1 with
       | .bug => 0 | .error => 1 | .direct => 2 | .recursive => 3 | .indirect => 4 | .unpinned => 5) == e.2) = true ∧
    Gen.isPinned = [IpfsStatus.bug, .error, .direct, .recursive, .indirect, .unpinned].map (fun s =>
      [(-1 : Int), 0, 1, 2].map (fun d => ipfsIsPinned s d)) := by
  refine ⟨by decide, by decide, by decide⟩

/-! ## Round 8 — the filter from its text form to the tracker (interpreted from regenerated tables) -/

/-- The regenerated name table, composites and parsing / printing parameters are the documented ones:
names and values distinct, no name contains the separator or a stripped character, every composite is the
or of single statuses of the table, the named bits are 2¹ … 2¹², the table is the Spec's (as a set). -/
theorem gen_filter_tables :
    (namesC.map (·.1)).Nodup ∧ (namesC.map (·.2)).Nodup ∧
    namesC.all (fun e => !e.1.contains ',' && !e.1.contains ' ' && !e.1.isEmpty) = true ∧
    Gen.composites.all (fun c => c.2.foldl (· ||| ·) 0 == c.1 &&
        c.2.all (fun k => Gen.statusNames.any (fun e => e.2 == k)) &&
        Gen.statusNames.any (fun e => e.2 == c.1)) = true ∧
    Gen.composites.map (·.1) = [stError, stQueued] ∧
    namedMask = 8190 ∧ SpecS.named = namedMask ∧
    Gen.statusNames.all (fun e => SpecS.names.contains e) = true ∧ SpecS.names.all (fun e => Gen.statusNames.contains e) = true ∧
    (Gen.fromStrip, Gen.fromSep, Gen.fromCombine, Gen.stringJoin, Gen.stringExactFirst) = (" ", ",", "|", ",", true) := by
  refine ⟨by decide, by decide, by decide, by decide, by decide, by decide, by decide, by decide, by decide, by decide⟩

/-- `TrackerStatus.Match` as read from today's source (the returned expression, interpreted) is the model's
`matchF` — for every status and every filter. A changed operator, constant or operand changes `matchG`. -/
theorem match_interp (st f : Nat) : matchG st f = matchF st f := by
  simp only [matchG, evalP, Gen.matchExpr, List.foldr, stepTok, binOp]
  simp only [matchF]
  by_cases h1 : f = 0 <;> by_cases h2 : st = 0 <;> by_cases h3 : st &&& f = 0 <;>
    simp [b2n, h1, h2, h3, Nat.pos_iff_ne_zero]

example : matchG 16 (16 ||| 4096) = true ∧ matchG 4 14 = true ∧ matchG 4 16 = false ∧ matchG 0 16 = true := by decide

/-- `String`'s loop condition as read from the source is `k != 0 && st&k == k`. -/
theorem loop_cond_interp (st k : Nat) : loopCondG st k = loopCond st k := by
  simp only [loopCondG, evalP, Gen.stringLoopCond, List.foldr, stepTok, binOp, loopCond]
  by_cases h1 : k = 0 <;> by_cases h2 : st &&& k = k <;> simp [b2n, h1, h2]

/-- The REST handler and `ipfs-cluster-ctl` (guards interpreted from the source): a text is refused exactly
when it is non-empty and names no status; otherwise the parsed value goes on unchanged. In particular a
non-empty text never silently means "all". -/
theorem rest_guard_law (cs : List Char) :
    restFilter cs = (if parseC cs == 0 && !cs.isEmpty then none else some (parseC cs)) ∧
    ctlFilter cs = restFilter cs := by
  simp only [restFilter, ctlFilter, evalP, Gen.restGuard, Gen.ctlGuard, List.foldr, stepTok, binOp]
  by_cases h1 : parseC cs = 0 <;> cases h2 : cs.isEmpty <;> simp [b2n, h1]

theorem rest_never_widens (cs : List Char) (f : Nat) (h : restFilter cs = some f) (hne : cs ≠ []) : f ≠ 0 := by
  have hl := (rest_guard_law cs).1
  rw [h] at hl
  have he : cs.isEmpty = false := by cases cs <;> simp_all
  by_cases h0 : parseC cs = 0
  · simp [h0, he] at hl
  · simp [h0, he] at hl; omega

example : restFilter "pinned, error".toList = some 30 ∧ restFilter "pinnedx".toList = none ∧ restFilter [] = some 0 := by decide

/-- A comma-separated text means the union of its parts (token level: the `status |= st` loop). -/
theorem parse_union (a b : List (List Char)) : parseToks (a ++ b) = parseToks a ||| parseToks b := by
  simp only [parseToks, List.foldl_append]
  rw [parseToks_acc]

/-- Matching a union of two non-empty filters is matching one of them: with `filter_law`, the listing
for `f ||| g` is the union of the listings for `f` and for `g`. -/
theorem match_union (st f g : Nat) (hf : f ≠ 0) (hg : g ≠ 0) :
    matchF st (f ||| g) = (matchF st f || matchF st g) := by
  have hfg : f ||| g ≠ 0 := by
    intro h; exact hf (Nat.or_eq_zero_iff.mp h).1
  have e1 : (f == 0) = false := by rw [beq_eq_false_iff_ne]; exact hf
  have e2 : (g == 0) = false := by rw [beq_eq_false_iff_ne]; exact hg
  have e3 : (f ||| g == 0) = false := by rw [beq_eq_false_iff_ne]; exact hfg
  by_cases hs : st = 0
  · simp [matchF, hs]
  · have e4 : (st == 0) = false := by rw [beq_eq_false_iff_ne]; exact hs
    by_cases ha : st &&& f = 0 <;> by_cases hb : st &&& g = 0 <;>
      simp [matchF, e1, e2, e3, e4, Nat.and_or_distrib_left, ha, hb, Nat.pos_iff_ne_zero]

theorem listing_union (i : Input) (f g : Nat) (hup : i.ipfsUp = true) (hf : f ≠ 0) (hg : g ≠ 0) :
    statusAll i (f ||| g) = (statusAll i 0).filter (fun e => matchF e.2 f || matchF e.2 g) := by
  rw [filter_law i (f ||| g) hup]
  congr 1
  funext e
  exact match_union e.2 f g hf hg

/-- Splitting what `String` joined gives the tokens back (names have no comma). -/
theorem split_join_names (order : List (List Char × Nat)) (f : Nat) (hsub : ∀ e ∈ order, e ∈ namesC)
    (hne : printToks order f ≠ []) :
    splitOnC sepChar (printC order f) = printToks order f := by
  have hsep : sepChar = ',' := by decide
  have hj : joinChar = ',' := by decide
  have hnames : ∀ e ∈ namesC, ',' ∉ e.1 := by decide
  unfold printC
  rw [hsep, hj]
  refine splitOnC_joinC ',' _ hne ?_
  intro t ht
  unfold printToks at ht
  split at ht
  · rename_i e he
    simp only [List.mem_singleton] at ht
    subst ht
    have : e ∈ namesC := by
      split at he
      · exact List.mem_of_find?_eq_some he
      · cases he
    exact hnames e this
  · simp only [List.mem_map, List.mem_filter] at ht
    obtain ⟨e, ⟨hm, _⟩, rfl⟩ := ht
    exact hnames e (hsub e hm)

/-- the entry points between REST and the tracker hand the filter / cid on unchanged to the expected callee -/
theorem gen_routes :
    Gen.routes = [("*ClusterRPCAPI.StatusAll", "rpcapi.c.StatusAll(ctx, in)"),
      ("*ClusterRPCAPI.StatusAllLocal", "rpcapi.c.StatusAllLocal(ctx, in)"),
      ("*ClusterRPCAPI.Status", "rpcapi.c.Status(ctx, in)"), ("*ClusterRPCAPI.StatusLocal", "rpcapi.c.StatusLocal(ctx, in)"),
      ("*PinTrackerRPCAPI.StatusAll", "rpcapi.tracker.StatusAll(ctx, in)"), ("*PinTrackerRPCAPI.Status", "rpcapi.tracker.Status(ctx, in)"),
      ("*Cluster.StatusAll", "c.globalPinInfoSlice(ctx, \"PinTracker\", \"StatusAll\", filter)"),
      ("*Cluster.StatusAllLocal", "c.tracker.StatusAll(ctx, filter)"),
      ("*Cluster.Status", "c.globalPinInfoCid(ctx, \"PinTracker\", \"Status\", h)"),
      ("*Cluster.StatusLocal", "c.tracker.Status(ctx, h)")] ∧
    Gen.restCalls = ["Cluster.StatusAllLocal(filter)", "Cluster.StatusAll(filter)"] := by
  refine ⟨by decide, by decide⟩

/-- Full round trip (round 8b: proved): for EVERY mask and EVERY order in which Go walks the name map,
`TrackerStatusFromString(mask.String())` is the mask's named statuses — nothing lost, nothing added. -/
theorem print_parse_roundtrip (order : List (List Char × Nat)) (f : Nat) (hp : order.Perm namesC) :
    parseC (printC order f) = f &&& namedMask := by
  have hnm : namedMask = 8190 := by decide
  have hcomb : (Gen.fromCombine == "|") = true := by decide
  have hsep : sepChar = ',' := by decide
  have hj : joinChar = ',' := by decide
  have hexact : Gen.stringExactFirst = true := by decide
  rw [hnm]
  cases hfind : namesC.find? (fun e => e.2 == f) with
  | some e =>
    -- the exact table entry is printed
    have hmem : e ∈ namesC := List.mem_of_find?_eq_some hfind
    have hef : e.2 = f := by simpa using List.find?_some hfind
    have hone : ∀ e ∈ namesC, parseC e.1 = e.2 &&& 8190 := by decide
    have : printC order f = e.1 := by simp [printC, printToks, hexact, hfind, joinC]
    rw [this, hone e hmem, hef]
  | none =>
    have htoks : printToks order f = (order.filter (fun e => loopCond f e.2)).map (·.1) := by
      simp only [printToks, hexact, hfind, if_true]
      congr 2
      funext e
      exact loop_cond_interp f e.2
    have hsub : ∀ e ∈ order, e ∈ namesC := fun e he => hp.mem_iff.mp he
    have hval : parseToks (printToks order f) = f &&& 8190 := by
      rw [htoks, parseToks_names _ (fun e he => names_lookup e (hsub e (List.mem_filter.mp he).1))]
      exact named_or order f hp
    by_cases hne : printToks order f = []
    · have : printC order f = [] := by simp [printC, hne, joinC]
      rw [this]
      rw [hne] at hval
      rw [← hval]
      decide
    · -- no space in the printed text: nothing is stripped; splitting gives the tokens back
      have hstrip : stripC (printC order f) = printC order f := by
        unfold stripC
        rw [List.filter_eq_self]
        intro c hc
        unfold printC at hc
        rcases mem_joinC joinChar _ c hc with h | ⟨t, ht, hct⟩
        · rw [h, hj]; decide
        · rw [htoks] at ht
          obtain ⟨e, he, rfl⟩ := List.mem_map.mp ht
          exact names_noStrip e (hsub e (List.mem_filter.mp he).1) c hct
      unfold parseC
      rw [if_pos hcomb, hstrip, split_join_names order f hsub hne, hval]

example : parseC (printC namesC.reverse (16 ||| 4096 ||| 1 ||| 8192)) = 16 ||| 4096 := by decide

/-- What the Cluster RPC receives from the REST client (round 8b: proved), for every mask and map order:
the caller's named statuses; a non-zero mask without any named status is refused, never widened to "all". -/
theorem client_filter_law (order : List (List Char × Nat)) (f : Nat) (hp : order.Perm namesC) :
    endToEnd order f = (if f ≠ 0 ∧ f &&& namedMask = 0 then none else some (f &&& namedMask)) := by
  have hrt := print_parse_roundtrip order f hp
  have hr := (rest_guard_law (printC order f)).1
  have h0 : restFilter [] = some 0 := by decide
  have hp0 : parseC [] = 0 := by decide
  simp only [endToEnd, evalP, Gen.clientGuard, List.foldr, stepTok, binOp]
  by_cases hf : f = 0
  · subst hf
    simp [b2n, h0]
  · cases hs : (printC order f).isEmpty with
    | true =>
      have hnil : printC order f = [] := by simpa using hs
      have hz : f &&& namedMask = 0 := by rw [← hrt, hnil, hp0]
      simp [b2n, hf, hz]
    | false =>
      rw [hrt, hs] at hr
      by_cases hz : f &&& namedMask = 0
      · simp [b2n, hf, hz, hs] at hr ⊢
        exact hr
      · simp [b2n, hf, hz, hs] at hr ⊢
        exact hr

example : endToEnd namesC (16 ||| 8192) = some 16 ∧ endToEnd namesC 8192 = none ∧ endToEnd namesC 0 = some 0 := by decide

/-! ## round 8b — the cluster-wide listing for every member set -/

/-- `Cluster.StatusAll`, EVERY member list (with repetitions, unreachable or refusing members), every reply
table, every list a member returns: only members appear in a PeerMap (follower mode: only this peer). -/
theorem gs_nobody_else (i : GSliceInput) :
    ∀ e ∈ globalSlice i, ∀ q ∈ e.2.map (·.1), q ∈ (if i.follower then [i.self] else i.members) :=
  globalSlice_in i

/-- A one-member cluster (what the suite `rpc` runs the real `Cluster.StatusAll` on): the cluster-wide
listing is the member's own listing, CID by CID, for EVERY listing with distinct CIDs. -/
theorem one_member_slice (self : Nat) (pins : List (Nat × Pin)) (l : List (Nat × Nat)) (hn : (l.map (·.1)).Nodup) :
    globalSlice { self := self, follower := false, members := [self], pins := pins, replies := [(self, .ok l)] }
      = l.map (fun e => (e.1, [(self, e.2)])) := by
  have hr : replyOf [(self, Reply.ok l)] self = .ok l := by simp [replyOf]
  simp only [globalSlice, Bool.false_eq_true, if_false, List.foldl_cons, List.foldl_nil, hr, List.filter_cons,
    List.filter_nil]
  rw [report_fresh self l [] hn (fun _ _ h => by simp [ckeys] at h)]
  simp

example : globalSlice { self := 3, follower := false, members := [3], pins := [], replies := [(3, .ok [(0, 16), (2, 4)])] }
    = [(0, [(3, 16)]), (2, [(3, 4)])] := by decide

/-- …and it is false for a listing that names a CID twice: the last entry wins (refutation of the
statement without the distinctness hypothesis). -/
theorem one_member_slice_needs_distinct :
    ¬ (∀ (self : Nat) (l : List (Nat × Nat)),
      globalSlice { self := self, follower := false, members := [self], pins := [], replies := [(self, .ok l)] }
        = l.map (fun e => (e.1, [(self, e.2)]))) := by
  intro h
  have := h 0 [(0, 16), (0, 4)]
  revert this
  decide


/-! ## Round 8c — the operation tracker's getters (pintracker/optracker), interpreted from go/ast tables -/

/-- the regenerated shapes are the ones the model's interpreter knows: `filter` compares `op.Type()` for an
`OperationType` and `op.Phase()` for a `Phase` with `==` and keeps the operation; `filterOpsMap` returns nil without
filters and chains the rest; `TrackNewOperation` keeps an operation of the same type that is neither in error nor done;
the interpreted nested switch of `trackerStatus` equals the REAL `ToTrackerStatus` evaluated on types 0..5 x phases
0..4 (unknown and out-of-range values included) and the rows the tracker model uses (`Gen.opStatus`). -/
theorem gen_optracker :
    Gen.optFilterArms = [(0, 0, 1), (1, 1, 1)] ∧ Gen.optFilterShape = [1, 1] ∧
    Gen.trackKeep = [(0, 3, 1, 0), (1, 4, 0, 0), (1, 4, 0, 3)] ∧
    (List.range 6).map (fun t => (List.range 5).map (fun ph => O.statusI t ph)) = Gen.opStatusFull ∧
    (List.range 3).map (fun t => (List.range 4).map (fun ph => O.statusI (t + 1) ph)) = Gen.opStatus ∧
    (Gen.trackerSwitch.all fun e => e.1 < 5 && e.2.1.all fun p => p.1 < 4) = true := by decide

theorem lookupN_none {α : Type} (l : List (Nat × α)) (x : Nat) (h : ∀ e ∈ l, e.1 ≠ x) : O.lookupN l x = none := by
  induction l with
  | nil => rfl
  | cons a r ih =>
    have hk : a.1 ≠ x := h a (by simp)
    have hr : ∀ e ∈ r, e.1 ≠ x := fun e he => h e (by simp [he])
    cases a with
    | mk k v =>
      show (if k = x then some v else O.lookupN r x) = none
      rw [if_neg hk]; exact ih hr

/-- `Operation.ToTrackerStatus` for EVERY type and phase value (not only the named constants): the interpreted
switch is the documented table, and anything outside it is `undefined` (0). -/
theorem op_status_interp (t ph : Nat) : O.statusI t ph = SpecO.specStatus t ph := by
  have hfin : ∀ t' < 5, ∀ ph' < 4, O.statusI t' ph' = SpecO.specStatus t' ph' := by decide
  have hhi : ∀ t' < 5, (match O.lookupN Gen.trackerSwitch t' with
      | none => Gen.trackerSwitchDefault
      | some (_, d) => d) = SpecO.specStatus t' 4 := by decide
  have hinner : ∀ t' < 5, (match O.lookupN Gen.trackerSwitch t' with
      | none => true
      | some (inner, _) => inner.all (fun p => decide (p.1 < 4))) = true := by decide
  by_cases h5 : t < 5
  · by_cases h4 : ph < 4
    · exact hfin t h5 ph h4
    · have hs : SpecO.specStatus t ph = SpecO.specStatus t 4 := by
        have e0 : (ph == 0) = false := by rw [beq_eq_false_iff_ne]; omega
        have e1 : (ph == 1) = false := by rw [beq_eq_false_iff_ne]; omega
        have e2 : (ph == 2) = false := by rw [beq_eq_false_iff_ne]; omega
        have e3 : (ph == 3) = false := by rw [beq_eq_false_iff_ne]; omega
        simp [SpecO.specStatus, e0, e1, e2, e3]
      rw [hs, ← hhi t h5]
      unfold O.statusI
      cases hl : O.lookupN Gen.trackerSwitch t with
      | none => rfl
      | some v =>
        cases v with
        | mk inner d =>
          have hin := hinner t h5
          rw [hl] at hin
          have hall : ∀ x ∈ inner, x.1 < 4 := by simpa using hin
          have hn : O.lookupN inner ph = none :=
            lookupN_none inner ph (fun e he => by have := hall e he; omega)
          simp [hn]
  · have hn : O.lookupN Gen.trackerSwitch t = none :=
      lookupN_none _ t (fun e he => by
        have hb : ∀ e ∈ Gen.trackerSwitch, e.1 < 5 := by decide
        have := hb e he; omega)
    have e1 : (t == 1) = false := by rw [beq_eq_false_iff_ne]; omega
    have e2 : (t == 2) = false := by rw [beq_eq_false_iff_ne]; omega
    have e3 : (t == 3) = false := by rw [beq_eq_false_iff_ne]; omega
    have e4 : (t == 4) = false := by rw [beq_eq_false_iff_ne]; omega
    unfold O.statusI
    rw [hn]
    simp [SpecO.specStatus, e1, e2, e3, e4, Gen.trackerSwitchDefault]

example : O.statusI 1 2 = 32 ∧ O.statusI 3 77 = 256 ∧ O.statusI 9 1 = 0 ∧ O.statusI 2 4 = 0 := by decide

theorem matchesF_type (v : Nat) (o : O.TOp) : O.matchesF ⟨0, v⟩ o = (o.typ == v) := by
  first | rfl | simp [O.matchesF, Gen.optFilterArms]

theorem matchesF_phase (v : Nat) (o : O.TOp) : O.matchesF ⟨1, v⟩ o = (o.ph == v) := by
  first | rfl | simp [O.matchesF, Gen.optFilterArms]

theorem mem_filterChain (fs : List O.Flt) (m : List O.TOp) (o : O.TOp) :
    o ∈ O.filterChain fs m ↔ o ∈ m ∧ ∀ f ∈ fs, O.matchesF f o = true := by
  induction fs generalizing m with
  | nil => simp [O.filterChain]
  | cons f fs ih =>
    first
      | simp only [O.filterChain, ih, List.mem_filter, List.mem_cons, forall_eq_or_imp, and_assoc]
      | simp [O.filterChain, ih, and_assoc]

/-- `Filter(filters...)` / `filterOps(filters...)` with at least one filter: exactly the tracked operations that
match EVERY filter — for every operation map, every filter list (any length, repeated filters, unknown values). -/
theorem filter_ops_law (fs : List O.Flt) (m : List O.TOp) (o : O.TOp) (hne : fs ≠ []) :
    o ∈ O.filterOps fs m ↔ o ∈ m ∧ ∀ f ∈ fs, O.matchesF f o = true := by
  have h1 : Gen.optFilterShape.headD 99 = 1 := by decide
  have h2 : (Gen.optFilterShape.tail.headD 0 == 1) = true := by decide
  have hl : ¬ fs.length < 1 := by
    cases fs with
    | nil => exact absurd rfl hne
    | cons a r => simp
  rw [O.filterOps, h1, if_neg hl, if_pos h2]
  exact mem_filterChain fs m o

example : O.filterOps [⟨0, 1⟩, ⟨1, 0⟩] [⟨0, 1, 0⟩, ⟨1, 1, 2⟩, ⟨2, 2, 0⟩] = [⟨0, 1, 0⟩] := by decide

/-- without any filter the getter returns NOTHING (nil), not every operation -/
theorem filter_ops_nofilter (m : List O.TOp) : O.filterOps [] m = [] := by
  have h1 : Gen.optFilterShape.headD 99 = 1 := by decide
  rw [O.filterOps, h1]; rfl

/-- refutation of the reading "no filter = everything" -/
theorem filter_ops_nofilter_not_all : ¬ ∀ m, O.filterOps [] m = m := by
  intro h
  have h' := h [⟨0, 1, 1⟩]
  rw [filter_ops_nofilter] at h'
  cases h'

/-- the order (and repetition) of the filters does not matter -/
theorem filter_ops_order (fs gs : List O.Flt) (m : List O.TOp) (o : O.TOp) (hne : fs ≠ [])
    (hp : ∀ f, f ∈ fs ↔ f ∈ gs) : o ∈ O.filterOps fs m ↔ o ∈ O.filterOps gs m := by
  have hg : gs ≠ [] := by
    cases fs with
    | nil => exact absurd rfl hne
    | cons a r =>
      intro h
      have h3 := (hp a).mp (by simp)
      rw [h] at h3
      simp at h3
  rw [filter_ops_law fs m o hne, filter_ops_law gs m o hg]
  exact ⟨fun ⟨a, b⟩ => ⟨a, fun f hf => b f ((hp f).mpr hf)⟩, fun ⟨a, b⟩ => ⟨a, fun f hf => b f ((hp f).mp hf)⟩⟩

/-- asking for one type AND one phase lists only entries with the status `ToTrackerStatus` gives that pair, and
every listed entry is an entry of `GetAll` — the filtered getter is the unfiltered one restricted. -/
theorem filter_type_phase_status (m : List O.TOp) (t p : Nat) (e : Nat × Nat)
    (h : e ∈ O.filterInfos [⟨0, t⟩, ⟨1, p⟩] m) : e.2 = O.statusI t p ∧ e ∈ O.getAll m := by
  unfold O.filterInfos O.getAll at h
  obtain ⟨o, ho, he⟩ := List.mem_map.mp h
  have hm := (filter_ops_law _ m o (by simp)).mp ho
  have h0 := hm.2 ⟨0, t⟩ (by simp)
  have h1 := hm.2 ⟨1, p⟩ (by simp)
  rw [matchesF_type] at h0
  rw [matchesF_phase] at h1
  have h0' : o.typ = t := by simpa using h0
  have h1' : o.ph = p := by simpa using h1
  constructor
  · rw [← he, h0', h1']
  · unfold O.getAll
    exact List.mem_map.mpr ⟨o, hm.1, he⟩

example : (2, 8) ∈ O.filterInfos [⟨0, 2⟩, ⟨1, 0⟩] (O.trackAll [⟨2, 1, 1⟩, ⟨2, 2, 0⟩, ⟨3, 2, 1⟩]) := by decide

/-! ### direction (4): `Cluster.Status(cid)` of a one-member cluster -/

/-- a one-member cluster (follower or not): `globalPinInfoCid` of a pin allocated to the member, or pinned
everywhere, is exactly the member's own report — for every status the member reports. -/
theorem one_member_cid (self st : Nat) (pin : Pin) (fol : Bool) (h : pin.everywhere = true ∨ pin.allocs = [self]) :
    globalCid { self := self, follower := fol, members := [self], pin := some pin, replies := [(self, Reply.ok st)] }
      = [(self, st)] := by
  have hr : replyOf [(self, Reply.ok st)] self = Reply.ok st := by simp [replyOf]
  cases fol with
  | true => simp [globalCid, destsOf, setAll, gAdd, hr]
  | false =>
    cases h with
    | inl he => simp [globalCid, destsOf, setAll, gAdd, hr, he]
    | inr ha =>
      by_cases he : pin.everywhere = true
      · simp [globalCid, destsOf, setAll, gAdd, hr, he]
      · simp [globalCid, destsOf, setAll, gAdd, hr, he, ha, peersSubtract]

example : globalCid { self := 3, follower := false, members := [3], pin := some (Pin.mk false 1 1 [3] (-1)), replies := [(3, Reply.ok 16)] }
    = [(3, 16)] := by decide

/-! ### Round 8 final: the LISTING (`Cluster.StatusAll`) for ARBITRARY member lists, reply tables and errors -/

/-- EVERY cell of the listing, exactly: for a listed CID and a peer of the member list (the node itself in
follower mode) — unreachable: cluster_error; answered: the status it reported LAST for the CID, absent when it
reported none; refused (authorization error): absent; any peer outside the list: absent. Induction over the
member list, each reply and the unreachable members; members may repeat, replies may list a CID many times. -/
theorem gs_cell (i : GSliceInput) : ∀ e ∈ globalSlice i, ∀ p,
    lookup e.2 p =
      if p ∈ (if i.follower then [i.self] else i.members) then
        (match replyOf i.replies p with
         | .ok l => lastFor l e.1
         | .err => some stClusterError
         | .auth => none)
      else none := globalSlice_cell i

example : globalSlice ⟨0, false, [0, 1, 2, 1], [], [(0, .ok [(5, 16), (7, 4), (5, 4)]), (1, .err), (2, .auth)]⟩
    = [(5, [(0, 4), (1, 2)]), (7, [(0, 4), (1, 2)])] := by decide

/-- the three per-CID clauses of the listing that `gc_holds` gives for `Cluster.Status(cid)`, for EVERY input of
a non-follower: `g_own_report` and `g_allocated` always hold; `g_others_remote` holds exactly when every
non-allocated member (CID of the pinset, not a meta pin) answered with remote or nothing, or refused — it FAILS
as soon as such a member is unreachable (finding K04). -/
theorem gs_holds (i : GSliceInput) (hf : i.follower = false) : ∀ e ∈ globalSlice i,
    gsOwnReport i e.1 e.2 = true ∧ gsAllocated i e.1 e.2 = true ∧
    (gsOthersRemote i e.1 e.2 = true ↔
      ∀ p ∈ i.members, ∀ pin, pinOf i e.1 = some pin → pin.isMeta = false → allocatedFor i e.1 p = false →
        match replyOf i.replies p with
        | .ok l => lastFor l e.1 = none ∨ lastFor l e.1 = some stRemote
        | .err => False
        | .auth => True) := by
  intro e he
  have hcell : ∀ p ∈ i.members, lookup e.2 p =
      (match replyOf i.replies p with
       | .ok l => lastFor l e.1
       | .err => some stClusterError
       | .auth => none) := by
    intro p hp
    have h := globalSlice_cell i e he p
    rw [hf] at h
    simp only [Bool.false_eq_true, if_false, hp, if_true] at h
    exact h
  refine ⟨?_, ?_, ?_⟩
  · unfold gsOwnReport
    rw [List.all_eq_true]
    intro p hp
    have hc := hcell p hp
    cases hr : replyOf i.replies p with
    | ok l =>
      rw [hr] at hc
      simp only at hc ⊢
      rw [hc]
      cases hl : lastFor l e.1 with
      | some st => exact lastFor_some hl
      | none => simp only; rw [lastFor_none hl]; rfl
    | err => rfl
    | auth => rfl
  · unfold gsAllocated
    rw [List.all_eq_true]
    intro p hp
    have hc := hcell p hp
    cases hr : replyOf i.replies p with
    | ok l => rfl
    | err => rw [hr] at hc; simp only at hc ⊢; rw [hc]; simp
    | auth => rfl
  · unfold gsOthersRemote
    rw [List.all_eq_true]
    constructor
    · intro h p hp pin hpin hmeta halloc
      have h1 := h p hp
      have hc := hcell p hp
      rw [hpin] at h1
      simp only [hmeta, halloc, Bool.false_or] at h1
      cases hr : replyOf i.replies p with
      | ok l =>
        rw [hr] at hc; simp only at hc ⊢
        rw [hc] at h1
        simpa using h1
      | err =>
        rw [hr] at hc; simp only at hc ⊢
        rw [hc] at h1
        revert h1; decide
      | auth => trivial
    · intro h p hp
      cases hpin : pinOf i e.1 with
      | none => rfl
      | some pin =>
        simp only
        cases hmeta : pin.isMeta with
        | true => rfl
        | false =>
          cases halloc : allocatedFor i e.1 p with
          | true => rfl
          | false =>
            have h1 := h p hp pin hpin hmeta halloc
            have hc := hcell p hp
            cases hr : replyOf i.replies p with
            | ok l =>
              rw [hr] at hc h1; simp only at hc h1
              rw [hc]
              rcases h1 with h1 | h1 <;> rw [h1] <;> rfl
            | err => rw [hr] at h1; exact h1.elim
            | auth => rw [hr] at hc; simp only at hc; rw [hc]; rfl

/-- hypotheses met non-trivially: 3 members, one unreachable and allocated, one answering twice for the CID -/
example : (globalSlice ⟨0, false, [0, 1, 2], [(5, ⟨false, 1, 2, [0, 1], -1⟩)],
      [(0, .ok [(5, 4), (5, 16)]), (1, .err), (2, .ok [(5, 256)])]⟩).all
    (fun e => gsOwnReport ⟨0, false, [0, 1, 2], [(5, ⟨false, 1, 2, [0, 1], -1⟩)],
      [(0, .ok [(5, 4), (5, 16)]), (1, .err), (2, .ok [(5, 256)])]⟩ e.1 e.2 &&
      gsOthersRemote ⟨0, false, [0, 1, 2], [(5, ⟨false, 1, 2, [0, 1], -1⟩)],
      [(0, .ok [(5, 4), (5, 16)]), (1, .err), (2, .ok [(5, 256)])]⟩ e.1 e.2) = true := by decide

/-- refutation (K04): "others remote" is NOT a theorem of the listing — a non-allocated member that cannot be
reached is listed as cluster_error, where `Cluster.Status(cid)` (`gc_holds`) says remote. -/
theorem gs_others_remote_not_all :
    ¬ ∀ (i : GSliceInput), i.follower = false → ∀ e ∈ globalSlice i, gsOthersRemote i e.1 e.2 = true := by
  intro h
  have := h ⟨0, false, [0, 8], [(0, ⟨false, 1, 2, [0], -1⟩)], [(0, .ok [(0, 16)])]⟩ rfl (0, [(0, 16), (8, 2)]) (by decide)
  revert this; decide

/-! ### Round 8 final: the Prop reading of the whole fault clause list -/

/-- `holdsF` (what the driver evaluates on every `tf` case) is true exactly when: every CID of the case satisfies
the agreement, strict agreement, pinned-needs-confirmation (Status and every listing), fault-reporting, truth and
known-status clauses; every listing is complete and well-formed; when the daemon's listings are sane every listing
obeys the filter law; and the PinInfo bits / CID lists of both views are right. -/
theorem holdsF_iff (i : FInput) (o : OutputF) : holdsF i o = true ↔
    (∀ r ∈ i.recs, agreeF i o r = true ∧ agreeStrictF i o r = true ∧ truthPinnedS i o r = true ∧
        (∀ e ∈ o.lists, truthPinnedL i e.2 r = true) ∧ faultReported i o r = true ∧ truthF i o r = true ∧
        knownF r (viewSF o r) = true ∧ knownF r (viewLF o r) = true) ∧
    (∀ e ∈ o.lists, completeF i o e = true ∧ listingWfF i e.2 = true ∧
        ((∀ r ∈ i.recs, saneListing r = true) → filterLawF i o e = true)) ∧
    (∀ e ∈ o.eachInfo, infoOk ((lookup o.each e.1).getD 0) e.2 = true) ∧
    (∀ e ∈ o.listInfo, infoOk ((lookup (list0F o) e.1).getD 0) e.2 = true) ∧
    o.eachInfo.map (·.1) = o.each.map (·.1) ∧ o.listInfo.map (·.1) = (list0F o).map (·.1) := by
  unfold holdsF clausesF
  simp only [List.all_cons, List.all_nil, Bool.and_true, Bool.and_eq_true, List.all_eq_true, Bool.or_eq_true,
    Bool.not_eq_true', beq_iff_eq]
  constructor
  · rintro ⟨h1, h2, h3, h4, h5, h6, h7, h8, h9, ⟨⟨h10, h11⟩, h12⟩, h13⟩
    refine ⟨fun r hr => ⟨h1 r hr, h2 r hr, (h3 r hr).1, (h3 r hr).2, h4 r hr, h7 r hr, (h8 r hr).1, (h8 r hr).2⟩,
      fun e he => ⟨h5 e he, h9 e he, fun hs => ?_⟩, h10, h11, h12, h13⟩
    rcases h6 with h6 | h6
    · have : (i.recs.all saneListing) = true := List.all_eq_true.mpr hs
      rw [this] at h6; cases h6
    · exact h6 e he
  · rintro ⟨hr, hl, h10, h11, h12, h13⟩
    refine ⟨fun r h => (hr r h).1, fun r h => (hr r h).2.1, fun r h => ⟨(hr r h).2.2.1, (hr r h).2.2.2.1⟩,
      fun r h => (hr r h).2.2.2.2.1, fun e h => (hl e h).1, ?_, fun r h => (hr r h).2.2.2.2.2.1,
      fun r h => (hr r h).2.2.2.2.2.2, fun e h => (hl e h).2.1, ⟨⟨h10, h11⟩, h12⟩, h13⟩
    cases hs : i.recs.all saneListing with
    | false => exact Or.inl rfl
    | true => exact Or.inr (fun e h => (hl e h).2.2 (List.all_eq_true.mp hs))

example : holdsF ⟨0, false, false, false, false, []⟩ ⟨[], [], [(0, [])], []⟩ = true := by decide

end CV.C06
