import ClusterVerif.Spec.C06
/-!
# C06, round 8 — Spec for the filter's way from text to the tracker (suite `filters`)

Written from the statement ("all status filters: each single status and every union";
"a filtered listing is exactly the unfiltered listing restricted to the filter") and the
documentation of the REST API / ctl (`--filter`: comma-separated list of status names), NOT
from the model: a filter text means the union of the statuses it names; a text that names
nothing is refused rather than read as "everything"; printing a filter and reading it back
keeps exactly its named statuses; the filter the Cluster RPC receives from the REST client
is the caller's set of named statuses. Core Lean only.
-/
namespace CV.C06.SpecS

/-- the documented status names (docs: `ipfs-cluster-ctl status --help`) -/
def names : List (String × Nat) :=
  [("cluster_error", 2), ("pin_error", 4), ("unpin_error", 8), ("pinned", 16), ("pinning", 32), ("unpinning", 64),
   ("unpinned", 128), ("remote", 256), ("pin_queued", 512), ("unpin_queued", 1024), ("sharded", 2048),
   ("unexpectedly_unpinned", 4096), ("error", 2 ||| 4 ||| 8), ("queued", 512 ||| 1024), ("undefined", 0)]

def valOf (t : String) : Nat := ((names.find? (·.1 == t)).map (·.2)).getD 0

/-- every status that has a name -/
def named : Nat := names.foldl (fun a e => a ||| e.2) 0

/-- the set of statuses a filter text names -/
def meaning (text : String) : Nat :=
  ((String.ofList (text.toList.filter (· != ' '))).splitOn ",").foldl (fun a t => a ||| valOf t) 0

structure Obs where
  text : String
  mask : Nat
  st : Nat
  isLocal : Bool
  p : Nat                -- TrackerStatusFromString text
  hAcc : String          -- acc | rej | <code>
  hRpc : String          -- A | L | -
  hFilter : Nat
  q : List String        -- names printed for mask (sorted)
  r : Nat                -- parsed back
  m : Bool               -- st.Match(mask)
  c : Option (String × Nat)  -- client: none = refused, else (rpc, filter)
  cOdd : Bool            -- the client answered in a way that is neither (error without RPC / RPC without error)

def rpcOf (l : Bool) : String := if l then "L" else "A"

def clauses (o : Obs) : List (String × Bool) :=
  let mean := meaning o.text
  [ ("fs_parse_union", o.p == mean),
    ("fs_rest_filter",
      if o.text == "" then o.hAcc == "acc" && o.hRpc == rpcOf o.isLocal && o.hFilter == 0
      else if mean == 0 then o.hAcc == "rej" && o.hRpc == "-"
      else o.hAcc == "acc" && o.hRpc == rpcOf o.isLocal && o.hFilter == mean),
    ("fs_print_names",
      o.q.all (fun t => names.any (fun e => e.1 == t && (e.2 &&& o.mask) == e.2 && (e.2 != 0 || o.mask == 0)))),
    ("fs_roundtrip", o.r == (o.mask &&& named)),
    ("fs_match", o.m == (o.mask == 0 || o.st == 0 || (o.st &&& o.mask) != 0)),
    ("fs_client_filter",
      !o.cOdd &&
      (if o.mask != 0 && (o.mask &&& named) == 0 then o.c == none
       else o.c == some (rpcOf o.isLocal, o.mask &&& named))) ]

def holds (o : Obs) : Bool := (clauses o).all (·.2)

end CV.C06.SpecS

/-!
# round 8b — the views through the RPC layer (suite `rpc`, case kind `tp`)

From the statement: "the status of a CID shows each allocated peer with its own report" and the per-peer views are
"the per-CID status and the status listing" — whichever entry point serves them. For ONE peer that is the only
cluster member, every route to its views (the `Cluster` RPC service used by the REST API, the `PinTracker` RPC
service used by other members, the cluster-wide listing and per-CID status built from the latter) must show the
same per-CID status and, for every filter, the same listing. The views themselves (read through
`Cluster.StatusLocal` / `Cluster.StatusAllLocal`) are judged by the tracker Spec (`CV.C06.clauses`).
-/
namespace CV.C06.SpecH

structure Obs where
  each : List (Nat × Nat)                  -- Cluster.StatusLocal(cid), every cid
  lists : List (Nat × List (Nat × Nat))    -- Cluster.StatusAllLocal(f)
  pEach : List (Nat × Nat)                 -- PinTracker.Status(cid), called by another peer
  pLists : List (Nat × List (Nat × Nat))   -- PinTracker.StatusAll(f), called by another peer
  gEach : List (Nat × Nat)                 -- Cluster.Status(cid), only cids allocated to this peer alone / everywhere
  gLists : List (Nat × List (Nat × Nat))   -- Cluster.StatusAll(f), each entry flattened to this peer's status
  closed : Bool                            -- another peer is refused the Cluster-level endpoint

def clauses (o : Obs) : List (String × Bool) :=
  [ ("hop_tracker_status", o.pEach == o.each),
    ("hop_tracker_listing", o.pLists == o.lists),
    ("hop_cluster_listing", o.gLists == o.lists),
    ("hop_cluster_status", o.gEach.all (fun e => o.each.contains e)),
    ("hop_closed_to_peers", o.closed) ]

def holds (o : Obs) : Bool := (clauses o).all (·.2)

end CV.C06.SpecH
