/-
C04 — what the statement demands of two calls that overlap in time on one peer, read from its text:
"change the pinset exactly as requested, or not at all", "one entry", "nothing else". The statement's quantifier is
over SEQUENCES of calls; for an overlap the reading used is the weakest one that keeps those words meaningful:
the pinset stays one-entry-per-CID, nothing outside the CIDs the two calls are entitled to touch changes, and what
is left at every such CID is the outcome one of the two calls reported (its returned pin as stored, or absence
after a successful unpin), or the entry as it was.
-/
import ClusterVerif.Spec.C04
import ClusterVerif.Model.C04Faults
namespace CV.C04
open CV

/-- `r` = what a call returned (none = error); the entry it claims to have left at `c` -/
def claims (cfg : Cfg) (pre : PinMap) (op : Op) (r : Option Pin) (c : Nat) (entry : Option Pin) : Bool :=
  match r with
  | none => false
  | some p =>
    match op with
    | .unpin _ | .unpinPath _ => (targets cfg pre op).contains c && entry.isNone
    | _ => p.cid == c && entry == some p.stored

def concClauses (cfg : Cfg) (pre : PinMap) (a b : Op) (ra rb : Option Pin) (post : PinMap) : List (String × Bool) :=
  let T := targets cfg pre a ++ targets cfg pre b
  [("one_entry_per_cid", post.wf),
   ("nothing_else_changes", (allKeys pre post).all (fun c => T.contains c || pre.get c == post.get c)),
   ("final_entry_is_a_request_result", T.all (fun c =>
       post.get c == pre.get c || claims cfg pre a ra c (post.get c) || claims cfg pre b rb c (post.get c))),
   ("both_refused_leaves_pinset_unchanged", ra.isSome || rb.isSome || sameMap pre post)]

def concHolds (cfg : Cfg) (pre : PinMap) (a b : Op) (ra rb : Option Pin) (post : PinMap) : Bool :=
  (concClauses cfg pre a b ra rb post).all (·.2)

end CV.C04
