/-
C12 — the property, written from its statement (not from the model), as
executable clause checkers over (request, observed behaviour). The driver
applies them to the IMPLEMENTATION's observations: the requests the recording
fake daemon received, the RPC calls the recording fake cluster received (with
their outcome) and the answer the client got.

Reading of the statement used here

* "pin add/rm/ls/update, add, repo stat and repo gc", "both argument styles",
  methods POST/GET/PUT (the anchor's mechanism): a request is *hijacked* iff its
  method is one of POST, GET, PUT and its (percent-decoded) path is
  `/api/v0/<endpoint>` — argument(s) in the query value(s) `arg` — or, for the
  one-argument pin commands add/rm/ls, `/api/v0/<endpoint>/<arg>` with one
  non-empty segment `<arg>`.  `classify` below is that definition; it is the
  frozen expectation the generated hijack table is compared with (Props,
  `hijack_exact`, `route_eq_classify`).  Everything else is "every other
  request".
* "performs the corresponding cluster operation on the requested path with the
  requested options": when the answer is a success (2xx and no stream-error
  trailer), the successful mutating cluster RPCs are exactly the ones the
  request asks for (`opsAsRequested`): PinPath / UnpinPath on the requested
  path (as given, or in the `/ipfs/<cid>` canonical form) with the requested
  `type`; for update PinPath(to, update-from = what `from` resolved to) then,
  unless `unpin=false`, Unpin(from); for add one Pin of the root reported to the
  client with the requested name/replication, then Unpin when `pin=false`, and
  nothing at all when `only-hash=true`; for repo gc one RepoGC; ls and repo stat
  read (Pins / PinGet(arg) / Consensus.Peers) and change nothing.
  Boolean options are read as written in the IPFS HTTP API, `true` / `false`;
  any other spelling leaves the corresponding part unconstrained.
* "relays every other request … unchanged, returning the daemon's response":
  exactly one daemon request with the same method, path (byte-identical when the
  raw path is a valid RFC 3986 path; the same percent-decoded path otherwise),
  raw query, end-to-end headers and body; status, body and headers of the
  daemon's answer reach the client (no body for HEAD / 204 / 304); no cluster RPC.
* "answers with an error performs no cluster operation": answer not a success ⇒
  no successful mutating cluster RPC.
* "never reaches the daemon as the mutating call it replaces": for a hijacked
  mutating endpoint, no daemon request other than OPTIONS/HEAD has a path that
  names that endpoint (either style); and the request itself (same method and
  path) is not forwarded at all.
-/
import ClusterVerif.Model.C12
namespace CV.C12

/-- methods the proxy intercepts -/
def hijackMethods : List String := ["POST", "GET", "PUT"]

def underApi (e a v : Bytes) : Bool := e.isEmpty && a == b!"api" && v == b!"v0"

/-- the hijacked endpoint (and slash-style argument) named by the segments of a decoded path -/
def classifySegs (segs : List Bytes) : Option (Endpoint × Option Bytes) :=
  match segs with
  | [e, a, v, x] => if underApi e a v && x == b!"add" then some (.add, none) else none
  | [e, a, v, x, y] =>
    if !underApi e a v then none
    else if x == b!"pin" then
      (if y == b!"add" then some (.pinAdd, none) else if y == b!"rm" then some (.pinRm, none)
       else if y == b!"ls" then some (.pinLs, none) else if y == b!"update" then some (.pinUpdate, none)
       else none)
    else if x == b!"repo" then
      (if y == b!"stat" then some (.repoStat, none) else if y == b!"gc" then some (.repoGC, none) else none)
    else none
  | [e, a, v, x, y, z] =>
    if underApi e a v && x == b!"pin" && !z.isEmpty then
      (if y == b!"add" then some (.pinAdd, some z) else if y == b!"rm" then some (.pinRm, some z)
       else if y == b!"ls" then some (.pinLs, some z) else none)
    else none
  | _ => none

def classify (m : String) (decodedPath : Bytes) : Option (Endpoint × Option Bytes) :=
  if hijackMethods.contains m then classifySegs (splitOn 47 decodedPath) else none

/-- the expected content of the generated table, in the order of the source -/
def expectedRoutes : List (List String × String × Bool) :=
  [ (["", "api", "v0", "pin", "add", "{arg}"], "pinHandler", true),
    (["", "api", "v0", "pin", "add"], "pinHandler", false),
    (["", "api", "v0", "pin", "rm", "{arg}"], "unpinHandler", true),
    (["", "api", "v0", "pin", "rm"], "unpinHandler", false),
    (["", "api", "v0", "pin", "ls", "{arg}"], "pinLsHandler", true),
    (["", "api", "v0", "pin", "ls"], "pinLsHandler", false),
    (["", "api", "v0", "pin", "update"], "pinUpdateHandler", false),
    (["", "api", "v0", "add"], "addHandler", false),
    (["", "api", "v0", "repo", "stat"], "repoStatHandler", false),
    (["", "api", "v0", "repo", "gc"], "repoGCHandler", false) ]

/-- which endpoint a Go handler serves -/
def endpointOfHandler : String → Option Endpoint
  | "pinHandler" => some .pinAdd | "unpinHandler" => some .pinRm | "pinLsHandler" => some .pinLs
  | "pinUpdateHandler" => some .pinUpdate | "addHandler" => some .add
  | "repoStatHandler" => some .repoStat | "repoGCHandler" => some .repoGC | _ => none

def Endpoint.mutating : Endpoint → Bool
  | .pinAdd | .pinRm | .pinUpdate | .add | .repoGC => true
  | .pinLs | .repoStat => false

def RpcName.mutating : RpcName → Bool
  | .pinPath | .unpinPath | .pin | .unpin | .repoGC => true
  | _ => false

/-- 2xx and no stream error -/
def Output.success (o : Output) : Bool := decide (200 ≤ o.status) && decide (o.status < 300) && !o.serr

/-- the cluster operations that took effect -/
def doneOps (o : Output) : List Rpc := o.rpcs.filter (fun r => r.ok && r.name.mutating)

/-- `p` denotes the requested path `arg` (as given, with the implicit /ipfs/ namespace, or with the CID in canonical form) -/
def samePath (e : Env) (p arg : Bytes) : Bool :=
  p == arg || p == b!"/ipfs/" ++ arg ||
  (match e.cd arg with
   | some c => p == b!"/ipfs/" ++ c
   | none => false)

/-- a boolean option as written in the IPFS HTTP API; none = spelling this reading does not constrain -/
def optBool (v : Bytes) (dflt : Bool) : Option Bool :=
  if v.isEmpty then some dflt else if v == b!"true" then some true else if v == b!"false" then some false else none

/-- the requested pin type is honoured -/
def typeHonoured (ty : Bytes) (direct : Bool) : Bool :=
  if ty == b!"direct" then direct else if ty.isEmpty || ty == b!"recursive" then !direct else true

/-- optional trailing Unpin of `c`, as requested by a boolean option (`want` = some true: required) -/
def unpinTail (want : Option Bool) (c : Bytes) (tail : List Rpc) : Bool :=
  match want, tail with
  | some false, [] => true
  | some true, [u] => u.name == .unpin && u.cid == c
  | none, [] => true
  | none, [u] => u.name == .unpin && u.cid == c
  | _, _ => false

/-- the argument the request names: the slash segment, or the first `arg` query value -/
def requestedArg (q : List (Bytes × Bytes)) (sl : Option Bytes) : Bytes :=
  match sl with
  | some a => a
  | none => qGet q b!"arg"

def opsAsRequested (i : Input) (ep : Endpoint) (sl : Option Bytes) (o : Output) : Bool :=
  let q := parseQuery (i.query.getD [])
  let arg := requestedArg q sl
  match ep with
  | .pinAdd =>
    (match doneOps o with
     | [r] => r.name == .pinPath && samePath i.env r.path arg && typeHonoured (qGet q b!"type") r.direct && r.upd.isEmpty
     | _ => false)
  | .pinRm =>
    (match doneOps o with
     | [r] => r.name == .unpinPath && samePath i.env r.path arg
     | _ => false)
  | .pinLs =>
    (doneOps o).isEmpty &&
    o.rpcs.any (fun r => r.ok && (if arg.isEmpty then r.name == .pins else r.name == .pinGet && some r.cid == i.env.cd arg))
  | .pinUpdate =>
    (match qAll q b!"arg" with
     | frm :: to :: _ =>
       o.rpcs.any (fun r => r.ok && r.name == .resolve && samePath i.env r.path frm) &&
       (match doneOps o with
        | p :: tail =>
          p.name == .pinPath && samePath i.env p.path to && p.upd == i.env.resCid && !p.upd.isEmpty &&
          unpinTail ((optBool (qGet q b!"unpin") true)) i.env.resCid tail
        | [] => false)
     | _ => false)
  | .add =>
    if optBool (qGet q b!"only-hash") false == some true then (doneOps o).isEmpty
    else
      (match doneOps o with
       | p :: tail =>
         p.name == .pin && !p.direct && p.pname == qGet q b!"name" &&
         p.rmin == replVal q b!"replication-min" && p.rmax == replVal q b!"replication-max" &&
         o.items.getLast? == some p.cid &&
         unpinTail ((optBool (qGet q b!"pin") true).map (!·)) p.cid tail
       | [] => optBool (qGet q b!"only-hash") false == none)
  | .repoStat => (doneOps o).isEmpty && o.rpcs.any (fun r => r.ok && r.name == .peers)
  | .repoGC =>
    (match doneOps o with
     | [r] => r.name == .repoGC
     | _ => false)

def pchar (c : Nat) : Bool :=
  isAlnum c || c == 45 || c == 46 || c == 95 || c == 126 ||                                   -- unreserved
  c == 33 || c == 36 || c == 38 || c == 39 || c == 40 || c == 41 || c == 42 || c == 43 || c == 44 || c == 59 || c == 61 ||  -- sub-delims
  c == 58 || c == 64 || c == 47                                                                -- : @ /

/-- the raw path is a valid RFC 3986 path (pchar / "/" / pct-encoded) -/
def rfcValidPath (s : Bytes) : Bool := s.all (fun c => pchar c || c == 37) && (pctDecode false s).isSome

def endpointOfPath (raw : Bytes) : Option Endpoint :=
  match pctDecode false raw with
  | some p => (classifySegs (splitOn 47 p)).map (·.1)
  | none => none

def relayClause (o : Output) (f : DReq → Bool) : Bool :=
  match o.dreqs with
  | [d] => f d
  | _ => true

/-- one named Bool per clause of the statement; clauses that do not apply to the request are true -/
def clauses (i : Input) (o : Output) : List (String × Bool) :=
  match pctDecode false i.path with
  | none => []   -- not an HTTP request target: nothing is claimed
  | some p =>
    match classify i.method p with
    | some (ep, sl) =>
      [ ("hijack_answered_by_proxy",
          o.dreqs.all (fun d => !(d.method == i.method && pctDecode false d.path == some p))),
        ("hijack_never_forwarded_mutation",
          !ep.mutating || o.dreqs.all (fun d => d.method == "OPTIONS" || d.method == "HEAD" || endpointOfPath d.path != some ep)),
        ("hijack_error_no_op", o.success || (doneOps o).isEmpty),
        ("hijack_success_op", !o.success || opsAsRequested i ep sl o) ]
    | none =>
      [ ("relay_one_request", o.dreqs.length == 1),
        ("relay_method", relayClause o (fun d => d.method == i.method)),
        ("relay_path", relayClause o (fun d =>
            if rfcValidPath i.path then d.path == i.path else pctDecode false d.path == some p)),
        ("relay_query", relayClause o (fun d => d.query == i.query)),
        ("relay_headers", relayClause o (fun d => d.hdrs == i.hdrs)),
        ("relay_body", relayClause o (fun d => d.body == i.body)),
        ("relay_response",
          o.status == i.env.dStatus && o.dhdr == i.env.dHdr &&
          o.body == (if bodyless i.method i.env.dStatus then [] else i.env.dBody)),
        ("relay_no_cluster_op", o.rpcs.isEmpty) ]

def holds (i : Input) (o : Output) : Bool := (clauses i o).all (·.2)

/-- the case exercises the property (the request is a request) -/
def nontrivial (i : Input) : Bool := (pctDecode false i.path).isSome

/-- the ParsePath oracle answers in one of the forms `samePath` accepts (go-path's documented normalisation) -/
def Env.ppSound (e : Env) (a : Bytes) : Bool :=
  match e.pp a with
  | some p => samePath e p a
  | none => true

end CV.C12
