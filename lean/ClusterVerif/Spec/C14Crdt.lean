/-
C14 (a), crdt side, written from the statement: importing an exported pinset with the crdt state
manager "replaces whatever was there" — what is read offline from the crdt datastore afterwards is
the source pinset: every source pin is there and NO pin of the prior content that is not in the
import is (`crdt_import_replaces`, checked on the real `crdtStateManager.ImportState` + `crdt.OfflineState`).
-/
import ClusterVerif.Spec.C14
import ClusterVerif.Model.C14Crdt
namespace CV.C14

/-- `o`: the crdt namespace read offline right after the real import. THAT the import of a harmless stream
    succeeds is clause `export_import_crdt_id` of Spec/C14 (it fails for pins with origins: K01c); here:
    a successful import leaves exactly the source pinset, and - successful or not, stream damaged or not -
    no cid that is not in the import is left of the prior content. -/
def crdtClauses (i : PinsIn) (src : List Pin) (o : Option RT) : List (String × Bool) :=
  if !pinsWf i then [] else
  match o with
  | none => []
  | some r =>
    [("crdt_import_replaces", !(r.ok && harmless i.damage) || samePinset r.pins src),
     ("crdt_prior_gone", r.pins.all (fun p => src.any (fun q => q.cid == p.cid)))]

end CV.C14
