/-
C10 — the property, from its statement, over one round: a peer is declared failed
(alert delivered to every other member), or is removed (one member runs PeerRemove), or
every member runs the expiry sweep. Observables: the pinset before and after the round
and the LogPin/LogUnpin calls each member issued.

Reading used here
* healthy holder of a pin = an allocated peer other than the failed one with a valid,
  unexpired metric (as seen by the members, who share one view in a round);
* "fell below the minimum": positive min and fewer healthy holders than min;
* the closest member decides (xor distance of hashes); it can act only if it is not a
  follower and re-pinning is enabled there; a pin whose expiry is already in the past is
  not re-homed (it is about to be removed by the expiry sweep);
* members that the others do not trust are ignored by the others when deciding who is
  closest and do not act themselves (their writes would be rejected); "exactly one member"
  is among the members that trust each other ("given members agree on the peerset").
-/
import ClusterVerif.Model.C10
import ClusterVerif.Spec.C03
namespace CV.C10
open CV

structure Round where
  kind : String                       -- "alert" | "remove" | "sync"
  w : World
  actors : List PeerCfg               -- in the order they acted
  failed : Option Nat
  pre : PinMap
  views : List (Nat × List Nat) := []   -- members whose own view of the peerset is not `w.members`
  nonPing : Bool := false               -- the alert names another metric than the ping metric: no peer was declared failed
  deriving Repr

/-- "given members agree on the peerset": no acting member misses a member the others see -/
def Round.agreed (r : Round) : Bool := r.views.all (fun v => (r.w.members.map (·.1)).all v.2.contains)

/-- "expired": the pin has an expiry (the zero time and the unix epoch mean none) and it lies strictly before now -/
def specExpired (now : Int) : Stamp → Bool
  | .zero => false
  | .at t => decide (t ≠ 0 ∧ t < now)

def samePinset (a b : PinMap) : Bool := a.all (fun p => b.get p.cid == some p) && b.all (fun p => a.get p.cid == some p)


def healthyPeer (base : C04.Cfg) (p : Nat) : Bool :=
  (C03.stateOf { desc := false, rmin := 1, rmax := 1, peers := base.peers, current := [], blacklist := [], priority := [] } p).healthy

def effMin (base : C04.Cfg) (p : Pin) : Int := if p.opts.rmin == 0 then base.defMin else p.opts.rmin
def effMax (base : C04.Cfg) (p : Pin) : Int := if p.opts.rmax == 0 then base.defMax else p.opts.rmax

/-- healthy holders other than the failed peer -/
def healthyHolders (base : C04.Cfg) (failed : Nat) (p : Pin) : List Nat :=
  p.allocs.filter (fun a => a != failed && healthyPeer base a)

def underReplicated (base : C04.Cfg) (failed : Nat) (p : Pin) : Bool :=
  p.allocs.contains failed && decide (0 < effMin base p) &&
  decide (((healthyHolders base failed p).length : Int) < effMin base p)

def pinLoggers (logs : Logs) (c : Nat) : List Nat :=
  (logs.filter (fun l => l.2.any (fun e => match e with | .logPin p => p.cid == c | _ => false))).map (·.1)
def unpinLoggers (logs : Logs) (c : Nat) : List Nat :=
  (logs.filter (fun l => l.2.any (fun e => match e with | .logUnpin k => k == c | _ => false))).map (·.1)

def allocInput (base : C04.Cfg) (failed : Nat) (p : Pin) : C03.Input :=
  { desc := base.desc, rmin := effMin base p, rmax := effMax base p, peers := base.peers,
    current := p.allocs, blacklist := [failed], priority := [] }

/-- the member whose decision it is, for an alert: the closest among the members other than the failed one -/
def decider (r : Round) (failed : Nat) (c : Nat) : Option PeerCfg :=
  match r.kind with
  | "remove" => r.actors.head?
  | _ => r.actors.find? (fun a => isClosest r.w a.self (some failed) c)

def canAct (a : PeerCfg) : Bool := !a.follower && !a.disableRepin

/-- what the statement demands whatever the members see: nothing removed, nothing added, options kept,
    pins the failed peer does not hold left alone; an unexpired pin unpinned by none -/
def generalClauses (r : Round) (post : PinMap) (logs : Logs) : List (String × Bool) :=
  match r.kind, r.failed with
  | "sync", _ =>
    r.pre.map (fun p => ("expiry_unexpired_unpinned_by_none",
      expired p || p.type != .dataT || ((unpinLoggers logs p.cid).isEmpty && post.get p.cid == some p)))
  | _, some failed =>
    [("no_pin_removed", r.pre.all (fun p => (post.get p.cid).isSome) &&
                        logs.all (fun l => l.2.all (fun e => match e with | .logUnpin _ => false | _ => true))),
     ("nothing_added", post.all (fun q => (r.pre.get q.cid).isSome)),
     ("options_preserved", r.pre.all (fun p => match post.get p.cid with
        | some q => ({ q with allocs := p.allocs } : Pin) == p
        | none => true)),
     ("not_held_untouched", r.pre.all (fun p => p.allocs.contains failed ||
        (post.get p.cid == some p && (pinLoggers logs p.cid).isEmpty)))]
  | _, none => [("bad_round", false)]

/-- a repeated alert: a pin that the first round re-homed away from the failed peer is not re-pinned again -/
def rehomedOnce (failed : Nat) (post1 : PinMap) (logs1 logs2 : Logs) : Bool :=
  post1.all (fun q => q.allocs.contains failed || (pinLoggers logs1 q.cid).isEmpty || (pinLoggers logs2 q.cid).isEmpty)

def clauses (r : Round) (base : C04.Cfg) (post : PinMap) (logs : Logs) : List (String × Bool) :=
  if r.nonPing then [("non_ping_alert_ignored", samePinset r.pre post && logs.all (fun l => l.2.isEmpty))] else
  if !r.agreed then generalClauses r post logs else
  match r.kind, r.failed with
  | "sync", _ =>
    r.pre.map (fun p =>
      let us := unpinLoggers logs p.cid
      ("expiry_" ++ (if expired p then "expired_unpinned_by_exactly_one" else "unexpired_unpinned_by_none"),
        if p.type != .dataT then true     -- shard / cluster-DAG / meta entries are removed with their content root
        else if expired p then
          -- exactly one member is closest; it unpins unless it is a follower
          (match r.actors.find? (fun a => isClosest r.w a.self none p.cid) with
           | some a => if a.follower then us.isEmpty && post.get p.cid == some p
                       else us == [a.self] && (p.type != .dataT || (post.get p.cid).isNone)
           | none => false)
        else us.isEmpty && post.get p.cid == some p))
  | _, some failed =>
    [("no_pin_removed", r.pre.all (fun p => (post.get p.cid).isSome) &&
                        logs.all (fun l => l.2.all (fun e => match e with | .logUnpin _ => false | _ => true))),
     ("nothing_added", post.all (fun q => (r.pre.get q.cid).isSome)),
     ("options_preserved", r.pre.all (fun p => match post.get p.cid with
        | some q => ({ q with allocs := p.allocs } : Pin) == p
        | none => true))] ++
    r.pre.map (fun p =>
      let q := post.get p.cid
      let d := decider r failed p.cid
      if !underReplicated base failed p then
        (if decide (((healthyHolders base failed p).length : Int) > effMax base p) && p.allocs.contains failed
         then "still_meets_min_untouched_overallocated" else "still_meets_min_untouched", q == some p)
      else if !(match d with | some a => canAct a | none => false) then
        ("no_active_decider_untouched", q == some p)
      else if p.opts.expire.beforeNow || !(C03.allocate (allocInput base failed p) matches .ok _) then
        ("cannot_be_rehomed", true)
      else
        ("rehomed_to_healthy_peers_without_failed",
          match q with
          | some q => !q.allocs.contains failed && C03.holds (allocInput base failed p) (.ok q.allocs)
          | none => false)) ++
    (if r.kind == "alert" then
      r.pre.map (fun p => ("at_most_one_member_repins", decide ((pinLoggers logs p.cid).length ≤ 1)))
     else [])
  | _, none => [("bad_round", false)]

def holds (r : Round) (base : C04.Cfg) (post : PinMap) (logs : Logs) : Bool := (clauses r base post logs).all (·.2)

end CV.C10
