/-
C14 — the property, written from its statement, as executable clause checkers
over what was observed on the IMPLEMENTATION (the driver applies them to the
harness's case lines; Props/C14 proves them for everything the model allows).

Statement, clause by clause
 (a) exporting the pinset and importing it elsewhere (import replaces whatever was
     there) reproduces the same pinset                     → `export_import_id`, `export_import_crdt_id`
 (b) saving it as a Raft snapshot and reading it offline / starting a peer on it
                                                            → `snapshot_offline_id`, `snapshot_start_id`
 (c) serialising then deserialising the state              → `marshal_unmarshal_id`
     — all for every pinset over well-formed pins, whatever the target held before.
 (d) cleaning Raft data that holds a snapshot keeps it recoverable as the newest
     (`rot_newest`) of at most N rotated backups (`rot_at_most_n`), older backups
     shifting by one (`rot_shift`) and only the oldest being discarded
     (`rot_only_oldest_dropped`).
 (e) the peer-address file reads back as the same addresses (`ps_same_addresses`,
     `ps_imported_addresses`) in the same priority order (`ps_sorted_by_priority`,
     `ps_same_priority_order`); unparsable lines are skipped rather than fatal
     (`bad_lines_skipped`).

Reading used for (d) when the pre-existing folders have gaps or lie outside the
window 0..N-1 (the statement quantifies over any pre-existing folder set): "shifting
by one" is demanded of the backups that have to make room, i.e. the unbroken run
old.0, old.1, … ; backups behind a gap and folders with an index ≥ N stay where they are;
the "oldest" that may be discarded is old.(N-1), and only when all N slots were taken.
-/
import ClusterVerif.Model.C14
namespace CV.C14

/-! ## (a)–(c) pinset round trips -/

def nodupCids : List Pin → Bool
  | [] => true
  | p :: t => !(t.any (fun q => q.cid == p.cid)) && nodupCids t

/-- the same pinset: one pin per cid on both sides and the same pins, as sets -/
def samePinset (a b : List Pin) : Bool :=
  nodupCids a && nodupCids b && a.all (fun p => b.contains p) && b.all (fun p => a.contains p)

/-- one observed round trip: did the operations succeed, and the pinset listed afterwards -/
structure RT where
  ok   : Bool
  pins : List Pin
  deriving Repr

structure PinsIn where
  gen    : List Pin      -- pins added to the source state, in order
  prior  : List Pin      -- pins the target held before the round trip
  damage : Nat           -- 0: the export stream is imported as written; 1-3, 10: cut/garbled;
                         -- 4-7: reshaped only (no final newline, extra whitespace, one line, CRLF);
                         -- 8, 9, 11, 12: documents added that do not change what the stream says (see `harmless`)
  deriving Repr

structure PinsOut where
  src   : List Pin       -- the source pinset (`State.List`)
  exp   : Option RT      -- raft state manager export → raft state manager import
  expc  : Option RT      -- … → crdt state manager import → crdt export → raft import
  mar   : Option RT      -- Marshal → Unmarshal
  snap  : Option RT      -- SnapshotSave → OfflineState
  start : Option RT      -- SnapshotSave → a Raft peer started on the folder
  deriving Repr

def rtSame (src : List Pin) : Option RT → Bool
  | none => true                                 -- not exercised in this case
  | some r => r.ok && samePinset r.pins src

def pinsWf (i : PinsIn) : Bool := i.gen.all wfPin && i.prior.all wfPin

/-- The stream still says what the exported one says: the exported sequence of JSON documents as
    written (0), reshaped (4-7: white space between documents is not part of them), or with documents
    added that name no other pin and are not the last word on any pin — the whole export once more (8),
    a record without "cid" at the end (9: it names no pin), the first document repeated at the end (11),
    a changed copy of the first document in FRONT (12: "import" of a cid that comes again later — the
    later, exported, document is the one that counts). 1-3 and 10: cut or followed by bytes that are
    not JSON. -/
def harmless (damage : Nat) : Bool := damage == 0 || (decide (4 ≤ damage) && damage != 10)

def pinsClauses (i : PinsIn) (o : PinsOut) : List (String × Bool) :=
  if !pinsWf i then [] else
  (if harmless i.damage then
    [("export_import_id", rtSame o.src o.exp), ("export_import_crdt_id", rtSame o.src o.expc)] else []) ++
  [("marshal_unmarshal_id", rtSame o.src o.mar),
   ("snapshot_offline_id", rtSame o.src o.snap),
   ("snapshot_start_id", rtSame o.src o.start)]

/-! ## (d) rotation of the Raft data folder -/

/-- all of old.0 … old.i exist -/
def runUpTo (d : Dirs α) (i : Nat) : Bool := (List.range (i + 1)).all (fun j => (d.old j).isSome)

/-- all N slots are taken -/
def windowFull (keep : Nat) (d : Dirs α) : Bool := (List.range keep).all (fun j => (d.old j).isSome)

/-- Clauses for one cleaning of data that holds the snapshot `s`, retention `keep` ≥ 1,
    checked on the indices below `m` (the harness lists that window of the directory). -/
def rotClauses [DecidableEq α] (keep m : Nat) (s : α) (b a : Dirs α) : List (String × Bool) :=
  [("rot_newest", a.old 0 == some (.snap s)),
   ("rot_shift", (List.range m).all (fun i => !(decide (i + 1 < keep) && runUpTo b i) || a.old (i + 1) == b.old i)),
   ("rot_only_oldest_dropped", (List.range m).all (fun i =>
      (b.old i).isNone || (i + 1 == keep && windowFull keep b) ||
      (if decide (i + 1 < keep) && runUpTo b i then a.old (i + 1) == b.old i else a.old i == b.old i))),
   ("rot_at_most_n", (List.range m).all (fun i => decide (i < keep) || a.old i == b.old i))]

/-- clauses for one step `b --op--> a` under retention `keep` (`a = none`: the call panicked;
    `clean` says the directory holds nothing but the data folder and old.<i> folders) -/
def rotStepClauses [DecidableEq α] (keep m : Nat) (b : Dirs α) (op : Op α) (a : Option (Dirs α)) (clean : Bool) :
    List (String × Bool) :=
  if keep = 0 then [] else
  match b.data, op with
  | some (.snap s), .clean =>
    (match a with
     | none => [("rot_no_panic", false)]
     | some a => ("rot_cleaned", a.data == none && clean) :: rotClauses keep m s b a)
  | some (.snap s), .save t =>
    (match a with
     | none => [("rot_no_panic", false)]
     | some a => ("snapshot_saved", a.data == some (.snap t) && clean) :: rotClauses keep m s b a)
  | _, .save t =>
    (match a with
     | none => [("rot_no_panic", false)]
     | some a => [("snapshot_saved", a.data == some (.snap t) && clean)])
  | _, _ => []

/-- what the harness saw in the directory -/
structure ODirs where
  data  : Option (Folder Nat)
  old   : List (Option (Folder Nat))     -- old.0 … old.(m-1)
  extra : Bool                           -- an entry that is neither the data folder nor old.<i>, i < m
  deriving DecidableEq, Repr

def ODirs.dirs (o : ODirs) : Dirs Nat := { data := o.data, old := fun i => o.old.getD i none }

/-- retention in force before each step -/
def keeps (k : Nat) : List (Op α) → List Nat
  | [] => []
  | o :: t => k :: keeps (match o with | .setKeep k' => k' | _ => k) t

def rotTraceClauses (m : Nat) : List Nat → ODirs → List (Op Nat) → List (Option ODirs) → List (String × Bool)
  | k :: ks, b, op :: ops, a :: as =>
    rotStepClauses k m b.dirs op (a.map (·.dirs)) (match a with | some a' => !a'.extra | none => true) ++
      (match a with | some a' => rotTraceClauses m ks a' ops as | none => [])
  | _, _, _, _ => []

/-! ## (e) the peerstore file -/

structure PSOut where
  pinfos : List (Nat × List Nat)   -- PeerInfos(peers) on the saving host = what SavePeerstore is given
  file   : List Line               -- the lines of the written file
  loaded : List (Option Line)      -- LoadPeerstore (none = a nil address)
  order  : List Nat                -- PeerInfos on a fresh host after ImportPeers(loaded): the priority order
  after  : List (Nat × List Nat)   -- that host's addresses per peer (sorted)
  panic  : Bool
  deriving Repr

def flatten (pinfos : List (Nat × List Nat)) : List Line :=
  pinfos.flatMap (fun e => e.2.map (fun a => Line.full a e.1))

def psClauses (i : PSInput) (o : PSOut) : List (String × Bool) :=
  [("ps_no_panic", !o.panic),
   ("ps_same_addresses", o.file == flatten o.pinfos && o.loaded == (flatten o.pinfos).map some),
   ("ps_sorted_by_priority", sortedByPrio i.known (o.pinfos.map (·.1))),
   ("ps_same_priority_order", o.order == o.pinfos.map (·.1)),
   ("ps_imported_addresses", o.after.length == o.pinfos.length &&
      o.pinfos.all (fun e => o.after.any (fun f => f.1 == e.1 && sameMembers f.2 e.2)))]

structure FileOut where
  loaded : List (Option Line)
  order  : List Nat
  panic  : Bool
  deriving Repr

def dedupKeepFirst : List Nat → List Nat
  | [] => []
  | x :: xs => x :: (dedupKeepFirst xs).filter (· != x)

/-- collapse runs of equal neighbours -/
def collapse : List Nat → List Nat
  | [] => []
  | [x] => [x]
  | x :: y :: t => if x == y then collapse (y :: t) else x :: collapse (y :: t)

def nodupNat : List Nat → Bool
  | [] => true
  | x :: xs => !xs.contains x && nodupNat xs

/-- every peer's lines are adjacent (then "line order" orders the peers unambiguously) -/
def contiguous (l : List Nat) : Bool := nodupNat (collapse l)

def linePeers (self : Nat) (file : List Line) : List Nat :=
  file.filterMap (fun l => match l with | .full _ p => if p == self then none else some p | _ => none)

/-- The lines of the file that are multiaddresses as written: a parsable text, ended by "\n" or
    "\r\n" or the end of the file (a second "\r" belongs to the text and spoils it); a byte order
    mark belongs to the text of the first line. -/
def validLines (sh : FileShape) : List FLine → List Line
  | [] => []
  | fl :: t => (if fl.l.loads && decide (fl.cr ≤ 1) && !sh.bom then [fl.l] else []) ++
      (t.filter (fun x => x.l.loads && decide (x.cr ≤ 1))).map (·.l)

/-- every parsable line of the file is loaded (and nothing else), in file order — whatever the
    line ends and whether or not the last line is terminated -/
def fileClauses (self : Nat) (sh : FileShape) (file : List FLine) (o : FileOut) : List (String × Bool) :=
  [("bad_lines_skipped", !o.panic && o.loaded == (validLines sh file).map some)] ++
  (if contiguous (linePeers self (validLines sh file)) then
     [("ps_same_priority_order", o.order == dedupKeepFirst (linePeers self (validLines sh file)))] else [])

def allHold (cs : List (String × Bool)) : Bool := cs.all (·.2)

end CV.C14
