/-
C14 — the property under a crash, as executable clauses over what was observed on the
IMPLEMENTATION (a real process killed between two filesystem calls, the directory read back with
the real `OfflineState`, the operation restarted).

Reading of the statement used here. "Cleaning Raft data that holds a snapshot keeps it
recoverable as the newest of at most N rotated backups, older backups shifting by one and only the
oldest being discarded" is demanded of every moment of the operation, not only of its end:
 * `crash_data_recoverable` — the snapshot that was in the data folder loads from the data folder or
   from old.0 at every crash point;
 * `crash_only_oldest_lost` — every other backup still loads, from its slot or from the next one,
   except the one in old.(N-1) when all N slots were taken;
 * `crash_at_most_n` — nothing is ever created or touched outside old.0 … old.(N-1);
 * `crash_snapshot_unmixed` — the data folder never holds anything but what it held, nothing, or the
   new snapshot (`OfflineState` never fails on it and never reads a mixture);
 * `crash_restart_repairs` — running the interrupted operation again ends where the uninterrupted
   operation ends (the numbering of the backups is repaired).
"The peer-address file … reads back as the same addresses in the same priority order":
 * `peerstore_save_atomic_or_absent` — after a crash while saving, the file reads back as the
   addresses saved before or as the new ones, in order, never a mixture or a part;
 * `ps_truncated_tail_harmless` — (about `LoadPeerstore`, "unparsable lines are skipped") a file cut
   anywhere inside a line still yields every whole line before the cut, in order.
-/
import ClusterVerif.Model.C14Crash
import ClusterVerif.Spec.C14
namespace CV.C14

/-- tag the driver gives a folder whose snapshot does not load (`OfflineState` fails) -/
def brokenTag : Nat := 9998

def sameOn (m : Nat) (a b : Dirs Nat) : Bool :=
  a.data == b.data && (List.range m).all (fun i => a.old i == b.old i)

def newOf : COp Nat → Option Nat
  | .save s => some s
  | .imp s true => some s
  | _ => none

/-- clauses for one crash point: `b` before the operation, `a` after the kill, `r` after the
    restart, `fin` after the uninterrupted operation; indices below `m` are looked at -/
def crashClauses (keep m : Nat) (b : Dirs Nat) (op : COp Nat) (a r fin : Dirs Nat) : List (String × Bool) :=
  [("crash_data_recoverable", match b.data with
      | some (.snap s) => a.data == some (.snap s) || a.old 0 == some (.snap s)
      | _ => true),
   ("crash_only_oldest_lost", (List.range m).all (fun i =>
      match b.data with
      | some (.snap _) => (b.old i).isNone || (i + 1 == keep && windowFull keep b) ||
                          a.old i == b.old i || a.old (i + 1) == b.old i
      | _ => a.old i == b.old i)),
   ("crash_at_most_n", (List.range m).all (fun i => decide (i < keep) || a.old i == b.old i)),
   ("crash_snapshot_unmixed", a.data == b.data || a.data == none || a.data == some .nosnap ||
      (match newOf op with | some s => a.data == some (.snap s) | none => false)),
   ("crash_restart_repairs", sameOn m a fin || sameOn m r fin)]

/-- one observed peerstore crash: what `LoadPeerstore` returns after the kill, after the restart -/
def psCrashClauses (old new : List Line) (kills : List (List Line × List Line)) (rerunClean : Bool) (cutMismatch : Nat) :
    List (String × Bool) :=
  [("peerstore_save_atomic_or_absent", kills.all (fun k => k.1 == old || k.1 == new)),
   ("crash_restart_repairs", rerunClean && kills.all (fun k => k.2 == new)),
   ("ps_truncated_tail_harmless", cutMismatch == 0)]

end CV.C14
