/-
C17 — the property, written from its statement, as named clause checkers over a script
(the operations performed on a set of peers, with the outcomes the IMPLEMENTATION returned)
and the observation taken once the peers settled. The driver applies them to what the
implementation reported.

Statement: "With Raft, after adding or removing a peer succeeds every remaining member reports the
same peerset, with or without that peer; adding a present peer or removing an absent one is a
harmless no-op and the last peer cannot be removed. A newly added peer holds the same pinset as the
others before it reports itself ready, and a removed peer stops itself and discards its consensus
data, its pins having been re-homed first when re-pinning is enabled."

Reading used here (plain set bookkeeping over the script, no log, no Raft):
* the peerset expected after a script = the bootstrap peers, plus every peer whose add/join succeeded,
  minus every peer whose removal succeeded;
* the pinset expected = every successfully logged pin (as the state stores it) minus every successful unpin;
* "remaining member" = a running peer that is in the expected peerset;
* "harmless no-op" = the call succeeds; that nothing changed is what `agree` and `pinset_kept` then demand;
* "cannot be removed" = the call fails (and `agree` demands the peer is still reported);
* "before it reports itself ready" = the pinset read at the instant `Ready()` fired;
* "stops itself" = `Done()` closed; "discards its consensus data" = after `Clean` the Raft data folder holds neither
  the database nor a snapshot (every time the peer is removed, however often it was removed before);
* "re-homed first" = in the calls `PeerRemove` made, every pin that the removal leaves with fewer holders than
  its minimum factor, and that the other members can take, was logged again without the peer before `RmPeer` was called;
* the no-op clauses are asked of calls issued at remaining members (a removed peer that still runs may fail them).
-/
import ClusterVerif.Model.C17
namespace CV.C17
open CV

structure SpecSt where
  members : List Nat
  pinset : PinMap
  running : List Nat
  departed : List Nat
  deriving Repr

def specInit (init : List Nat) : SpecSt :=
  { members := normPeers init, pinset := [], running := normPeers init, departed := [] }

def okB (r : Res) : Bool := r == .ok

/-- the pins logged again while a peer is being removed -/
def repinFold (calls : List Call) (m : PinMap) : PinMap :=
  calls.foldl (fun m c => match c with | .logPin q => PinMap.put q.stored m | _ => m) m

/-- bookkeeping: how a step with its reported outcome changes what is expected -/
def advance (s : SpecSt) : Op → SpecSt
  | .start j => { s with running := insertPeer j s.running }
  | .add _ j res => if okB res then { s with members := insertPeer j s.members } else s
  | .rm _ j res => if okB res then { s with members := erasePeer j s.members } else s
  | .pin _ p res => if okB res then { s with pinset := PinMap.put p.stored s.pinset } else s
  | .unpin _ c res => if okB res then { s with pinset := s.pinset.erase c } else s
  | .ready .. => s
  | .nonvoter _ j res => if okB res then { s with members := insertPeer j s.members } else s
  | .sync .. => s
  | .stop j => { s with running := erasePeer j s.running }
  | .restart j => { s with running := insertPeer j s.running, departed := erasePeer j s.departed }
  | .clean j _ _ => { s with running := erasePeer j s.running }
  | .join j _ res _ =>
    if okB res then { s with members := insertPeer j s.members, running := insertPeer j s.running, departed := erasePeer j s.departed } else s
  | .peerRm _ p res calls =>
    let pinset' := repinFold calls s.pinset
    if okB res then
      { s with pinset := pinset', members := erasePeer p s.members,
               running := if s.running.contains p then erasePeer p s.running else s.running,
               departed := if s.running.contains p then insertPeer p s.departed else s.departed }
    else { s with pinset := pinset' }
  | .leave j res =>
    if okB res then
      { s with members := erasePeer j s.members, running := erasePeer j s.running, departed := insertPeer j s.departed }
    else { s with running := erasePeer j s.running }

def posOf (c : Call) : List Call → Nat
  | [] => 0
  | x :: xs => if x == c then 0 else posOf c xs + 1

/-- the pin was logged again, without `p`, before `RmPeer(p)` -/
def rehomedBefore (calls : List Call) (p : Nat) (cid : Nat) : Bool :=
  (calls.takeWhile (fun c => c != .rmPeer p)).any (fun c => match c with
    | .logPin q => q.cid == cid && !q.allocs.contains p
    | _ => false)

/-- the entry is held by `p` and, without `p`, by fewer members than its minimum factor asks -/
def needsRehome (members : List Nat) (p : Nat) (pin : Pin) : Bool :=
  pin.allocs.contains p &&
  decide (((pin.allocs.filter (fun a => a != p && members.contains a)).length : Int) < pin.opts.rmin)

/-- re-allocating away from `p` is possible: enough other members for the minimum factor -/
def canRehome (members : List Nat) (p : Nat) (pin : Pin) : Bool :=
  decide (pin.opts.rmin ≤ ((erasePeer p members).length : Int))

/-- a running peer of the expected peerset -/
def remains (s : SpecSt) (i : Nat) : Bool := s.running.contains i && s.members.contains i

/-- clauses one step must meet, given what was expected before it -/
def checkOp (repin : Bool) (s : SpecSt) : Op → List (String × Bool)
  | .add a j res => [("add_present_noop", !(remains s a && s.members.contains j) || okB res)]
  | .rm a j res => [("rm_absent_noop", !(remains s a && !s.members.contains j) || okB res),
                    ("last_peer_kept", !(s.members == [j]) || !okB res)]
  | .ready _ _ _ _ pins => [("joiner_synced", canonMap pins == canonMap s.pinset)]
  | .join _ _ res pins => [("joiner_synced", !okB res || canonMap pins == canonMap s.pinset)]
  | .peerRm a p res calls =>
    [("rm_absent_noop", !(remains s a && !s.members.contains p) || okB res),
     ("last_peer_kept", !(s.members == [p]) || !okB res),
     ("rehomed_first", !(repin && okB res) ||
        s.pinset.all (fun pin => !(needsRehome s.members p pin && canRehome s.members p pin) || rehomedBefore calls p pin.cid))]
  | .leave j res => [("last_peer_kept", !(s.members == [j]) || !okB res)]
  | .clean j gone _ => [("removed_cleans", s.members.contains j || gone)]
  | _ => []

def checkOps (repin : Bool) : SpecSt → List Op → List (String × Bool)
  | _, [] => []
  | s, op :: rest => checkOp repin s op ++ checkOps repin (advance s op) rest

def finalSt : SpecSt → List Op → SpecSt
  | s, [] => s
  | s, op :: rest => finalSt (advance s op) rest

/-- clauses on the observation taken after the script -/
def checkObs (s : SpecSt) (o : Obs) : List (String × Bool) :=
  let remaining := o.members.filter (fun m => s.running.contains m.id && s.members.contains m.id)
  [("agree", remaining.all (fun m => m.peers == s.members)),
   ("pinset_kept", remaining.all (fun m => canonMap m.pins == canonMap s.pinset)),
   ("removed_stops", s.departed.all (fun j => o.gone.any (fun g => g.1 == j && g.2.1))),
   ("removed_cleans", s.departed.all (fun j => o.gone.any (fun g => g.1 == j && g.2.2)))]

def clauses (k : Case) : List (String × Bool) :=
  checkOps k.repin (specInit k.init) k.ops ++ checkObs (finalSt (specInit k.init) k.ops) k.obs

def holds (k : Case) : Bool := (clauses k).all (·.2)

end CV.C17
