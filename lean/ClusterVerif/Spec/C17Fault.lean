/-
C17 — the property under failing forwards / failing Raft calls, and under concurrent issue, written from the text:

* an acknowledged membership change is in every remaining member's peerset once everybody caught up (`ack_in_all`);
* a change reported as FAILED left the peerset as it was on every member, or is visible on all of them — never
  split (`failed_not_split`);
* adding a present peer / removing an absent peer is an acknowledged no-op, provided the fault plan lets one of the
  `commit_retries + 1` attempts through (`add_present_noop`, `rm_absent_noop`); the last peer cannot be removed;
* at every sync point the remaining members report ONE peerset and ONE pinset (`agree`, `pinset_kept`); every
  acknowledged pin is there; a pin whose call failed is not required (and not forbidden: Raft may have ordered it).

Plain bookkeeping over what the IMPLEMENTATION reported; no log, no retry loop.
-/
import ClusterVerif.Model.C17Fault
import ClusterVerif.Spec.C17
namespace CV.C17
open CV

structure FSt where
  members : List Nat
  pinset : PinMap
  deriving Repr

/-- the fault plan lets one of the `retries + 1` attempts through (nothing is injected at the leader itself; plans with a
    leadership loss in mid-call are left out) -/
def planPasses (retries a lead : Nat) (plan : List PT) : Bool :=
  !plan.contains .x && !plan.contains .p && (a == lead || decide (plan.length ≤ retries))

def fAdvance (s : FSt) : FOp → FSt
  | .add _ j _ _ _ _ _ has => if has == .all then { s with members := insertPeer j s.members } else s
  | .rm _ j _ _ _ _ _ has => if has == .none then { s with members := erasePeer j s.members } else s
  | .pin _ p => { s with pinset := PinMap.put p.stored s.pinset }

def fCheckOp (retries : Nat) (init : List Nat) (s : FSt) : FOp → List (String × Bool)
  | .add a j lead plan res _ _ has =>
    [("ack_in_all", !okB res || has == .all),
     ("failed_not_split", okB res || has == .all || (has == .none && !s.members.contains j)),
     ("add_present_noop",
        !(init.contains a && s.members.contains a && s.members.contains j && planPasses retries a lead plan) || okB res)]
  | .rm a j lead plan res _ _ has =>
    [("ack_in_all", !okB res || has == .none),
     ("failed_not_split", okB res || has == .none || (has == .all && s.members.contains j)),
     ("rm_absent_noop",
        !(init.contains a && s.members.contains a && !s.members.contains j && planPasses retries a lead plan) || okB res),
     ("last_peer_kept", !(s.members == [j]) || !okB res)]
  | .pin _ _ => []

def fCheckOps (retries : Nat) (init : List Nat) : FSt → List FOp → List (String × Bool)
  | _, [] => []
  | s, op :: rest => fCheckOp retries init s op ++ fCheckOps retries init (fAdvance s op) rest

def fFinal : FSt → List FOp → FSt
  | s, [] => s
  | s, op :: rest => fFinal (fAdvance s op) rest

def fCheckObs (init : List Nat) (s : FSt) (o : Obs) : List (String × Bool) :=
  let remaining := o.members.filter (fun m => init.contains m.id && s.members.contains m.id)
  [("agree", remaining.all (fun m => m.peers == s.members)),
   ("pinset_kept", remaining.all (fun m => canonMap m.pins == canonMap s.pinset))]

def fInit (init : List Nat) : FSt := { members := normPeers init, pinset := [] }

def fClauses (k : FCase) : List (String × Bool) :=
  fCheckOps k.retries k.init (fInit k.init) k.ops ++ fCheckObs k.init (fFinal (fInit k.init) k.ops) k.obs

def fHolds (k : FCase) : Bool := (fClauses k).all (·.2)

/-! ### concurrent phases -/

structure CSt where
  members : List Nat     -- peers certainly in the peerset
  unsureP : List Nat     -- peers whose last change was reported as failed, or raced with an opposite change
  pinset : PinMap        -- the value of every cid not listed in `unsureC`
  unsureC : List Nat     -- cids touched by a failed call, or by several calls of one phase
  deriving Repr

def COp.subject : COp → Option Nat
  | .add _ j _ => some j
  | .rm _ j _ => some j
  | _ => none

def COp.cid : COp → Option Nat
  | .pin _ p _ => some p.cid
  | .unpin _ c _ => some c
  | _ => none

def COp.res : COp → Res
  | .add _ _ r => r
  | .rm _ _ r => r
  | .pin _ _ r => r
  | .unpin _ _ r => r

/-- a phase: a peer / cid named by exactly one call, which was acknowledged, gets that call's effect; every other
    touched peer / cid becomes unsure; untouched ones stay as they were -/
def cAdvance (s : CSt) (ph : List COp) : CSt :=
  ph.foldl (fun t op =>
    match op with
    | .add _ j res =>
      if okB res && (ph.filter (fun o => o.subject == some j)).length == 1
      then { t with members := insertPeer j t.members, unsureP := erasePeer j t.unsureP }
      else { t with unsureP := insertPeer j t.unsureP }
    | .rm _ j res =>
      if okB res && (ph.filter (fun o => o.subject == some j)).length == 1
      then { t with members := erasePeer j t.members, unsureP := erasePeer j t.unsureP }
      else { t with unsureP := insertPeer j t.unsureP }
    | .pin _ p res =>
      if okB res && (ph.filter (fun o => o.cid == some p.cid)).length == 1
      then { t with pinset := PinMap.put p.stored t.pinset, unsureC := erasePeer p.cid t.unsureC }
      else { t with unsureC := insertPeer p.cid t.unsureC }
    | .unpin _ c res =>
      if okB res && (ph.filter (fun o => o.cid == some c)).length == 1
      then { t with pinset := t.pinset.erase c, unsureC := erasePeer c t.unsureC }
      else { t with unsureC := insertPeer c t.unsureC }) s

def cFinal (s : CSt) (phases : List (List COp)) : CSt := phases.foldl cAdvance s

def sureMap (unsure : List Nat) (m : PinMap) : PinMap := m.filter (fun p => !unsure.contains p.cid)

/-- clauses of a call, given what was certain before its phase: no-ops are acknowledged at a member whose own
    membership is not being changed in the phase, in phases that remove no running peer (removing the leader while
    other calls are in flight is a fault for them: they may fail) -/
def cCheckPhase (init : List Nat) (s : CSt) (ph : List COp) : List (String × Bool) :=
  let calm : Bool := !ph.any (fun o => match o with | .rm _ j _ => init.contains j | _ => false)
  let steady (a : Nat) : Bool :=
    calm && init.contains a && s.members.contains a && !s.unsureP.contains a && !ph.any (fun o => o.subject == some a)
  ph.flatMap (fun op =>
    match op with
    | .add a j res =>
      [("add_present_noop", !(steady a && steady j) || okB res)]
    | .rm a j res =>
      [("rm_absent_noop",
          !(steady a && !s.members.contains j && !s.unsureP.contains j && (ph.filter (fun o => o.subject == some j)).length == 1) || okB res),
       ("last_peer_kept", !(s.members == [j] && s.unsureP.isEmpty && !ph.any (fun o => match o with | .add .. => true | _ => false)) || !okB res)]
    | _ => [])

def cCheckPhases (init : List Nat) : CSt → List (List COp) → List (String × Bool)
  | _, [] => []
  | s, ph :: rest => cCheckPhase init s ph ++ cCheckPhases init (cAdvance s ph) rest

def cCheckObs (init : List Nat) (s : CSt) (o : Obs) : List (String × Bool) :=
  let remaining := o.members.filter (fun m => init.contains m.id && s.members.contains m.id && !s.unsureP.contains m.id)
  let first := remaining.head?
  [("agree", remaining.all (fun m => some m.peers == first.map (·.peers))),
   ("ack_in_all", remaining.all (fun m =>
      s.members.all (fun j => s.unsureP.contains j || m.peers.contains j) &&
      m.peers.all (fun j => s.members.contains j || s.unsureP.contains j))),
   ("pinset_agree", remaining.all (fun m => some (canonMap m.pins) == first.map (fun f => canonMap f.pins))),
   ("pinset_kept", remaining.all (fun m => canonMap (sureMap s.unsureC m.pins) == canonMap (sureMap s.unsureC s.pinset)))]

def cInit (init : List Nat) : CSt := { members := normPeers init, unsureP := [], pinset := [], unsureC := [] }

def cClauses (k : CCase) : List (String × Bool) :=
  cCheckPhases k.init (cInit k.init) k.phases ++ cCheckObs k.init (cFinal (cInit k.init) k.phases) k.obs

def cHolds (k : CCase) : Bool := (cClauses k).all (·.2)

/-! ### a joiner during a burst of pins -/

/-- "A newly added peer holds the same pinset as the others before it reports itself ready": when `AddPeer` was issued
    the others held every pin acknowledged until then; the joiner holds them when `Ready()` fires (later pins may or
    may not have reached it). After the burst everybody — the joiner included — reports one peerset and one pinset. -/
def jClauses (k : JCase) : List (String × Bool) :=
  let before := k.pre ++ k.burst.take k.acked
  let everything := (k.pre ++ k.burst).foldl (fun m p => PinMap.put p.stored m) ([] : PinMap)
  let members := k.obs.members.filter (fun mo => (k.joiner :: k.init).contains mo.id)
  [("joiner_synced", !okB k.addRes || before.all (fun p => (canonMap k.ready).get p.cid == some (canonPin p.stored))),
   ("ack_in_all", !okB k.addRes || members.all (fun mo => mo.peers == insertPeer k.joiner (normPeers k.init))),
   ("pinset_kept", members.all (fun mo => canonMap mo.pins == canonMap everything))]

def jHolds (k : JCase) : Bool := (jClauses k).all (·.2)

end CV.C17
