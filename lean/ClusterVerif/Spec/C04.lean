/-
C04 — the property, written from its statement, as named clause checkers over one
API call: (configuration, pinset before, call, result, pinset after). The driver
applies them to what the IMPLEMENTATION returned and stored.

Reading used here
* "requested options (cluster defaults substituted for unset replication factors)":
  every option field of the stored entry equals the request's, except the replication
  factors when the request left them 0 (then the configured defaults), and except the
  documented transient field (user allocations, never stored).
* "identical options" = all option fields equal (after default substitution), the request
  carrying no user allocations and no update source.
* "a valid allocation" = the stored allocation satisfies C03 for the peers' current metrics
  (Spec/C03 `holds`), with the previous allocation as current holders.
* refused = the call returns an error.
* the RPC pin entry (`rpcPin`, used by the adders for shard / cluster-DAG / meta entries and
  with preset allocations) is held to the generic clauses (refused ⇒ unchanged, frame,
  follower), not to the option clauses of the user-facing `Pin`, and (round 8c) to
  `rpc_pin_stored_as_sent`: a NEW entry (no entry for that cid before, no update source) is
  stored with the type, reference and depth of the pin object that was sent, and with its
  preset allocations unless it asks to be pinned everywhere (factors −1/−1 after defaults).
* (round 8c) a pin object without a cid (`cid.Undef`, the number `noCid`) names no entry:
  `undefClauses` — such a request is refused and changes nothing.
-/
import ClusterVerif.Model.C04
import ClusterVerif.Spec.C03
namespace CV.C04
open CV

/-- pinsets compared as maps over a finite key set -/
def sameOn (keys : List Nat) (a b : PinMap) : Bool := keys.all (fun c => a.get c == b.get c)
def allKeys (a b : PinMap) : List Nat := a.keys ++ b.keys
def sameMap (a b : PinMap) : Bool := sameOn (allKeys a b) a b

def resolve (cfg : Cfg) (path : Nat) : Option Nat := lookup cfg.paths path

/-- effective request of a user-facing pin call: (cid, options) -/
def pinRequest (cfg : Cfg) : Op → Option (Nat × Opts)
  | .pin c o => some (c, o)
  | .pinPath p o => (resolve cfg p).map (fun c => (c, o))
  | _ => none

/-- the request is really a pin-update (option set to another cid) -/
def viaUpdate (c : Nat) (o : Opts) : Option Nat :=
  match o.update with
  | some u => if u != c then some u else none
  | none => none

def effMin (cfg : Cfg) (o : Opts) : Int := if o.rmin == 0 then cfg.defMin else o.rmin
def effMax (cfg : Cfg) (o : Opts) : Int := if o.rmax == 0 then cfg.defMax else o.rmax

/-- metadata equal as maps; the empty key (0) is not a real key (it is never serialised in requests) -/
def metaSame (a b : List (Nat × Nat)) : Bool :=
  a.all (fun kv => kv.1 == 0 || lookup b kv.1 == some kv.2) && b.all (fun kv => kv.1 == 0 || lookup a kv.1 == some kv.2)
def setSame (a b : List Nat) : Bool := a.all b.contains && b.all a.contains

/-- stored options carry the request (defaults substituted) -/
def carries (cfg : Cfg) (req : Opts) (st : Opts) : Bool :=
  st.rmin == effMin cfg req && st.rmax == effMax cfg req && st.name == req.name && st.mode == req.mode &&
  st.shard == req.shard && st.expire == req.expire && metaSame st.metadata req.metadata &&
  setSame st.origins req.origins && st.origins.length == req.origins.length

/-- cids a call is entitled to touch -/
def targets (cfg : Cfg) (pre : PinMap) : Op → List Nat
  | .pin c _ => [c]
  | .pinPath p _ => (resolve cfg p).toList
  | .update _ d _ => [d]
  | .rpcPin p => [p.cid]
  | .unpin c => c :: shardGroup c
  | .unpinPath p => match resolve cfg p with
      | some c => c :: shardGroup c
      | none => []
where
  shardGroup (c : Nat) : List Nat :=
    match pre.get c with
    | some p => if p.type == .metaT then
        match p.ref with
        | some r => r :: ((lookup cfg.blocks r).getD ((lookup cfg.lost r).getD []))
        | none => []
      else []
    | none => []

def isWrite : Op → Bool := fun _ => true

/-- requests the statement lists as refused -/
def mustRefuse (cfg : Cfg) (pre : PinMap) (op : Op) : Bool :=
  cfg.follower ||
  match op with
  | .pin .. | .pinPath .. =>
    (match pinRequest cfg op with
     | none => true      -- path does not resolve
     | some (c, o) =>
       match viaUpdate c o with
       | some u => (pre.get u).isNone          -- update of a CID that is not pinned
       | none =>
         !C03.factorsValid (effMin cfg o) (effMax cfg o) ||     -- invalid replication factors
         o.expire.beforeNow ||                                     -- expiry in the past
         (match pre.get c with
          | some e => e.type != .dataT ||                          -- a different pin type
                      (e.opts.mode == .recursive && o.mode == .direct)   -- recursive downgraded to direct
          | none => false))
  | .update s _ _ => (pre.get s).isNone
  | .unpin c => (pre.get c).isNone
  | .unpinPath p => match resolve cfg p with
      | some c => (pre.get c).isNone
      | none => true
  | .rpcPin _ => false

/-- C03 input for the allocation of a (re-)pin -/
def allocInput (cfg : Cfg) (pre : PinMap) (c : Nat) (o : Opts) : C03.Input :=
  { desc := cfg.desc, rmin := effMin cfg o, rmax := effMax cfg o, peers := cfg.peers,
    current := ((pre.get c).map (·.allocs)).getD [], blacklist := [], priority := o.ualloc }

def identicalRepin (cfg : Cfg) (pre : PinMap) (c : Nat) (o : Opts) : Option Pin :=
  match pre.get c with
  | some e => if carries cfg o e.opts && o.ualloc.isEmpty then some e else none
  | none => none

/-- a pin update copies the source's allocations and options to the new CID, keeps the source -/
def updateClauses (pre post : PinMap) (s d : Nat) (o : Opts) : List (String × Bool) :=
  match pre.get s, post.get d with
  | some src, some st =>
    [("update_copies_source",
        st.type == src.type && st.allocs == src.allocs && st.depth == src.depth &&
        st.opts.rmin == src.opts.rmin && st.opts.rmax == src.opts.rmax && st.opts.mode == src.opts.mode &&
        st.opts.shard == src.opts.shard && metaSame st.opts.metadata src.opts.metadata &&
        setSame st.opts.origins src.opts.origins &&
        st.opts.name == (if o.name != 0 then o.name else src.opts.name) &&
        st.opts.expire == (if o.expire.afterNow then o.expire else src.opts.expire)),
     ("update_keeps_source", s == d || post.get s == pre.get s)]
  | _, _ => [("update_copies_source", false)]

/-- unpin removes that CID's entry, for sharded content also its cluster-DAG and shard entries -/
def unpinClauses (cfg : Cfg) (pre post : PinMap) (c : Nat) : List (String × Bool) :=
  [("unpin_removes_entry", (c :: targets.shardGroup cfg pre c).all (fun k => (post.get k).isNone))]

/-- a successful user pin of `c` with options `o` -/
def pinClauses (cfg : Cfg) (pre post : PinMap) (c : Nat) (o : Opts) : List (String × Bool) :=
  match viaUpdate c o with
  | some u => updateClauses pre post u c o
  | none =>
    match post.get c with
    | none => [("pin_ok_effect", false)]
    | some st =>
      [("pin_stores_requested_options", st.type == PinType.dataT && carries cfg o st.opts),
       ("repin_identical_keeps_allocations",
          match identicalRepin cfg pre c o with
          | some e => st.allocs == e.allocs || e.allocs.isEmpty
          | none => true),
       ("pin_allocation_valid",
          match identicalRepin cfg pre c o with
          | some e => !e.allocs.isEmpty || C03.holds (allocInput cfg pre c o) (.ok st.allocs)
          | none => C03.holds (allocInput cfg pre c o) (.ok st.allocs))]

/-- the adders' pin object, new at its cid: stored with type / reference / depth as sent, preset
    allocations honoured (unless the pin asks for "everywhere") -/
def sentAsIs (cfg : Cfg) (pre post : PinMap) (p : Pin) : Bool :=
  match pre.get p.cid, viaUpdate p.cid p.opts, post.get p.cid with
  | none, none, some st =>
    st.type == p.type && st.ref == p.ref && st.depth == p.depth &&
    (p.allocs.isEmpty || (effMin cfg p.opts == -1 && effMax cfg p.opts == -1) || st.allocs == p.allocs)
  | _, _, _ => true

/-- `cid.Undef` as the driver numbers it (the token `-`; outside every cid universe) -/
def noCid : Nat := 4294967295

/-- the request names no cid at all -/
def opUndef (cfg : Cfg) : Op → Bool
  | .pin c _ => c == noCid
  | .rpcPin p => p.cid == noCid
  | .pinPath path _ => resolve cfg path == some noCid
  | _ => false

/-- a request without a cid is refused, nothing changes, and no entry is ever keyed by the undefined cid -/
def undefClauses (cfg : Cfg) (pre : PinMap) (op : Op) (res : Option Pin) (post : PinMap) : List (String × Bool) :=
  [("pin_without_cid_refused", !opUndef cfg op || (res.isNone && sameMap pre post))]

def genericClauses (cfg : Cfg) (pre : PinMap) (op : Op) (res : Option Pin) (post : PinMap) : List (String × Bool) :=
  [("one_entry_per_cid", post.wf),
   ("refused_leaves_pinset_unchanged", res.isSome || sameMap pre post),
   ("nothing_else_changes", (allKeys pre post).all (fun c => (targets cfg pre op).contains c || pre.get c == post.get c)),
   ("listed_refusals_are_refused", !mustRefuse cfg pre op || res.isNone)]

/-- clauses about the effect of a successful call -/
def okClauses (cfg : Cfg) (pre : PinMap) (op : Op) (post : PinMap) : List (String × Bool) :=
  match op with
  | .pin c o => pinClauses cfg pre post c o
  | .pinPath p o => (match resolve cfg p with
      | some c => pinClauses cfg pre post c o
      | none => [("pin_ok_effect", false)])
  | .update s d o => updateClauses pre post s d o
  | .unpin c => unpinClauses cfg pre post c
  | .unpinPath p => (match resolve cfg p with
      | some c => unpinClauses cfg pre post c
      | none => [("unpin_effect", false)])
  | .rpcPin p => [("rpc_pin_stored", (post.get p.cid).isSome),
                  ("rpc_pin_stored_as_sent", sentAsIs cfg pre post p)]

def clauses (cfg : Cfg) (pre : PinMap) (op : Op) (res : Option Pin) (post : PinMap) : List (String × Bool) :=
  genericClauses cfg pre op res post ++ (if res.isSome then okClauses cfg pre op post else [])

def holds (cfg : Cfg) (pre : PinMap) (op : Op) (res : Option Pin) (post : PinMap) : Bool :=
  (clauses cfg pre op res post).all (·.2)

end CV.C04
