/-
C03 — the property for `BlockAllocate` (the allocation made for added content) and for raw metric input,
written from the statement. Applied by the driver to the IMPLEMENTATION's answers.

Reading used here
* a block allocation is "the cluster deciding where a CID goes": with positive (effective) factors its answer must
  satisfy the clauses of `Spec/C03.lean` for: the monitor's metric states, the holders stored for that CID as current
  holders (none for an add, `cid.Undef`), nobody excluded, the request's user allocations as the preferred peers;
* with factor -1 ("every peer") the blocks go to every peer with a valid unexpired ping metric and to nobody else;
* a request C04 lists as refused (follower mode, invalid factors, expiry in the past, different pin type,
  recursive downgraded to direct) must fail; any other failure needs "fewer than min healthy holders can be reached".
-/
import ClusterVerif.Model.C03Block
import ClusterVerif.Model.C03Pipeline
import ClusterVerif.Spec.C03
namespace CV.C03
open CV

structure BlockCase where
  cfg : C04.Cfg
  ping : List (Nat × MState)     -- ping metric state per peer
  pre : PinMap
  undef : Bool
  pin : Pin

def BlockCase.existing (k : BlockCase) : Option Pin := if k.undef then none else k.pre.get k.pin.cid

def BlockCase.input (k : BlockCase) : Input := blockInput k.cfg k.pre k.undef k.pin

def pingHealthy (k : BlockCase) : List Nat := (k.ping.filter (fun q => q.2.healthy)).map (·.1)

/-- refusals the statement of C04 lists, as far as they apply to an allocation request -/
def blockMustRefuse (k : BlockCase) : Bool :=
  k.cfg.follower ||
  !factorsValid (C04.effRmin k.cfg k.pin) (C04.effRmax k.cfg k.pin) ||
  k.pin.opts.expire.beforeNow ||
  (match k.existing with
   | some e => e.type != k.pin.type || (e.opts.mode == .recursive && k.pin.opts.mode == .direct)
   | none => false)

def blockClauses (k : BlockCase) (o : BlockOut) : List (String × Bool) :=
  let i := k.input
  match o with
  | .ok out =>
    [("listed_refusals_are_refused", !blockMustRefuse k)] ++
    (if i.rmin == -1 && i.rmax == -1 then
       [("everywhere_goes_to_healthy_peers", out.all (pingHealthy k).contains && (pingHealthy k).all out.contains && out.Nodup)]
     else if positive i then (clauses i (.ok out)) else [])
  | .err =>
    if blockMustRefuse k then [] else
    if i.rmin == -1 && i.rmax == -1 then [("everywhere_never_fails", false)]
    else if positive i then
      -- a malformed request of another kind (e.g. a shard pin of the wrong depth) may be refused; a well-formed
      -- data request fails only when min cannot be reached
      [("error_only_if_unreachable", cErr i || k.pin.type != .dataT)]
    else []

def blockHolds (k : BlockCase) (o : BlockOut) : Bool := (blockClauses k o).all (·.2)

end CV.C03
