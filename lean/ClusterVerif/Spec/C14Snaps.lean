/-
C14 — "Saving a Raft snapshot and reading it offline … reproduce the same pinset"; "cleaning Raft data that holds a snapshot
… the cleaned data stays recoverable as the newest backup", read for a data folder that holds SEVERAL snapshots and leftovers
(`*.tmp` directories, unreadable metadata, plain files). Clauses over what was observed on the IMPLEMENTATION:

 * `offline_reads_latest` — the offline read of the folder is the pinset of its LATEST snapshot: the one with the largest
                             term, and among those the largest index (leftovers are no snapshots); no snapshot: "none";
 * `snapshot_offline_id`  — after `SnapshotSave c` (it succeeded and) the offline read is `c`;
 * `rot_newest`           — the folder held a snapshot before a clean/save ⇒ old.0 reads as that snapshot's pinset;
 * `rot_backup_complete`  — … and old.0 holds every snapshot the folder held (nothing of the cleaned data is dropped);
 * `rot_cleaned`          — after a clean the data folder holds no snapshot.
Written from the statement; the model is not used here. Core Lean only.
-/
namespace CV.C14.Snaps

/-- (term, index, pinset tag) of every real snapshot of the input, in creation order -/
abbrev SnapIn := List (Nat × Nat × Nat)

def later (a b : Nat × Nat × Nat) : Bool := decide (a.1 > b.1) || (a.1 == b.1 && decide (a.2.1 > b.2.1))

/-- the latest snapshot: not earlier than any other -/
def specLatest (l : SnapIn) : Option (Nat × Nat × Nat) := l.find? (fun a => l.all (fun b => !later b a))

inductive Read where
  | absent | nosnap | pins (c : Nat) | broken
  deriving DecidableEq, Repr

inductive SOp where
  | read | clean | save (c : Nat)
  deriving DecidableEq, Repr

structure SObs where
  pre : Read
  off : Read
  old0 : Read
  old0cnt : Nat
  failed : Bool
  deriving Repr

def snapsClauses (absent : Bool) (l : SnapIn) (op : SOp) (o : SObs) : List (String × Bool) :=
  let expectPre : Read := if absent then .absent else match specLatest l with | some s => .pins s.2.2 | none => .nosnap
  [("offline_reads_latest", o.pre == expectPre)] ++
  (match op with
   | .read => []
   | .save c => [("snapshot_offline_id", !o.failed && o.off == .pins c)]
   | .clean => [("rot_cleaned", o.off == .absent || o.off == .nosnap)]) ++
  (match op, specLatest l with
   | .read, _ => []
   | _, some s => [("rot_newest", o.old0 == .pins s.2.2), ("rot_backup_complete", o.old0cnt == l.length)]
   | _, none => [])

end CV.C14.Snaps
