import ClusterVerif.Model.C09Glue
/-
C09, suite `glue` — what the statement asks of the code that PRODUCES and PUBLISHES a metric
("only if it is valid, unexpired"; "a running peer republishes each of its metrics"), written from
the statement and applied to what the real informers / `api.Metric` / `pubsubmon.Monitor.PublishMetric` did.

informer line — input: informer kind, what the RPC did, TTL; output: the metric built and what
`PublishMetric` did with it:
  error_never_valid     no client / failed RPC ⇒ the metric is not valid
  ok_valid_fresh        answered RPC ⇒ valid, and it expires exactly one TTL after it was built
  value_is_measure      answered RPC ⇒ value = the measure (free space = max − size, never negative; repo size; pin count)
  invalid_not_published a metric that is not valid (or already expired) never reaches the wire
  valid_published       a valid unexpired metric reaches the wire when the topic accepts it
metric line — input: validity, expiry instant relative to now; output `Expired()`, `Discard()`, sign of `GetTTL()`:
  expired_iff_past      expired ⇔ the expiry instant is in the past
  discard_iff           discarded ⇔ not valid or expired
  ttl_sign              time left is negative ⇔ expired
-/
namespace CV.C09.Glue

/-- how the metric's `Expire` relates to the call: `zero` = the field was never set,
    `inTTL` = between (call start + TTL) and (call end + TTL), `off` = anything else -/
inductive Exp where
  | zero | inTTL | off
  deriving DecidableEq, Repr

structure InfOut where
  valid : Bool
  value : Option Nat
  exp   : Exp
  named : Bool
  pub   : Pub
  deriving DecidableEq, Repr

/-- the measure the informer is there to report -/
def measure (disk : Option DiskKind) (a b : Nat) : Nat :=
  match disk with
  | some .freeSpace => b - a          -- truncated subtraction: never negative
  | some .repoSize => a
  | none => a

def infClauses (disk : Option DiskKind) (rpc : Rpc) (ttl : Int) (o : InfOut) : List (String × Bool) :=
  let answered := match rpc with | .ok _ _ => true | _ => false
  [("error_never_valid", answered || !o.valid),
   ("ok_valid_fresh", !answered || (o.valid && o.exp == .inTTL)),
   ("value_is_measure", match rpc with | .ok a b => o.value == some (measure disk a b) | _ => true),
   ("invalid_not_published", (o.valid && (o.exp == .inTTL && 0 < ttl)) || o.pub != .sent),
   ("valid_published", !(o.valid && o.exp == .inTTL && 0 < ttl) || o.pub == .sent)]

structure MetOut where
  expired : Bool
  discard : Bool
  ttlNeg  : Bool
  deriving DecidableEq, Repr

/-- `off`: expiry instant minus now (never 0 in a case: the instant itself cannot be produced) -/
def metClauses (valid : Bool) (off : Int) (o : MetOut) : List (String × Bool) :=
  [("expired_iff_past", o.expired == decide (off < 0)),
   ("discard_iff", o.discard == (!valid || o.expired)),
   ("ttl_sign", o.ttlNeg == o.expired)]

def failingOf (l : List (String × Bool)) : List String := (l.filter (fun x => !x.2)).map (·.1)

end CV.C09.Glue
