/-
C14 read for a data folder in which snapshots may be DAMAGED (metadata readable, `state.bin` fails its checksum) or share one
(term, index). The statement quantifies over pinsets, clean/backup histories and pre-existing folder sets, not over damaged
files; what it does fix is that a read "reproduces the same pinset" as the latest save. Classification used here
(written from the statement; the model is not used):

 * `offline_never_stale`   — the offline read of the folder is the pinset of its LATEST snapshot (largest term, then largest
                              index, then the one created last), or — only when that snapshot is damaged — a refusal (`broken`).
                              Silently answering with an OLDER snapshot's pinset is not "the same pinset" and fails the clause;
 * `snapshot_offline_id`   — `SnapshotSave c` succeeded ⇒ the offline read is `c`;
 * `save_refused_keeps`    — `SnapshotSave` refused (error) ⇒ the folder reads as before, holds as many snapshots as before and no
                              backup was made (a refused save must not half-replace the data); it may refuse ONLY when the
                              latest snapshot is damaged;
 * `rot_newest`            — the folder listed a snapshot before a clean/successful save ⇒ old.0 reads exactly as the folder
                              read before (the latest pinset, or the same refusal);
 * `rot_backup_complete`   — … and old.0 lists every snapshot the folder listed, damaged ones included (kept for manual recovery);
 * `rot_cleaned`           — after a clean the data folder holds no snapshot;
 * `import_replaces`       — ("import replaces whatever was there") `state import` of pinset c onto ANY folder succeeds and the offline
                              read afterwards is c; rot_newest / rot_backup_complete hold for what the folder listed before;
 * `start_serves_latest`   — ("… or starting a peer on it …") a peer STARTED on a folder whose latest snapshot is intact serves that
                              snapshot's pinset. (Latest damaged: no clause — the statement does not say what a start on damaged
                              data serves; the model records what the code does, a fall-back to the newest snapshot that opens.)
Core Lean only.
-/
namespace CV.C14.Damage

/-- (term, index, pinset tag, damaged) in creation order -/
abbrev DIn := List (Nat × Nat × Nat × Bool)

def keyLt (a b : Nat × Nat × Nat × Bool) : Bool := decide (a.1 < b.1) || (a.1 == b.1 && decide (a.2.1 < b.2.1))

/-- the latest snapshot: no other has a larger key, and none created after it has the same key -/
def specLatestD : DIn → Option (Nat × Nat × Nat × Bool)
  | [] => none
  | a :: t => if t.all (fun b => keyLt b a) then some a else specLatestD t

inductive SRead where
  | absent | nosnap | pins (c : Nat) | broken
  deriving DecidableEq, Repr

inductive DOp where
  | read | clean | save (c : Nat) | boot | imp (c : Nat)
  deriving DecidableEq, Repr

structure DObs where
  pre : SRead
  off : SRead
  old0 : SRead
  cnt : Nat
  old0cnt : Nat
  failed : Bool
  start : SRead := .absent
  deriving Repr

def damageClauses (absent : Bool) (l : DIn) (op : DOp) (o : DObs) : List (String × Bool) :=
  let lat := specLatestD l
  let okPre : Bool :=
    if absent then o.pre == .absent else
    match lat with
    | none => o.pre == .nosnap
    | some s => o.pre == .pins s.2.2.1 || (s.2.2.2 && o.pre == .broken)
  let damagedLatest : Bool := match lat with | some s => s.2.2.2 | none => false
  [("offline_never_stale", okPre)] ++
  (match op with
   | .read => []
   | .boot => (match lat with
     | some s => if s.2.2.2 then [] else [("start_serves_latest", o.start == .pins s.2.2.1)]
     | none => [])
   | .save c =>
     if o.failed then [("save_refused_keeps", damagedLatest && o.off == o.pre && o.cnt == l.length && o.old0 == .absent)]
     else [("snapshot_offline_id", o.off == .pins c)]
   | .imp c => [("import_replaces", !o.failed && o.off == .pins c)]
   | .clean => [("rot_cleaned", o.off == .absent || o.off == .nosnap)]) ++
  (match op, lat with
   | .read, _ => []
   | .boot, _ => []
   | _, some _ => if o.failed then [] else [("rot_newest", o.old0 == o.pre), ("rot_backup_complete", o.old0cnt == l.length)]
   | _, none => [])

end CV.C14.Damage
