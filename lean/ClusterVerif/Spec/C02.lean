/-
C02 — the property, written from its text, as decidable clauses over what an
implementation run lets us observe (results of LogPin/LogUnpin, pinsets at
the moments the property says something about them, tracker calls). Core only.

  "a pin or unpin accepted on a peer takes effect on that peer in submission
   order per CID, whether written directly or through batching"      → order_per_cid
  "a batch is committed when it reaches its size limit or its age limit"
                                                                     → committed_when_full_or_old
  "an operation refused because the queue is full is reported as an error
   and has no effect"                                                → refused_no_effect
  "any two peers that trust each other and have exchanged all updates hold the
   same pinset, whatever the order and grouping"                     → members_converge, values_converge
  "every change that lands in a peer's pinset, local or remote, is handed to
   that peer's pin tracker"                                          → tracker_informed
  (trust is the condition of the convergence sentence; updates of a peer that
   is not trusted do not count as exchanged)                         → untrusted_ignored

Only the basic vocabulary (keys, values, operations, tracker calls) is shared
with the model.
-/
import ClusterVerif.Model.C02
namespace CV.C02

/-- a pinset as observed: (cid, stored value) pairs -/
abbrev View := List (Key × Val)

def View.get (v : View) (k : Key) : Option Val := v.lookup k
def View.keys (v : View) : List Key := v.map (·.1)

/-- what the pinset holds for the CID once the operation has taken effect -/
def effect : BOp → Option Val
  | .put _ v => some v
  | .del _ => none

/-- sequential meaning of a pin / unpin on a pinset -/
def View.apply (v : View) : BOp → View
  | .put k x => (k, x) :: v.filter (fun e => e.1 != k)
  | .del k => v.filter (fun e => e.1 != k)

def replay (ops : List BOp) (v : View) : View := ops.foldl View.apply v

/-- how LogPin / LogUnpin answered: accepted, refused with ErrMaxQueueSizeReached, other error -/
inductive Result where
  | ok | refused | err
  deriving DecidableEq, Repr

/-- entries the property allows for CID `k` after the operations, in submission order:
    the effect of the last accepted one; a refused one changes nothing; one that failed with
    another error is not constrained (it may or may not have been applied) -/
def allowedAt (k : Key) : List (BOp × Result) → List (Option Val) → List (Option Val)
  | [], s => s
  | (o, r) :: t, s =>
    if o.key != k then allowedAt k t s else
    match r with
    | .ok => allowedAt k t [effect o]
    | .refused => allowedAt k t s
    | .err => allowedAt k t (effect o :: s)

/-- every entry the CID could have shown at some earlier moment -/
def staleAt (k : Key) (ops : List (BOp × Result)) (init : Option Val) : List (Option Val) :=
  init :: (ops.filter (fun q => q.1.key == k && q.2 != .refused)).map (fun q => effect q.1)

def keysOf (ops : List BOp) (vs : List View) : List Key :=
  (ops.map BOp.key ++ (vs.map View.keys).flatten).eraseDups

/-- was the new content of `k` handed to the tracker? a Track carrying the value the pinset now
    holds, or an Untrack when the pinset no longer holds the CID -/
def handedOver (calls : List Hook) (k : Key) (now : Option Val) : Bool :=
  match now with
  | some w => calls.contains (.put k w)
  | none => calls.contains (.del k)

/-- every CID whose entry differs between two observed pinsets was handed to the tracker -/
def trackerCovers (before after : View) (calls : List Hook) : Bool :=
  (keysOf [] [before, after]).all (fun k => before.get k == after.get k || handedOver calls k (after.get k))

/-! ### one peer: LogPin / LogUnpin, batching -/

/-- the pinset of the peer at a moment where the property requires every operation accepted
    so far to have taken effect (batch full, batch aged, or direct write returned) -/
structure Obs where
  upto : Nat               -- operations submitted before this moment
  state : View
  calls : List Hook        -- tracker calls since the previous observation
  deriving Repr

structure BatchCase where
  ops : List (BOp × Result)
  obs : List Obs
  deriving Repr

def obsPairs (obs : List Obs) : List (View × Obs) :=
  (([] : View) :: obs.map (·.state)).zip obs

def batchClauses (c : BatchCase) : List (String × Bool) :=
  let ks := keysOf (c.ops.map (·.1)) (c.obs.map (·.state))
  [ ("order_per_cid", c.obs.all (fun o => ks.all (fun k =>
        (allowedAt k (c.ops.take o.upto) [none]).contains (o.state.get k)))),
    ("committed_when_full_or_old", c.obs.all (fun o => ks.all (fun k =>
        let now := o.state.get k
        (allowedAt k (c.ops.take o.upto) [none]).contains now ||
          !(staleAt k (c.ops.take o.upto) none).contains now))),
    ("refused_no_effect", c.obs.all (fun o => (c.ops.take o.upto).all (fun q =>
        q.2 != .refused ||
          (allowedAt q.1.key (c.ops.take o.upto) [none]).contains (effect q.1) ||
          o.state.get q.1.key != effect q.1))),
    ("tracker_informed", (obsPairs c.obs).all (fun p => trackerCovers p.1 p.2.state p.2.calls)) ]

/-! ### several replicas of the set, scripted delivery -/

structure SetStep where
  replica : Nat
  ops : Option (List BOp)   -- a local write (one op, or the ops of one batch); none: a delivery
  hooks : List Hook
  before : View
  after : View
  deriving Repr

structure SetCase where
  steps : List SetStep
  finals : List View        -- every replica at the end
  exchanged : Bool          -- every replica has received every update
  deriving Repr

def sameKeys (a b : View) : Bool := a.keys.all b.keys.contains && b.keys.all a.keys.contains
def sameView (a b : View) : Bool := sameKeys a b && a.keys.all (fun k => a.get k == b.get k)

def allPairs (vs : List View) (f : View → View → Bool) : Bool :=
  match vs with
  | [] => true
  | v :: t => t.all (f v)

def setClauses (c : SetCase) : List (String × Bool) :=
  [ ("order_per_cid", c.steps.all (fun s => match s.ops with
        | some ops => sameView s.after (replay ops s.before)
        | none => true)),
    ("members_converge", !c.exchanged || allPairs c.finals sameKeys),
    ("values_converge", !c.exchanged || allPairs c.finals sameView),
    ("tracker_informed", c.steps.all (fun s => trackerCovers s.before s.after s.hooks)) ]

/-! ### real peers over pubsub -/

structure NetOp where
  replica : Nat
  op : BOp
  res : Result
  deriving Repr

structure NetObs where
  state : View
  calls : List Hook
  deriving Repr

/-- phases are separated by barriers at which all updates have been exchanged; inside a
    phase a CID is written by one replica only -/
structure NetCase where
  n : Nat
  trusts : List (List Nat)              -- trusts[i]: the peers replica i trusts (itself implied)
  phases : List (List NetOp)
  obs : List (List NetObs)              -- per barrier, per replica
  deriving Repr

def NetCase.trustsP (c : NetCase) (i j : Nat) : Bool := i == j || (c.trusts.getD i []).contains j
def NetCase.mutual (c : NetCase) (i j : Nat) : Bool := c.trustsP i j && c.trustsP j i

/-- the operations replica `i` must reflect after `p` phases: those of the peers it trusts -/
def NetCase.heard (c : NetCase) (i p : Nat) : List (BOp × Result) :=
  ((c.phases.take p).flatten.filter (fun o => c.trustsP i o.replica)).map (fun o => (o.op, o.res))

def NetCase.unheard (c : NetCase) (i p : Nat) : List BOp :=
  ((c.phases.take p).flatten.filter (fun o => !c.trustsP i o.replica)).map (·.op)

/-- CIDs that only peers in mutual trust with `i` have written -/
def NetCase.cleanKey (c : NetCase) (i : Nat) (k : Key) : Bool :=
  c.phases.flatten.all (fun o => o.op.key != k || c.mutual i o.replica)

/-- `i` and `j` trust each other and listen to the same peers: after a full exchange they have
    received the same updates -/
def NetCase.peers (c : NetCase) (i j : Nat) : Bool :=
  c.mutual i j && (List.range c.n).all (fun x => c.trustsP i x == c.trustsP j x)

def enum {α} (l : List α) : List (Nat × α) := (List.range l.length).zip l

def netClauses (c : NetCase) : List (String × Bool) :=
  let allOps := c.phases.flatten.map (·.op)
  let ks := keysOf allOps ((c.obs.map (fun b => b.map (·.state))).flatten)
  let barriers := enum c.obs
  let last := c.obs.getLast?.getD []
  [ ("order_per_cid", barriers.all (fun b => (enum b.2).all (fun r =>
        ks.all (fun k => !c.cleanKey r.1 k ||
          (allowedAt k (c.heard r.1 (b.1 + 1)) [none]).contains (r.2.state.get k))))),
    ("untrusted_ignored", barriers.all (fun b => (enum b.2).all (fun r =>
        (c.unheard r.1 (b.1 + 1)).all (fun o =>
          (allowedAt o.key (c.heard r.1 (b.1 + 1)) [none]).contains (effect o) ||
            r.2.state.get o.key != effect o)))),
    ("members_converge", (enum last).all (fun a => (enum last).all (fun b =>
        !c.peers a.1 b.1 || sameKeys a.2.state b.2.state))),
    ("values_converge", (enum last).all (fun a => (enum last).all (fun b =>
        !c.peers a.1 b.1 || sameView a.2.state b.2.state))),
    ("tracker_informed", (List.range c.n).all (fun i =>
        let states := c.obs.map (fun b => ((b[i]?).map (·.state)).getD [])
        let calls := c.obs.map (fun b => ((b[i]?).map (·.calls)).getD [])
        ((([] : View) :: states).zip (states.zip calls)).all (fun p => trackerCovers p.1 p.2.1 p.2.2))) ]

/-! ### the topic validator, called directly

"Any two peers that trust each other …": an update counts only when its AUTHOR (the peer that signed
it) is trusted by the receiver at the moment it arrives — the replica itself, a peer it was told to
trust and not told to distrust since, or anybody under `trust_all`. Who forwarded it is irrelevant. -/

inductive ValEv where
  | trust (p : Nat) | distrust (p : Nat)
  | msg (signer forwarder : Nat) (accepted : Bool)
  deriving Repr

structure ValCase where
  trustAll : Bool
  self : Nat
  evs : List ValEv
  deriving Repr

/-- (trusted set so far, verdicts that contradict the text) -/
def valScan (c : ValCase) : List Nat × List (Bool × Bool) :=
  c.evs.foldl (fun acc e => match e with
    | .trust p => (p :: acc.1, acc.2)
    | .distrust p => (acc.1.filter (· != p), acc.2)
    | .msg s _ a => (acc.1, acc.2 ++ [(c.trustAll || s == c.self || acc.1.contains s, a)])) ([], [])

def valClauses (c : ValCase) : List (String × Bool) :=
  let vs := (valScan c).2
  [ ("untrusted_ignored", vs.all (fun v => v.1 || !v.2)),
    ("trusted_heard", vs.all (fun v => !v.1 || v.2)) ]

def holds (cl : List (String × Bool)) : Bool := cl.all (·.2)

end CV.C02
