import ClusterVerif.Model.C16
import ClusterVerif.Model.C16Aux
import ClusterVerif.Model.C16Ctx
import ClusterVerif.Model.C16Req
/-!
# C16 — the property, clause by clause, over what a run *shows*

Written from the property text; applied by the driver to the implementation's
output (result class, requests the daemon received, daemon's final pin table).

> The IPFS connector reports a pin or unpin as successful only if the daemon
> ends up holding, or not holding, that CID in the requested mode; it reports
> daemon and transport failures as errors, requests nothing when the CID is
> already pinned as asked, treats unpinning a CID that is not pinned as
> success, and gives up with an error when a pin makes no progress for the
> configured time. A pin update is used only when the source is recursively
> pinned, and never unpins the source.
-/
namespace CV.C16

/-- the mode a pin asks for: depth 0 is a direct pin, everything else recursive -/
def wanted (depth : Int) : PState := if depth = 0 then .d else .r

/-- the daemon holds a pin on the CID itself -/
def held (s : PState) : Bool := s == .d || s == .r

/-- the k-th sequential request together with the class of the daemon's answer -/
def servedT (i : Input) (tr : List Req) : List (Req × Cls) :=
  (tr.zipIdx).map (fun rk => (rk.1, clsAt rk.1.isAdd (i.beh rk.2)))

def served (i : Input) (o : Output) : List (Req × Cls) := servedT i o.trace

/-- would a well-behaved daemon refuse this request in the prior state? -/
def refuses (t : Table) : Req → Bool
  | .add c recursive _ _ => !recursive && t c == .r
  | .upd f c _ => t f != .r || (f != c && t c == .r)
  | _ => false

/-- a daemon or transport failure of a request that decides the outcome.
`pin/ls` of the CID itself: only a reply that is no answer at all counts (an
IPFS error object is how the daemon says "not pinned"), or a 200 reply that does
not list a pin the daemon holds (cut off, empty, garbage); `pin/ls` of the update
source and `swarm/connect` are advisory; the not-pinned reply to `pin/rm` is the
case the property names as success. -/
def failure (i : Input) (k : Nat) (r : Req) (c : Cls) : Bool :=
  match r with
  | .ls x tr => k == 0 && (c == .hardFail || c == .stall ||
      ((c == .lostReply || c == .badBody) && i.table x == (if tr then .r else .d)))
  | .add .. | .upd .. =>
    c == .ipfsErr || c == .notPinned || c == .hardFail || c == .lostReply || c == .stall ||
      c == .noProgress || c == .streamErr || ((c == .honest || c == .slowOk) && refuses i.table r)
  | .rm x => c == .ipfsErr || c == .hardFail || c == .stall || (c == .lostReply && held (i.table x))
  | .other => false

def isSuccess : Res → Bool
  | .ok | .st _ | .stOther => true
  | _ => false

def isLsOf (c : Nat) : Req → Bool
  | .ls c' _ => c' == c
  | _ => false

def isPinning : Req → Bool
  | .add .. | .upd .. => true
  | _ => false

/-- success is reported only if the daemon ended up in the asked state -/
def cPinSound (i : Input) (o : Output) : Bool :=
  !(i.op == .pin && o.res == .ok) || o.final i.cid == wanted i.depth

def cUnpinSound (i : Input) (o : Output) : Bool :=
  !(i.op == .unpin && o.res == .ok) || !held (o.final i.cid)

/-- a truthfully answered PinLsCid reports the daemon's state (as far as the type filter shows it) -/
def cLsTruthful (i : Input) (o : Output) : Bool :=
  (!(i.op == .ls && clsFirst (i.beh 0) == .honest) ||
    o.res == .st (if i.table i.cid == wanted i.depth then i.table i.cid else .u)) &&
  (!(i.op == .ls && clsFirst (i.beh 0) == .honestAny) || o.res == .st (i.table i.cid))

/-- daemon and transport failures are reported as errors -/
def cErrorsReported (i : Input) (o : Output) : Bool :=
  !(((served i o).zipIdx).any (fun x => failure i x.2 x.1.1 x.1.2)) || !isSuccess o.res

/-- already pinned as asked (and the daemon says so): nothing is requested -/
def cNoRequestWhenAlready (i : Input) (o : Output) : Bool :=
  !(i.op == .pin && i.table i.cid == wanted i.depth &&
      (clsFirst (i.beh 0) == .honest || clsFirst (i.beh 0) == .honestAny)) ||
    (o.res == .ok && o.trace.all (isLsOf i.cid) && o.trace.length ≤ 1 && o.swarm.isEmpty &&
      o.final i.cid == i.table i.cid)

/-- unpinning what is not pinned is a success -/
def cUnpinAbsentOk (i : Input) (o : Output) : Bool :=
  !(i.op == .unpin && !i.unpinDisable && !held (i.table i.cid) &&
      (clsAt false (i.beh 0) == .honest || clsAt false (i.beh 0) == .notPinned)) ||
    o.res == .ok

/-- a pin that makes no progress is given up with an error, by the connector itself -/
def cStallTimesOut (i : Input) (o : Output) : Bool :=
  !(i.op == .pin && (served i o).any (fun x => isPinning x.1 && (x.2 == .stall || x.2 == .noProgress))) ||
    o.res == .err

def cReturns (o : Output) : Bool := o.res != .hang && o.res != .panic

/-- a pin is given up by the connector itself, within its configured times, whichever request of the
conversation (the look-up of the CID, of the update source, pin/update, pin/add) the daemon does not
answer: `Pin` never returns only because the caller's own context ran out -/
def cPinGivesUp (i : Input) (o : Output) : Bool :=
  !(i.op == .pin) || (o.res != .errctx && o.res != .hang)

/-- pin/update only from the pin's own, recursively pinned source, to the CID -/
def cUpdateOnlyIfRecursive (i : Input) (o : Output) : Bool :=
  o.trace.all (fun r => match r with
    | .upd f t _ => i.op == .pin && i.src == some f && t == i.cid && i.table f == .r
    | _ => true)

def cUpdateUnpinFalse (o : Output) : Bool :=
  o.trace.all (fun r => match r with
    | .upd _ _ unpin => !unpin
    | _ => true)

/-- the source of a pin update stays as it was -/
def cSourceKept (i : Input) (o : Output) : Bool :=
  match i.src with
  | some s => !(i.op == .pin) ||
      ((s == i.cid || o.final s == i.table s) && (!(i.table s == .r) || o.final s == .r))
  | none => true

def clauses (i : Input) (o : Output) : List (String × Bool) :=
  [ ("pin_success_sound", cPinSound i o),
    ("unpin_success_sound", cUnpinSound i o),
    ("ls_truthful", cLsTruthful i o),
    ("errors_reported", cErrorsReported i o),
    ("no_request_when_already", cNoRequestWhenAlready i o),
    ("unpin_absent_ok", cUnpinAbsentOk i o),
    ("stall_times_out", cStallTimesOut i o),
    ("returns", cReturns o),
    ("pin_gives_up", cPinGivesUp i o),
    ("update_only_if_recursive", cUpdateOnlyIfRecursive i o),
    ("update_unpin_false", cUpdateUnpinFalse o),
    ("source_kept", cSourceKept i o) ]

def holds (i : Input) (o : Output) : Bool := (clauses i o).all (·.2)

/-- Domain of the quantifier: the CIDs are in the universe; the daemon does not
lie (it says "not pinned" to `pin/rm` only for a CID it does not hold); and the
pin is not self-contradictory (`Mode` recursive with `MaxDepth` 0 — no
constructor of `api.Pin` produces it) when it has an update source; nor is a depth-0 pin with an
update source looked up at a daemon that lists pins whatever `type=` filter was asked (go-ipfs
honours the filter; see `filter_ignoring_source_breaks_direct_update` in Props). -/
def wf (i : Input) : Bool :=
  i.cid < i.n &&
  (match i.src with
   | some s => s < i.n && !(i.modeRec && i.depth == 0) &&
       !(i.op == .pin && i.depth == 0 && clsFirst (i.beh 1) == .honestAny)
   | none => true) &&
  !(i.op == .unpin && clsAt false (i.beh 0) == .notPinned && held (i.table i.cid))

/-! ### the rest of the connector (one request each) -/
namespace Aux

/-- success is reported only for a reply the daemon sent as a success and that arrived completely:
daemon failures (any status but 200, whatever the body says) and transport failures are errors -/
def cSuccessSound (i : In) (r : Res) : Bool :=
  !r.isOk || (i.beh.status == 200 && i.beh.transport == .full)

/-- Resolve hands back the CID the daemon named, never something else -/
def cResolveCid (i : In) (r : Res) : Bool :=
  match r with
  | .ok a _ => !(i.op == .resolve) || a == 1
  | _ => true

/-- RepoGC keeps the per-key errors the daemon streamed -/
def cGcErrorsKept (i : In) (r : Res) : Bool :=
  match r with
  | .ok a b => !(i.op == .repoGC && i.beh.body == .expected && i.variant % 3 == 1) || (a == 2 && b == 1)
  | _ => true

/-- a well-formed success reply is reported as a success -/
def cGoodReplyOk (i : In) (r : Res) : Bool :=
  !(i.beh.status == 200 && i.beh.transport == .full && i.beh.body == .expected &&
      (i.op == .blockGet || i.op == .blockPut || i.op == .resolve || i.op == .repoGC)) || r.isOk

def cReturns (r : Res) : Bool := r != .hang && r != .panic && r != .errctx

def clauses (i : In) (r : Res) : List (String × Bool) :=
  [ ("aux_success_sound", cSuccessSound i r),
    ("aux_resolve_cid", cResolveCid i r),
    ("aux_gc_errors_kept", cGcErrorsKept i r),
    ("aux_good_reply_ok", cGoodReplyOk i r),
    ("aux_returns", cReturns r) ]

def holds (i : In) (r : Res) : Bool := (clauses i r).all (·.2)

end Aux

end CV.C16
