/-
C09 — the property, written from its statement (not from the model), as
executable clause checkers over a history and what was observed at each of its
operations. The driver applies them to the IMPLEMENTATION's observations;
Props/C09 proves them for the model's.

Reading of the statement used here. The checker follows the history and keeps,
per (metric name, peer):
* `latest`   — the most recently received metric, unless the peer's metrics
               were removed (RemovePeer / RemovePeerMetrics) or observed to be
               forgotten by a failure check since it arrived;
* `count`    — how many metrics arrived since the last removal / forgetting
               (the window holds `min cap count` of them);
* `reported` — an alert was raised for this latest metric (since it arrived); every
               newer arrival is a renewal: it becomes the latest metric and, if it
               expires without renewal in its turn, is reported once itself.
The checker also follows the clock: `now` starts at the history's `t0` and every
`advance d` moves it; a metric is expired at an operation iff its expiry instant
lies strictly before the clock at that operation.
"Stale" = latest is present and expired (now). A failure check *covers* (name, peer)
when it is `CheckPeers(l)` with the peer in `l`, or a tick of the watch loop
with the peer in the known peerset, or a tick with no peerset function (then
every stored metric is covered); a tick whose peerset function fails covers
nothing.

Clauses (first sentence, at every `LatestMetrics(name)`):
  at_most_one_per_peer, most_recent, valid_unexpired, member
(second sentence, at every failure check):
  fresh_never_failed    no alert names a (name, peer) whose latest metric is unexpired
  alert_once            no (name, peer) alerted twice by one check, none alerted again without renewal
  expired_reported      a covered, stale, not yet reported metric is alerted by this check
  stale_forgotten       a covered, stale, already reported metric is forgotten by this check
  forget_only_reported  a check forgets only stale metrics that were reported (before or by this check)
The two "must happen now" clauses are excused when the accrual detector has a
say: the window holds ≥ 6 samples and the (unmodelled) phi decision is "not
failed" — the anchors name this mechanism ("accrual only with >= 6 samples").
(third sentence, cadence cases): republish_before_expiry.
-/
import ClusterVerif.Model.C09
namespace CV.C09

structure SKey where
  latest   : Option Metric := none
  count    : Nat := 0
  reported : Bool := false
  /-- an alert was raised for this (name, peer) and no check has forgotten it since.
      Used only to classify failures (`failTags`), never by a clause. -/
  stuck    : Bool := false
  deriving Repr

structure SState where
  key  : Key → SKey
  seen : List Key          -- (name, peer) of every arrival so far
  ps   : Peerset
  now  : Nat               -- the clock

def SState.init (ps : Peerset) (t0 : Nat := 0) : SState := { key := fun _ => {}, seen := [], ps := ps, now := t0 }

def stale (t : SState) (k : Key) : Bool :=
  match (t.key k).latest with
  | some m => m.expiredAt t.now
  | none => false

/-- the check at this operation covers (name, peer) -/
def covered (t : SState) (op : Op) (k : Key) : Bool :=
  match op with
  | .checkPeers l => l.contains k.2
  | .tick =>
    match t.ps with
    | .known l => l.contains k.2
    | .unknown => true
    | .error => false
  | _ => false

/-- the accrual detector is entitled to defer: ≥ 6 samples held and phi says "not failed" -/
def deferred (cap : Nat) (orc : Nat → Nat → Nat → Bool) (i : Nat) (t : SState) (k : Key) : Bool :=
  decide (accrualMin ≤ min cap (t.key k).count) && !orc i k.1 k.2

def alertKeys (alerts : List Alert) : List Key := alerts.map Alert.key

/-- the arrival with this id in the history -/
def arrival (ops : List Op) (id : Nat) : Option Metric :=
  ops.findSome? (fun op => match op with
    | .add m => if m.id == id then some m else none
    | _ => none)

/-- clauses at one `LatestMetrics(name)` -/
def queryClauses (hist : List Op) (t : SState) (n : Nat) (l : List (Nat × Nat)) : List (String × Bool) :=
  [ ("at_most_one_per_peer", (l.map (·.1)).Nodup),
    ("most_recent", l.all (fun (p, id) =>
        match (t.key (n, p)).latest with
        | some m => m.id == id
        | none => false)),
    ("valid_unexpired", l.all (fun (_, id) =>
        match arrival hist id with
        | some m => m.valid && !m.expiredAt t.now
        | none => false)),
    ("member", match t.ps with
        | .known ps => l.all (fun (p, _) => ps.contains p)
        | _ => true) ]

/-- instances of "must be alerted now" -/
def mustAlert (cap : Nat) (orc : Nat → Nat → Nat → Bool) (i : Nat) (t : SState) (op : Op) (k : Key) : Bool :=
  covered t op k && stale t k && !(t.key k).reported && !deferred cap orc i t k
/-- instances of "must be forgotten now" -/
def mustForget (cap : Nat) (orc : Nat → Nat → Nat → Bool) (i : Nat) (t : SState) (op : Op) (k : Key) : Bool :=
  covered t op k && stale t k && (t.key k).reported && !deferred cap orc i t k

/-- clauses at one failure check -/
def checkClauses (cap : Nat) (orc : Nat → Nat → Nat → Bool) (i : Nat) (t : SState) (op : Op)
    (alerts : List Alert) (forgot : List Key) : List (String × Bool) :=
  [ ("fresh_never_failed", alerts.all (fun a =>
        match (t.key a.key).latest with
        | some m => m.expiredAt t.now
        | none => true)),
    ("alert_once", (alertKeys alerts).Nodup && alerts.all (fun a => !(t.key a.key).reported)),
    ("expired_reported", t.seen.all (fun k => !mustAlert cap orc i t op k || (alertKeys alerts).contains k)),
    ("stale_forgotten", t.seen.all (fun k => !mustForget cap orc i t op k || forgot.contains k)),
    ("forget_only_reported", forgot.all (fun k =>
        stale t k && ((t.key k).reported || (alertKeys alerts).contains k))) ]

def isCheck : Op → Bool
  | .tick => true
  | .checkPeers _ => true
  | _ => false

/-- clauses at one operation, given what was observed there; `hist` is the whole history -/
def opClauses (cap : Nat) (orc : Nat → Nat → Nat → Bool) (hist : List Op) (i : Nat) (t : SState)
    (op : Op) (o : Obs) : List (String × Bool) :=
  match op, o with
  | _, .panic => [("no_panic", false)]
  | .query n, .metrics l _ => queryClauses hist t n l
  | .query _, _ => [("shape", false)]
  | .tick, .check a f => checkClauses cap orc i t op a f
  | .checkPeers _, .check a f => checkClauses cap orc i t op a f
  | .tick, _ => [("shape", false)]
  | .checkPeers _, _ => [("shape", false)]
  | _, .silent => []
  | _, _ => [("shape", false)]

def setKey (t : SState) (k : Key) (v : SKey) : SState := { t with key := upd t.key k v }

/-- how the history (and what the checks were seen to do) moves the bookkeeping -/
def specStep (t : SState) (op : Op) (o : Obs) : SState :=
  match op with
  | .add m =>
    let k : Key := (m.name, m.peer)
    let e := t.key k
    { setKey t k { e with latest := some m, count := e.count + 1, reported := false } with
      seen := if t.seen.contains k then t.seen else t.seen ++ [k] }
  | .rmPeer p =>
    { t with key := fun k => if k.2 = p then { t.key k with latest := none, count := 0, reported := false } else t.key k }
  | .rmMetrics n p => setKey t (n, p) { t.key (n, p) with latest := none, count := 0, reported := false }
  | .setPeers ps => { t with ps := ps }
  | .query _ => t
  | .advance d => { t with now := t.now + d }
  | _ =>
    match o with
    | .check alerts forgot =>
      let t1 : SState := { t with key := fun k =>
        if (alertKeys alerts).contains k then { t.key k with reported := true, stuck := true } else t.key k }
      { t1 with key := fun k =>
        if forgot.contains k then { latest := none, count := 0, reported := false, stuck := false } else t1.key k }
    | _ => t

def clausesFrom (cap : Nat) (orc : Nat → Nat → Nat → Bool) (hist : List Op) :
    Nat → SState → List Op → List Obs → List (String × Bool)
  | _, _, [], [] => []
  | i, t, op :: ops, o :: os =>
    opClauses cap orc hist i t op o ++ clausesFrom cap orc hist (i + 1) (specStep t op o) ops os
  | _, _, _, _ => [("shape", false)]

/-- Clause results, named, for the observations `out` of history `i`. -/
def clauses (i : Input) (orc : Nat → Nat → Nat → Bool) (out : List Obs) : List (String × Bool) :=
  clausesFrom i.cap orc i.ops 0 (SState.init i.ps0 i.t0) i.ops out

def holds (i : Input) (orc : Nat → Nat → Nat → Bool) (out : List Obs) : Bool := (clauses i orc out).all (·.2)

/-- Well-formed history: the id of an arrival is its position in the history (so ids are
    distinct, and later arrivals have larger ids — they stand for `ReceivedAt`). -/
def ids (ops : List Op) : List Nat := ops.filterMap (fun op => match op with | .add m => some m.id | _ => none)
def idsAt : Nat → List Op → Bool
  | _, [] => true
  | i, .add m :: ops => m.id == i && idsAt (i + 1) ops
  | i, _ :: ops => idsAt (i + 1) ops
def wf (i : Input) : Bool := (ids i.ops).Nodup && idsAt 0 i.ops && decide (0 < i.cap)

/-! ### Classification of failing instances

Not part of the property: tells *which kind* of instance made one of the three
bookkeeping clauses fail. The first two kinds were the signatures of findings K10 and
K09a; both are repaired in /repo (ea42028, e17258f) and no recorded finding matches
them any more, so such a failure is a violation like any other.
* `checkall-invalid` — tick without a peerset function, latest metric not valid
* `counter-kept`     — an earlier alert for this (name, peer) was not followed by a
                       forgetting check, and the metric was renewed/removed since
                       (signature of finding K09a, repaired in /repo by e17258f)
* `other`
-/
def tagOf (t : SState) (op : Op) (k : Key) : String :=
  let inval := match (t.key k).latest with | some m => !m.valid | none => false
  if op == .tick && t.ps == .unknown && inval then "checkall-invalid"
  else if (t.key k).stuck && !(t.key k).reported then "counter-kept"
  else "other"

def checkTags (cap : Nat) (orc : Nat → Nat → Nat → Bool) (i : Nat) (t : SState) (op : Op)
    (alerts : List Alert) (forgot : List Key) : List String :=
  ((t.seen.filter (fun k => mustAlert cap orc i t op k && !(alertKeys alerts).contains k)).map (tagOf t op)) ++
  ((t.seen.filter (fun k => mustForget cap orc i t op k && !forgot.contains k)).map (tagOf t op)) ++
  ((forgot.filter (fun k => !(stale t k && ((t.key k).reported || (alertKeys alerts).contains k)))).map (tagOf t op))

def tagsFrom (cap : Nat) (orc : Nat → Nat → Nat → Bool) : Nat → SState → List Op → List Obs → List String
  | i, t, op :: ops, o :: os =>
    (match o with
     | .check a f => if isCheck op then checkTags cap orc i t op a f else []
     | _ => []) ++ tagsFrom cap orc (i + 1) (specStep t op o) ops os
  | _, _, _, _ => []

def failTags (i : Input) (orc : Nat → Nat → Nat → Bool) (out : List Obs) : List String :=
  tagsFrom i.cap orc 0 (SState.init i.ps0 i.t0) i.ops out

/-! ### Cadence (third sentence), on what a recording monitor saw

`late` = number of publish calls that did not happen strictly before the expiry
instant of the metric of the previous publish call. -/
def cadenceClauses (pubs late : Nat) : List (String × Bool) :=
  [("republish_before_expiry", decide (2 ≤ pubs) && late == 0)]

end CV.C09
