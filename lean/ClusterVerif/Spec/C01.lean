/-
C01 — the property, written from its statement, as named clause checkers over one observed
history: the committed sequence `ops` and, after every event (an entry applied on a peer, a
snapshot taken / installed, a peer shut down, killed, restarted), what that peer shows:
how many committed operations its Raft has applied, what `Consensus.State()` serves, and which
calls its local pin tracker received. The driver applies the clauses to what the IMPLEMENTATION
showed.

Reading used here
* "the result of applying a prefix of the committed sequence (pin inserts or replaces the entry
  for its CID, unpin deletes it)": `specReplay (ops.take j)` for some `j`; the entry inserted for a
  pin is the pin as the shared state stores it (`Pin.stored`: user allocations are transient, the
  mode is carried by the depth, a unix-zero expiry is "none").
* "a peer that has caught up": its Raft has applied all of `ops`; it then serves exactly `specReplay ops`
  (serving an error, or nothing, is not holding the sequence).
* "acknowledged as committed": `Apply` of entry `i` returned on the committing peer (that is when
  LogPin/LogUnpin return nil). Visible there: what the peer serves right then is the result of a
  prefix that contains entry `i`. Survives restarts and crashes: whatever a peer serves later, with
  `a` entries applied according to its Raft, is the result of a prefix of at least `a` entries, so
  every acknowledged entry it has (re-)applied is in it; together with `caught_up` nothing
  acknowledged is ever missing from a peer that caught up again.
* "every applied change is handed to the local pin tracker with the same CID, type, mode and
  allocations as stored": an applied pin entry produces exactly one Track whose cid, type, max depth
  and allocations equal the stored entry's (and whose mode does, for well-formed pins, i.e. mode and
  depth agree); an applied unpin entry produces exactly one Untrack of that cid, and the cid is gone;
  nothing else produces tracker calls. Handing over is only meaningful in order: for one cid the tracker
  must receive the instructions in commit order (`tracker_order`, checked where several entries are
  applied back to back and the arrival order at the tracker is observed).
-/
import ClusterVerif.Model.C01
namespace CV.C01
open CV

def specApply (m : PinMap) : Op → PinMap
  | .pin p => PinMap.put p.stored m
  | .unpin p => m.erase p.cid

def specReplay (ops : List Op) : PinMap := ops.foldl specApply []

/-- one observation: after event `ev` on peer `rep` -/
structure Obs where
  rep : Nat
  ev : Ev
  res : Res
  applied : Nat
  view : View
  calls : List Call
  /-- the entries `first .. applied-1` were applied back to back and `calls` is what the tracker
      received meanwhile, in ARRIVAL order -/
  burst : Bool := false
  first : Nat := 0
  deriving Repr

/-- metadata is a map: compare pins with metadata in key order -/
def canonPin (p : Pin) : Pin := { p with opts := { p.opts with metadata := normMeta p.opts.metadata } }
def canonMap (m : PinMap) : PinMap := m.map canonPin

def sameMap (a b : PinMap) : Bool := canonMap a == canonMap b

/-- `m` is the result of a prefix of `ops` of length in `[lo, hi]` -/
def isPrefixResult (ops : List Op) (lo hi : Nat) (m : PinMap) : Bool :=
  (List.range (hi + 1 - lo)).any (fun d => sameMap m (specReplay (ops.take (lo + d))))

def prefixOk (ops : List Op) (o : Obs) : Bool :=
  match o.view with
  | .pins m => isPrefixResult ops 0 ops.length m
  | _ => true

def caughtUpOk (ops : List Op) (o : Obs) : Bool :=
  match o.view with
  | .down => true
  | .error => o.applied != ops.length
  | .pins m => o.applied != ops.length || sameMap m (specReplay ops)

/-- entry `o.applied - 1` was just acknowledged on this peer -/
def isAck (o : Obs) : Bool := o.ev == .apply && o.res == .ok

def ackVisibleOk (ops : List Op) (o : Obs) : Bool :=
  !isAck o ||
  (match o.view with
   | .pins m => isPrefixResult ops o.applied ops.length m
   | _ => false)

def ackDurableOk (ops : List Op) (o : Obs) : Bool :=
  match o.view with
  | .pins m => isPrefixResult ops o.applied ops.length m
  | _ => true

/-- a pin whose mode and depth agree (what every constructor of pins produces) -/
def modeAgrees (p : Pin) : Bool := p.opts.mode == depthToMode p.depth

/-- what identifies a hand-off: instruction, cid, type, depth, allocations -/
def callKey : Call → Bool × Nat × PinType × Int × List Nat
  | .track p => (true, p.cid, p.type, p.depth, p.allocs)
  | .untrack p => (false, p.cid, p.type, p.depth, p.allocs)

/-- the calls `ApplyTo` makes for the entries `first .. applied-1` -/
def sentIn (ops : List Op) (o : Obs) : List Call := ((ops.drop o.first).take (o.applied - o.first)).map callOf

def trackerOk (ops : List Op) (o : Obs) : Bool :=
  if o.burst then
    -- several entries applied back to back: every one of them was handed over, nothing else
    ((o.calls.map callKey).isPerm ((sentIn ops o).map callKey))
  else if isAck o then
    match ops[o.applied - 1]?, o.view with
    | some (.pin p), .pins m =>
      (match o.calls, m.get p.cid with
       | [.track q], some s =>
         q.cid == s.cid && q.type == s.type && q.depth == s.depth && q.allocs == s.allocs &&
         (!modeAgrees p || q.opts.mode == s.opts.mode)
       | _, _ => false)
    | some (.unpin p), .pins m =>
      (match o.calls with
       | [.untrack q] => q.cid == p.cid && (m.get p.cid).isNone
       | _ => false)
    | _, _ => false
  else o.calls.isEmpty

/-- the instructions the tracker receives for one cid, in order (true = track) -/
def perCid (c : Nat) (l : List Call) : List Bool := (l.filter (fun x => x.cid == c)).map Call.isTrack

/-- "handed to the local pin tracker": for every cid the tracker receives the instructions in commit
    order (a Track overtaken by the Untrack of a later entry leaves the tracker pinning what the pinset
    no longer has) -/
def trackerOrderOk (ops : List Op) (o : Obs) : Bool :=
  !o.burst || ((sentIn ops o).map Call.cid).all (fun c => perCid c o.calls == perCid c (sentIn ops o))

/-- an entry that was applied by the peer's Raft without the FSM acknowledging it: the change was not made -/
def appliedOk (o : Obs) : Bool := !(o.ev == .apply) || o.res == .ok || o.res == .noop

def clauses (ops : List Op) (trace : List Obs) : List (String × Bool) :=
  [ ("prefix", trace.all (prefixOk ops)),
    ("caught_up", trace.all (caughtUpOk ops)),
    ("ack_visible", trace.all (ackVisibleOk ops)),
    ("ack_durable", trace.all (ackDurableOk ops)),
    ("tracker", trace.all (trackerOk ops)),
    ("tracker_order", trace.all (trackerOrderOk ops)),
    ("applies", trace.all appliedOk) ]

def holds (ops : List Op) (trace : List Obs) : Bool := (clauses ops trace).all (·.2)

/-! ### acknowledged ⇒ committed, at the API of the consensus component

One observation = one call of LogPin / LogUnpin (and AddPeer / RmPeer, which share the redirect to the
leader) at some member: what it returned, and whether the operation is in effect on the live peers once
they are in sync. "An operation acknowledged as committed is part of that sequence: it is visible …":
a nil return obliges the operation to be in effect on every live peer. -/

inductive Effect where
  | all | none | mixed
  deriving DecidableEq, Repr

structure CallObs where
  /-- the call returned nil -/
  ok : Bool
  /-- forwarded requests the leader's RPC endpoint received for it -/
  forwarded : Nat
  effect : Effect
  deriving DecidableEq, Repr

def ackCommittedOk (o : CallObs) : Bool := !o.ok || o.effect == .all

def callClauses (trace : List CallObs) : List (String × Bool) :=
  [ ("ack_committed", trace.all ackCommittedOk) ]

/-! ### an acknowledged operation survives a clean shutdown — also for a reader of the peer's disk

"… and survives a restart or crash of any peer … a peer that has caught up by restarting from disk holds exactly
the result of the whole sequence": once `Shutdown` has returned, what is read back from the peer's data folder
(`raft.OfflineState`: state export, the state a recovered peer set is seeded with) is exactly what the peer served
when it was shut down — whatever context `Shutdown` was called with (live, deadline-bound, expired, already
cancelled). Together with `prefix` / `caught_up` / `ack_durable` on what the peer served, every operation it had
acknowledged or applied is in that state. A kill promises nothing of the kind (the log has the entries, the
snapshot may be older). The clause is a fold over the history: per peer, what it last served while up and with how
many entries applied (`live`), and — set by a Shutdown, forgotten by any later event that changes the peer — the
state its disk has to show (`disk`). A fresh peer serves the empty state with nothing applied. -/

structure DiskExp where
  rep : Nat
  live : Option (Nat × PinMap) := some (0, [])
  disk : Option PinMap := none

def diskOf (st : List DiskExp) (i : Nat) : DiskExp := (st.find? (·.rep == i)).getD { rep := i }
def diskSet (st : List DiskExp) (e : DiskExp) : List DiskExp := e :: st.filter (·.rep != e.rep)

def shutdownDurableFrom : List DiskExp → List Obs → Bool
  | _, [] => true
  | st, o :: rest =>
    let e := diskOf st o.rep
    match o.ev with
    | .shutdown =>
      if o.res == .noop then shutdownDurableFrom st rest else
      let disk := match e.live with
        | some (a, m) => if a == o.applied then some m else none   -- something was applied since the peer was last read
        | none => none
      shutdownDurableFrom (diskSet st { e with live := none, disk := disk }) rest
    | .offline =>
      if o.res == .ok then
        -- the peer is down: its data folder was read
        (match e.disk, o.view with
         | some d, .pins m => sameMap m d
         | some _, _ => false
         | none, _ => true) && shutdownDurableFrom st rest
      else
        (match o.view with
         | .pins m => shutdownDurableFrom (diskSet st { e with live := some (o.applied, m), disk := none }) rest
         | _ => shutdownDurableFrom st rest)
    | _ =>
      match o.view with
      | .pins m => shutdownDurableFrom (diskSet st { e with live := some (o.applied, m), disk := none }) rest
      | .error => shutdownDurableFrom (diskSet st { e with live := none, disk := none }) rest
      | .down => if o.res == .noop then shutdownDurableFrom st rest
                 else shutdownDurableFrom (diskSet st { e with live := none, disk := none }) rest

def shutdownClauses (trace : List Obs) : List (String × Bool) :=
  [ ("shutdown_durable", shutdownDurableFrom [] trace) ]

end CV.C01
