import ClusterVerif.Model.C15
/-!
# C15 spec — written from the property text

> For every component the default configuration is valid; any configuration the loader accepts passes
> validation and is reproduced exactly by saving and loading it again, so no well-formed setting is silently
> dropped or replaced by its default (a numeric or duration zero conventionally means 'use the default');
> and a value that validation rejects is refused at load time with an error, never a crash.  The displayable
> form of the configuration never contains the cluster secret, private keys or API credentials.

Two readings are used.

* **Per observation** (`clauses`): one run of the real loader on one input, as printed by `harness/c15`.
  Values are typed tokens (`int:7`, `dur:7000000000`, `bool:0`, `str:…`, `json:…`, `absent`, `nil`, `-`);
  `eff` is the Config struct field after the load, `eff2` the same field after load → save → load, `got` the
  key in the saved JSON.
* **Per schema row** (`rowOk`, `secretHidden`, …): what the property demands of the way a setting is copied
  in and out, applied by `Props/C15.lean` to the table regenerated from the sources.

Only the model's *types* (`Field`, `LoadKind`, …) are used here, none of its functions.  Core Lean only.
-/
namespace CV.C15

/-! ## per observation -/

inductive CaseKind | dflt | set | shape
  deriving DecidableEq, Repr

structure Input where
  kind : CaseKind
  mode : String := ""      -- alone | dirty | file | env | envalt   (set), where (shape)
  sec : String := ""
  path : String := ""
  vc : String := ""        -- zero | wf | mal | unset : how the generator classifies the value
  want : String := "-"     -- the value, as a typed token
  cur : String := "-"      -- the Config field before the load/apply
  deff : String := "-"     -- the Config field of the default configuration
  noise : String := "-"
  row : Option Field := none   -- the translator's row, for the model prediction only
  nOpaque : Nat := 0           -- Validate conjuncts of the section the translator could not express per field
  deriving Repr

structure Output where
  res : String             -- ok | err | panic
  valid : Bool := false    -- Validate() on the loaded configuration returned nil
  fix : Bool := false      -- ToJSON → LoadJSON (fresh object) → ToJSON gave the same bytes
  leak : Bool := false     -- a secret value of the saved form occurs in the displayable form
  eff : String := "-"
  eff2 : String := "-"
  got : String := "-"
  deriving Repr

/-- "a numeric or duration zero" -/
def numericZero (tok : String) : Bool :=
  tok == "int:0" || tok == "dur:0" || tok == "float:0" || tok == "float:-0"

/-- an empty value, which JSON `omitempty` does not print -/
def emptyish (tok : String) : Bool :=
  tok == "str:" || tok == "bool:0" || tok == "nil" || tok == "json:%5B%5D" || tok == "json:%7B%7D" || numericZero tok

/-- the setting the case asked for is what the configuration holds -/
def kept (i : Input) (o : Output) : Bool :=
  if o.eff != "-" then
    -- held by the configuration, and what is saved for the key is that value (or the key is omitted)
    o.eff == i.want && (o.got == i.want || o.got == "absent" || o.got == "nil" || o.got == "-")
  else o.got == i.want || ((o.got == "absent" || o.got == "nil") && emptyish i.want)

/-- "no well-formed setting is silently dropped or replaced by its default (a numeric or duration zero
conventionally means 'use the default')" for an accepted `set` case -/
def preservedOK (i : Input) (o : Output) : Bool :=
  if i.vc == "wf" || (i.vc == "zero" && !numericZero i.want) then kept i o
  else if i.vc == "zero" then kept i o || o.eff == "-" || o.eff == i.cur || o.eff == i.deff
  else true

/-- named clauses of the property for one observation -/
def clauses (i : Input) (o : Output) : List (String × Bool) :=
  let accepted := o.res == "ok"
  [ ("no_crash", o.res != "panic"),
    ("default_valid", i.kind != .dflt || (accepted && o.valid)),
    ("accepted_valid", !accepted || o.valid),
    ("roundtrip", !accepted || (o.fix && (o.eff == "-" || o.eff2 == o.eff))),
    ("preserved", !(accepted && i.kind == .set) || preservedOK i o),
    ("no_secret_leak", !o.leak) ]

def holds (i : Input) (o : Output) : Bool := (clauses i o).all (·.2)

/-! ## per schema row -/

/-- Fields whose copying in or out the translator could not classify (`custom`) or that are deliberately
neither loaded nor saved.  Since round 7 every parse/print setting (multiaddresses, peer lists, keys, secret,
TLS files, enumeration, `cors_max_age`) has a kind of its own with theorems; what is left are the two legacy
keys that are deliberately never read or written. -/
def allowList : List (String × String × String) := [
  ("cluster", "id", "legacy key of the pre-identity.json format: neither loaded nor saved"),
  ("cluster", "private_key", "legacy key of the pre-identity.json format: neither loaded nor saved (still tagged hidden)") ]

def allowed (f : Field) : Bool := allowList.any fun (s, p, _) => s == f.sec && p == f.path

/-- JSON key names that carry the cluster secret, private keys or API credentials (frozen list) -/
def secretNames : List String := ["secret", "private_key", "basic_auth_credentials"]

/-- sections that have a displayable form (`identity.json` is never displayed: `config.Identity` has no
`ToDisplayJSON` and `Manager.ToDisplayJSON` does not include it) -/
def displayed (f : Field) : Bool := f.sec != "identity"

def secretHidden (f : Field) : Bool :=
  !(displayed f && secretNames.contains f.key) || f.hidden

/-- a setting that is saved is also loaded and vice versa ("silently dropped") -/
def loadedIffSaved (f : Field) : Bool := (f.load == .none) == (f.save == .none)

/-- the zero value must be settable unless it is a numeric or duration zero -/
def zeroExcused (t : Ty) : Bool :=
  match t with
  | .int | .uint | .float | .dur | .ptrfloat | .ptrint => true
  | _ => false

/-! ## a whole Manager file with parts the Manager does not know

"Reproduced exactly by saving and loading it again, no setting silently dropped": what the loader accepted is a
fixpoint of save → load (`fix`); "the displayable form never contains the cluster secret, private keys or API
credentials": nothing secret of the saved form occurs in it (`leak`), every hidden key shows the mask (`masked`). -/
structure MgrObs where
  res : String
  fix : Bool
  leak : Bool
  masked : Bool
  deriving Repr

def mgrClauses (o : MgrObs) : List (String × Bool) :=
  [ ("no_crash", o.res != "panic"),
    ("roundtrip", o.res != "ok" || o.fix),
    ("no_secret_leak", o.res != "ok" || (!o.leak && o.masked)) ]

/-! ## the remote `source` setting of a full configuration (config.Manager)

A configuration that declares `"source": url` is a well-formed configuration the loader accepts (when the
remote body is a valid plain configuration).  "Reproduced exactly by saving and loading it again, no setting
silently dropped" then means: what the Manager saves after accepting it is exactly `{"source": url}`, and
loading that gives the same effective configuration with the same source.  For a plain configuration it means
the full configuration is saved, without a `source`.  Observations are printed by `harness/c15` suite `src`. -/
namespace Src

structure Obs where
  ops : List String        -- P<k> Pf<k> I G N S:<rid> Sf:<rid> H:<rid> D, performed in order on one Manager
  res : List String        -- ok | err | panic, one per operation
  src : String             -- Manager.Source afterwards (remote id, "-" = empty)
  eff : String             -- configuration the sections hold (number), "invalid" when Validate fails
  saved : String           -- err | panic | source:<rid> | mixed:<rid> | full:<k>
  rres : String            -- loading the saved bytes with a fresh Manager
  reff : String
  rsrc : String
  deriving Repr

/-- for an accepted load: what must be saved, and the source a reload must show -/
def expected (op : String) : Option (String × String) :=
  if op.startsWith "Pf" then some ("full:" ++ (op.drop 2).toString, "-")
  else if op.startsWith "P" then some ("full:" ++ (op.drop 1).toString, "-")
  else if op.startsWith "Sf:" then some ("source:" ++ (op.drop 3).toString, (op.drop 3).toString)
  else if op.startsWith "S:" then some ("source:" ++ (op.drop 2).toString, (op.drop 2).toString)
  else if op.startsWith "H:" then some ("source:" ++ (op.drop 2).toString, (op.drop 2).toString)
  else none

/-- `Manager.Default()` is not a load: it gives every section its default and leaves `Source` — itself a
setting — alone (`init <url>` sets `Source`, calls `Default()` and saves: "Set url. If exists, it will be the
only thing saved").  So after `Default()` the configuration must validate and be savable; what is saved is the
defaults when no source is set, and exactly the source otherwise. -/
def defaultLast (o : Obs) : Bool := o.ops.getLast? == some "D"

def clauses (o : Obs) : List (String × Bool) :=
  let accepted := o.res.getLast? == some "ok"
  let exp := (o.ops.getLast?).bind expected
  [ ("no_crash", !(o.res.contains "panic") && o.saved != "panic" && o.rres != "panic"),
    ("accepted_valid", !accepted || o.eff != "invalid"),
    -- the configuration just accepted is what gets saved (nothing dropped, nothing substituted)
    ("saved_is_loaded", !accepted || (match exp with
        | some (sv, _) => o.saved == sv
        | none => if defaultLast o then (if o.src == "-" then o.saved == "full:" ++ o.eff else o.saved == "source:" ++ o.src)
                  else o.saved != "err")),
    -- and loading the saved form gives the same effective configuration and the same source
    ("reload_same", !accepted || (match exp with
        | some (_, rs) => o.rres == "ok" && o.reff == o.eff && o.rsrc == rs
        | none => !(o.src == "-") || (o.rres == "ok" && o.reff == o.eff && o.rsrc == "-"))) ]

def holds (o : Obs) : Bool := (clauses o).all (·.2)

end Src

/-! ## identity.json (suite `ident`, round 8)

From the property text: a load (or environment pass) that is accepted leaves an Identity that validates, holds
exactly the ID and key it was given, saves them, and a fresh Identity loading the saved file is accepted with the
same ID and key; nothing crashes. -/
namespace Ident

structure Obs where
  ops : List String      -- L:<id>:<key> Lf:<id>:<key> G E:<id>:<key>
  res : List String      -- ok | err | panic per operation
  sid : String           -- index of the key pair the ID belongs to, "-" unset, "?" foreign
  skey : String
  valid : Bool
  saved : String         -- i<n>:k<n> tokens of ToJSON, "-" (no key: not savable)
  perm : String
  rres : String
  rid : String
  rkey : String
  deriving Repr

def tokIndex (t : String) : String := (t.drop 1).toString

def given (op : String) : Option (String × String) :=
  match op.splitOn ":" with
  | [_, i, k] => some (i, k)
  | _ => none

def clauses (o : Obs) : List (String × Bool) :=
  let accepted := o.res.getLast? == some "ok"
  [ ("no_crash", !(o.res.contains "panic") && !(o.saved.endsWith "panic") && o.rres != "panic"),
    ("accepted_valid", !accepted || o.valid),
    ("preserved", !accepted || (match (o.ops.getLast?).bind given with
        | some (i, k) => (i == "-" || o.sid == tokIndex i) && (k == "-" || o.skey == tokIndex k)
        | none => true)),
    ("roundtrip", !accepted || (o.saved == "i" ++ o.sid ++ ":k" ++ o.skey && o.rres == "ok" && o.rid == o.sid && o.rkey == o.skey)) ]

def holds (o : Obs) : Bool := (clauses o).all (·.2)

/-- restapi's libp2p identity (case kind `rlib`): tokens given, result, state, saved tokens, reload -/
def rlibClauses (idT keyT res sid skey : String) (valid : Bool) (saved rres : String) : List (String × Bool) :=
  let ok := res == "ok"
  [ ("no_crash", res != "panic" && saved != "panic" && rres != "panic"),
    ("accepted_valid", !ok || valid),
    ("preserved", !ok || ((idT == "-" || sid == tokIndex idT) && (keyT == "-" || skey == tokIndex keyT))),
    ("roundtrip", !ok || (saved == (if sid == "-" then "-" else "i" ++ sid) ++ ":" ++ (if skey == "-" then "-" else "k" ++ skey) && rres == "ok")) ]

end Ident

/-! ## DisplayJSON on arbitrary struct types (case kind `disp`, round 8)

"The displayable form never contains the secret": a leaf whose top-level field is tagged `hidden:"true"` (the
contract `config.DisplayJSON` documents) must be shown as the mask and its value must not occur anywhere in the
displayed text.  Tags below the top level are outside the contract (see `Disp.nested_hidden_leaks`). -/
namespace Disp

structure LeafObs where
  path : List (String × Bool)   -- JSON name, tagged hidden
  obs : String                  -- s | m | a | x, with a trailing ! when the raw value occurs in the text
  deriving Repr

def LeafObs.topHidden (l : LeafObs) : Bool :=
  match l.path with
  | [] => false
  | s :: _ => s.2

def clauses (res : String) (ls : List LeafObs) : List (String × Bool) :=
  [ ("no_crash", res != "panic"),
    ("no_secret_leak", ls.all fun l => !l.topHidden || l.obs == "m" || res != "ok") ]

end Disp

/-! ## config.SetIfNotDefault / config.ParseDurations driven directly (case kinds `sind`, `pdur`, round 8)

"No well-formed setting is silently dropped (a numeric or duration zero conventionally means 'use the default')":
a non-zero source of a type the function supports must arrive in the destination; a parsable duration must arrive,
an empty one keeps the current value, an unparsable one is refused with an error. -/
namespace Util

def sindClauses (guard : String) (z : Bool) (src out : String) : List (String × Bool) :=
  [ ("no_crash", out != "panic"),
    ("preserved", guard == "none" || z || out == src) ]

/-- `args`: e (empty) | b (unparsable) | o<ns>; per argument the current and the resulting value -/
def pdurClauses (args : List String) (cur out : List String) (res : String) : List (String × Bool) :=
  let rows := (args.zip (cur.zip out))
  [ ("no_crash", res != "panic"),
    ("refused_invalid", !(args.contains "b") || res == "err"),
    ("preserved", res != "ok" || rows.all (fun (a, c, o) => if a == "e" then o == c else if a.startsWith "o" then o == (a.drop 1).toString else true)) ]

/-- "validation never panics": `LoadJSON` / `Validate` of a zero-value (never initialised, or refused before Default()) section
object return a value (case kind `zero`, round 8c) -/
def zeroClauses (res : String) : List (String × Bool) :=
  [ ("zero_value_no_crash", res != "panic") ]

/-- case kind `envk` (round 8 final): the raw TEXT of a variable against the decode kind of its field. A text that
envconfig must refuse makes the section's `ApplyEnvVars` return an error AND leaves the section as it was (whole ToJSON
before = after: `Process` fails before `applyJSONConfig` runs, nothing half-applied); no text makes it panic. A text envconfig
accepts and the section's own parsing refuses afterwards is NOT held to `kept` here (that object is the refused, half-applied
object of `env_half_refused`; observed: crdt trusted_peers text `,` gives err with a changed ToJSON, see notes) -/
def envkClauses (pred : EnvK.Res) (res : String) (kept : Bool) : List (String × Bool) :=
  [ ("no_crash", res != "panic"),
    ("env_malformed_refused", pred != .refuse || res == "err"),
    ("env_decode_refused_keeps_all", pred != .refuse || kept) ]

end Util

end CV.C15
