/-
C07 — the property, written from its statement (not from the model), as
executable clause checkers. The driver applies them to the IMPLEMENTATION's
observations; Props/C07 proves them for the model built from the regenerated
tables.

Statement: "A peer that is not trusted can invoke only the identity, version and
join-handshake endpoints of another peer; every endpoint that reads or modifies
the pinset or drives the pin tracker, the IPFS daemon or consensus is refused to
it, and endpoints meant for local use are refused to every remote caller,
trusted or not. In CRDT mode, pinset updates published by a peer are ignored by
every peer that does not trust it. Trust follows the configuration - every peer
in Raft mode; the listed peers, or everyone when '*' is listed, in CRDT mode -
and follows later Trust/Distrust calls."

Reading used here
* identity, version, join-handshake endpoints = `Cluster.ID`, `Cluster.Version`,
  `Cluster.PeerAdd` (what a joining peer calls on its bootstrap peer): `openSet`.
* every other endpoint reads or modifies the pinset or drives tracker / IPFS /
  consensus / monitor: it must be refused to an untrusted remote caller.
* "meant for local use" is frozen, per endpoint of the pinned commit, in `intent`
  (class `closed`). An endpoint not in the table (added later) may be at most
  `trusted`: it must never be open.
* trusted(p), for a remote peer p: Raft — always. CRDT — '*' listed, or p is in
  the listed set as changed by later calls: the last Trust(p)/Distrust(p) call
  decides, the configuration decides when there was none. (Under '*' and in Raft
  everyone stays trusted: Distrust only edits the listed set.)
* "the configuration" is the list of trusted peers in effect after the configuration's sources:
  a file replaces what was there, `CLUSTER_CRDT_TRUSTEDPEERS` overrides the file (set to the empty
  string: nobody), the defaults are '*' (what `init` writes), an unset variable changes nothing
  (`effectiveList`).
* "refused" = the remote RPC client gets an authorization error.
-/
import ClusterVerif.Model.C07
namespace CV.C07

inductive Class where
  | closed | trusted | open_
  deriving DecidableEq, Repr

def Class.level : Class → Nat
  | .closed => 0
  | .trusted => 1
  | .open_ => 2

/-- identity, version and join-handshake endpoints -/
def openSet : List String := ["Cluster.ID", "Cluster.Version", "Cluster.PeerAdd"]

/-- frozen intent: every endpoint of the pinned commit and the widest class it may have -/
def intent : List (String × Class) := [
  ("Cluster.Alerts", .closed),
  ("Cluster.BlockAllocate", .closed),
  ("Cluster.ConnectGraph", .closed),
  ("Cluster.ID", .open_),
  ("Cluster.Join", .closed),
  ("Cluster.PeerAdd", .open_),
  ("Cluster.PeerRemove", .trusted),
  ("Cluster.Peers", .trusted),
  ("Cluster.Pin", .closed),
  ("Cluster.PinGet", .closed),
  ("Cluster.PinPath", .closed),
  ("Cluster.Pins", .closed),
  ("Cluster.Recover", .closed),
  ("Cluster.RecoverAll", .closed),
  ("Cluster.RecoverAllLocal", .trusted),
  ("Cluster.RecoverLocal", .trusted),
  ("Cluster.RepoGC", .closed),
  ("Cluster.RepoGCLocal", .trusted),
  ("Cluster.SendInformerMetric", .closed),
  ("Cluster.SendInformersMetrics", .closed),
  ("Cluster.Status", .closed),
  ("Cluster.StatusAll", .closed),
  ("Cluster.StatusAllLocal", .closed),
  ("Cluster.StatusLocal", .closed),
  ("Cluster.Unpin", .closed),
  ("Cluster.UnpinPath", .closed),
  ("Cluster.Version", .open_),
  ("Consensus.AddPeer", .trusted),
  ("Consensus.LogPin", .trusted),
  ("Consensus.LogUnpin", .trusted),
  ("Consensus.Peers", .closed),
  ("Consensus.RmPeer", .trusted),
  ("IPFSConnector.BlockGet", .closed),
  ("IPFSConnector.BlockPut", .trusted),
  ("IPFSConnector.ConfigKey", .closed),
  ("IPFSConnector.Pin", .closed),
  ("IPFSConnector.PinLs", .closed),
  ("IPFSConnector.PinLsCid", .closed),
  ("IPFSConnector.RepoStat", .trusted),
  ("IPFSConnector.Resolve", .closed),
  ("IPFSConnector.SwarmPeers", .trusted),
  ("IPFSConnector.Unpin", .closed),
  ("PeerMonitor.LatestMetrics", .closed),
  ("PeerMonitor.MetricNames", .closed),
  ("PinTracker.Recover", .trusted),
  ("PinTracker.RecoverAll", .closed),
  ("PinTracker.Status", .trusted),
  ("PinTracker.StatusAll", .trusted),
  ("PinTracker.Track", .closed),
  ("PinTracker.Untrack", .closed)
]

def intentOf (ep : String) : Class :=
  match intent.find? (fun e => e.1 == ep) with
  | some e => e.2
  | none => .trusted

/-- meant for local use only -/
def localOnly (ep : String) : Bool := intentOf ep == .closed

/-! ### trust, from the statement -/

inductive Mode where
  | raft | crdt
  deriving DecidableEq, Repr

/-- which list of trusted peers is in effect after the configuration sources: a file replaces what
    was there, an environment list overrides the file, the defaults are "*" (what `init` writes),
    an unset environment variable changes nothing -/
def effStep (eff : List (Option Nat)) : Source → List (Option Nat)
  | .default => [none]
  | .load raw => raw
  | .env none => eff
  | .env (some raw) => raw

def effectiveList (srcs : List Source) : List (Option Nat) := srcs.foldl effStep []

/-- a trust configuration (where it came from) and the calls made since -/
structure TrustSetting where
  mode : Mode
  srcs : List Source
  ops : List TOp
  deriving Repr

/-- the configured list in effect (`none` is '*') -/
def TrustSetting.raw (ts : TrustSetting) : List (Option Nat) := effectiveList ts.srcs

def starListed (raw : List (Option Nat)) : Bool := raw.contains none

/-- is `p` named in the configured list (only meaningful when '*' is not listed) -/
def listedIn (raw : List (Option Nat)) (p : Nat) : Bool := raw.contains (some p)

/-- the last Trust/Distrust call about `p` -/
def lastCall (ops : List TOp) (p : Nat) : Option Bool :=
  match ops with
  | [] => none
  | op :: rest =>
    match lastCall rest p with
    | some b => some b
    | none =>
      match op with
      | .trust q => if q == p then some true else none
      | .distrust q => if q == p then some false else none
      | .handshake _ => none      -- calling the open endpoints is not a Trust call: it grants nothing

/-- is the remote peer `p` trusted under the setting -/
def specTrusted (ts : TrustSetting) (p : Nat) : Bool :=
  match ts.mode with
  | .raft => true
  | .crdt => starListed ts.raw || (lastCall ts.ops p).getD (listedIn ts.raw p)

/-! ### observation 1: one RPC from a caller to an endpoint -/

/-- which policy table the serving peer was configured with -/
inductive PolicyKind where
  | shipped     -- `Config.Default()` (also what the service JSON gives: the table is not configurable)
  | follower    -- `ipfs-cluster-follow`: shipped, with Cluster.RepoGCLocal closed
  | custom      -- a table made up by the harness: the statement says nothing about it
  deriving DecidableEq, Repr

structure RpcInput where
  kind : PolicyKind
  /-- `Config.Tracing` of the serving peer (the other configuration field its RPC server depends on) -/
  tracing : Bool
  ts : TrustSetting
  self : Nat
  caller : Caller
  ep : String
  /-- the serving peer has such an endpoint (else there is nothing to invoke) -/
  registered : Bool
  deriving Repr

/-- what the caller observed -/
inductive Obs where
  | refused   -- authorization error
  | passed    -- anything else: the call got past authorization
  deriving DecidableEq, Repr

def rpcApplies (i : RpcInput) : Bool := !(i.kind == .custom) && i.registered

def rpcClauses (i : RpcInput) (o : Obs) : List (String × Bool) :=
  if !rpcApplies i then [] else
  match i.caller with
  | .self => []
  | .remote p =>
    [ ("untrusted_only_handshake", specTrusted i.ts p || p == i.self || o == .refused || openSet.contains i.ep),
      ("local_only_refused_remote", p == i.self || !localOnly i.ep || o == .refused) ]

def rpcHolds (i : RpcInput) (o : Obs) : Bool := (rpcClauses i o).all (·.2)

/-! ### observation 2: `IsTrustedPeer(p)` -/

structure TrustInput where
  ts : TrustSetting
  self : Nat
  p : Nat
  deriving Repr

def trustClauses (i : TrustInput) (o : Bool) : List (String × Bool) :=
  [ ("trust_follows_config_and_calls", i.p == i.self || o == specTrusted i.ts i.p) ]

def trustHolds (i : TrustInput) (o : Bool) : Bool := (trustClauses i o).all (·.2)

/-! ### observation 2b: the crdt `Config` after its sources -/

def sameSetNat (a b : List Nat) : Bool := a.all b.contains && b.all a.contains

/-- TrustAll says whether '*' is in effect; without '*', TrustedPeers is the list in effect -/
def cfgClauses (srcs : List Source) (trustAll : Bool) (peers : List Nat) : List (String × Bool) :=
  let eff := effectiveList srcs
  [ ("config_follows_sources",
      trustAll == starListed eff && (starListed eff || sameSetNat peers (eff.filterMap id))) ]

def cfgHolds (srcs : List Source) (trustAll : Bool) (peers : List Nat) : Bool := (cfgClauses srcs trustAll peers).all (·.2)

/-! ### observation 3: an observer's pinset after peers published updates (CRDT) -/

structure RepInput where
  ts : TrustSetting       -- the observer's trust setting
  self : Nat              -- the observer
  before : List Nat       -- its pinset before
  msgs : List Msg         -- updates published by peers, in publication order
  deriving Repr

def touchedByTrusted (i : RepInput) (c : Nat) : Bool :=
  i.msgs.any (fun m => m.pin == c && (m.signer == i.self || specTrusted i.ts m.signer))

/-- a pin that no update from a trusted peer mentions is in the pinset afterwards
    exactly if it was there before -/
def repClauses (i : RepInput) (after : List Nat) : List (String × Bool) :=
  [ ("untrusted_updates_ignored",
      (i.before ++ after ++ i.msgs.map (·.pin)).all
        (fun c => touchedByTrusted i c || (after.contains c == i.before.contains c))) ]

def repHolds (i : RepInput) (after : List Nat) : Bool := (repClauses i after).all (·.2)

end CV.C07
