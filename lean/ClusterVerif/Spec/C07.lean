/-
C07 — the property, written from its statement (not from the model), as
executable clause checkers. The driver applies them to the IMPLEMENTATION's
observations; Props/C07 proves them for the model built from the regenerated
tables.

Statement: "A peer that is not trusted can invoke only the identity, version and
join-handshake endpoints of another peer; every endpoint that reads or modifies
the pinset or drives the pin tracker, the IPFS daemon or consensus is refused to
it, and endpoints meant for local use are refused to every remote caller,
trusted or not. In CRDT mode, pinset updates published by a peer are ignored by
every peer that does not trust it. Trust follows the configuration - every peer
in Raft mode; the listed peers, or everyone when '*' is listed, in CRDT mode -
and follows later Trust/Distrust calls."

Reading used here
* identity, version, join-handshake endpoints = `Cluster.ID`, `Cluster.Version`,
  `Cluster.PeerAdd` (what a joining peer calls on its bootstrap peer): `openSet`.
* every other endpoint reads or modifies the pinset or drives tracker / IPFS /
  consensus / monitor: it must be refused to an untrusted remote caller.
* "meant for local use" is frozen, per endpoint of the pinned commit, in `intent`
  (class `closed`). An endpoint not in the table (added later) may be at most
  `trusted`: it must never be open.
* trusted(p), for a remote peer p: Raft — always. CRDT — '*' listed, or p is in
  the listed set as changed by later calls: the last Trust(p)/Distrust(p) call
  decides, the configuration decides when there was none. (Under '*' and in Raft
  everyone stays trusted: Distrust only edits the listed set.)
* "the configuration" is the list of trusted peers in effect after the configuration's sources:
  a file replaces what was there, `CLUSTER_CRDT_TRUSTEDPEERS` overrides the file (set to the empty
  string: nobody), the defaults are '*' (what `init` writes), an unset variable changes nothing
  (`effectiveList`).
* "refused" = the remote RPC client gets an authorization error.
-/
import ClusterVerif.Model.C07
namespace CV.C07

inductive Class where
  | closed | trusted | open_
  deriving DecidableEq, Repr

def Class.level : Class → Nat
  | .closed => 0
  | .trusted => 1
  | .open_ => 2

/-- identity, version and join-handshake endpoints -/
def openSet : List String := ["Cluster.ID", "Cluster.Version", "Cluster.PeerAdd"]

/-- frozen intent: every endpoint of the pinned commit and the widest class it may have -/
def intent : List (String × Class) := [
  ("Cluster.Alerts", .closed),
  ("Cluster.BlockAllocate", .closed),
  ("Cluster.ConnectGraph", .closed),
  ("Cluster.ID", .open_),
  ("Cluster.Join", .closed),
  ("Cluster.PeerAdd", .open_),
  ("Cluster.PeerRemove", .trusted),
  ("Cluster.Peers", .trusted),
  ("Cluster.Pin", .closed),
  ("Cluster.PinGet", .closed),
  ("Cluster.PinPath", .closed),
  ("Cluster.Pins", .closed),
  ("Cluster.Recover", .closed),
  ("Cluster.RecoverAll", .closed),
  ("Cluster.RecoverAllLocal", .trusted),
  ("Cluster.RecoverLocal", .trusted),
  ("Cluster.RepoGC", .closed),
  ("Cluster.RepoGCLocal", .trusted),
  ("Cluster.SendInformerMetric", .closed),
  ("Cluster.SendInformersMetrics", .closed),
  ("Cluster.Status", .closed),
  ("Cluster.StatusAll", .closed),
  ("Cluster.StatusAllLocal", .closed),
  ("Cluster.StatusLocal", .closed),
  ("Cluster.Unpin", .closed),
  ("Cluster.UnpinPath", .closed),
  ("Cluster.Version", .open_),
  ("Consensus.AddPeer", .trusted),
  ("Consensus.LogPin", .trusted),
  ("Consensus.LogUnpin", .trusted),
  ("Consensus.Peers", .closed),
  ("Consensus.RmPeer", .trusted),
  ("IPFSConnector.BlockGet", .closed),
  ("IPFSConnector.BlockPut", .trusted),
  ("IPFSConnector.ConfigKey", .closed),
  ("IPFSConnector.Pin", .closed),
  ("IPFSConnector.PinLs", .closed),
  ("IPFSConnector.PinLsCid", .closed),
  ("IPFSConnector.RepoStat", .trusted),
  ("IPFSConnector.Resolve", .closed),
  ("IPFSConnector.SwarmPeers", .trusted),
  ("IPFSConnector.Unpin", .closed),
  ("PeerMonitor.LatestMetrics", .closed),
  ("PeerMonitor.MetricNames", .closed),
  ("PinTracker.Recover", .trusted),
  ("PinTracker.RecoverAll", .closed),
  ("PinTracker.Status", .trusted),
  ("PinTracker.StatusAll", .trusted),
  ("PinTracker.Track", .closed),
  ("PinTracker.Untrack", .closed)
]

def intentOf (ep : String) : Class :=
  match intent.find? (fun e => e.1 == ep) with
  | some e => e.2
  | none => .trusted

/-- meant for local use only -/
def localOnly (ep : String) : Bool := intentOf ep == .closed

/-! ### trust, from the statement -/

inductive Mode where
  | raft | crdt
  deriving DecidableEq, Repr

/-- which list of trusted peers is in effect after the configuration sources: a file replaces what
    was there, an environment list overrides the file, the defaults are "*" (what `init` writes),
    an unset environment variable changes nothing -/
def effStep (eff : List (Option Nat)) : Source → List (Option Nat)
  | .default => [none]
  | .load raw => raw
  | .env none => eff
  | .env (some raw) => raw

def effectiveList (srcs : List Source) : List (Option Nat) := srcs.foldl effStep []

/-- a trust configuration (where it came from) and the calls made since -/
structure TrustSetting where
  mode : Mode
  srcs : List Source
  ops : List TOp
  deriving Repr

/-- the configured list in effect (`none` is '*') -/
def TrustSetting.raw (ts : TrustSetting) : List (Option Nat) := effectiveList ts.srcs

def starListed (raw : List (Option Nat)) : Bool := raw.contains none

/-- is `p` named in the configured list (only meaningful when '*' is not listed) -/
def listedIn (raw : List (Option Nat)) (p : Nat) : Bool := raw.contains (some p)

/-- the last Trust/Distrust call about `p` -/
def lastCall (ops : List TOp) (p : Nat) : Option Bool :=
  match ops with
  | [] => none
  | op :: rest =>
    match lastCall rest p with
    | some b => some b
    | none =>
      match op with
      | .trust q => if q == p then some true else none
      | .distrust q => if q == p then some false else none
      | .handshake _ => none      -- calling the open endpoints is not a Trust call: it grants nothing

/-- is the remote peer `p` trusted under the setting -/
def specTrusted (ts : TrustSetting) (p : Nat) : Bool :=
  match ts.mode with
  | .raft => true
  | .crdt => starListed ts.raw || (lastCall ts.ops p).getD (listedIn ts.raw p)

/-! ### observation 1: one RPC from a caller to an endpoint -/

/-- which policy table the serving peer was configured with -/
inductive PolicyKind where
  | shipped     -- `Config.Default()` (also what the service JSON gives: the table is not configurable)
  | follower    -- `ipfs-cluster-follow`: shipped, with Cluster.RepoGCLocal closed
  | custom      -- a table made up by the harness: the statement says nothing about it
  deriving DecidableEq, Repr

structure RpcInput where
  kind : PolicyKind
  /-- `Config.Tracing` of the serving peer (the other configuration field its RPC server depends on) -/
  tracing : Bool
  ts : TrustSetting
  self : Nat
  caller : Caller
  ep : String
  /-- the serving peer has such an endpoint (else there is nothing to invoke) -/
  registered : Bool
  deriving Repr

/-- what the caller observed -/
inductive Obs where
  | refused   -- authorization error
  | passed    -- anything else: the call got past authorization
  deriving DecidableEq, Repr

def rpcApplies (i : RpcInput) : Bool := !(i.kind == .custom) && i.registered

def rpcClauses (i : RpcInput) (o : Obs) : List (String × Bool) :=
  if !rpcApplies i then [] else
  match i.caller with
  | .self => []
  | .remote p =>
    [ ("untrusted_only_handshake", specTrusted i.ts p || p == i.self || o == .refused || openSet.contains i.ep),
      ("local_only_refused_remote", p == i.self || !localOnly i.ep || o == .refused) ]

def rpcHolds (i : RpcInput) (o : Obs) : Bool := (rpcClauses i o).all (·.2)

/-! ### observation 2: `IsTrustedPeer(p)` -/

structure TrustInput where
  ts : TrustSetting
  self : Nat
  p : Nat
  deriving Repr

def trustClauses (i : TrustInput) (o : Bool) : List (String × Bool) :=
  [ ("trust_follows_config_and_calls", i.p == i.self || o == specTrusted i.ts i.p) ]

def trustHolds (i : TrustInput) (o : Bool) : Bool := (trustClauses i o).all (·.2)

/-! ### observation 2b: the crdt `Config` after its sources -/

def sameSetNat (a b : List Nat) : Bool := a.all b.contains && b.all a.contains

/-- TrustAll says whether '*' is in effect; without '*', TrustedPeers is the list in effect -/
def cfgClauses (srcs : List Source) (trustAll : Bool) (peers : List Nat) : List (String × Bool) :=
  let eff := effectiveList srcs
  [ ("config_follows_sources",
      trustAll == starListed eff && (starListed eff || sameSetNat peers (eff.filterMap id))) ]

def cfgHolds (srcs : List Source) (trustAll : Bool) (peers : List Nat) : Bool := (cfgClauses srcs trustAll peers).all (·.2)

/-! ### observation 3: an observer's pinset after peers published updates (CRDT) -/

structure RepInput where
  ts : TrustSetting       -- the observer's trust setting
  self : Nat              -- the observer
  before : List Nat       -- its pinset before
  msgs : List Msg         -- updates published by peers, in publication order
  deriving Repr

def touchedByTrusted (i : RepInput) (c : Nat) : Bool :=
  i.msgs.any (fun m => m.pin == c && (m.signer == i.self || specTrusted i.ts m.signer))

/-- a pin that no update from a trusted peer mentions is in the pinset afterwards
    exactly if it was there before -/
def repClauses (i : RepInput) (after : List Nat) : List (String × Bool) :=
  [ ("untrusted_updates_ignored",
      (i.before ++ after ++ i.msgs.map (·.pin)).all
        (fun c => touchedByTrusted i c || (after.contains c == i.before.contains c))) ]

def repHolds (i : RepInput) (after : List Nat) : Bool := (repClauses i after).all (·.2)

/-! ### observation 4: the policy table of a cluster `Config` after its sources, and calls against a server built from it

"Endpoints meant for local use are refused to every remote caller" and "a peer that is not trusted can invoke only the
identity, version and join-handshake endpoints" are stated for every configuration: nothing an operator can put in the
service file or in the environment may widen an endpoint. (`ipfs-cluster-follow` only closes one.) -/

/-- how wide a table value is, by the documented constants of rpc_policy.go: 2 = open, 1 = trusted, anything else closed -/
def specLevel (v : Int) : Nat := if v == 2 then 2 else if v == 1 then 1 else 0

/-- `table`: the `Config.RPCPolicy` of the implementation after the sources -/
def polClauses (table : Policy) : List (String × Bool) :=
  [ ("config_cannot_widen", table.all (fun e => decide (specLevel e.2 ≤ (intentOf e.1).level))) ]

def polHolds (table : Policy) : Bool := (polClauses table).all (·.2)

/-- a remote call (caller trusted by the serving peer or not) against the server built from that `Config` -/
structure PolRpcInput where
  srcs : List PSource
  trusted : Bool
  ep : String
  deriving Repr

def polRpcClauses (i : PolRpcInput) (o : Obs) : List (String × Bool) :=
  [ ("untrusted_only_handshake", i.trusted || o == .refused || openSet.contains i.ep),
    ("local_only_refused_remote", !localOnly i.ep || o == .refused) ]

def polRpcHolds (i : PolRpcInput) (o : Obs) : Bool := (polRpcClauses i o).all (·.2)

/-! ### the configured table is respected (every policy kind, made-up tables included)

"Endpoints meant for local use are refused to every remote caller" also holds for what the CONFIGURATION declares local:
the program embedding the peer may tighten its table before `NewCluster` (ipfs-cluster-follow closes `Cluster.RepoGCLocal`).
An endpoint whose configured entry is closed (or an unknown value) must be refused to every remote caller, one whose entry
is trusted to every untrusted remote caller - whatever `NewCluster` -> `Config.Validate()` does to the table on the way.
`configured`: the entry of the endpoint in the table handed to `NewCluster` (`none`: no entry - nothing is claimed). -/
def rpcCfgClauses (configured : Option Int) (i : RpcInput) (o : Obs) : List (String × Bool) :=
  if !i.registered then [] else
  match i.caller, configured with
  | .remote p, some v =>
    [ ("configured_class_respected",
        p == i.self || o == .refused || specLevel v == 2 || (specLevel v == 1 && specTrusted i.ts p)) ]
  | _, _ => []

def rpcCfgHolds (configured : Option Int) (i : RpcInput) (o : Obs) : Bool := (rpcCfgClauses configured i o).all (·.2)

/-- did an `ipfs-cluster-follow` step close its endpoint: the step ran on a `Config` that already had a table -/
def closedByFollower : List PSource → Bool → Bool
  | [], _ => false
  | .follower :: rest, inst => inst || closedByFollower rest inst
  | .default :: rest, _ => closedByFollower rest true
  | .load _ :: rest, _ => closedByFollower rest true
  | .env _ :: rest, inst => closedByFollower rest inst
  | .helper _ :: rest, _ => closedByFollower rest true

/-- the endpoint ipfs-cluster-follow declares local (cmd/ipfs-cluster-follow/commands.go) -/
def followerClosedEndpoint : String := "Cluster.RepoGCLocal"

def polRpcCfgClauses (i : PolRpcInput) (o : Obs) : List (String × Bool) :=
  [ ("follower_closing_respected",
      !(i.ep == followerClosedEndpoint && closedByFollower i.srcs false) || o == .refused) ]


/-! ### what the handlers behind the OPEN endpoints may reach (round 8b)

"A peer that is not trusted can invoke only the identity, version and join-handshake endpoints" is worth something only if
those three handlers do not themselves alter the pinset, drive the tracker / IPFS, or call - with the serving peer's
credentials - an endpoint the caller could not have called. `Reach` is regenerated from rpc_api.go and the methods of `*Cluster`. -/

/-- everything identity / version / join-handshake legitimately touch: the IPFS daemon's identity, the host's addresses, the
    peer set, the peerstore, the consensus membership call of the join, the PeerAdd lock -/
def handshakeMayCall : List (String × String) :=
  [("ipfs", "ID"), ("host", "Addrs"), ("consensus", "Peers"), ("consensus", "AddPeer"), ("peerManager", "PeerInfos"),
   ("paMux", "Lock"), ("paMux", "Unlock")]

/-- a call that alters the pinset, drives the tracker / the IPFS daemon / the allocator / metrics, or changes membership or
    trust beyond the join -/
def drives (c : String × String) : Bool :=
  c.1 == "tracker" || c.1 == "allocator" || c.1 == "informers" ||
  (c.1 == "ipfs" && c.2 != "ID") ||
  (c.1 == "consensus" && !(["AddPeer", "Peers", "IsTrustedPeer", "Ready", "WaitForSync"].contains c.2)) ||
  (c.1 == "monitor" && (c.2 == "LogMetric" || c.2 == "PublishMetric"))

def reachClauses (r : Reach) : List (String × Bool) :=
  [ ("open_handler_calls_harmless", r.calls.all (fun c => handshakeMayCall.contains c)),
    ("open_handler_forwards_only_open", r.forwards.all (fun t => intentOf t == .open_)),
    ("open_handler_followed", r.unread.isEmpty) ]

def reachHolds (r : Reach) : Bool := (reachClauses r).all (·.2)

/-! ## Round 8c: the REST API over libp2p (from the statement: an untrusted peer cannot alter the pinset)

The REST API has routes that alter the pinset (`POST /pins/<cid>` …) and is served over HTTP and, when it has a libp2p host,
over libp2p streams. A peer of the swarm - anybody who holds the cluster secret - can open streams to the CLUSTER host. The
statement's "a peer that is not trusted cannot alter the pinset" therefore also speaks about this listener: a swarm peer that
the serving peer's consensus does not trust, calling without credentials, must not get a pinset-mutating route served. -/

structure DmnInput where
  /-- the daemon: `"cmd/ipfs-cluster-service"` | `"cmd/ipfs-cluster-follow"` -/
  dir : String
  mode : Mode
  /-- `libp2p_listen_multiaddress` configured (the API gets a host of its own) -/
  addr : Bool
  /-- `basic_auth_credentials` configured -/
  auth : Bool
  /-- the calling swarm peer is listed in the serving peer's `trusted_peers` -/
  listed : Bool

/-- "Trust follows the configuration - every peer in Raft mode; the listed peers … in CRDT mode" -/
def DmnInput.callerTrusted (i : DmnInput) : Bool := i.mode == .raft || i.listed

/-- `served`: the swarm peer, over a stream to the cluster host and without credentials, got `POST /pins/<cid>` answered 2xx -/
def dmnClauses (i : DmnInput) (served : Bool) : List (String × Bool) :=
  [ ("untrusted_swarm_peer_cannot_pin_over_rest", !(!i.callerTrusted && served)) ]

def dmnHolds (i : DmnInput) (served : Bool) : Bool := (dmnClauses i served).all (·.2)

/-! ## Round 8c: what a handshake really drove (dynamic counterpart of `reachClauses`)
`calls`: the (component, method) calls recorded by the components behind the real server while an UNTRUSTED remote peer called
the three open endpoints with arguments that decode. -/
def hsClauses (calls : List (String × String)) : List (String × Bool) :=
  [ ("open_handler_drives_nothing", calls.all (fun c => !drives c)) ]

def hsHolds (calls : List (String × String)) : Bool := (hsClauses calls).all (·.2)

end CV.C07
