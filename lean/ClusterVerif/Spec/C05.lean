/-
C05 — the property, written from its statement, as checkers over what can be OBSERVED of a
tracker: `Tracker.Status`, the pin table (with modes) of the IPFS daemon behind the
IPFSConnector service, the shared pinset, the calls parked at the daemon, and the errors
returned by `Track` / `Untrack` / `Recover` / `RecoverAll`. The driver applies them to the
observations of the REAL tracker; the theorems of `Props/C05.lean` apply the very same
functions to `observe s` of the model.

Reading used here
* "pin-tracker activity on a peer quiesces": nothing is queued or in progress — no call is parked
  at the daemon, no `Track` is still running, no CID reports a queued / pinning / unpinning status.
* "the last instruction" for a CID is what the shared pinset records for it when the instruction
  is issued (the consensus component updates the pinset, then calls Track / Untrack): an entry
  allocated to this peer or to everyone = "pin it in the recorded mode"; no entry = "it was
  removed"; an entry allocated to other peers only = "moved to other peers"; a meta (sharded)
  entry is never pinned and carries no obligation.
* "matches": pinned in the recorded mode (the daemon's pin of the other mode does not count);
  removed = the daemon holds no pin for it.
* "an error status": pin_error, unpin_error, cluster_error, unexpectedly_unpinned.
* "best effort, a daemon failure there is tolerated": for a moved pin the daemon holds no pin,
  or the daemon itself failed an unpin request for that CID since its last pin/unpin instruction.
* "a recover round with IPFS healthy": from a quiescent point, `RecoverAll` (or `Recover(c)`)
  returning no error while the daemon's reads (pin/ls) work, then only successful daemon calls, up to
  the next quiescent point.
* "the re-issued pin using the options recorded in the shared pinset": a Pin call that appears at
  the daemon because of a recover carries exactly the pin the shared pinset records.
* "an instruction that cannot be queued is reported as an error rather than dropped": an
  instruction that returns an error leaves the CID in an error status; one that returns nil leaves
  it queued / in progress (pin resp. unpin); nothing else is returned — except by `RecoverAll` when the
  daemon's pin listing cannot be read: then it must say so (an error), not return nil with the errored
  CIDs still errored.
-/
import ClusterVerif.Model.C05
namespace CV.C05

def isError : Status → Bool
  | .pinError | .unpinError | .clusterError | .unexpectedlyUnpinned => true
  | _ => false

def ongoing : Status → Bool
  | .pinning | .pinQueued | .unpinning | .unpinQueued => true
  | _ => false

/-- nothing queued, nothing in progress (over the cid universe `0 … n-1`) -/
def quiescent (n : Nat) (o : Obs) : Bool :=
  o.calls.isEmpty && o.pending == 0 && (List.range n).all (fun c => !ongoing (o.status c))

def daemonMode (o : Obs) (c : Nat) : Option Mode := (o.daemon c).map (·.1)

/-- the daemon daemonMatches the last instruction for `c` -/
def daemonMatches (o : Obs) (c : Nat) : Bool :=
  match o.shared c with
  | none => (o.daemon c).isNone
  | some p =>
    match p.kind with
    | .sharded => true
    | .here => daemonMode o c == some p.mode
    | .remote => (o.daemon c).isNone || o.failed c

/-- first sentence of the property, for one CID at a quiescent point -/
def matchOrError (o : Obs) (c : Nat) : Bool := daemonMatches o c || isError (o.status c)

/-! ### the script the observations belong to -/

inductive Act where
  | track (p : PinSpec) | untrack (c : Nat) | recover (c : Nat) | recoverAll
  | effect (c : Nat) (sel : Option CallKind)  -- the daemon applies the (oldest) parked call for c [of that kind]
  | ok (c : Nat) (sel : Option CallKind)      -- ... applies it if it has not yet, and answers nil
  | err (c : Nat) (sel : Option CallKind)     -- the daemon answers an error
  | lose (c : Nat)        -- the daemon drops the pin behind the tracker's back
  | lsFail (on : Bool)    -- from now on the daemon's reads (PinLsCid / PinLs) fail / succeed again
  | snapList              -- a concurrent RecoverAll reads the pinset NOW (`st.List`) ...
  | recoverAllRest        -- ... and this is the rest of it, after whatever was scripted in between. Not a recover ROUND in the
                          -- sense of the second sentence (it overlaps instructions); the first sentence judges its outcome
  | race (d : Act) (i : Act)  -- the daemon answers (`ok` / `err`) while instruction `i` is being issued:
                              -- the two are not ordered
  deriving DecidableEq, Repr

inductive RetCode where
  | nil | full | other | pending | na
  deriving DecidableEq, Repr

structure Frame where
  act : Act
  ret : RetCode
  infos : List (Nat × Status)   -- Recover: the returned PinInfo; RecoverAll: the returned list, in order
  obs : Obs                     -- at the stable point after the action

def healthyAct : Act → Bool
  | .effect _ _ | .ok _ _ => true
  | _ => false

/-- the instruction of an action, if it is one -/
def instrOf : Act → Act
  | .race _ i => i
  | a => a

def isRace : Act → Bool
  | .race _ _ => true
  | _ => false

/-- last sentence, per instruction: an error return comes with an error status; a nil return means the
    instruction is queued or in progress. When a daemon answer races with the instruction (`race`), the
    operation may already have finished by the time the status is read: then the daemon matches, or the
    failure shows as an error status. -/
def reported (n : Nat) (f : Frame) : Bool :=
  let settled (c : Nat) : Bool := isRace f.act && (daemonMatches f.obs c || isError (f.obs.status c))
  match instrOf f.act with
  | .track p =>
    match p.kind with
    | .sharded => f.ret == .nil
    | .remote => (f.ret == .nil || f.ret == .pending) && f.obs.status p.cid == .remote
    | .here =>
      (f.ret == .nil && (f.obs.status p.cid == .pinQueued || f.obs.status p.cid == .pinning || settled p.cid))
      || (f.ret == .full && isError (f.obs.status p.cid))
  | .untrack c =>
    (f.ret == .nil && (f.obs.status c == .unpinQueued || f.obs.status c == .unpinning || settled c))
    || (f.ret == .full && isError (f.obs.status c))
  | .recover c =>
    (f.ret == .nil && (!(f.obs.status c == .pinError || f.obs.status c == .unpinError) || isRace f.act))
    || (f.ret == .full && isError (f.obs.status c))
  | .recoverAll =>
    (f.ret == .nil && (List.range n).all (fun c => !(f.obs.status c == .pinError || f.obs.status c == .unpinError)))
    || f.ret == .full
    || (f.ret == .other && f.obs.lsDown)   -- the listing could not be read: reported, nothing recovered
  | _ => true

def sameCall (a b : CallObs) : Bool := a.kind == b.kind && a.cid == b.cid

/-- Pin calls that reached the daemon because of this recover carry the recorded pin -/
def usesRecorded (before : Obs) (f : Frame) : Bool :=
  let fresh (k : CallObs) : Bool := k.kind == .pin && !before.calls.any (sameCall k)
  match f.act with
  | .recover c => f.obs.calls.all (fun k => !(fresh k && k.cid == c) || (k.pin.isSome && k.pin == f.obs.shared k.cid))
  | .recoverAll => f.obs.calls.all (fun k => !fresh k || (k.pin.isSome && k.pin == f.obs.shared k.cid))
  | _ => true   -- in a race a freed worker may bring an older operation to the daemon in the same frame

/-- follow successful daemon answers up to the first quiescent point -/
def healthyToQuiescent (n : Nat) : Obs → List Frame → Option Obs
  | o, [] => if quiescent n o then some o else none
  | o, g :: more =>
    if quiescent n o then some o
    else if healthyAct g.act then healthyToQuiescent n g.obs more else none

/-- frames (after a quiescent point) that form a healthy recover round ending quiescent; returns the
    cids that must match at its end: all for RecoverAll, `c` for Recover(c) -/
def healedCids (n : Nat) : List Frame → Option (List Nat × Obs)
  | [] => none
  | f :: rest =>
    let scope : Option (List Nat) :=
      if f.obs.lsDown then none else   -- a round during which the daemon's reads fail is not "IPFS healthy"
      match f.act, f.ret with
      | .recoverAll, .nil => some (List.range n)
      | .recover c, .nil => some [c]
      | _, _ => none
    match scope with
    | none => none
    | some cs => (healthyToQuiescent n f.obs rest).map (fun o => (cs, o))

/-- second sentence: checked at every quiescent point followed by a recover round -/
def healsFrom (n : Nat) : Obs → List Frame → Bool
  | _, [] => true
  | o, f :: rest =>
    (if quiescent n o then
      match healedCids n (f :: rest) with
      | some (cs, o') => cs.all (fun c => daemonMatches o' c)
      | none => true
     else true) && healsFrom n f.obs rest

def allFrames (p : Obs → Frame → Bool) : Obs → List Frame → Bool
  | _, [] => true
  | o, f :: rest => p o f && allFrames p f.obs rest

/-- the named clauses over one schedule: `o0` = observation before the first action -/
def clauses (n : Nat) (o0 : Obs) (fs : List Frame) : List (String × Bool) :=
  [ ("quiescent_match_or_error",
      (o0 :: fs.map (·.obs)).all (fun o => !quiescent n o || (List.range n).all (matchOrError o))),
    ("recover_heals", healsFrom n o0 fs),
    ("recover_uses_recorded", allFrames usesRecorded o0 fs),
    ("full_queue_reported", fs.all (reported n)) ]

def holds (n : Nat) (o0 : Obs) (fs : List Frame) : Bool := (clauses n o0 fs).all (·.2)

end CV.C05
