/-
C17 — the departure clause of the property, written from its text, over a history of ONE peer and what was
seen of it afterwards (suite `depart`): "a removed peer stops itself and discards its consensus data".

Reading used here:
* "removed" = the remaining members do not list the peer (`member = false`, read at a remaining member);
* "stops itself" = once the peer has been given a `watchPeers` round after its removal, `Done()` is closed;
* "discards its consensus data" = a removed peer that has stopped holds neither raft.db nor a snapshot in its data
  folder — asked only of a peer that EXECUTED something after its removal (its own removal call, a watch round, a
  `Shutdown`, a start): a peer that has been down ever since cannot have done anything yet.
-/
import ClusterVerif.Model.C17Depart
namespace CV.C17

structure DObs where
  stopped : Bool   -- Done() closed
  member : Bool    -- a remaining member lists the peer
  data : Bool      -- raft.db or a snapshot in its data folder
  left : Bool      -- it called RmPeer(self) from Shutdown
  deriving DecidableEq, Repr

/-- the event removes the peer from the peerset (`stop` when it left successfully) -/
def DEv.removes (leave : Bool) : DEv → Bool
  | .removedByOther => true
  | .selfRemove ok _ _ => ok
  | .stop _ r => leave && r
  | _ => false

/-- the peer itself executes something in this event -/
def DEv.acts : DEv → Bool
  | .selfRemove .. | .tick .. | .stop .. | .restart => true
  | _ => false

/-- the peer executed something at or after the last event that removed it -/
def actedSinceRemoval (leave : Bool) : List DEv → Bool
  | [] => false
  | e :: rest =>
    if rest.any (DEv.removes leave) then actedSinceRemoval leave rest
    else if e.removes leave then e.acts || rest.any DEv.acts
    else actedSinceRemoval leave rest

def lastIsTick : List DEv → Bool
  | [] => false
  | [.tick ok _ _] => ok
  | [_] => false
  | _ :: rest => lastIsTick rest

def dClauses (leave : Bool) (evs : List DEv) (o : DObs) : List (String × Bool) :=
  [("removed_discards", !(o.stopped && !o.member && actedSinceRemoval leave evs) || !o.data),
   ("removed_stops", !(lastIsTick evs && !o.member) || o.stopped)]

def dHolds (leave : Bool) (evs : List DEv) (o : DObs) : Bool := (dClauses leave evs o).all (·.2)

end CV.C17
