/-
C14 — "Exporting the pinset and importing it elsewhere (import replaces WHATEVER WAS THERE) … or starting a peer
on it … reproduce the same pinset", read for a Raft data folder that is more than a snapshot: the target of an
import may hold a snapshot, a log, both or nothing (a peer killed before its first snapshot leaves a log only).
Clauses over what was observed on the IMPLEMENTATION (real single-voter Raft peer wrote the folder, real
`raftStateManager.ImportState`, real `OfflineState`, real peer started on the result):

 * `import_offline_id`     — the offline read after the import is the imported pinset;
 * `import_then_start_id`  — the peer STARTED after the import serves exactly the imported pinset (nothing of what
                              the folder held before — snapshot or log — comes back);
 * `import_backs_up`       — ("cleaning Raft data that holds a snapshot keeps it recoverable as the newest backup")
                              when the folder held a snapshot before the import, old.0 reads as that snapshot's pinset;
 * `restart_keeps_state`   — (no import) the peer started again on the folder it left serves what it served (the
                              snapshot/offline clauses of the statement speak about a snapshot; this is the same identity
                              for snapshot + log, and is what makes the `start` of the model observable).
Written from the statement; the model is not used here. Core Lean only.
-/
namespace CV.C14.Start

def insS (c : Nat) : List Nat → List Nat
  | [] => [c]
  | d :: t => if c < d then c :: d :: t else if c = d then d :: t else d :: insS c t

/-- as sets -/
def sameSet (a b : List Nat) : Bool := a.foldr insS [] == b.foldr insS []

structure Obs where
  preSnap : Option (List Nat)   -- pinset of the snapshot the folder held before (none: no snapshot)
  built   : List Nat            -- what the peer served before it stopped
  off     : Option (List Nat)   -- offline read after the import (none: the import failed)
  old0    : Option (List Nat)   -- offline read of old.0 after the import (none: absent / no snapshot)
  started : List Nat
  deriving Repr

def importClauses (imp : List Nat) (o : Obs) : List (String × Bool) :=
  [("import_offline_id", match o.off with | some l => sameSet l imp | none => false),
   ("import_then_start_id", sameSet o.started imp),
   ("import_backs_up", match o.preSnap with
      | some s => (match o.old0 with | some b => sameSet b s | none => false)
      | none => true)]

def restartClauses (o : Obs) : List (String × Bool) :=
  [("restart_keeps_state", sameSet o.started o.built)]

def allHoldS (cs : List (String × Bool)) : Bool := cs.all (·.2)

end CV.C14.Start
