/-!
# C06, round 8c — Spec for the operation tracker's getters (suite `optracker`)

Written from the statement ("the status of the last pin or unpin operation and its phase"; "a filtered listing is
exactly the unfiltered listing restricted to the filter") and the doc comments of optracker (`GetAll` returns PinInfo
objects for all known operations; `Filter` returns the PinInfos whose operations matched the provided filters), NOT
from the model. Core Lean only.
-/
namespace CV.C06.SpecO

/-- operation type x phase -> status, from the documentation of the statuses -/
def specStatus (t ph : Nat) : Nat :=
  if t == 1 then (if ph == 0 then 4 else if ph == 1 then 512 else if ph == 2 then 32 else if ph == 3 then 16 else 0)
  else if t == 2 then (if ph == 0 then 8 else if ph == 1 then 1024 else if ph == 2 then 64 else if ph == 3 then 128 else 0)
  else if t == 3 then 256 else if t == 4 then 2048 else 0

structure Obs where
  ops : List (Nat × Nat × Nat)      -- TrackNewOperation calls in order: cid, type, phase
  flts : List (Nat × Nat)           -- kind (0 type, 1 phase), value
  all : List (Nat × Nat)            -- GetAll: cid, status
  flt : List (Nat × Nat)            -- Filter(filters...): cid, status
  each : List (Nat × Option Nat)    -- Status(cid) for every submitted cid and for cid 63 (never submitted)

def matchesAll (flts : List (Nat × Nat)) (t ph : Nat) : Bool :=
  flts.all (fun f => if f.1 == 0 then t == f.2 else ph == f.2)

def nodupB : List Nat → Bool
  | [] => true
  | a :: r => !r.contains a && nodupB r

def clauses (o : Obs) : List (String × Bool) :=
  let cids := o.ops.map (·.1)
  [("to_getall_once", nodupB (o.all.map (·.1))),
   ("to_getall_tracked", (o.all.all fun e => cids.contains e.1) && (cids.all fun c => (o.all.map (·.1)).contains c)),
   ("to_status_of_an_op", o.all.all fun e => o.ops.any fun p => p.1 == e.1 && specStatus p.2.1 p.2.2 == e.2),
   ("to_status_agrees", o.each.all fun s =>
      match s.2 with
      | some st => o.all.contains (s.1, st)
      | none => !(o.all.map (·.1)).contains s.1),
   ("to_filter_subset", o.flt.all fun e => o.all.contains e),
   ("to_filter_sound", o.flt.all fun e => o.ops.any fun p =>
      p.1 == e.1 && specStatus p.2.1 p.2.2 == e.2 && matchesAll o.flts p.2.1 p.2.2),
   -- completeness where the status tells type and phase (pin / unpin statuses)
   ("to_filter_complete", o.flts.isEmpty || o.all.all fun e =>
      o.flt.contains e || !([1, 2].any fun t => [0, 1, 2, 3].any fun ph => specStatus t ph == e.2 && matchesAll o.flts t ph))]

def holds (o : Obs) : Bool := (clauses o).all (·.2)

end CV.C06.SpecO
