import ClusterVerif.Model.C09Chan
/-
C09, suite `chan` — the property on what a CONSUMER of `Monitor.Alerts()` sees when it does not
receive after every check (written from the statement, applied to the implementation's output).

The checker follows the history: per peer the most recent arrival `(stamp, expired)`, dropped when a
check's listing of the store no longer shows it ("forgotten"). `delivered` = every alert the
consumer received in the whole case (the case ends with a full drain, so an alert that was ever
put into the channel is in it).

  most_recent           what the store shows after a check is the latest arrival of that peer; only
                        peers named in the check are forgotten
  alert_once            no (peer, metric) is delivered twice
  fresh_never_failed    every delivered alert names an arrival that was expired
  forget_only_reported  "reported once, after which its stale metric is forgotten": a forgotten metric
                        was expired and its alert was delivered
-/
namespace CV.C09.Chan

def delivered : List Obs → List (Nat × Nat)
  | [] => []
  | .drained l :: r => l ++ delivered r
  | _ :: r => delivered r

def nodupB : List (Nat × Nat) → Bool
  | [] => true
  | x :: r => !(r.contains x) && nodupB r

def setLatest (p st : Nat) (e : Bool) (l : List (Nat × Nat × Bool)) : List (Nat × Nat × Bool) :=
  (p, st, e) :: l.filter (fun x => x.1 != p)

/-- follows the history; result: (forgotten metrics, `most_recent` held everywhere) -/
def walk : Nat → List (Nat × Nat × Bool) → List Op → List Obs → Option (List (Nat × Nat × Bool) × Bool)
  | _, _, [], [.drained _] => some ([], true)
  | n, lat, .add p e :: r, obs => walk (n + 1) (setLatest p (n + 1) e lat) r obs
  | n, lat, .drain k :: r, .drained l :: obs =>
    if l.length ≤ k then walk (n + 1) lat r obs else none
  | n, lat, .check cl :: r, .check _ st :: obs =>
    let gone := lat.filter (fun x => !(st.contains (x.1, x.2.1)))
    let ok := st.all (fun y => lat.any (fun x => x.1 == y.1 && x.2.1 == y.2)) && gone.all (fun x => cl.contains x.1)
    let lat' := lat.filter (fun x => st.contains (x.1, x.2.1))
    (walk (n + 1) lat' r obs).map (fun g => (gone ++ g.1, ok && g.2))
  | _, _, _, _ => none

def expiredArrival (ops : List Op) (a : Nat × Nat) : Bool :=
  a.2 != 0 && (ops[a.2 - 1]? == some (Op.add a.1 true))

def clauses (ops : List Op) (obs : List Obs) : List (String × Bool) :=
  match walk 0 [] ops obs with
  | none => [("shape", false)]
  | some (gone, ok) =>
    let dl := delivered obs
    [("shape", true),
     ("most_recent", ok),
     ("alert_once", nodupB dl),
     ("fresh_never_failed", dl.all (expiredArrival ops)),
     ("forget_only_reported", gone.all (fun x => x.2.2 && dl.contains (x.1, x.2.1)))]

def holds (ops : List Op) (obs : List Obs) : Bool := (clauses ops obs).all (·.2)

def failing (ops : List Op) (obs : List Obs) : List String :=
  ((clauses ops obs).filter (fun x => !x.2)).map (·.1)

end CV.C09.Chan
