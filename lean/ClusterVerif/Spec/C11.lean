/-
C11 — the property, written from its statement, as executable clause checkers over a request
and the response + recorded cluster operations it produced.  The driver applies these to the
IMPLEMENTATION's outputs; Props/C11 proves them for the model's.

Reading of the statement used here

* "the cluster operation its route names": the frozen table `expectations` (route name, method,
  pattern → RPC method(s) and argument shape).  A request *addresses* every entry whose method and
  pattern match its method and path; when several do (POST /pins/recover is both "recover
  everything" and "pin the CID `recover`") the behaviour prescribed by any one of them is accepted.
* "malformed": the CID / path / peer ID / JSON body the addressed route needs does not decode, or
  a pin option the request carries has an undecodable value (`carried = none`).  A repeated
  parameter counts with its first occurrence; an empty value counts as absent; `replication`
  stands for both factors; `expire-at` wins over `expire-in`; but every carried value must decode.
* "exactly the CID/path and the options it carried": the single recorded operation has the
  expected RPC name; its argument is that CID / peer / path; for a pin it is a plain data pin of
  that CID (no allocations, no reference) whose options equal the carried ones and whose mode is
  still the carried mode after the state's encoding (an option that is carried but cannot take
  effect has not arrived).
* options that mean nothing to the addressed route (pin options on a status route, `local`
  with a value other than true/false, an unknown `filter`, a value of some other parameter with a
  malformed percent-escape): refusing and performing are both accepted (`either`).  On `/add` every
  parameter is an option of the route: a malformed escape anywhere is a malformed request.
* "the response body is a single JSON document": exactly one document and nothing else; the
  exceptions are the responses that HTTP defines to have no body (204, and anything in answer to
  HEAD), a CORS preflight (answered by the CORS layer), and the 3xx redirect of a non-canonical
  path (trailing slash, empty or dot segments) to its canonical form, which performs nothing.
* "without valid credentials": credentials configured and the request has none, a malformed
  header, an unknown user or a wrong password.
-/
import ClusterVerif.Model.C11
namespace CV.C11

/-! ### valid credentials -/

/-- "valid credentials": the request carries a well-formed Basic header whose user and password are one
    of the configured pairs -/
def validCreds (creds : List (String × String)) (h : AuthHeader) : Bool :=
  match h with
  | .basic u p => creds.contains (u, p)
  | _ => false

/-- the credential situation of a request, by the statement's notion of valid credentials -/
def specAuthClass (creds : List (String × String)) (h : AuthHeader) : Auth :=
  if validCreds creds h then .right
  else match h with
    | .none => .none
    | .malformed => .malformed
    | .basic _ _ => .wrong

/-! ### the options a request carries (strict reading) -/
namespace S
def mode (q : List (String × QV)) : Option Mode :=
  match getq q "mode" with
  | .empty => some .recursive
  | .valid (.mode m) => some m
  | _ => none

def factors (q : List (String × QV)) : Option (Int × Int) :=
  match intParam (getq q "replication-min") 0, intParam (getq q "replication-max") 0 with
  | some a, some b =>
    (match getq q "replication" with
     | .empty => some (a, b)
     | .valid (.int i) => some (i, i)
     | _ => none)
  | _, _ => none

def ualloc (q : List (String × QV)) : Option (List Nat) :=
  match getq q "user-allocations" with
  | .empty => some []
  | .valid (.peers l) => if l.all Option.isSome then some (l.filterMap id) else none
  | _ => none

def expireIn (q : List (String × QV)) : Option (Option Nat) :=
  match getq q "expire-in" with
  | .empty => some none
  | .valid (.nat k) => some (some k)
  | _ => none

def expiry (q : List (String × QV)) : Option Expiry :=
  match expireIn q with
  | none => none
  | some ein =>
    (match getq q "expire-at" with
     | .empty => some (match ein with | none => .zero | some k => inFuture k)
     | .valid (.exp e) => some e
     | _ => none)
end S

def pinOptionKeys : List String :=
  ["name", "mode", "replication-min", "replication-max", "replication", "shard-size", "user-allocations",
   "expire-at", "expire-in", "pin-update", "origins"]

/-- a pin option whose value is not even a well-formed query-string value -/
def garbledOption (q : List (String × QV)) : Bool :=
  q.any (fun p => p.2 == .garbled && pinOptionKeys.contains p.1)

/-- the pin options the request carries; `none` = some carried value does not decode -/
def carried (q : List (String × QV)) (md : List (Nat × Nat)) : Option Opts :=
  if garbledOption q then none else
  assemble (nameParam (getq q "name")) (S.mode q) (S.factors q) (natParam (getq q "shard-size") 0)
    (S.ualloc q) (S.expiry q) (optCidParam (getq q "pin-update")) (natsParam (getq q "origins")) (metaOf md)

/-! ### frozen expectation: route → RPC method and argument shape -/

inductive Shape where
  | unit (op : String)
  | localUnit (op opLocal : String)
  | cidArg (op : String)
  | localCid (op opLocal : String)
  | pidVar (op : String)
  | pidBody (op : String)
  | pin (op : String)
  | unpin (op : String)
  | pinPath (op : String)
  | unpinPath (op : String)
  | nameVar (op : String)
  | statusFilter (op opLocal : String)
  | typeFilter (op : String)
  | add
  deriving DecidableEq, Repr

structure Expect where
  name : String
  method : String
  pat : List PSeg
  shape : Shape
  deriving DecidableEq, Repr

def pinsPath : List PSeg := [.lit "pins", .alt "keyType" ["ipfs", "ipns", "ipld"], .rest "path"]

def expectations : List Expect := [
  ⟨"ID", "GET", [.lit "id"], .unit "Cluster.ID"⟩,
  ⟨"Version", "GET", [.lit "version"], .unit "Cluster.Version"⟩,
  ⟨"Peers", "GET", [.lit "peers"], .unit "Cluster.Peers"⟩,
  ⟨"PeerAdd", "POST", [.lit "peers"], .pidBody "Cluster.PeerAdd"⟩,
  ⟨"PeerRemove", "DELETE", [.lit "peers", .var "peer"], .pidVar "Cluster.PeerRemove"⟩,
  ⟨"Add", "POST", [.lit "add"], .add⟩,
  ⟨"Allocations", "GET", [.lit "allocations"], .typeFilter "Cluster.Pins"⟩,
  ⟨"Allocation", "GET", [.lit "allocations", .var "hash"], .cidArg "Cluster.PinGet"⟩,
  ⟨"StatusAll", "GET", [.lit "pins"], .statusFilter "Cluster.StatusAll" "Cluster.StatusAllLocal"⟩,
  ⟨"Recover", "POST", [.lit "pins", .var "hash", .lit "recover"], .localCid "Cluster.Recover" "Cluster.RecoverLocal"⟩,
  ⟨"RecoverAll", "POST", [.lit "pins", .lit "recover"], .localUnit "Cluster.RecoverAll" "Cluster.RecoverAllLocal"⟩,
  ⟨"Status", "GET", [.lit "pins", .var "hash"], .localCid "Cluster.Status" "Cluster.StatusLocal"⟩,
  ⟨"Pin", "POST", [.lit "pins", .var "hash"], .pin "Cluster.Pin"⟩,
  ⟨"PinPath", "POST", pinsPath, .pinPath "Cluster.PinPath"⟩,
  ⟨"Unpin", "DELETE", [.lit "pins", .var "hash"], .unpin "Cluster.Unpin"⟩,
  ⟨"UnpinPath", "DELETE", pinsPath, .unpinPath "Cluster.UnpinPath"⟩,
  ⟨"RepoGC", "POST", [.lit "ipfs", .lit "gc"], .localUnit "Cluster.RepoGC" "Cluster.RepoGCLocal"⟩,
  ⟨"ConnectionGraph", "GET", [.lit "health", .lit "graph"], .unit "Cluster.ConnectGraph"⟩,
  ⟨"Alerts", "GET", [.lit "health", .lit "alerts"], .unit "Cluster.Alerts"⟩,
  ⟨"Metrics", "GET", [.lit "monitor", .lit "metrics", .var "name"], .nameVar "PeerMonitor.LatestMetrics"⟩,
  ⟨"MetricNames", "GET", [.lit "monitor", .lit "metrics"], .unit "PeerMonitor.MetricNames"⟩ ]

/-- the request addresses this entry -/
def addresses (e : Expect) (r : Req) : Bool := e.method == r.method && matchPat e.pat r.segs r.slash

/-! ### what the addressed route demands of the request -/

inductive WantArg where
  | unit
  | cid (c : Nat)
  | pid (p : Nat)
  | pin (c : Nat) (o : Opts)
  | cidOnly (c : Nat)
  | path (p : String) (o : Opts)
  | pathOnly (p : String)
  | str (s : String)
  | num (s : String)
  deriving DecidableEq, Repr

structure Want where
  names : List String
  arg : WantArg
  deriving DecidableEq, Repr

def canonOpts (o : Opts) : Opts := { o with metadata := normMeta o.metadata }

def Want.ok (w : Want) (op : Op) : Bool :=
  w.names.contains op.name &&
  (match w.arg, op.arg with
   | .unit, .unit => true
   | .cid c, .cid c' => c == c'
   | .pid p, .pid p' => p == p'
   | .pin c o, .pin p sm =>
     p.cid == c && p.type == .dataT && p.allocs == [] && p.ref == none &&
     canonOpts p.opts == canonOpts o && sm == o.mode
   | .cidOnly c, .pin p _ => p.cid == c
   | .path s o, .path s' o' => s == s' && canonOpts o' == canonOpts o
   | .pathOnly s, .path s' _ => s == s'
   | .str s, .str s' => s == s'
   | .num s, .num s' => s == s'
   | _, _ => false)

inductive Verdict where
  | malformed                 -- must be refused: 4xx and nothing performed
  | perform (w : Want)        -- must be performed: exactly one operation, as wanted
  | either (w : Want)         -- carries junk that means nothing to this route: either of the two
  deriving Repr

def is4xx (st : Nat) : Bool := decide (400 ≤ st) && decide (st < 500)
def is3xx (st : Nat) : Bool := decide (300 ≤ st) && decide (st < 400)

def refused (o : Resp) : Bool := is4xx o.status && o.ops.isEmpty
def performed (w : Want) (o : Resp) : Bool :=
  match o.ops with
  | [op] => w.ok op
  | _ => false

def conforms (v : Verdict) (o : Resp) : Bool :=
  match v with
  | .malformed => refused o
  | .perform w => performed w o
  | .either w => refused o || performed w o

def localBad (r : Req) : Bool :=
  match getq r.query "local" with
  | .empty => false
  | .valid (.bool _) => false
  | _ => true
def filterBad (r : Req) : Bool := getq r.query "filter" == .invalid
def optsBad (r : Req) : Bool := (carried r.query r.md).isNone

/-- the RPC names acceptable for a route with a local variant -/
def localNames (r : Req) (op opLocal : String) : List String :=
  match getq r.query "local" with
  | .empty => [op]
  | .valid (.bool true) => [opLocal]
  | .valid (.bool false) => [op]
  | _ => [op, opLocal]

def decide' (junk : Bool) (w : Want) : Verdict := if junk then .either w else .perform w

def verdict (e : Expect) (r : Req) : Verdict :=
  let junk := optsBad r || localBad r || filterBad r || hasGarbled r.query
  match e.shape with
  | .unit op => decide' junk ⟨[op], .unit⟩
  | .localUnit op opl => decide' junk ⟨localNames r op opl, .unit⟩
  | .cidArg op =>
    (match (varSeg "hash" e.pat r.segs).bind (·.cid) with
     | some c => decide' junk ⟨[op], .cid c⟩
     | none => .malformed)
  | .localCid op opl =>
    (match (varSeg "hash" e.pat r.segs).bind (·.cid) with
     | some c => decide' junk ⟨localNames r op opl, .cid c⟩
     | none => .malformed)
  | .pidVar op =>
    (match (varSeg "peer" e.pat r.segs).bind (·.pid) with
     | some p => decide' junk ⟨[op], .pid p⟩
     | none => .malformed)
  | .pidBody op =>
    (match r.body with
     | .peerJson s => (match s.pid with
        | some p => decide' junk ⟨[op], .pid p⟩
        | none => .malformed)
     | _ => .malformed)
  | .pin op =>
    (match (varSeg "hash" e.pat r.segs).bind (·.cid), carried r.query r.md with
     | some c, some o => decide' (localBad r || filterBad r || hasGarbled r.query) ⟨[op], .pin c o⟩
     | _, _ => .malformed)
  | .unpin op =>
    (match (varSeg "hash" e.pat r.segs).bind (·.cid) with
     | some c => decide' junk ⟨[op], .cidOnly c⟩
     | none => .malformed)
  | .pinPath op =>
    (match pathOf e.pat r.segs, carried r.query r.md with
     | some p, some o => decide' (localBad r || filterBad r || hasGarbled r.query) ⟨[op], .path p o⟩
     | _, _ => .malformed)
  | .unpinPath op =>
    (match pathOf e.pat r.segs with
     | some p => decide' junk ⟨[op], .pathOnly p⟩
     | none => .malformed)
  | .nameVar op =>
    decide' junk ⟨[op], .str (match varSeg "name" e.pat r.segs with | some s => s.txt | none => "")⟩
  | .statusFilter op opl =>
    (match getq r.query "filter" with
     | .valid (.str m) => decide' (optsBad r || localBad r || hasGarbled r.query) ⟨localNames r op opl, .num m⟩
     | .empty => decide' (optsBad r || localBad r || hasGarbled r.query) ⟨localNames r op opl, .num "0"⟩
     | _ => .either ⟨localNames r op opl, .num "0"⟩)
  | .typeFilter op => decide' junk ⟨[op], .unit⟩
  | .add => .malformed     -- a request of this kind has no multipart body (the add endpoint proper: `addClauses`)

def isMalformed (v : Verdict) : Bool :=
  match v with
  | .malformed => true
  | _ => false

/-- the path is not in canonical form (mux redirects it) -/
def nonCanonical (r : Req) : Bool := r.slash || unclean r

/-- "single JSON document" -/
def singleDocument (r : Req) (o : Resp) : Bool :=
  if r.method == "HEAD" then o.body == .docs 0
  else if preflight r then (o.body == .docs 0 || o.body == .docs 1)
  else if o.status == 204 then o.body == .docs 0
  else if nonCanonical r && is3xx o.status then true
  else o.body == .docs 1

def clauses (r : Req) (o : Resp) : List (String × Bool) :=
  [ ("auth_gate", authorized r || o.ops.isEmpty),
    ("single_document", singleDocument r o) ] ++
  (if !authorized r || preflight r then [("gate_or_preflight_no_op", o.ops.isEmpty)]
   else if nonCanonical r && is3xx o.status then [("redirect_no_op", o.ops.isEmpty)]
   else
     let cands := expectations.filter (fun e => addresses e r)
     if cands.isEmpty then [("unknown_refused", refused o)]
     else
       let allBad := cands.all (fun e => isMalformed (verdict e r))
       [ ("fail_closed", !allBad || refused o),
         ("faithful", allBad || cands.any (fun e => conforms (verdict e r) o)) ])

def holds (r : Req) (o : Resp) : Bool := (clauses r o).all (·.2)

/-! ### the bundled client: "arrives with the arguments it was given and returns what the server answered" -/

def pathString (p : List Seg) : String := "/".intercalate (p.map (·.txt))

def pick (l : Bool) (op opLocal : String) : String := if l then opLocal else op

/-- the operation a client call names, with the arguments it was given; `none`: the argument is not a
    valid path (the client has to refuse it).  A bare `<cid>/…` path stands for `/ipfs/<cid>/…`. -/
def callWant : Call → Option Want
  | .id => some ⟨["Cluster.ID"], .unit⟩
  | .version => some ⟨["Cluster.Version"], .unit⟩
  | .peers => some ⟨["Cluster.Peers"], .unit⟩
  | .alerts => some ⟨["Cluster.Alerts"], .unit⟩
  | .graph => some ⟨["Cluster.ConnectGraph"], .unit⟩
  | .metricNames => some ⟨["PeerMonitor.MetricNames"], .unit⟩
  | .peerAdd s => s.pid.map (fun p => ⟨["Cluster.PeerAdd"], .pid p⟩)
  | .peerRm s => s.pid.map (fun p => ⟨["Cluster.PeerRemove"], .pid p⟩)
  | .pin s o => s.cid.map (fun c => ⟨["Cluster.Pin"], .pin c (normOpts o)⟩)
  | .unpin s => s.cid.map (fun c => ⟨["Cluster.Unpin"], .cidOnly c⟩)
  | .allocation s => s.cid.map (fun c => ⟨["Cluster.PinGet"], .cid c⟩)
  | .pinPath p o => (clientPath p).map (fun p' => ⟨["Cluster.PinPath"], .path (pathString p') (normOpts o)⟩)
  | .unpinPath p => (clientPath p).map (fun p' => ⟨["Cluster.UnpinPath"], .pathOnly (pathString p')⟩)
  | .allocations _ => some ⟨["Cluster.Pins"], .unit⟩
  | .status s l => s.cid.map (fun c => ⟨[pick l "Cluster.Status" "Cluster.StatusLocal"], .cid c⟩)
  | .recover s l => s.cid.map (fun c => ⟨[pick l "Cluster.Recover" "Cluster.RecoverLocal"], .cid c⟩)
  | .statusAll m l => some ⟨[pick l "Cluster.StatusAll" "Cluster.StatusAllLocal"], .num (toString m)⟩
  | .recoverAll l => some ⟨[pick l "Cluster.RecoverAll" "Cluster.RecoverAllLocal"], .unit⟩
  | .repoGC l => some ⟨[pick l "Cluster.RepoGC" "Cluster.RepoGCLocal"], .unit⟩
  | .metrics s => some ⟨["PeerMonitor.LatestMetrics"], .str s.txt⟩

def cliAuthorized (cfg : CliCfg) : Bool := !cfg.creds || cfg.auth == .right

def arrived (w : Want) (ops : List Op) : Bool :=
  match ops with
  | [op] => w.ok op
  | _ => false

def isErrRet (r : Ret) : Bool :=
  match r with
  | .err k => decide (400 ≤ k)
  | _ => false

/-- a path argument that is not in canonical form (an empty, "." or ".." segment): not a valid argument of the
    REST API, whose router redirects such URLs; nothing may be performed for it and the caller must get an error -/
def callNonCanonical : Call → Bool
  | .pinPath p _ | .unpinPath p => p.any (fun s => s.txt == "" || s.txt == "." || s.txt == "..")
  | _ => false

def cliClauses (cfg : CliCfg) (c : Call) (ops : List Op) (ret : Ret) : List (String × Bool) :=
  if callNonCanonical c then
    [("client_noncanonical_refused", ops.isEmpty && (ret == .clientErr || isErrRet ret))]
  else
  match callWant c with
  | none => [("client_refuses_invalid", ops.isEmpty && ret == .clientErr)]
  | some w =>
    if !cliAuthorized cfg then
      [("client_gate", ops.isEmpty), ("client_returns", ret == .err 401)]
    else
      [("client_arrives", arrived w ops),
       ("client_returns", if cfg.rpc == .ok then ret == .same else isErrRet ret)]

def cliHolds (cfg : CliCfg) (c : Call) (ops : List Op) (ret : Ret) : Bool := (cliClauses cfg c ops ret).all (·.2)

/-! ### the add endpoint

Reading: the request is malformed when it has no multipart body, the body is not multipart or not what
the options say it is, any pin option or add option it carries has an undecodable value (an unknown
chunker or hash function included), or it asks for CID version 0 together with a hash function other than
sha2-256.  `mode` and `pin-update` do not apply to adding (content is always pinned recursively,
there is nothing to update from) and are not compared.  A well-formed request, when the cluster
answers, yields: one allocation request carrying the options, block puts, and one Cluster.Pin of a plain
data pin carrying exactly the options.  The endpoint streams one JSON document per added node by
design, so "single JSON document" is demanded only when the request asks for the buffered form
(stream-channels=false); a streamed body must still be nothing but JSON documents. -/

def addBoolKeys : List String :=
  ["local", "recursive", "hidden", "wrap-with-directory", "shard", "progress", "raw-leaves", "stream-channels", "nocopy"]

/-- every add option the request carries decodes -/
def addOptionsOk (q : List (String × QV)) : Bool :=
  addBoolKeys.all (fun k => (boolParam (getq q k) false).isSome) &&
  (wordParam (getq q "layout")).isSome && (wordParam (getq q "format")).isSome &&
  (lateWord (getq q "chunker") "").isSome && (lateWord (getq q "hash") "").isSome &&
  (intParam (getq q "cid-version") 0).isSome

/-- the options say the body is something it is not: a CAR archive (`format=car`; the harness sends a plain
    file), content to be referenced from a URL instead of copied (`nocopy=true`; the content is inline) -/
def bodyMismatch (q : List (String × QV)) : Bool :=
  getq q "format" == .valid (.str "car") || getq q "nocopy" == .valid (.bool true)

/-- the options contradict each other: CID version 0 asked for by name together with a hash function a
    CIDv0 cannot carry (only sha2-256 fits; when the version is not given, version 1 is what is meant) -/
def versionContradiction (q : List (String × QV)) : Bool :=
  getq q "cid-version" == .valid (.int 0) &&
  (match getq q "hash" with
   | .valid (.str s) => s != "sha2-256"
   | _ => false)

def addMalformed (r : AddReq) : Bool :=
  r.mp != .ok || (carried r.query r.md).isNone || !addOptionsOk r.query || bodyMismatch r.query ||
  versionContradiction r.query || hasGarbled r.query

/-- the options compared on the add route: everything but mode and pin-update -/
def addCmp (o : Opts) : Opts := canonOpts { o with mode := .recursive, update := none }

def addFaithful (r : AddReq) (o : AddResp) : Bool :=
  match carried r.query r.md, o.ops with
  | some w, [⟨"Cluster.BlockAllocate", .path _ oa⟩, ⟨"IPFSConnector.BlockPut", .blk⟩, ⟨"Cluster.Pin", .pin p sm⟩] =>
    addCmp oa == addCmp w && addCmp p.opts == addCmp w && p.type == .dataT && p.ref == none && sm == .recursive
  | _, _ => false

/-! "with exactly … the options it carried", for the add options: every add option the request carries
explicitly reaches the adder unchanged; one it does not carry has the documented default (`DefaultAddParams`;
layout and format are passed on as texts, absent = ""), where two defaults are derived by the documented
go-ipfs rules: no `cid-version` = 0, or 1 when the hash function asked for is not sha2-256 (a CIDv0 cannot carry
it); no `raw-leaves` = "the CID version is above 0".  An explicit value is never overridden by a derived one. -/

def wordCarried (v : QV) (dflt seen : String) : Bool :=
  match v with
  | .empty => seen == dflt
  | .valid (.str s) => seen == s
  | _ => true            -- undecodable: the request is malformed, `fail_closed` speaks

def boolCarried (v : QV) (dflt seen : Bool) : Bool :=
  match v with
  | .empty => seen == dflt
  | .valid (.bool b) => seen == b
  | _ => true

def hashIsOther (q : List (String × QV)) : Bool :=
  match getq q "hash" with
  | .empty => false
  | .valid (.str s) => s != "sha2-256"
  | _ => true

def cidvCarried (q : List (String × QV)) (seen : Int) : Bool :=
  match getq q "cid-version" with
  | .empty => seen == (if hashIsOther q then 1 else 0)
  | .valid (.int i) => seen == i
  | _ => true

/-- the `AddParams` handed to the adder carry exactly the add options of the query -/
def seenExact (q : List (String × QV)) (s : AddSeen) : Bool :=
  wordCarried (getq q "layout") "" s.layout && wordCarried (getq q "chunker") "size-262144" s.chunker &&
  wordCarried (getq q "hash") "sha2-256" s.hash && wordCarried (getq q "format") "" s.format &&
  boolCarried (getq q "local") false s.loc && boolCarried (getq q "recursive") false s.recursive &&
  boolCarried (getq q "hidden") false s.hidden && boolCarried (getq q "wrap-with-directory") false s.wrap &&
  boolCarried (getq q "shard") false s.shard && boolCarried (getq q "progress") false s.progress &&
  cidvCarried q s.cidv && boolCarried (getq q "raw-leaves") (decide (s.cidv > 0)) s.rawLeaves &&
  boolCarried (getq q "stream-channels") true s.stream && boolCarried (getq q "nocopy") false s.nocopy

/-- … and the blocks the adder puts are built with the leaf form the request asked for by name -/
def leafExact (q : List (String × QV)) (leaf : String) : Bool :=
  leaf == "-" ||
  (match getq q "raw-leaves" with
   | .valid (.bool b) => leaf == (if b then "raw" else "pb")
   | _ => true)

def addOptionsExact (r : AddReq) (o : AddResp) : Bool :=
  (match o.seen with
   | some s => seenExact r.query s
   | none => false) && leafExact r.query o.leaf

/-- the query of an add request is well-formed: the part of `addMalformed` that speaks about the query alone -/
def addQueryOk (q : List (String × QV)) (md : List (Nat × Nat)) : Bool :=
  (carried q md).isSome && addOptionsOk q && !versionContradiction q && !hasGarbled q

/-- the clauses for `AddParamsFromQuery` on its own (case kind `addp`): a query with an undecodable option is refused;
    a well-formed one is turned into `AddParams` carrying exactly its add options -/
def parseClauses (q : List (String × QV)) (md : List (Nat × Nat)) (seen : Option AddSeen) : List (String × Bool) :=
  if addQueryOk q md then
    [("options_exact", match seen with | some s => seenExact q s | none => false)]
  else if (lateWord (getq q "chunker") "").isNone || (lateWord (getq q "hash") "").isNone then []   -- found out late: K24's subject
  else [("fail_closed", seen.isNone)]

def addAuthorized (r : AddReq) : Bool := !r.creds || r.auth == .right

def addStreams (r : AddReq) : Bool := getq r.query "stream-channels" != .valid (.bool false)

def addClauses (r : AddReq) (o : AddResp) : List (String × Bool) :=
  [ ("auth_gate", addAuthorized r || o.ops.isEmpty),
    ("answered", o.status != 0),
    ("single_document",
      if !addAuthorized r || addMalformed r then (o.status == 0 || o.body == .docs 1)
      else if addStreams r then (match o.body with | .docs _ => true | .junk _ => false)
      else o.body == .docs 1) ] ++
  (if !addAuthorized r then []
   else if addMalformed r then [("fail_closed", is4xx o.status && o.ops.isEmpty)]
   else if r.rpc == .ok then [("faithful", addFaithful r o)]
   else []) ++
  (if addMalformed r || !addAuthorized r || r.rpc != .ok then [] else [("options_exact", leafExact r.query o.leaf)])

def addHolds (r : AddReq) (o : AddResp) : Bool := (addClauses r o).all (·.2)

end CV.C11
