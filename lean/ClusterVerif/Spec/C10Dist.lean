/-
C10 — "by exactly one surviving peer", at the level where the code decides it: every surviving member (a member other than the
failed / excluded one) answers, per cid, whether it is the one to act. From the statement: whatever the 32-byte hashes of the
members look like, as long as they are pairwise distinct exactly one surviving member answers yes for each cid; and in every case
(also with colliding hashes) somebody answers yes, or the pin would be re-homed / unpinned by nobody.
Observables: the answers of the real `isClosest` of every surviving member. Core Lean only.
-/
import ClusterVerif.Model.C10Dist
namespace CV.C10.Dist
open CV

structure DistCase where
  exclude : Option Nat
  members : List (Nat × Bytes)          -- id, 32-byte hash, in the order of consensus.Peers()
  cids : List (Nat × Bytes)             -- cid, 32-byte hash of its key
  deriving Repr

def DistCase.survivors (k : DistCase) : List (Nat × Bytes) := k.members.filter (fun m => some m.1 != k.exclude)

def pairwiseDistinct : List Bytes → Bool
  | [] => true
  | h :: t => !t.contains h && pairwiseDistinct t

/-- how many surviving members answered yes for the j-th cid -/
def yesCount (k : DistCase) (ans : List (Nat × List Bool)) (j : Nat) : Nat :=
  (k.survivors.filter (fun m => ((C04.lookup ans m.1).getD []).getD j false)).length

def distClauses (k : DistCase) (ans : List (Nat × List Bool)) : List (String × Bool) :=
  let js := List.range k.cids.length
  [("exactly_one_member_closest_per_cid",
      !pairwiseDistinct (k.survivors.map (·.2)) || k.survivors.isEmpty || js.all (fun j => yesCount k ans j == 1)),
   ("some_member_closest_per_cid", k.survivors.isEmpty || js.all (fun j => decide (yesCount k ans j ≥ 1)))]

def distHolds (k : DistCase) (ans : List (Nat × List Bool)) : Bool := (distClauses k ans).all (·.2)

end CV.C10.Dist
