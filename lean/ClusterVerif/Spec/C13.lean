/-
C13 — the property, written from its statement, as named clause checkers over what one
add through the cluster showed: the blocks handed to the destination daemons, the pins
handed to the cluster, the root returned.

Reading used here
* "delivers ... a set of blocks that is closed under links from the returned root and from
  which every file's bytes read back identical", "the root is the same with and without
  sharding and equals what the standard IPFS importer computes": these four facts are about
  hashing and chunking; they are computed by the harness over the blocks the destinations
  accepted (go-merkledag / go-unixfs readers, an importer assembled from the library
  primitives, a second add with the other DAG service) and arrive as Booleans.
* "on success exactly the root is pinned with the requested options and the allocations the
  blocks were sent to": not sharded — the accepted pins are exactly one data pin of the
  returned root; its options are the requested ones (content that was just added is always
  pinned recursively, whatever mode was asked); its allocations are, as a set, the
  destinations that were handed the blocks — or none at all when the request replicates
  everywhere (negative factors), which is how "everywhere" is written in a pin. Adds with the
  `local` flag deliver to the local daemon only and pin normally; the flag is not among the
  parameters the property quantifies over and the allocation clause does not apply to it.
* "for sharded adds a meta entry, a cluster-DAG entry and shard entries": the accepted pins
  are shard pins, then one cluster-DAG pin and one meta pin, nothing else; the meta pin is of
  the returned root, carries the requested options and references the cluster-DAG pin, which
  references the root back; the delivered cluster-DAG node lists the shard pins in order.
* "whose links partition the blocks": the data blocks reachable through the delivered nodes of
  the shard pins, taken together, contain every block of the stream exactly once.
* "each shard under the size limit": the raw sizes of a shard's blocks sum to less than the
  requested shard size.
* "deep enough to cover its links": a shard pin's depth is at least the number of link steps
  from the pinned node to its blocks (unbounded depth, negative, covers everything).
* shard allocations: as for the root, the destinations that were handed the shard's blocks.
* "delivers to the destination daemons a set of blocks ...": on success every block that was handed to the
  adder's DAG service has been accepted (BlockPut answered without error) by at least one destination. The
  code's stated policy is "as long as BlockPut worked in 1 destination, we move on", and the property speaks
  of the daemons collectively ("a set of blocks"), so one accepting destination per block is what is asked
  - not every allocated destination, which the code does not promise (a destination that failed once is
  dropped or tolerated and still named in the pin; the pin makes it fetch what it lacks).
* "on failure the root is not pinned": when the add reports an error no data pin and no meta
  pin was accepted (shard and cluster-DAG pins of the unfinished add may remain).
-/
import ClusterVerif.Model.C13
namespace CV.C13
open CV

/-- one observed add (the part of a case line after `=>`) -/
structure Obs where
  status : Status
  root : Nat
  stream : List Blk
  failed : List Nat
  fin : Option Nat
  log : List Ev
  nodes : List Node
  closure : Bool
  readback : Bool
  rootPlain : Bool
  rootImporter : Bool
  refErr : Bool
  routeEq : Bool
  deriving Repr

/-! ### reading the observation -/

def pinsOkOf (log : List Ev) : List Pin :=
  log.filterMap (fun e => match e with
    | .pin p true => some p
    | _ => none)

def nodeOf (nodes : List Node) (id : Nat) : Option Node := nodes.find? (fun n => n.id == id)

def isData (id : Nat) : Bool := decide (id < unknownId)
def isMeta (id : Nat) : Bool := decide (metaBase ≤ id)

/-- the blocks under a pinned node and the number of link steps down to them -/
def resolve (nodes : List Node) (root : Nat) : List Nat × Nat :=
  match nodeOf nodes root with
  | none => ([], 0)
  | some n =>
    if n.links.all isData then (n.links, 1)
    else if n.links.all isMeta then
      let leaves := n.links.map (nodeOf nodes)
      if leaves.all (fun l => match l with
          | some x => x.links.all isData
          | none => false)
      then (leaves.flatMap (fun l => match l with
          | some x => x.links
          | none => []), 2)
      else ([], 0)
    else ([], 0)

/-- destinations that were handed one of the given blocks -/
def sentTo (log : List Ev) (blocks : List Nat) : List Nat :=
  sortDedup (log.flatMap (fun e => match e with
    | .put b atts => if blocks.contains b then atts.map (·.peer) else []
    | _ => []))

def shardViewOf (o : Obs) (p : Pin) : ShardV :=
  let r := resolve o.nodes p.cid
  { pin := p, blocks := r.1, height := r.2, sent := sentTo o.log r.1 }

/-- the links of the delivered cluster-DAG node: the shard pins directly, or through one level of leaves -/
def cdagLinksOf (o : Obs) (pins : List Pin) : Option (List Nat) :=
  match pins.filter (fun p => p.type == .clusterDagT) with
  | [cd] =>
    match nodeOf o.nodes cd.cid with
    | none => none
    | some n =>
      let shardCids := (pins.filter (fun p => p.type == .shardT)).map (·.cid)
      if n.links.all (fun l => shardCids.contains l) then some n.links
      else
        let leaves := n.links.map (nodeOf o.nodes)
        if leaves.all (·.isSome) then some (leaves.flatMap (fun l => match l with
          | some x => x.links
          | none => []))
        else none
  | _ => none

def Obs.view (o : Obs) (shard : Bool) : View :=
  let pins := pinsOkOf o.log
  { ok := o.status == .ok, root := o.root, stream := o.stream, pinsOk := pins,
    shards := (pins.filter (fun p => p.type == .shardT)).map (shardViewOf o),
    cdagLinks := cdagLinksOf o pins,
    sentAll := if shard then [] else sentTo o.log (o.stream.map (·.id)),
    delivered := allDelivered o.log o.stream,
    closure := o.closure, readback := o.readback, rootPlain := o.rootPlain, rootImporter := o.rootImporter }

/-! ### the clauses -/

/-- the requested options, except that added content is pinned recursively -/
def optsAsRequested (req got : Opts) : Bool := got == { req with mode := .recursive }

def sizeIn (stream : List Blk) (id : Nat) : Nat :=
  match stream.find? (fun b => b.id == id) with
  | some b => b.size
  | none => 0

def allocsAreDests (req : Opts) (p : Pin) (sent : List Nat) : Bool :=
  if req.rmin < 0 then p.allocs.isEmpty else sortDedup p.allocs == sent && p.allocs.length == sent.length

def noRootPin (v : View) : Bool := v.pinsOk.all (fun p => p.type != .dataT && p.type != .metaT)

def singleExactlyRoot (v : View) : Bool :=
  match v.pinsOk with
  | [p] => p.cid == v.root && p.type == .dataT
  | _ => false

def singleRootOptions (c : Cfg) (v : View) : Bool :=
  v.pinsOk.all (fun p => p.type != .dataT || (optsAsRequested c.opts p.opts && p.depth < 0))

def singleRootAllocs (c : Cfg) (v : View) : Bool :=
  v.pinsOk.all (fun p => p.type != .dataT || allocsAreDests c.opts p v.sentAll)

def metaPins (v : View) : List Pin := v.pinsOk.filter (fun p => p.type == .metaT)
def cdagPins (v : View) : List Pin := v.pinsOk.filter (fun p => p.type == .clusterDagT)

/-- a meta entry of the root and a cluster-DAG entry referencing each other; no other kind of entry -/
def shardedEntries (v : View) : Bool :=
  v.pinsOk.all (fun p => p.type == .shardT || p.type == .clusterDagT || p.type == .metaT) &&
  match metaPins v, cdagPins v with
  | [m], [cd] => m.cid == v.root && m.ref == some cd.cid && cd.ref == some v.root
  | _, _ => false

def metaOptions (c : Cfg) (v : View) : Bool :=
  (metaPins v).all (fun m => optsAsRequested c.opts m.opts)

def cdagListsShards (v : View) : Bool :=
  v.cdagLinks == some (v.shards.map (·.pin.cid))

def allShardBlocks (v : View) : List Nat := v.shards.flatMap (·.blocks)

/-- every block of the stream exactly once in `bs`, and nothing else -/
def shardsPartitionList (bs : List Nat) (stream : List Blk) : Bool :=
  nodupNat bs && stream.all (fun b => bs.contains b.id) && bs.all (fun x => stream.any (fun b => b.id == x))

/-- every block of the stream in exactly one shard, and nothing else in the shards -/
def shardsPartition (v : View) : Bool := shardsPartitionList (allShardBlocks v) v.stream

def shardUnderLimit (c : Cfg) (v : View) : Bool :=
  v.shards.all (fun s => decide (((s.blocks.map (sizeIn v.stream)).sum) < c.opts.shard))

def shardDepthCovers (v : View) : Bool :=
  v.shards.all (fun s => decide (0 < s.height) && (decide (s.pin.depth < 0) || decide ((s.height : Int) ≤ s.pin.depth)))

def shardAllocs (c : Cfg) (v : View) : Bool :=
  v.shards.all (fun s => allocsAreDests c.opts s.pin s.sent)

/-- the clauses about pins and shards -/
def pinClauses (c : Cfg) (v : View) : List (String × Bool) :=
  let single := v.ok && !c.shard
  let sharded := v.ok && c.shard
  [ ("root_not_pinned_on_failure", v.ok || noRootPin v),
    ("exactly_root_pinned", !single || singleExactlyRoot v),
    ("root_options_as_requested", !single || singleRootOptions c v),
    ("root_allocations_are_destinations", !(single && !c.local) || singleRootAllocs c v),
    ("meta_and_cluster_dag_entries", !sharded || shardedEntries v),
    ("meta_options_as_requested", !sharded || metaOptions c v),
    ("cluster_dag_lists_shards", !sharded || cdagListsShards v),
    ("shards_partition_blocks", !sharded || shardsPartition v),
    ("shard_under_limit", !c.shard || shardUnderLimit c v),
    ("shard_depth_covers_links", !c.shard || shardDepthCovers v),
    ("shard_allocations_are_destinations", !c.shard || shardAllocs c v) ]

/-- on success the destination daemons hold every block the adder was given: each block of the stream was
    accepted by at least one destination -/
def deliveryClauses (v : View) : List (String × Bool) :=
  [ ("every_block_accepted_by_a_destination", !v.ok || v.delivered) ]

/-- everything the bookkeeping model speaks about -/
def bookkeeping (c : Cfg) (v : View) : List (String × Bool) := deliveryClauses v ++ pinClauses c v

def content (v : View) : List (String × Bool) :=
  [ ("closed_under_links", !v.ok || v.closure),
    ("reads_back_identical", !v.ok || v.readback),
    ("root_same_without_sharding", !v.ok || v.rootPlain),
    ("root_equals_importer", !v.ok || v.rootImporter) ]

def clauses (c : Cfg) (v : View) : List (String × Bool) := content v ++ bookkeeping c v

def holds (c : Cfg) (v : View) : Bool := (clauses c v).all (·.2)

end CV.C13
