/-
C01, data-folder histories (kind fold) — the property, read from its text: every operation acknowledged to a caller is in
the state every reader of that peer gets afterwards — the running node's `State()`, and after a clean `Shutdown` the offline
read of the folder and the state the next start serves —; `state import` REPLACES that state by exactly the imported
one (and later acknowledged operations apply on top of it); `state cleanup` leaves the empty state; and a cleanup must
not be possible under a running node. Evaluated on the IMPLEMENTATION's observations.
-/
import ClusterVerif.Model.C01Folder
namespace CV.C01.Folder

/-- the state the acknowledged calls so far add up to -/
def refStep (ref : List Nat) (st : Step) (res : Res) : List Nat :=
  match st, res with
  | .pin c, .ok => ins c ref
  | .unpin c, .ok => del c ref
  | .importSt m, .kept => norm m
  | .importSt m, .fresh => norm m
  | .importSt m, .ok => norm m
  | .clean, .ok => []
  | _, _ => ref

/-- is a node running after this step? (start / shutdown are never refused in these histories) -/
def upAfter (up : Bool) : Step → Bool
  | .restart => true
  | .shutdown => false
  | _ => up

/-- `folder_exact`: every observation shows exactly the acknowledged state;
    `clean_guard`: no cleanup is acknowledged while a node runs on the folder -/
def specFrom : Bool → List Nat → List Obs → Bool × Bool
  | _, _, [] => (true, true)
  | up, ref, o :: rest =>
    let ref' := refStep ref o.step o.res
    let r := specFrom (upAfter up o.step) ref' rest
    (o.vis == ref' && r.1, !(up && o.step == .clean && o.res == .ok) && r.2)

def foldClauses (tr : List Obs) : List (String × Bool) :=
  [("folder_exact", (specFrom false [] tr).1), ("clean_guard", (specFrom false [] tr).2)]

def foldHolds (tr : List Obs) : Bool := (foldClauses tr).all (·.2)

end CV.C01.Folder
