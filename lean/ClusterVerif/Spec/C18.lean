/-
C18 — the property, written from its statement:

  "Calling any combination of the public operations concurrently […] never produces a data
   race, a panic, a deadlock or a torn result such as an alert list with empty or duplicated
   entries."

An observation is what one concurrent run (or one call made during it) of the IMPLEMENTATION
produced; the clauses below are evaluated by the driver on exactly that.

* a list returned by a reader while writers were active, as identifiers with 0 standing for a
  zero-valued / nil entry: `no_empty_entry`, `no_duplicate_entry` (the two torn results the
  statement names);
* one PinInfo returned by the tracker while operations change phase: `status_error_consistent`
  (an error text only together with an error status — both are written together, under one lock);
* the summary of a soak of one structure: `no_data_race`, `no_panic`, `no_deadlock`,
  `no_torn_result` (counts of race reports, recovered panics, watchdog stalls and structural
  violations seen by the harness in everything that was returned).
Core Lean only.
-/
import ClusterVerif.Model.C18
namespace CV.C18

inductive Kind
  | alerts (maxAlerts : Nat)   -- a list returned by Cluster.Alerts() while alerts arrive
  | window (cap : Nat)         -- Window.All() while one writer adds values 1,2,3,…
  | idlist (what : String)     -- any other returned list that must hold one entry per key
  | soak (what : String)       -- summary of a concurrent run of one structure
  | pininfo (what : String)    -- one PinInfo returned while operations change phase
  deriving Repr

structure Input where
  kind : Kind

inductive Output
  | list (l : List Nat)
  | summary (ops torn panics stalled races : Nat)
  | pininfo (status : String) (hasError : Bool)
  deriving Repr

/-- statuses under which a PinInfo carries an error text -/
def errorStatus (s : String) : Bool :=
  s == "pin_error" || s == "unpin_error" || s == "cluster_error" || s == "error" || s == "unexpectedly_unpinned"

def nodupB : List Nat → Bool
  | [] => true
  | a :: l => !l.contains a && nodupB l

def noEmpty (l : List Nat) : Bool := !l.contains 0

def clauses (_i : Input) : Output → List (String × Bool)
  | .list l => [("no_empty_entry", noEmpty l), ("no_duplicate_entry", nodupB l)]
  | .summary _ torn panics stalled races =>
    [("no_data_race", races == 0), ("no_panic", panics == 0), ("no_deadlock", stalled == 0),
     ("no_torn_result", torn == 0)]
  -- a status and an error text that belong to two different states of one operation are a torn result
  | .pininfo status hasError => [("status_error_consistent", !hasError || errorStatus status)]

def holds (i : Input) (o : Output) : Bool := (clauses i o).all (·.2)

end CV.C18
