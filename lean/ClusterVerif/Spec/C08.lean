/-
C08 — the property, written from its statement, as executable clause checkers over
(input, implementation output) pairs. Core Lean only.

  "Every well-formed pin, and every other record exchanged between peers and clients,
   decodes to an equal value after being encoded in any format the system uses for it
   (stored protobuf, msgpack of RPC and the Raft log, JSON of the REST API and state
   export, query string of pin options) — up to the documented lossy fields (transient
   user allocations, sub-second expiry). Decoding arbitrary bytes never crashes: it
   yields an error or a value that can itself be re-encoded."

Reading used here.

* A value is the harness's own field-by-field dump (`path=token` list). "Equal" is equality
  of the dumps: same paths, same tokens. The dump does not distinguish nil from empty
  slices/maps and prints a time as its instant, so equality is up to nil-vs-empty and up to
  the time zone of a timestamp.
* Lossy fields, per format (`fieldEq`):
    proto   `UserAllocations` is not compared (transient, reserved field 5 of the .proto);
            `ExpireAt` is compared in whole seconds, where the two "never expires" values of
            `Pin.ExpiredAt` (zero time, unix 0), second 0 and the second of the zero time are one value;
    query   `Metadata` is compared without the entry for the empty key ("meta-" + "" is
            skipped by ToQuery and FromQuery; PinOptions.Equals ignores it);
    snapshot (a state dump: dsstate.Marshal/Unmarshal, pins in protobuf inside msgpack entries)  as proto;
    msgpack, json   nothing.
  `Mode` is NOT in the list: the statement does not name it.
* Well-formed (`wfRt`): only what the value spaces of the types and the code that builds the
  values guarantee — replication factors and depth within int32 (the .proto field types), a pin
  type that is one of the PinType constants, a mode that is recursive or direct, a tracker
  status over the known status bits, origins with a /p2p/ component (REST/FromQuery refuse
  others), add parameters the server accepts, no api.Multiaddr wrapping nothing (its encoders
  refuse it). Strings are valid UTF-8 (guaranteed by the generator). NOT assumed: that CIDs are
  defined or peer IDs non-empty — `cid.Undef`, a pointer to it, and the empty peer ID are values
  the code produces (zero-valued RPC replies, the first shard's reference) and nothing rejects.
* The string forms: a TrackerStatus (single or any filter of known statuses), PinMode and
  PinType value survives String → FromString and MarshalJSON → UnmarshalJSON.
* The callers' own equality is an equivalence on pins held in distinct variables and says
  "equal" exactly for pins that differ at most in the order of their lists, in the fields it
  documents as ignored (`PinUpdate`, the empty metadata key), and — for origins — in repeats.
* No decoder panics, on any input; what a decoder accepts can be encoded again.
-/
import ClusterVerif.Model.C08
namespace CV.C08

/-! ## dumps -/

def lastSeg (path : String) : String := segName ((path.splitOn ".").getLast!)

/-- element tokens of a dumped value (list elements, map values, or the token itself) -/
def tokElems (tok : String) : List String :=
  if tok == "-" then [] else
  (tok.splitOn ",").map fun e => match e.splitOn ":" with | [_, v] => v | _ => e

/-- an expiry as the stored form can hold it: whole seconds, `none` = never -/
def expiryKey (t : Time) : Option Int := if t.noExpiry || t.sec == 0 || t.sec == Time.zero.sec then none else some t.sec

/-- the same on a dumped token -/
def expirySeconds (tok : String) : Option (Option Int) :=
  (parseTime tok).map expiryKey

/-- metadata entries without the one for the empty key -/
def metaNoEmptyKey (tok : String) : List String :=
  if tok == "-" then [] else (tok.splitOn ",").filter fun e => !e.startsWith "~:"

/-- equality of one dumped field under a format, with the documented lossy fields -/
def fieldEq (f : Fmt) (path a b : String) : Bool :=
  match f, lastSeg path with
  | .proto, "UserAllocations" => true
  | .proto, "ExpireAt" => (expirySeconds a).isSome && expirySeconds a == expirySeconds b
  | .snapshot, "UserAllocations" => true
  | .snapshot, "ExpireAt" => (expirySeconds a).isSome && expirySeconds a == expirySeconds b
  | .query, "Metadata" => metaNoEmptyKey a == metaNoEmptyKey b
  | _, _ => a == b

/-- field-by-field comparison of two dumps: same paths in the same order, equal values -/
def dumpEq (f : Fmt) : KVs → KVs → Bool
  | [], [] => true
  | (p, a) :: xs, (q, b) :: ys => p == q && fieldEq f p a b && dumpEq f xs ys
  | _, _ => false

/-! ## the same comparison on typed pins (what the theorems of Props/C08 are about) -/

def metaNonEmpty (m : List (String × String)) : List (String × String) := m.filter fun kv => kv.1 != emptyStr

/-- equality of pin options after a round trip through format `f`, with the documented lossy fields -/
def optsSame (f : Fmt) (a b : PinOptions) : Bool :=
  a.rmin == b.rmin && a.rmax == b.rmax && a.name == b.name && a.mode == b.mode && a.shardSize == b.shardSize &&
  (f == .proto || a.userAllocs == b.userAllocs) &&
  (if f == .proto then expiryKey a.expireAt == expiryKey b.expireAt else a.expireAt == b.expireAt) &&
  (if f == .query then metaNonEmpty a.metadata == metaNonEmpty b.metadata else a.metadata == b.metadata) &&
  a.pinUpdate == b.pinUpdate && a.origins == b.origins

def pinSame (f : Fmt) (a b : Pin) : Bool :=
  a.cid == b.cid && a.type == b.type && a.allocs == b.allocs && a.maxDepth == b.maxDepth && a.reference == b.reference &&
  optsSame f a.opts b.opts

/-- the typed comparison applied to dumps of pins and pin options (other records: nothing to add to `dumpEq`) -/
def typedSame (rec : String) (f : Fmt) (inp out : KVs) : Bool :=
  if rec == "Pin" then
    match parsePin inp "", parsePin out "" with | some a, some b => pinSame f a b | _, _ => false
  else if rec == "PinOptions" then
    match parseOpts inp "", parseOpts out "" with | some a, some b => optsSame f a b | _, _ => false
  else true

/-! ## well-formedness -/

def int32Tok (tok : String) : Bool := match tok.toInt? with | some i => inInt32 i | none => false

def knownStatusTok (tok : String) : Bool :=
  match tok.toNat? with | some st => st &&& statusMask == st | none => false

def isPinPath (rec path : String) (field : String) : Bool :=
  (rec == "Pin" && path == field) || (rec == "LogOp" && path == "Cid." ++ field) ||
  (rec == "Snapshot" && path.endsWith ("]." ++ field))

def wfField (rec : String) (kv : String × String) : Bool :=
  let path := kv.1
  let tok := kv.2
  let seg := lastSeg path
  let elems := tokElems tok
  -- an api.Multiaddr wrapping no address is refused by its own encoders ("null multiaddresses not allowed")
  !elems.contains "m-" &&
  (seg != "Mode" || tok == "0" || tok == "1") &&
  (seg != "Status" || knownStatusTok tok) &&
  (!(["ReplicationFactorMin", "ReplicationFactorMax", "MaxDepth"].contains seg) || int32Tok tok) &&
  (!(isPinPath rec path "Type") || ["1", "2", "4", "8", "16"].contains tok) &&
  (seg != "Origins" || elems.all (·.startsWith "mp")) &&
  (rec != "AddParams" ||
    ((path != "IPFSAddParams.Layout" || ["~", "~trickle", "~balanced"].contains tok) &&
     (path != "Format" || ["~", "~car", "~unixfs"].contains tok) &&
     (seg != "Chunker" || tok != "~") && (seg != "HashFun" || tok != "~") &&
     (seg != "PinUpdate" || tok == "c-")))

/-- the add parameters name sha2-256 (any case), the only hash function a CIDv0 can carry -/
def sha256Hash (kvs : KVs) : Bool :=
  match kvs.find? (fun kv => kv.1 == "IPFSAddParams.HashFun") with
  | some kv => kv.2.toLower == "~sha2%2d256"
  | none => true

def cidVersion0 (kvs : KVs) : Bool :=
  match kvs.find? (fun kv => kv.1 == "IPFSAddParams.CidVersion") with
  | some kv => kv.2 == "0"
  | none => false

/-- well-formed: every field is, and add parameters do not ask for a CIDv0 with another hash function than
    sha2-256 (the server refuses that combination since 6355d34) -/
def wfRt (rec : String) (kvs : KVs) : Bool :=
  kvs.all (wfField rec) && (rec != "AddParams" || sha256Hash kvs || !cidVersion0 kvs)

/-! ## clauses -/

def panics : List String := ["encpanic", "decpanic", "dumppanic", "panic"]

def rtClauseName : Fmt → String
  | .proto => "roundtrip_proto" | .msgpack => "roundtrip_msgpack" | .msgpackraft => "roundtrip_msgpack"
  | .json => "roundtrip_json" | .query => "roundtrip_query" | .snapshot => "roundtrip_proto"

/-- one round-trip case: record, format, dump of the value, status of the real encode→decode, dump of the result -/
def rtClauses (rec : String) (f : Fmt) (inp : KVs) (status : String) (out : KVs) : List (String × Bool) :=
  [ (rtClauseName f, !wfRt rec inp || (status == "ok" && dumpEq f inp out && typedSame rec f inp out)),
    ("no_crash", !panics.contains status) ]

def knownStatusFilter (st : Nat) : Bool := st &&& statusMask == st

/-- string-form cases. kind ts/pm/pt: value, then what came back through String→FromString and through JSON -/
def strClauses (kind : String) (v : Int) (back jsonBack : Option Int) (crashed : Bool) : List (String × Bool) :=
  let same := back == some v && (jsonBack == none || jsonBack == some v)
  [ ("status_string_roundtrip", kind != "ts" || !(decide (0 ≤ v) && knownStatusFilter v.toNat) || same),
    ("mode_string_roundtrip", kind != "pm" || !(v == 0 || v == 1) || same),
    ("type_string_roundtrip", kind != "pt" || !([1, 2, 4, 8, 16, 30].contains v) || same),
    ("no_crash", !crashed) ]

/-- decoder robustness: outcome is `err`, `ok:reenc-ok`, `ok:reenc-err`, `ok:reenc-panic` or `panic` -/
def fuzzClauses (outcome : String) : List (String × Bool) :=
  [ ("decoder_no_panic", outcome != "panic"),
    ("decoded_reencodes", outcome != "ok:reenc-panic" && outcome != "ok:reenc-err") ]

/-! ### the callers' own equality -/

def sameSet (a b : List Origin) : Bool := (a.all fun o => b.any fun o' => o.tok == o'.tok) && (b.all fun o => a.any fun o' => o.tok == o'.tok)

/-- everything `Equals` may not overlook: equal up to list order, origins up to order and repeats,
    the ignored `PinUpdate` and the empty metadata key -/
def optsSameLoose (a b : PinOptions) : Bool :=
  a.name == b.name && a.mode == b.mode && a.rmin == b.rmin && a.rmax == b.rmax && a.shardSize == b.shardSize &&
  a.userAllocs.isPerm b.userAllocs && a.expireAt == b.expireAt &&
  (metaNonEmpty a.metadata).isPerm (metaNonEmpty b.metadata) && sameSet a.origins b.origins

/-- everything that must be found equal: equal up to list order only (and the two ignored items) -/
def optsSameStrict (a b : PinOptions) : Bool :=
  a.name == b.name && a.mode == b.mode && a.rmin == b.rmin && a.rmax == b.rmax && a.shardSize == b.shardSize &&
  a.userAllocs.isPerm b.userAllocs && a.expireAt == b.expireAt &&
  (metaNonEmpty a.metadata).isPerm (metaNonEmpty b.metadata) && (a.origins.map (·.tok)).isPerm (b.origins.map (·.tok))

def pinRest (a b : Pin) : Bool :=
  a.cid == b.cid && a.type == b.type && a.maxDepth == b.maxDepth && a.reference == b.reference && a.allocs.isPerm b.allocs

/-- results of the real Equals on three pins a, b, c and a copy a' of a: (a,b) (b,a) (a,a') (b,c) (a,c) -/
structure EqOut where
  ab : Bool
  ba : Bool
  aa : Bool
  bc : Bool
  ac : Bool
  deriving DecidableEq, Repr

def eqClauses (a b c : Pin) (pin : EqOut) (opt : EqOut) : List (String × Bool) :=
  [ ("equals_symmetric", pin.ab == pin.ba && opt.ab == opt.ba),
    ("equals_reflexive", pin.aa && opt.aa),
    ("equals_transitive", (!(pin.ab && pin.bc) || pin.ac) && (!(opt.ab && opt.bc) || opt.ac)),
    ("equals_sound", (!pin.ab || (pinRest a b && optsSameLoose a.opts b.opts)) && (!opt.ab || optsSameLoose a.opts b.opts) &&
                     (!pin.ac || (pinRest a c && optsSameLoose a.opts c.opts)) && (!opt.ac || optsSameLoose a.opts c.opts)),
    ("equals_complete", (!(pinRest a b && optsSameStrict a.opts b.opts) || pin.ab) && (!optsSameStrict a.opts b.opts || opt.ab) &&
                        (!(pinRest a c && optsSameStrict a.opts c.opts) || pin.ac) && (!optsSameStrict a.opts c.opts || opt.ac)) ]

def holdsAll (cs : List (String × Bool)) : Bool := cs.all (·.2)

end CV.C08
