/-
C06 — the property, written from its statement, as executable clause checkers
over (facts, observed output). The driver applies them to the IMPLEMENTATION's
outputs; Props/C06 proves them (or the strongest provable part) for the model.

Reading of the statement used here (per CID of the case's universe):

* facts = the entry of the shared pinset (if any), what the daemon holds, and
  the last operation the tracker was asked to perform on the CID with its
  present phase;
* expected here  = in the pinset, not a meta entry, allocated to this peer or to
  everybody; allocated elsewhere = in the pinset, not meta, not expected here;
* IPFS holds the expected pin = a direct pin for a direct-mode (depth 0) entry,
  a recursive pin otherwise;
* pending = the last operation is queued or in progress; failed = the last pin
  or unpin operation ended in error (the housekeeping unpin the tracker issues
  when it is told about a pin allocated elsewhere is neither: the tracker's
  `OperationRemote` is documented as a no-op operation);
* quiescent = the last operation is the one the pinset calls for (pin when
  expected here, unpin when not in the pinset, the remote no-op when allocated
  elsewhere) and the daemon answers queries. The "agrees with the facts"
  clauses are read on quiescent CIDs; the two agreement clauses and the filter
  law on every CID whenever the daemon answers;
* a CID absent from a listing counts as `unpinned` in that view;
* error status = cluster_error, pin_error, unpin_error or unexpectedly_unpinned.
-/
import ClusterVerif.Model.C06
namespace CV.C06

/-- what the harness observed on the real tracker -/
structure Output where
  each : List (Nat × Nat)                    -- (cid, Status(cid).Status) for every CID of the universe
  lists : List (Nat × List (Nat × Nat))      -- (filter, StatusAll(filter) as (cid, status) sorted by cid)
  deriving Repr

def lookup (l : List (Nat × Nat)) (k : Nat) : Option Nat :=
  (l.find? (fun e => e.1 == k)).map (·.2)

/-! ### facts -/

def Pin.here (p : Pin) (self : Nat) : Bool :=
  (p.rmin == -1 && p.rmax == -1) || p.allocs.contains self

def Rec.inPinset (r : Rec) : Bool := r.pin.isSome
def Rec.isMetaPin (r : Rec) : Bool := match r.pin with | some p => p.isMeta | none => false
def Rec.expectedHere (r : Rec) (self : Nat) : Bool :=
  match r.pin with | some p => !p.isMeta && p.here self | none => false
def Rec.elsewhere (r : Rec) (self : Nat) : Bool :=
  match r.pin with | some p => !p.isMeta && !p.here self | none => false
/-- the daemon holds the pin the pinset entry asks for -/
def Rec.held (r : Rec) : Bool :=
  match r.pin with
  | some p => if p.depth == 0 then r.ipfs == .direct else r.ipfs == .recursive
  | none => false
def Rec.pending (r : Rec) : Bool :=
  match r.op with | some o => o.phase == .queued || o.phase == .inProgress | none => false
def Rec.failed (r : Rec) : Bool :=
  match r.op with | some o => o.phase == .error && o.typ != .remote | none => false
/-- nothing pending and nothing failed -/
def Rec.settled (r : Rec) : Bool := !r.pending && !r.failed
/-- the last operation is the one the pinset calls for -/
def Rec.consistent (r : Rec) (self : Nat) : Bool :=
  match r.op with
  | none => true
  | some o =>
    match o.typ with
    | .pin => r.expectedHere self
    | .unpin => !r.inPinset
    | .remote => r.elsewhere self

def isErr (s : Nat) : Bool :=
  s == stClusterError || s == stPinError || s == stUnpinError || s == stUnexpectedlyUnpinned

/-- "restricted to the filter": filter 0 means all, otherwise the status must
be one of the filter's bits -/
def inFilter (s f : Nat) : Bool := f == 0 || (s &&& f) != 0

/-! ### per-CID checks, for one view's status `v` -/

def okPinned (i : Input) (r : Rec) (v : Nat) : Bool :=
  (v != stPinned || (r.expectedHere i.self && r.held)) &&
  (!(r.expectedHere i.self && r.held && r.settled) || v == stPinned)

def okRemote (i : Input) (r : Rec) (v : Nat) : Bool :=
  (v != stRemote || r.elsewhere i.self) &&
  (!(r.elsewhere i.self && r.settled) || v == stRemote)

def okSharded (_i : Input) (r : Rec) (v : Nat) : Bool :=
  (v != stSharded || r.isMetaPin) &&
  (!(r.isMetaPin && r.settled) || v == stSharded)

def okUnpinned (_i : Input) (r : Rec) (v : Nat) : Bool :=
  (v != stUnpinned || !r.inPinset) &&
  (!(!r.inPinset && r.settled) || v == stUnpinned)

def okError (i : Input) (r : Rec) (v : Nat) : Bool :=
  (!((r.expectedHere i.self && !r.held && !r.pending) || r.failed) || isErr v) &&
  (!isErr v || (r.expectedHere i.self && !r.held) || r.failed)

def okPending (_i : Input) (r : Rec) (v : Nat) : Bool :=
  (v != stPinQueued || r.op == some ⟨.pin, .queued⟩) &&
  (v != stPinning || r.op == some ⟨.pin, .inProgress⟩) &&
  (v != stUnpinQueued || r.op == some ⟨.unpin, .queued⟩) &&
  (v != stUnpinning || r.op == some ⟨.unpin, .inProgress⟩)

def okKnown (v : Nat) : Bool := namedStatuses.contains v

/-! ### the two views -/

def list0 (o : Output) : List (Nat × Nat) :=
  match o.lists.find? (fun e => e.1 == 0) with
  | some e => e.2
  | none => []

/-- per-CID view (a CID the harness did not report counts as undefined) -/
def viewS (o : Output) (r : Rec) : Nat := (lookup o.each r.cid).getD stUndefined
/-- listing view: absent = unpinned -/
def viewL (o : Output) (r : Rec) : Nat := (lookup (list0 o) r.cid).getD stUnpinned

/-- is the CID to be judged against the facts -/
def quiescent (i : Input) (r : Rec) : Bool := i.ipfsUp && r.consistent i.self

def bothViews (i : Input) (o : Output) (ok : Input → Rec → Nat → Bool) : Bool :=
  i.recs.all (fun r => !quiescent i r || (ok i r (viewS o r) && ok i r (viewL o r)))

def agreeStrict (i : Input) (o : Output) (r : Rec) : Bool :=
  !i.ipfsUp || viewS o r == viewL o r

def agreeErrClass (i : Input) (o : Output) (r : Rec) : Bool :=
  !i.ipfsUp || viewS o r == viewL o r || (isErr (viewS o r) && isErr (viewL o r))

/-- strictly increasing CIDs, all of the universe -/
def listingWf (i : Input) : List (Nat × Nat) → Bool
  | [] => true
  | [a] => i.recs.any (fun r => r.cid == a.1)
  | a :: b :: t => i.recs.any (fun r => r.cid == a.1) && decide (a.1 < b.1) && listingWf i (b :: t)

def filterLawFor (o : Output) (e : Nat × List (Nat × Nat)) : Bool :=
  e.2 == (list0 o).filter (fun x => inFilter x.2 e.1)

def clauses (i : Input) (o : Output) : List (String × Bool) :=
  [ ("views_agree", i.recs.all (agreeStrict i o)),
    ("views_agree_errclass", i.recs.all (agreeErrClass i o)),
    ("truth_pinned", bothViews i o okPinned),
    ("truth_remote", bothViews i o okRemote),
    ("truth_sharded", bothViews i o okSharded),
    ("truth_unpinned", bothViews i o okUnpinned),
    ("truth_error", bothViews i o okError),
    ("truth_pending", bothViews i o okPending),
    ("known_status", i.recs.all (fun r => !i.ipfsUp || (okKnown (viewS o r) && okKnown (viewL o r)))),
    ("filter_law", !i.ipfsUp || o.lists.all (filterLawFor o)),
    ("listing_wf", o.lists.all (fun e => listingWf i e.2)) ]

def holds (i : Input) (o : Output) : Bool := (clauses i o).all (·.2)

/-! ## Cluster-wide view, per CID (`Cluster.Status`)

"a peer appears at most once per CID: allocated peers with their own report or
cluster_error if unreachable, other members as remote"; a CID that is not in the
pinset is unpinned on every member. A peer that refuses the request
(authorization) may be left out. Follower mode answers for the local peer only
and is outside the statement (the driver marks those cases trivial). -/

def peerOnce : List (Nat × Nat) → Bool
  | [] => true
  | e :: t => !(t.any (fun x => x.1 == e.1)) && peerOnce t

/-- peers that hold (should hold) the CID -/
def allocatedPeers (members : List Nat) (p : Pin) : List Nat :=
  if p.rmin == -1 && p.rmax == -1 then members else p.allocs

def gcClauses (i : GCidInput) (o : List (Nat × Nat)) : List (String × Bool) :=
  if i.follower then [("g_once", peerOnce o)] else
  match i.pin with
  | none =>
    [ ("g_once", peerOnce o),
      ("g_unpinned", i.members.all (fun p => lookup o p == some stUnpinned)),
      ("g_nobody_else", o.all (fun e => i.members.contains e.1)) ]
  | some pin =>
    let alloc := allocatedPeers i.members pin
    [ ("g_once", peerOnce o),
      ("g_allocated", alloc.all (fun p =>
          match replyOf i.replies p with
          | .ok st => lookup o p == some st
          | .err => lookup o p == some stClusterError
          | .auth => lookup o p == none || lookup o p == some stClusterError)),
      ("g_others_remote", i.members.all (fun p => alloc.contains p || lookup o p == some stRemote)),
      ("g_nobody_else", o.all (fun e => i.members.contains e.1 || alloc.contains e.1)) ]

def gcHolds (i : GCidInput) (o : List (Nat × Nat)) : Bool := (gcClauses i o).all (·.2)

/-! ## Cluster-wide view, listing (`Cluster.StatusAll`)

Per listed CID: every member that answered appears with its own report for
that CID (and only if it reported it); an allocated member that could not be
reached is cluster_error; any other member that appears for a CID of the
pinset which is not a meta entry is remote; nobody but members appears; a CID
is listed only if some member reported it. -/

def pinOf (i : GSliceInput) (c : Nat) : Option Pin :=
  (i.pins.find? (fun e => e.1 == c)).map (·.2)

def reported (i : GSliceInput) (p c : Nat) : Option Nat :=
  match replyOf i.replies p with
  | .ok l => lookup l c
  | _ => none

def allocatedFor (i : GSliceInput) (c p : Nat) : Bool :=
  match pinOf i c with
  | some pin => (allocatedPeers i.members pin).contains p
  | none => false

/-- a member that answered appears with its own report for the CID: one of
the statuses it reported for that CID (a reply may list a CID more than once),
and does not appear when it reported none -/
def gsOwnReport (i : GSliceInput) (c : Nat) (m : List (Nat × Nat)) : Bool :=
  i.members.all (fun p =>
    match replyOf i.replies p with
    | .ok l =>
      match lookup m p with
      | some st => l.any (fun e => e.1 == c && e.2 == st)
      | none => !(l.any (fun e => e.1 == c))
    | _ => true)

def gsAllocated (i : GSliceInput) (c : Nat) (m : List (Nat × Nat)) : Bool :=
  i.members.all (fun p =>
    match replyOf i.replies p with
    | .err => !allocatedFor i c p || lookup m p == some stClusterError
    | _ => true)

def gsOthersRemote (i : GSliceInput) (c : Nat) (m : List (Nat × Nat)) : Bool :=
  i.members.all (fun p =>
    match pinOf i c with
    | some pin => pin.isMeta || allocatedFor i c p || lookup m p == none || lookup m p == some stRemote
    | none => true)

def gsClauses (i : GSliceInput) (o : List (Nat × List (Nat × Nat))) : List (String × Bool) :=
  if i.follower then [("g_once", o.all (fun e => peerOnce e.2))] else
  [ ("g_once", o.all (fun e => peerOnce e.2)),
    ("g_own_report", o.all (fun e => gsOwnReport i e.1 e.2)),
    ("g_allocated", o.all (fun e => gsAllocated i e.1 e.2)),
    ("g_others_remote", o.all (fun e => gsOthersRemote i e.1 e.2)),
    ("g_nobody_else", o.all (fun e => e.2.all (fun x => i.members.contains x.1))),
    ("g_listed_if_reported", o.all (fun e => i.members.any (fun p => (reported i p e.1).isSome))),
    ("g_cid_once", peerOnce (o.map (fun e => (e.1, 0)))),
    ("g_all_reported_listed", i.members.all (fun p =>
        match replyOf i.replies p with
        | .ok l => l.all (fun e => o.any (fun x => x.1 == e.1))
        | _ => true)) ]

def gsHolds (i : GSliceInput) (o : List (Nat × List (Nat × Nat))) : Bool := (gsClauses i o).all (·.2)

/-! ## Round 7 — the same statement when resources fail and for any daemon answer

Facts of a `tf` case: which calls fail, and per CID what the connector answers.
Reading used:

* a view that lost a resource it needs must say so — `Status` with
  cluster_error, the listing (which has no error return) by being empty — and
  must never make a status up: nothing is `pinned` unless the daemon's answer to
  the query of that view said so;
* the two views agree, or both give an error status, or the disagreement is
  explained by a fault of the case and the affected view reports it as above;
* a non-empty listing is complete (no partial listing passed off as a listing);
* the filter law: each listing is the filter-0 listing restricted, unless a
  fault emptied one of the two;
* agreement / truth / the filter law are read for a daemon whose answers are
  those of some IPFS pin set (`coherent`: go-ipfs honouring `type=`); the
  `pinned`-needs-confirmation, fault-reporting, well-formedness and PinInfo
  clauses for every answer.
-/

structure OutputF where
  each : List (Nat × Nat)
  eachInfo : List (Nat × Nat)                 -- (cid, bits) of the PinInfo of Status(cid)
  lists : List (Nat × List (Nat × Nat))
  listInfo : List (Nat × Nat)                 -- (cid, bits) of the entries of StatusAll(0)
  deriving Repr

/-- bits of a PinInfo observation: 1 Cid is the CID asked for / listed once,
2 Peer is this peer, 4 PeerName is this peer's name, 8 Error text non-empty,
16 TS set and not earlier than in the previous read of the same view -/
def infoOk (st bits : Nat) : Bool :=
  bits % 8 == 7 && (bits / 16) % 2 == 1 && (((bits / 8) % 2 == 1) == isErr st)

def pinnedType (s : IpfsStatus) : Bool := s == .direct || s == .recursive

/-- the IPFS pin set (if any) the answers about this CID come from -/
def FRec.coherentHeld (r : FRec) : Option Ipfs :=
  [Ipfs.unpinned, .direct, .recursive, .indirect].find? (fun h => r.ans == wellBehaved r.pin h)

def FRec.toRec (r : FRec) (h : Ipfs) : Rec := { cid := r.cid, pin := r.pin, ipfs := h, op := r.op }

def FRec.expectedHere (r : FRec) (self : Nat) : Bool :=
  match r.pin with | some p => !p.isMeta && p.here self | none => false

def FRec.modeAns (r : FRec) : Option IpfsStatus :=
  match r.pin with | some p => if p.depth == 0 then r.ans.lsD else r.ans.lsR | none => none

def FRec.hasOpEntry (r : FRec) : Bool :=
  match r.op with | some o => o.phase != .done | none => false

def anyListFault (i : FInput) : Bool := i.stateErr || i.listErr || i.lsDErr || i.lsRErr
def sFault (i : FInput) (r : FRec) : Bool := i.stateErr || r.getErr || r.lsCidErr

def list0F (o : OutputF) : List (Nat × Nat) :=
  match o.lists.find? (fun e => e.1 == 0) with
  | some e => e.2
  | none => []

def viewSF (o : OutputF) (r : FRec) : Nat := (lookup o.each r.cid).getD stUndefined
def viewLF (o : OutputF) (r : FRec) : Nat := (lookup (list0F o) r.cid).getD stUnpinned

def agreeF (i : FInput) (o : OutputF) (r : FRec) : Bool :=
  r.coherentHeld.isNone ||
  viewSF o r == viewLF o r || (isErr (viewSF o r) && isErr (viewLF o r)) ||
  (anyListFault i && (list0F o).isEmpty) || (sFault i r && viewSF o r == stClusterError)

/-- strict agreement wherever no fault of the case touches the CID -/
def agreeStrictF (i : FInput) (o : OutputF) (r : FRec) : Bool :=
  r.coherentHeld.isNone || anyListFault i || sFault i r || viewSF o r == viewLF o r

def truthPinnedS (i : FInput) (o : OutputF) (r : FRec) : Bool :=
  viewSF o r != stPinned ||
    (r.expectedHere i.self && !i.stateErr && !r.getErr && !r.lsCidErr && pinnedType r.ans.lsCid)

def truthPinnedL (i : FInput) (l : List (Nat × Nat)) (r : FRec) : Bool :=
  lookup l r.cid != some stPinned ||
    (r.expectedHere i.self && !i.stateErr && !i.listErr &&
     !(match r.pin with | some p => if p.depth == 0 then i.lsDErr else i.lsRErr | none => true) &&
     (match r.modeAns with | some s => pinnedType s | none => false))

def faultReported (i : FInput) (o : OutputF) (r : FRec) : Bool :=
  r.hasOpEntry ||
  ((!(i.stateErr || r.getErr) || viewSF o r == stClusterError) &&
   (!(r.expectedHere i.self && r.lsCidErr) || viewSF o r == stClusterError))

/-- a non-empty listing has every CID whose per-CID status is a definite
(non-error, not unpinned) status of the filter -/
def completeF (i : FInput) (o : OutputF) (e : Nat × List (Nat × Nat)) : Bool :=
  e.2.isEmpty || i.recs.all (fun r =>
    r.coherentHeld.isNone || sFault i r || viewSF o r == stUnpinned || viewSF o r == stUndefined || isErr (viewSF o r) ||
    !inFilter (viewSF o r) e.1 || lookup e.2 r.cid == some (viewSF o r))

def saneListing (r : FRec) : Bool :=
  (match r.ans.lsD with | some s => pinnedType s | none => true) &&
  (match r.ans.lsR with | some s => pinnedType s | none => true)

def filterLawF (i : FInput) (o : OutputF) (e : Nat × List (Nat × Nat)) : Bool :=
  e.2 == (list0F o).filter (fun x => inFilter x.2 e.1) ||
  (anyListFault i && (e.2.isEmpty || (list0F o).isEmpty))

def listingWfF (i : FInput) : List (Nat × Nat) → Bool
  | [] => true
  | [a] => i.recs.any (fun r => r.cid == a.1)
  | a :: b :: t => i.recs.any (fun r => r.cid == a.1) && decide (a.1 < b.1) && listingWfF i (b :: t)

/-- the truth clauses of the fault-free statement, on the CIDs and views no
fault of the case touches -/
def truthF (i : FInput) (o : OutputF) (r : FRec) : Bool :=
  match r.coherentHeld with
  | none => true
  | some h =>
    let i0 : Input := { self := i.self, ipfsUp := true, recs := [] }
    let r0 := r.toRec h
    let all (v : Nat) : Bool :=
      okPinned i0 r0 v && okRemote i0 r0 v && okSharded i0 r0 v && okUnpinned i0 r0 v && okError i0 r0 v && okPending i0 r0 v
    !r0.consistent i.self ||
      ((sFault i r || all (viewSF o r)) && (anyListFault i || all (viewLF o r)))

def knownF (r : FRec) (v : Nat) : Bool :=
  okKnown v || (v == stUndefined && (r.ans.lsD == some .bug || r.ans.lsR == some .bug || r.ans.lsCid == .bug))

def clausesF (i : FInput) (o : OutputF) : List (String × Bool) :=
  [ ("fa_views_agree", i.recs.all (agreeF i o)),
    ("fa_views_agree_strict", i.recs.all (agreeStrictF i o)),
    ("fa_truth_pinned", i.recs.all (fun r => truthPinnedS i o r && o.lists.all (fun e => truthPinnedL i e.2 r))),
    ("fa_fault_reported", i.recs.all (faultReported i o)),
    ("fa_no_partial_listing", o.lists.all (completeF i o)),
    ("fa_filter_law", !(i.recs.all saneListing) || o.lists.all (filterLawF i o)),
    ("fa_truth", i.recs.all (truthF i o)),
    ("fa_known_status", i.recs.all (fun r => knownF r (viewSF o r) && knownF r (viewLF o r))),
    ("fa_listing_wf", o.lists.all (fun e => listingWfF i e.2)),
    ("info_ok", o.eachInfo.all (fun e => infoOk ((lookup o.each e.1).getD 0) e.2) &&
                o.listInfo.all (fun e => infoOk ((lookup (list0F o) e.1).getD 0) e.2) &&
                o.eachInfo.map (·.1) == o.each.map (·.1) && o.listInfo.map (·.1) == (list0F o).map (·.1)) ]

def holdsF (i : FInput) (o : OutputF) : Bool := (clausesF i o).all (·.2)

/-! ### Recover answers against the status views read right after

`R` = what `Recover(cid)` answered, `S` = `Status(cid)` right after; for
`RecoverAll`: its answers and `StatusAll(0)` right after. They must be the same
status, except that a queued operation may have been picked up by a worker in
between; an item that was in a recoverable error must not be answered with
that error again. -/

def progressed (a b : Nat) : Bool :=
  a == b || (a == stPinQueued && b == stPinning) || (a == stUnpinQueued && b == stUnpinning)

structure OutputR where
  before : List (Nat × Nat)     -- Status(cid) before (mode e) / StatusAll(0) before (mode a)
  answer : List (Nat × Nat)     -- Recover(cid) for every CID / RecoverAll()
  after : List (Nat × Nat)      -- Status(cid) after each Recover / StatusAll(0) after RecoverAll
  errText : List (Nat × Nat)    -- (cid, 1 if the answer's Error text is non-empty else 0)
  deriving Repr

def recoverable (s : Nat) : Bool := s == stPinError || s == stUnpinError || s == stUnexpectedlyUnpinned

def clausesR (o : OutputR) : List (String × Bool) :=
  [ ("rc_answer_is_status", o.answer.all (fun e => match lookup o.after e.1 with
        | some s => progressed e.2 s
        | none => e.2 == stUnpinned)),
    ("rc_same_cids", o.answer.map (·.1) == o.before.map (·.1)),
    ("rc_error_retried", o.answer.all (fun e => match lookup o.before e.1 with
        | some s0 => if recoverable s0 then !recoverable e.2 && !(e.2 == s0) else progressed s0 e.2
        | none => false)),
    ("rc_error_text", o.answer.all (fun e => (lookup o.errText e.1 == some 1) == isErr e.2)) ]

def holdsR (o : OutputR) : Bool := (clausesR o).all (·.2)

/-! ### cluster-wide views under faults -/

/-- `Cluster.Status` when the state or `consensus.Peers` fail: an error, never
a partial map; otherwise the fault-free clauses (a member whose call failed is
cluster_error: `g_allocated`). -/
def gcClausesF (i : GCidF) (o : Option (List (Nat × Nat))) : List (String × Bool) :=
  let mustErr := i.stateErr || (!i.base.follower && i.peersErr)
  match o with
  | none => [("g_error_only_on_fault", mustErr)]
  | some m => ("g_fault_is_error", !mustErr) :: gcClauses i.base m

def gsFailedMarked (i : GSliceInput) (m : List (Nat × Nat)) : Bool :=
  (erroredMembers i).all (fun p => lookup m p == some stClusterError)

def gsClausesF (i : GSliceF) (o : Option (List (Nat × List (Nat × Nat)))) : List (String × Bool) :=
  let mustErr := !i.base.follower && i.peersErr
  match o with
  | none => [("g_error_only_on_fault", mustErr)]
  | some m => ("g_fault_is_error", !mustErr) ::
      ("g_failed_member_marked", m.all (fun e => gsFailedMarked i.base e.2)) :: gsClauses i.base m

end CV.C06
