/-
C06 — the property, written from its statement, as executable clause checkers
over (facts, observed output). The driver applies them to the IMPLEMENTATION's
outputs; Props/C06 proves them (or the strongest provable part) for the model.

Reading of the statement used here (per CID of the case's universe):

* facts = the entry of the shared pinset (if any), what the daemon holds, and
  the last operation the tracker was asked to perform on the CID with its
  present phase;
* expected here  = in the pinset, not a meta entry, allocated to this peer or to
  everybody; allocated elsewhere = in the pinset, not meta, not expected here;
* IPFS holds the expected pin = a direct pin for a direct-mode (depth 0) entry,
  a recursive pin otherwise;
* pending = the last operation is queued or in progress; failed = the last pin
  or unpin operation ended in error (the housekeeping unpin the tracker issues
  when it is told about a pin allocated elsewhere is neither: the tracker's
  `OperationRemote` is documented as a no-op operation);
* quiescent = the last operation is the one the pinset calls for (pin when
  expected here, unpin when not in the pinset, the remote no-op when allocated
  elsewhere) and the daemon answers queries. The "agrees with the facts"
  clauses are read on quiescent CIDs; the two agreement clauses and the filter
  law on every CID whenever the daemon answers;
* a CID absent from a listing counts as `unpinned` in that view;
* error status = cluster_error, pin_error, unpin_error or unexpectedly_unpinned.
-/
import ClusterVerif.Model.C06
namespace CV.C06

/-- what the harness observed on the real tracker -/
structure Output where
  each : List (Nat × Nat)                    -- (cid, Status(cid).Status) for every CID of the universe
  lists : List (Nat × List (Nat × Nat))      -- (filter, StatusAll(filter) as (cid, status) sorted by cid)
  deriving Repr

def lookup (l : List (Nat × Nat)) (k : Nat) : Option Nat :=
  (l.find? (fun e => e.1 == k)).map (·.2)

/-! ### facts -/

def Pin.here (p : Pin) (self : Nat) : Bool :=
  (p.rmin == -1 && p.rmax == -1) || p.allocs.contains self

def Rec.inPinset (r : Rec) : Bool := r.pin.isSome
def Rec.isMetaPin (r : Rec) : Bool := match r.pin with | some p => p.isMeta | none => false
def Rec.expectedHere (r : Rec) (self : Nat) : Bool :=
  match r.pin with | some p => !p.isMeta && p.here self | none => false
def Rec.elsewhere (r : Rec) (self : Nat) : Bool :=
  match r.pin with | some p => !p.isMeta && !p.here self | none => false
/-- the daemon holds the pin the pinset entry asks for -/
def Rec.held (r : Rec) : Bool :=
  match r.pin with
  | some p => if p.depth == 0 then r.ipfs == .direct else r.ipfs == .recursive
  | none => false
def Rec.pending (r : Rec) : Bool :=
  match r.op with | some o => o.phase == .queued || o.phase == .inProgress | none => false
def Rec.failed (r : Rec) : Bool :=
  match r.op with | some o => o.phase == .error && o.typ != .remote | none => false
/-- nothing pending and nothing failed -/
def Rec.settled (r : Rec) : Bool := !r.pending && !r.failed
/-- the last operation is the one the pinset calls for -/
def Rec.consistent (r : Rec) (self : Nat) : Bool :=
  match r.op with
  | none => true
  | some o =>
    match o.typ with
    | .pin => r.expectedHere self
    | .unpin => !r.inPinset
    | .remote => r.elsewhere self

def isErr (s : Nat) : Bool :=
  s == stClusterError || s == stPinError || s == stUnpinError || s == stUnexpectedlyUnpinned

/-- "restricted to the filter": filter 0 means all, otherwise the status must
be one of the filter's bits -/
def inFilter (s f : Nat) : Bool := f == 0 || (s &&& f) != 0

/-! ### per-CID checks, for one view's status `v` -/

def okPinned (i : Input) (r : Rec) (v : Nat) : Bool :=
  (v != stPinned || (r.expectedHere i.self && r.held)) &&
  (!(r.expectedHere i.self && r.held && r.settled) || v == stPinned)

def okRemote (i : Input) (r : Rec) (v : Nat) : Bool :=
  (v != stRemote || r.elsewhere i.self) &&
  (!(r.elsewhere i.self && r.settled) || v == stRemote)

def okSharded (_i : Input) (r : Rec) (v : Nat) : Bool :=
  (v != stSharded || r.isMetaPin) &&
  (!(r.isMetaPin && r.settled) || v == stSharded)

def okUnpinned (_i : Input) (r : Rec) (v : Nat) : Bool :=
  (v != stUnpinned || !r.inPinset) &&
  (!(!r.inPinset && r.settled) || v == stUnpinned)

def okError (i : Input) (r : Rec) (v : Nat) : Bool :=
  (!((r.expectedHere i.self && !r.held && !r.pending) || r.failed) || isErr v) &&
  (!isErr v || (r.expectedHere i.self && !r.held) || r.failed)

def okPending (_i : Input) (r : Rec) (v : Nat) : Bool :=
  (v != stPinQueued || r.op == some ⟨.pin, .queued⟩) &&
  (v != stPinning || r.op == some ⟨.pin, .inProgress⟩) &&
  (v != stUnpinQueued || r.op == some ⟨.unpin, .queued⟩) &&
  (v != stUnpinning || r.op == some ⟨.unpin, .inProgress⟩)

def okKnown (v : Nat) : Bool := namedStatuses.contains v

/-! ### the two views -/

def list0 (o : Output) : List (Nat × Nat) :=
  match o.lists.find? (fun e => e.1 == 0) with
  | some e => e.2
  | none => []

/-- per-CID view (a CID the harness did not report counts as undefined) -/
def viewS (o : Output) (r : Rec) : Nat := (lookup o.each r.cid).getD stUndefined
/-- listing view: absent = unpinned -/
def viewL (o : Output) (r : Rec) : Nat := (lookup (list0 o) r.cid).getD stUnpinned

/-- is the CID to be judged against the facts -/
def quiescent (i : Input) (r : Rec) : Bool := i.ipfsUp && r.consistent i.self

def bothViews (i : Input) (o : Output) (ok : Input → Rec → Nat → Bool) : Bool :=
  i.recs.all (fun r => !quiescent i r || (ok i r (viewS o r) && ok i r (viewL o r)))

def agreeStrict (i : Input) (o : Output) (r : Rec) : Bool :=
  !i.ipfsUp || viewS o r == viewL o r

def agreeErrClass (i : Input) (o : Output) (r : Rec) : Bool :=
  !i.ipfsUp || viewS o r == viewL o r || (isErr (viewS o r) && isErr (viewL o r))

/-- strictly increasing CIDs, all of the universe -/
def listingWf (i : Input) : List (Nat × Nat) → Bool
  | [] => true
  | [a] => i.recs.any (fun r => r.cid == a.1)
  | a :: b :: t => i.recs.any (fun r => r.cid == a.1) && decide (a.1 < b.1) && listingWf i (b :: t)

def filterLawFor (o : Output) (e : Nat × List (Nat × Nat)) : Bool :=
  e.2 == (list0 o).filter (fun x => inFilter x.2 e.1)

def clauses (i : Input) (o : Output) : List (String × Bool) :=
  [ ("views_agree", i.recs.all (agreeStrict i o)),
    ("views_agree_errclass", i.recs.all (agreeErrClass i o)),
    ("truth_pinned", bothViews i o okPinned),
    ("truth_remote", bothViews i o okRemote),
    ("truth_sharded", bothViews i o okSharded),
    ("truth_unpinned", bothViews i o okUnpinned),
    ("truth_error", bothViews i o okError),
    ("truth_pending", bothViews i o okPending),
    ("known_status", i.recs.all (fun r => !i.ipfsUp || (okKnown (viewS o r) && okKnown (viewL o r)))),
    ("filter_law", !i.ipfsUp || o.lists.all (filterLawFor o)),
    ("listing_wf", o.lists.all (fun e => listingWf i e.2)) ]

def holds (i : Input) (o : Output) : Bool := (clauses i o).all (·.2)

/-! ## Cluster-wide view, per CID (`Cluster.Status`)

"a peer appears at most once per CID: allocated peers with their own report or
cluster_error if unreachable, other members as remote"; a CID that is not in the
pinset is unpinned on every member. A peer that refuses the request
(authorization) may be left out. Follower mode answers for the local peer only
and is outside the statement (the driver marks those cases trivial). -/

def peerOnce : List (Nat × Nat) → Bool
  | [] => true
  | e :: t => !(t.any (fun x => x.1 == e.1)) && peerOnce t

/-- peers that hold (should hold) the CID -/
def allocatedPeers (members : List Nat) (p : Pin) : List Nat :=
  if p.rmin == -1 && p.rmax == -1 then members else p.allocs

def gcClauses (i : GCidInput) (o : List (Nat × Nat)) : List (String × Bool) :=
  if i.follower then [("g_once", peerOnce o)] else
  match i.pin with
  | none =>
    [ ("g_once", peerOnce o),
      ("g_unpinned", i.members.all (fun p => lookup o p == some stUnpinned)),
      ("g_nobody_else", o.all (fun e => i.members.contains e.1)) ]
  | some pin =>
    let alloc := allocatedPeers i.members pin
    [ ("g_once", peerOnce o),
      ("g_allocated", alloc.all (fun p =>
          match replyOf i.replies p with
          | .ok st => lookup o p == some st
          | .err => lookup o p == some stClusterError
          | .auth => lookup o p == none || lookup o p == some stClusterError)),
      ("g_others_remote", i.members.all (fun p => alloc.contains p || lookup o p == some stRemote)),
      ("g_nobody_else", o.all (fun e => i.members.contains e.1 || alloc.contains e.1)) ]

def gcHolds (i : GCidInput) (o : List (Nat × Nat)) : Bool := (gcClauses i o).all (·.2)

/-! ## Cluster-wide view, listing (`Cluster.StatusAll`)

Per listed CID: every member that answered appears with its own report for
that CID (and only if it reported it); an allocated member that could not be
reached is cluster_error; any other member that appears for a CID of the
pinset which is not a meta entry is remote; nobody but members appears; a CID
is listed only if some member reported it. -/

def pinOf (i : GSliceInput) (c : Nat) : Option Pin :=
  (i.pins.find? (fun e => e.1 == c)).map (·.2)

def reported (i : GSliceInput) (p c : Nat) : Option Nat :=
  match replyOf i.replies p with
  | .ok l => lookup l c
  | _ => none

def allocatedFor (i : GSliceInput) (c p : Nat) : Bool :=
  match pinOf i c with
  | some pin => (allocatedPeers i.members pin).contains p
  | none => false

def gsOwnReport (i : GSliceInput) (c : Nat) (m : List (Nat × Nat)) : Bool :=
  i.members.all (fun p =>
    match replyOf i.replies p with
    | .ok l => lookup m p == lookup l c
    | _ => true)

def gsAllocated (i : GSliceInput) (c : Nat) (m : List (Nat × Nat)) : Bool :=
  i.members.all (fun p =>
    match replyOf i.replies p with
    | .err => !allocatedFor i c p || lookup m p == some stClusterError
    | _ => true)

def gsOthersRemote (i : GSliceInput) (c : Nat) (m : List (Nat × Nat)) : Bool :=
  i.members.all (fun p =>
    match pinOf i c with
    | some pin => pin.isMeta || allocatedFor i c p || lookup m p == none || lookup m p == some stRemote
    | none => true)

def gsClauses (i : GSliceInput) (o : List (Nat × List (Nat × Nat))) : List (String × Bool) :=
  if i.follower then [("g_once", o.all (fun e => peerOnce e.2))] else
  [ ("g_once", o.all (fun e => peerOnce e.2)),
    ("g_own_report", o.all (fun e => gsOwnReport i e.1 e.2)),
    ("g_allocated", o.all (fun e => gsAllocated i e.1 e.2)),
    ("g_others_remote", o.all (fun e => gsOthersRemote i e.1 e.2)),
    ("g_nobody_else", o.all (fun e => e.2.all (fun x => i.members.contains x.1))),
    ("g_listed_if_reported", o.all (fun e => i.members.any (fun p => (reported i p e.1).isSome))),
    ("g_cid_once", peerOnce (o.map (fun e => (e.1, 0)))),
    ("g_all_reported_listed", i.members.all (fun p =>
        match replyOf i.replies p with
        | .ok l => l.all (fun e => o.any (fun x => x.1 == e.1))
        | _ => true)) ]

def gsHolds (i : GSliceInput) (o : List (Nat × List (Nat × Nat))) : Bool := (gsClauses i o).all (·.2)

end CV.C06
