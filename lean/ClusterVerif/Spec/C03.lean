/-
C03 — the property, written from its statement (not from the model), as
executable clause checkers over an (input, output) pair. The driver applies
these to the IMPLEMENTATION's outputs; Props/C03 proves them for every output
the model allows.

Reading of the statement used here
* healthy        = the monitor currently has a valid, unexpired metric for the peer;
* excluded       = on the exclusion (black) list;
* usable (new)   = healthy, not excluded, and the metric is numeric — the shipped
                   strategies can only rank numeric metrics, so a peer whose
                   metric does not parse cannot be *added* (it still counts as a
                   healthy current holder);
* positive factors = 0 < min ≤ max.
-/
import ClusterVerif.Model.C03
namespace CV.C03

/-- remove repeated entries (keeps the last occurrence of each) -/
def dedup : List Nat → List Nat
  | [] => []
  | x :: xs => if x ∈ xs then dedup xs else x :: dedup xs

def stateOf (i : Input) (p : Nat) : MState :=
  match i.peers.find? (fun q => q.1 == p) with
  | some q => q.2
  | none => .absent

/-- healthy and not excluded -/
def good (i : Input) (p : Nat) : Bool := (stateOf i p).healthy && !i.blacklist.contains p
/-- may be added -/
def usable (i : Input) (p : Nat) : Bool := good i p && (stateOf i p).numeric.isSome && !i.current.contains p

def valOf (i : Input) (p : Nat) : Nat := ((stateOf i p).numeric).getD 0

def healthyCurrent (i : Input) : List Nat := (dedup i.current).filter (good i)
def usableIds (i : Input) : List Nat := (i.peers.map (·.1)).filter (usable i)

def positive (i : Input) : Bool := decide (0 < i.rmin) && decide (i.rmin ≤ i.rmax)

/-- c1: lists no peer twice (given the current allocation list has none twice). -/
def cNodup (i : Input) (out : List Nat) : Bool := !i.current.Nodup || out.Nodup
/-- c2: adds only peers with a valid unexpired metric that are not excluded. -/
def cAdded (i : Input) (out : List Nat) : Bool := out.all (fun p => i.current.contains p || usable i p)
/-- c3: keeps still-healthy current holders, dropping some only when more than max. -/
def cKeep (i : Input) (out : List Nat) : Bool :=
  let hc := healthyCurrent i
  if (hc.length : Int) ≤ i.rmax then hc.all out.contains
  else out.all hc.contains && (out.length : Int) == i.rmax
/-- c4: between min and max healthy holders. -/
def cCount (i : Input) (out : List Nat) : Bool :=
  let n : Int := (((dedup out).filter (good i)).length : Nat)
  decide (i.rmin ≤ n) && decide (n ≤ i.rmax)
/-- c5: prefers the peers the user asked for: no other peer is added while a
    usable requested peer is left out. -/
def cPriority (i : Input) (out : List Nat) : Bool :=
  out.all (fun p => i.current.contains p || i.priority.contains p ||
    (usableIds i).all (fun q => !i.priority.contains q || out.contains q))
/-- c6: then the peers the strategy ranks best: within the requested peers, and
    within the others, an added peer ranks no later than any usable peer left out. -/
def cRank (i : Input) (out : List Nat) : Bool :=
  out.all (fun p => i.current.contains p ||
    (usableIds i).all (fun q => out.contains q ||
      (i.priority.contains p != i.priority.contains q) ||
      before i.desc (valOf i p) (valOf i q)))
/-- c7: failure only when fewer than min healthy holders can be reached. -/
def cErr (i : Input) : Bool :=
  decide ((((healthyCurrent i).length + (usableIds i).length : Nat) : Int) < i.rmin)

/-- Clause results, named, for an implementation (or model) output. -/
def clauses (i : Input) (o : Output) : List (String × Bool) :=
  if i.rmin == -1 && i.rmax == -1 then
    [("everywhere_empty", o == .ok [])]
  else if positive i then
    match o with
    | .ok out => [("nodup", cNodup i out), ("added_healthy", cAdded i out), ("keep_current", cKeep i out),
                  ("count_min_max", cCount i out), ("priority_first", cPriority i out), ("rank_best", cRank i out)]
    | .err => [("error_only_if_unreachable", cErr i)]
    | .panic => [("no_panic", false)]
  else []   -- factor pairs `isReplicationFactorValid` rejects: the property says nothing

def holds (i : Input) (o : Output) : Bool := (clauses i o).all (·.2)

/-- Well-formed input: the monitor has one entry per peer. -/
def wf (i : Input) : Bool := (i.peers.map (·.1)).Nodup

end CV.C03
