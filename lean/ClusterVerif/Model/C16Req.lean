import ClusterVerif.Model.C16
import ClusterVerif.Model.C16Ctx
/-!
# C16 (round 8b) — how the connector builds its daemon requests, and the tables of api/types.go, interpreted

Core Lean only.  `harness/extract_c16/req.go` regenerates (into `Gen/C16.lean`)

* `reqSites` — every request path of the pin conversation as written in `ipfshttp.go`: endpoint and query, each
  value a literal of the format string or the expression that fills a `%s` (resolved to what the exported method
  was given: `pin.Cid`, `pin.PinUpdate`, `pin.MaxDepth.ToPinMode().String()`, `pinArgs(pin.MaxDepth)`);
* `pinArgsTable`, `toPinModeTable`, `pinModeStringTable`, `isPinnedTable`, `fromStringTable` — the arms of those switches.

This file gives them a meaning: `wire` evaluates a site for a pin (cid, update source, depth) into the query the daemon
receives, `daemonReads` reads that query the way go-ipfs does — **with go-ipfs' defaults for options that are left out**
(`pin/update`: `unpin=true`; `pin/add`: `recursive=true`, `progress=false`) — into the `Req` of the conversation model.
Anything not understood (an `unknown` of the translator, an expression this file has no meaning for, a guard of the
wrong kind) yields `none`: fail closed.
-/
namespace CV.C16.ReqM
open CV.C16 CV.C16.Dec

def cmpInt : Cmp → Int → Int → Bool
  | .eq, a, b => decide (a = b)
  | .ne, a, b => decide (a ≠ b)
  | .lt, a, b => decide (a < b)
  | .le, a, b => decide (a ≤ b)
  | .gt, a, b => decide (a > b)
  | .ge, a, b => decide (a ≥ b)

def guardDepth : Guard → Int → Option Bool
  | .cmp c n, d => some (cmpInt c d n)
  | .default, _ => some true
  | _, _ => none

/-- the first arm whose guard holds (Go's `switch`); `none` = a guard that is not understood, or no arm -/
def pickDepth {α : Type} : List (Arm α) → Int → Option α
  | [], _ => none
  | a :: rest, d =>
    match guardDepth a.guard d with
    | none => none
    | some true => some a.out
    | some false => pickDepth rest d

def guardStr : Guard → String → Option Bool
  | .hasPrefix p, s => some (p.toList.isPrefixOf s.toList)
  | .strEq x, s => some (s == x)
  | .default, _ => some true
  | _, _ => none

def pickStr {α : Type} : List (Arm α) → String → Option α
  | [], _ => none
  | a :: rest, s =>
    match guardStr a.guard s with
    | none => none
    | some true => some a.out
    | some false => pickStr rest s

def guardName : Guard → String → Option Bool
  | .name c, n => some (c == n)
  | .default, _ => some true
  | _, _ => none

def pickName {α : Type} : List (Arm α) → String → Option α
  | [], _ => none
  | a :: rest, s =>
    match guardName a.guard s with
    | none => none
    | some true => some a.out
    | some false => pickName rest s

/-! ### api/types.go -/

/-- `api.IPFSPinStatus` -/
inductive St | bug | error | direct | recursive | indirect | unpinned
  deriving DecidableEq, Repr

def St.ofConst (s : String) : Option St :=
  if s = "IPFSPinStatusBug" then some .bug
  else if s = "IPFSPinStatusError" then some .error
  else if s = "IPFSPinStatusDirect" then some .direct
  else if s = "IPFSPinStatusRecursive" then some .recursive
  else if s = "IPFSPinStatusIndirect" then some .indirect
  else if s = "IPFSPinStatusUnpinned" then some .unpinned
  else none

/-- the status that says what the daemon's table holds -/
def St.ofP : PState → St
  | .u => .unpinned
  | .d => .direct
  | .r => .recursive
  | .i => .indirect

/-- `IPFSPinStatus.IsPinned(maxDepth)` read off the regenerated arms -/
def isPinnedT (tbl : List (Arm String)) (st : St) (d : Int) : Option Bool :=
  match pickDepth tbl d with
  | none => none
  | some out =>
    if out = "false" then some false
    else match St.ofConst out with
      | none => none
      | some x => some (decide (x = st))

/-- `IPFSPinStatusFromString` read off the regenerated arms -/
def fromStringT (tbl : List (Arm String)) (s : String) : Option St :=
  match pickStr tbl s with
  | none => none
  | some c => St.ofConst c

/-- `pin.MaxDepth.ToPinMode().String()` -/
def pinTypeT (toMode modeStr : List (Arm String)) (d : Int) : Option String :=
  match pickDepth toMode d with
  | none => none
  | some m => pickName modeStr m

/-- the `Type` text go-ipfs lists a pin with (`indirect through <cid>` for an indirect one) -/
def typeText (s : PState) (through : String) : String :=
  match s with
  | .d => "direct"
  | .r => "recursive"
  | .i => "indirect" ++ through
  | .u => ""

/-! ### requests -/

inductive WVal
  | cid (c : Nat)
  | txt (s : String)
  | num (n : Int)
  deriving DecidableEq, Repr

/-- a request as it is on the wire: endpoint and query in order -/
structure Wire where
  endpoint : String
  q : List (String × WVal)
  deriving DecidableEq, Repr

/-- the pin the exported method was given -/
structure Env where
  cid : Nat
  src : Nat
  depth : Int

structure Tables where
  pinArgs : List (Arm (List (String × ArgVal)))
  toPinMode : List (Arm String)
  pinModeString : List (Arm String)

def setsOf (d : Int) : List (String × ArgVal) → Option (List (String × WVal))
  | [] => some []
  | (k, .lit s) :: rest => (setsOf d rest).map (fun l => (k, WVal.txt s) :: l)
  | (k, .depth) :: rest => (setsOf d rest).map (fun l => (k, WVal.num d) :: l)
  | (_, .unknown _) :: _ => none

/-- `pinArgs(maxDepth)`: the pairs the arm chosen for this depth sets -/
def pinArgsPairs (tbl : List (Arm (List (String × ArgVal)))) (d : Int) : Option (List (String × WVal)) :=
  match pickDepth tbl d with
  | none => none
  | some sets => setsOf d sets

/-- what one place of the path contributes to the query -/
def evalParam (T : Tables) (e : Env) (p : QParam) : Option (List (String × WVal)) :=
  match p.val with
  | .lit s => if p.key = "" then none else some [(p.key, .txt s)]
  | .unknown _ => none
  | .var x =>
    if p.key = "" then
      if x = "pinArgs(pin.MaxDepth)" then
        pinArgsPairs T.pinArgs e.depth
      else none
    else if x = "pin.Cid" then some [(p.key, .cid e.cid)]
    else if x = "hash" then some [(p.key, .cid e.cid)]
    else if x = "pin.PinUpdate" then some [(p.key, .cid e.src)]
    else if x = "pin.MaxDepth.ToPinMode().String()" then
      match pinTypeT T.toPinMode T.pinModeString e.depth with
      | none => none
      | some s => some [(p.key, .txt s)]
    else none

def paramsOf (T : Tables) (e : Env) : List QParam → Option (List (String × WVal))
  | [] => some []
  | p :: rest =>
    match evalParam T e p, paramsOf T e rest with
    | some a, some b => some (a ++ b)
    | _, _ => none

def wire (T : Tables) (s : ReqSite) (e : Env) : Option Wire :=
  match paramsOf T e s.params with
  | none => none
  | some q => some ⟨s.endpoint, q⟩

/-- `url.Values.Get`: the first value of the key -/
def qget : List (String × WVal) → String → Option WVal
  | [], _ => none
  | (k, v) :: rest, key => if k = key then some v else qget rest key

def qargs : List (String × WVal) → List WVal
  | [] => []
  | (k, v) :: rest => if k = "arg" then v :: qargs rest else qargs rest

/-- a boolean option of go-ipfs with its default when it is left out -/
def optBool (dflt : Bool) : Option WVal → Option Bool
  | none => some dflt
  | some (.txt s) => if s = "true" then some true else if s = "false" then some false else none
  | some _ => none

/-- how go-ipfs (and the fake daemon of the harness) reads a request; options left out take go-ipfs' defaults -/
def daemonReads (w : Wire) : Option Req :=
  if w.endpoint = "pin/ls" then
    match qargs w.q, qget w.q "type" with
    | [.cid c], some (.txt t) =>
      if t = "recursive" then some (.ls c true) else if t = "direct" then some (.ls c false) else none
    | _, _ => none
  else if w.endpoint = "pin/add" then
    match qargs w.q, optBool true (qget w.q "recursive"), optBool false (qget w.q "progress") with
    | [.cid c], some r, some p =>
      match qget w.q "max-depth" with
      | none => some (.add c r none p)
      | some (.num n) => if n > 0 then some (.add c r (some n.toNat) p) else none
      | some _ => none
    | _, _, _ => none
  else if w.endpoint = "pin/update" then
    match qargs w.q, optBool true (qget w.q "unpin") with     -- go-ipfs: "Remove the old pin", default true
    | [.cid f, .cid t], some u => some (.upd f t u)
    | _, _ => none
  else if w.endpoint = "pin/rm" then
    match qargs w.q, optBool true (qget w.q "recursive") with
    | [.cid c], some true => some (.rm c)
    | _, _ => none
  else none

/-- the one site of a function -/
def siteOf (sites : List ReqSite) (fn : String) : Option ReqSite :=
  match sites.filter (fun s => s.fn == fn) with
  | [s] => some s
  | _ => none

/-- the request the daemon sees when function `fn` sends its request for this pin -/
def reqOf (sites : List ReqSite) (T : Tables) (fn : String) (e : Env) : Option Req :=
  match siteOf sites fn with
  | none => none
  | some s =>
    match wire T s e with
    | none => none
    | some w => daemonReads w

/-- depth of the pin `api.PinWithOpts(from, pin.PinOptions)` builds for the look-up of the update source -/
def modeDepth (modeRec : Bool) : Int := if modeRec then -1 else 0

/-- Every request of the transcribed model, rebuilt from the regenerated sites: the driver compares the implementation's
trace with THIS, so an edit of a path (a dropped `unpin=false`, a swapped `arg`, `recursive=` from the wrong arm) changes
what the model predicts; a request that can no longer be rebuilt becomes `.other` (matches nothing). -/
def rebuild (sites : List ReqSite) (T : Tables) (depth : Int) : Req → Req
  | .ls c tr => (reqOf sites T "PinLsCid" ⟨c, 0, modeDepth tr⟩).getD .other
  | .add c _ _ _ => (reqOf sites T "pinProgress" ⟨c, 0, depth⟩).getD .other
  | .upd f t _ => (reqOf sites T "pinUpdate" ⟨t, f, depth⟩).getD .other
  | .rm c => (reqOf sites T "Unpin" ⟨c, 0, depth⟩).getD .other
  | .other => .other

/-- the first request of a call is built from the caller's own pin (its depth may be any number), later look-ups from
`PinWithOpts(from, …)` -/
def rebuildTrace (sites : List ReqSite) (T : Tables) (i : Input) : List Req → List Req
  | [] => []
  | .ls c _ :: rest => (reqOf sites T "PinLsCid" ⟨c, 0, i.depth⟩).getD .other :: rest.map (rebuild sites T i.depth)
  | r :: rest => rebuild sites T i.depth r :: rest.map (rebuild sites T i.depth)

/-- what a daemon that honours the rebuilt `pin/update` does to the table when the model's request carried `unpin=false` -/
def rebuildTable (sites : List ReqSite) (T : Tables) (i : Input) (m : MOut) : Table :=
  match m.trace.getLast? with
  | some (.upd f t false) =>
    match reqOf sites T "pinUpdate" ⟨t, f, i.depth⟩ with
    | some (.upd _ _ true) =>
      -- the source's pin is removed whenever the update was carried out
      if m.final t = .r ∧ i.table t ≠ .r ∧ f ≠ t then m.final.set f .u else m.final
    | _ => m.final
  | _ => m.final

def rebuildOut (sites : List ReqSite) (T : Tables) (i : Input) (m : MOut) : MOut :=
  { m with trace := rebuildTrace sites T i m.trace, final := rebuildTable sites T i m }

/-- the regenerated tables of today's source -/
def genT : Tables := ⟨Gen.pinArgsTable, Gen.toPinModeTable, Gen.pinModeStringTable⟩

/-- the conversation model with BOTH regenerated tables interpreted: which configured time ends which request
(`runCtx`) and how every request is built (`rebuildOut`).  This is what the driver compares the implementation with. -/
def runReq (cs : List CtxSite) (rs : List ReqSite) (T : Tables) (i : Input) : MOut :=
  rebuildOut rs T i (runCtx cs i)

def allowedReq (cs : List CtxSite) (rs : List ReqSite) (T : Tables) (i : Input) (o : Output) : Bool :=
  let m := runReq cs rs T i
  o.res == m.res && o.trace == m.trace &&
    (List.range i.n).all (fun c => o.final c == m.final c) &&
    swarmOk m.swarmMax o.swarm

/-! ### the tables of api/types.go driven directly (round 8 final: the `types` case kind) -/

/-- what one `types` case observes of the real code: `IPFSPinStatusFromString text`, `IsPinned depth` of that and of a given
status, `PinDepth.ToPinMode().String()` and `PinModeFromString` of it printed again -/
structure TypesOut where
  parsed : St
  pinnedParsed : Bool
  pinnedStatus : Bool
  pinType : String
  roundTrip : String
  deriving DecidableEq, Repr

/-- the same answers read off the regenerated tables (`none` = a table that is not understood) -/
def typesT (fs ip tm ms : List (Arm String)) (text : String) (st : St) (d : Int) : Option TypesOut :=
  match fromStringT fs text, isPinnedT ip st d, pinTypeT tm ms d with
  | some p, some b, some t =>
    match isPinnedT ip p d with
    | some a => some ⟨p, a, b, t, t⟩
    | none => none
  | _, _, _ => none

/-- the status that satisfies a request of this depth (0 = direct, anything else recursive): the property's reading -/
def wantSt (d : Int) : St := if d = 0 then .direct else .recursive

/-- what the property needs of these tables, stated WITHOUT them: the short-cut test accepts exactly the requested mode;
go-ipfs' own `Type` texts are read as the state they name and the empty text as no pin; the `type=` filter names the mode -/
def typesClauses (text : String) (st : St) (d : Int) (o : TypesOut) : List (String × Bool) :=
  [("types_asked_mode", o.pinnedStatus == decide (wantSt d = st) && o.pinnedParsed == decide (wantSt d = o.parsed)),
   ("types_named", (text != "direct" || o.parsed == .direct) && (text != "recursive" || o.parsed == .recursive) &&
      (!("indirect through ".toList.isPrefixOf text.toList) || o.parsed == .indirect) &&
      (text != "" || o.parsed == .bug) && o.parsed != .unpinned && o.parsed != .error),
   ("types_pin_type", o.pinType == (if d = 0 then "direct" else "recursive") && o.roundTrip == o.pinType)]

end CV.C16.ReqM
