/-
C07 — the assembled model: the generic semantics of `Model/C07.lean` instantiated
with the terms regenerated from today's source (`Gen/C07.lean`), over the input
types of `Spec/C07.lean`. This is what the driver compares the implementation
with and what `Props/C07.lean` proves the property for. Core Lean only.
-/
import ClusterVerif.Spec.C07
import ClusterVerif.Gen.C07
namespace CV.C07

def shapeOf : Mode → ConsensusShape
  | .raft => Gen.raft
  | .crdt => Gen.crdt

/-- what ipfs-cluster-follow does to the table (cmd/ipfs-cluster-follow/commands.go) -/
def followerOverrides : List (String × Option Int) := [("Cluster.RepoGCLocal", some Gen.constClosed)]

/-- the overrides a non-custom policy kind stands for -/
def kindOverrides : PolicyKind → List (String × Option Int)
  | .follower => followerOverrides
  | _ => []

/-- TrustAll / TrustedPeers of the crdt `Config` after the setting's sources -/
def modelCfg (srcs : List Source) : TrustCfg := trustOf Gen.cfgShape srcs

/-- `IsTrustedPeer(p)` of the consensus component under a trust setting -/
def modelTrusted (ts : TrustSetting) (self p : Nat) : Bool :=
  trustedAfterCfg (shapeOf ts.mode) (modelCfg ts.srcs) ts.ops self p

/-- what the caller of `i` observes when the serving peer's table is the shipped one with `ovs` applied -/
def modelObs (i : RpcInput) (ovs : List (String × Option Int)) : Obs :=
  -- an unregistered name never reaches authorization: gorpc answers "no such method"
  if !i.registered then .passed
  else if passes (Gen.serverGuarded i.tracing) Gen.closure (applyOverrides Gen.policy ovs) (shapeOf i.ts.mode)
      (modelCfg i.ts.srcs) i.ts.ops i.self i.caller i.ep
  then .passed else .refused

/-- the observer's pinset after the messages -/
def modelRep (i : RepInput) : List Nat :=
  let cfg := modelCfg i.ts.srcs
  deliverAll (shapeOf i.ts.mode) cfg i.self (stateAfter (shapeOf i.ts.mode) cfg i.ts.ops) i.before i.msgs

/-- `Config.RPCPolicy` after the configuration steps (shape regenerated from cluster_config.go and the writers) -/
def modelPolicy (srcs : List PSource) : Policy := policyOf Gen.polShape Gen.policy srcs

/-- do the steps leave a table at all (`false`: nil map) -/
def modelInstalled (srcs : List PSource) : Bool := (policyAfter Gen.polShape Gen.policy srcs).installed

/-- what a remote caller observes from the server built on that `Config` (tracing off) -/
def modelPolObs (i : PolRpcInput) : Obs :=
  if !(Gen.serverGuarded false) || authorizeWith Gen.closure (modelPolicy i.srcs) i.trusted i.ep then .passed else .refused

/-- the keyed writes of cmd/ipfs-cluster-follow, as overrides -/
def followerWritesGen : List (String × Option Int) :=
  (Gen.polShape.keyedWrites.filter (fun w => w.dir == "cmd/ipfs-cluster-follow")).map (fun w => (w.key, some w.value))

def modeKey : Mode → String
  | .raft => "raft"
  | .crdt => "crdt"

/-- where the REST API of the daemon listens for libp2p streams (regenerated shape) -/
def modelExposure (i : DmnInput) : Exposure := daemonExposure Gen.daemonShape i.dir (modeKey i.mode) i.addr

/-- does the swarm peer without credentials get the pinset-mutating route served over the cluster host -/
def modelServed (i : DmnInput) : Bool := swarmPeerReachesRest (modelExposure i) i.auth

/-- the consensus component the daemon hands to NewCluster -/
def modelDaemonConsensus (dir : String) (m : Mode) : Option String := daemonConsensus Gen.daemonShape dir (modeKey m)

/-- the two daemons -/
def serviceDir : String := "cmd/ipfs-cluster-service"
def followDir : String := "cmd/ipfs-cluster-follow"

end CV.C07
