/-
C05 (round 7) — refinements of the tracker model of `Model/C05.lean`. Core Lean only.

1. RECOVER FROM THE STATUS LISTING, as the code does it:
   `RecoverAll` = `StatusAll(ctx, TrackerStatusUndefined)` → for each entry `recoverWithPinInfo` (the switch over
   the entry's status: pin_error / unexpectedly_unpinned re-pin, unpin_error re-unpins, every other status is left)
   → `Status` again; `Recover(c)` = `GetExists(c)`, else `Status(c)`, then the same switch.
   The listing is a SNAPSHOT: the loop acts on the statuses read at listing time while workers and the daemon go on.
   Daemon read failures (`lsErr`): `PinLsCid` failing makes `Status` answer cluster_error; `PinLs` failing makes
   `localStatus` fail, `StatusAll` return nil — no entry at all, not even the operations of the table.
2. TWO-STEP INSTRUCTIONS: `enqueue` = `TrackNewOperation` (under the table's lock) and then the channel send
   (or `SetError; Cancel` when the channel is full); other goroutines run in between.
3. `Shutdown`: the tracker context is cancelled — every operation's context derives from it — and the workers leave.
-/
import ClusterVerif.Model.C05
namespace CV.C05

/-! ### 1. the status the recover decision uses -/

/-- `Tracker.Status(c)` with the daemon read (`PinLsCid`) succeeding (`ls = true`) or failing -/
def statusR (s : State) (ls : Bool) (c : Nat) : Status :=
  match s.cur c with
  | some i => opStatus (s.ops i)            -- optracker.GetExists
  | none =>
    match s.shared c with
    | none => .unpinned
    | some p =>
      match p.kind with
      | .sharded => .sharded
      | .remote => .remote
      | .here => if ls then (if heldAs s c p.mode then .pinned else .pinError) else .clusterError   -- addError

/-- the entry of `c` in `StatusAll(ctx, TrackerStatusUndefined)`; `PinLs` failing: `StatusAll` returns nil -/
def listingR (s : State) (ls : Bool) (c : Nat) : Option Status :=
  if ls then statusAllOf s c else none

/-- the switch of `recoverWithPinInfo`, as a function of the status alone: which operation is re-issued -/
def recAction : Status → Option OpType
  | .pinError | .unexpectedlyUnpinned => some .pin
  | .unpinError => some .unpin
  | .pinned | .pinning | .pinQueued | .unpinned | .unpinning | .unpinQueued
  | .remote | .sharded | .clusterError | .undefined => none

/-- `Recover(c)`: the status is read (table entry, else `Status` with a daemon read), then the switch -/
def recoverR (cfg : Cfg) (s : State) (ls : Bool) (c : Nat) : State × Ret := recoverWith cfg s c (statusR s ls c)

/-- the loop of `RecoverAll` over the listing `L` taken before it. One item = the activity `pre` of the other
    goroutines that happens before the loop reaches the entry, and the cid of the entry. An unlisted cid is not
    visited; the loop stops at the first error. -/
def raLoop (cfg : Cfg) (L : Nat → Option Status) : State → List (List Ev × Nat) → State × Ret
  | s, [] => (s, .nil)
  | s, (pre, c) :: rest =>
    let s1 := run cfg s pre
    match L c with
    | none => raLoop cfg L s1 rest
    | some st =>
      if (recoverWith cfg s1 c st).2 = .full then recoverWith cfg s1 c st
      else raLoop cfg L (recoverWith cfg s1 c st).1 rest

/-- `RecoverAll`: listing, then the loop -/
def recoverAllR (cfg : Cfg) (s : State) (ls : Bool) (items : List (List Ev × Nat)) : State × Ret :=
  raLoop cfg (listingR s ls) s items

/-- the part of the activity in between that belongs to the workers and the daemon (not to other instructions) -/
def internalOnly : Ev → Bool
  | .deqPin | .deqUnpin | .effect _ | .retOk _ | .retErr _ | .reap _ | .lose _ => true
  | _ => false

/-- what the harness observes when the daemon's reads fail or not -/
def observeR (s : State) (ls : Bool) : Obs :=
  { observe s with status := statusR s ls, statusAll := listingR s ls, lsDown := !ls }

/-! ### 2. `enqueue` in two steps -/

/-- first half: `TrackNewOperation(ctx, pin, typ, PhaseQueued)` -/
def enqBegin (s : State) (p : PinSpec) (typ : OpType) : State × Option Nat := trackNew s p typ .queued

/-- second half: `select { case ch <- op: default: op.SetError(ErrFullQueue); op.Cancel() }` -/
def enqSend (cfg : Cfg) (s : State) (i : Nat) (typ : OpType) : State × Ret :=
  match typ with
  | .pin => if s.pinQ.length < cfg.cap then ({ s with pinQ := s.pinQ ++ [i] }, .nil) else (failOp s i, .full)
  | .unpin => if s.unpinQ.length < cfg.cap then ({ s with unpinQ := s.unpinQ ++ [i] }, .nil) else (failOp s i, .full)
  | .remote => (s, .nil)

/-- an instruction that has done its first half -/
structure Pending where
  op : Nat
  typ : OpType
  deriving DecidableEq, Repr

/-- events of the interleaved system: the atomic events of the base model, the two halves of an enqueueing
    instruction, and the two halves of `Recover` (status read / switch + first half of enqueue) -/
inductive EvC where
  | base (e : Ev)
  | trackBegin (p : PinSpec)          -- pinset records p (kind here), TrackNewOperation
  | untrackBegin (c : Nat)
  | recRead (c : Nat)                 -- Recover(c): GetExists / Status, result kept by the goroutine
  | recSwitch (k : Nat)               -- the k-th pending read: the switch, TrackNewOperation
  | send (k : Nat)                    -- the k-th pending send
  deriving Repr

structure StateC where
  s : State
  sends : List Pending                -- goroutines between TrackNewOperation and the channel send
  reads : List (Nat × Status)         -- goroutines between the status read and the switch

def initC : StateC := { s := init, sends := [], reads := [] }

def pushSend (t : StateC) (r : State × Option Nat) (typ : OpType) : StateC :=
  match r.2 with
  | none => { t with s := r.1 }
  | some i => { t with s := r.1, sends := t.sends ++ [{ op := i, typ := typ }] }

def stepC (cfg : Cfg) (t : StateC) : EvC → StateC
  | .base e => { t with s := step cfg t.s e }
  | .trackBegin p =>
    if p.kind = .here then
      let s := { t.s with shared := upd t.s.shared p.cid (some p), failed := upd t.s.failed p.cid false }
      pushSend t (enqBegin s p .pin) .pin
    else { t with s := step cfg t.s (.track p) }
  | .untrackBegin c =>
    let s := { t.s with shared := upd t.s.shared c none, failed := upd t.s.failed c false }
    pushSend t (enqBegin s (pinCid c) .unpin) .unpin
  | .recRead c => { t with reads := t.reads ++ [(c, statusOf t.s c)] }
  | .recSwitch k =>
    match t.reads[k]? with
    | none => t
    | some (c, st) =>
      let t1 := { t with reads := t.reads.eraseIdx k }
      match recAction st with
      | some .pin => pushSend t1 (enqBegin t.s (recPin t.s c) .pin) .pin
      | some .unpin => pushSend t1 (enqBegin t.s (pinCid c) .unpin) .unpin
      | _ => t1
  | .send k =>
    match t.sends[k]? with
    | none => t
    | some pd => { t with s := (enqSend cfg t.s pd.op pd.typ).1, sends := t.sends.eraseIdx k }

def runC (cfg : Cfg) (t : StateC) (es : List EvC) : StateC := es.foldl (stepC cfg) t

/-! ### 3. Shutdown: `spt.cancel()` cancels the context every operation context derives from; the workers return
    (`case <-spt.ctx.Done()`), so nothing is dequeued afterwards; parked calls leave with their context error. -/

def cancelAll (s : State) : State :=
  { s with ops := fun i => if i < s.nextId then { s.ops i with cancelled := true } else s.ops i }

/-- `Shutdown` followed by the departure of every parked call -/
def shutdown (s : State) : State := reapAll (cancelAll s)

/-! ### 4. whole schedules: what the driver runs between two observation points

A schedule is a list of blocks; a block is a list of events of the refined system (the atomic events of the base model —
instructions, worker steps, daemon effects / answers / faults —, the refined `Recover` / `RecoverAll`, the daemon's read
fault switching on or off, and `stabilize`, the run to a stable point the harness waits for); the observation is taken after
every block. The activity between the entries of `RecoverAll` is restricted to the workers and the daemon (the other
instructions of a sequential schedule come before or after it). -/

inductive EvR where
  | base (e : Ev)
  | recover (c : Nat)
  | recoverAll (items : List (List Ev × Nat))
  | lsFail (on : Bool)
  | stabilize
  deriving Repr

structure MState where
  s : State
  ls : Bool          -- the daemon's reads work

def stepR (cfg : Cfg) (m : MState) : EvR → MState
  | .base e => { m with s := step cfg m.s e }
  | .recover c => { m with s := (recoverR cfg m.s m.ls c).1 }
  | .recoverAll items => { m with s := (recoverAllR cfg m.s m.ls (items.map (fun it => (it.1.filter internalOnly, it.2)))).1 }
  | .lsFail on => { m with ls := !on }
  | .stabilize => { m with s := CV.C05.stabilize cfg m.s }

def runR (cfg : Cfg) (m : MState) (es : List EvR) : MState := es.foldl (stepR cfg) m

/-- the observation after every block -/
def obsTrace (cfg : Cfg) : MState → List (List EvR) → List Obs
  | _, [] => []
  | m, b :: rest => observeR (runR cfg m b).s (runR cfg m b).ls :: obsTrace cfg (runR cfg m b) rest

def m0 : MState := { s := init, ls := true }

end CV.C05
