import ClusterVerif.Model.C16Http
/-!
# C16 — model of `ipfshttp.Connector.Pin / Unpin / PinLsCid` against a scripted daemon

Core Lean only.  Transcribed from `/repo/ipfsconn/ipfshttp/ipfshttp.go`
(`Pin`, `pinProgress`, `pinUpdate`, `Unpin`, `PinLsCid`, `checkResponse`,
`postCtx`) and `/repo/api/types.go` (`IPFSPinStatus.IsPinned`,
`PinDepth.ToPinMode`).

The other side of the conversation is a daemon with a pin table `cid → state`
and one scripted *behaviour* per sequential request.  A behaviour is a point of
the product space of `Model/C16Http.lean` (status code × content type × body
shape × transport); the *class* the connector can tell apart is computed from it
through the interpreted HTTP helpers (`clsAt`, `clsFirst`).  A daemon that answers 200 has done what was
asked; a daemon that answers non-200 has done nothing.  `serr` is what go-ipfs
sends when a pin fails after the first progress message: status 200 is already
on the wire, the error travels as an object inside the stream and/or in the
`X-Stream-Error` trailer; nothing is pinned.
-/
namespace CV.C16

/-- state of one CID in the daemon's pin table -/
inductive PState
  | u   -- not pinned
  | d   -- pinned directly
  | r   -- pinned recursively
  | i   -- only indirectly pinned (child of some recursive pin)
  deriving DecidableEq, Repr, Inhabited

abbrev Table := Nat → PState

def Table.set (t : Table) (c : Nat) (s : PState) : Table := fun x => if x = c then s else t x

/-- the reply of a daemon that behaves: 200, JSON, the endpoint's own reply, all of it arrives -/
def Beh.ok : Beh := ⟨200, .json, .expected, .full⟩

/-- The named wire forms of the first rounds, as points of the product space (`w` = the wire variant
of the case line, which chooses among equivalent forms: which non-200 status). -/
def Beh.named (name : String) (w : Nat := 0) : Option Beh :=
  match name with
  | "ok" => some Beh.ok
  | "oka" => some ⟨200, .json, .expectedAny, .full⟩
  | "e" => some ⟨500, .json, .errObj .other, .full⟩
  | "np" => some ⟨500, .json, .errObj .notPinned, .full⟩
  | "npx" => some ⟨500, .json, .errObj .near, .full⟩
  | "ap" => some ⟨500, .json, .errObj .already, .full⟩
  | "jnull" => some ⟨500, .json, .jnull, .full⟩
  | "nj" => some ⟨[500, 502, 503].getD (w % 3) 500, .none, .nonJson, .full⟩
  | "empty" => some ⟨[500, 403, 400].getD (w % 3) 500, .none, .empty, .full⟩
  | "nj4" => some ⟨404, .none, .nonJson, .full⟩
  | "jarr" => some ⟨500, .json, .otherJson, .full⟩
  | "d0" => some ⟨200, .none, .empty, .noHeaders⟩
  | "dcl" => some ⟨200, .json, .nonJson, .cut false⟩
  | "dch" => some ⟨200, .json, .nonJson, .cut false⟩
  | "dchp" => some ⟨200, .json, .nonJson, .cut true⟩
  | "st" => some ⟨200, .none, .empty, .stallHeaders⟩
  | "ps" => some ⟨200, .json, .nonJson, .stallBody⟩
  | "pss" => some ⟨200, .json, .stuck, .full⟩
  | "slow" => some ⟨200, .json, .slow, .full⟩
  | "serr" => some ⟨200, .json, .serr, .full⟩
  | "b200" => some ⟨200, .none, .nonJson, .full⟩
  | _ => none

/-- a named form, `Beh.ok` for an unknown name -/
def Beh.of (name : String) : Beh := (Beh.named name).getD Beh.ok

/-- requests as the daemon sees them (endpoint + the parameters that matter) -/
inductive Req
  | ls (c : Nat) (typeRec : Bool)                                   -- pin/ls?arg=c&type=recursive|direct
  | add (c : Nat) (recursive : Bool) (maxDepth : Option Nat) (progress : Bool)
  | upd (f t : Nat) (unpin : Bool)                                   -- pin/update?arg=f&arg=t&unpin=…
  | rm (c : Nat)
  | other
  deriving DecidableEq, Repr

def Req.isAdd : Req → Bool
  | .add .. => true
  | _ => false

inductive Op | pin | unpin | ls
  deriving DecidableEq, Repr

/-- result class of the connector call -/
inductive Res
  | ok                 -- Pin/Unpin returned nil
  | st (s : PState)    -- PinLsCid returned this status and no error
  | stOther            -- PinLsCid returned some other status and no error
  | err                -- returned an error by itself
  | errctx             -- returned only because the caller's own context expired
  | hang               -- did not return even then
  | panic
  deriving DecidableEq, Repr

structure Input where
  op : Op
  n : Nat                 -- size of the CID universe 0..n-1
  cid : Nat
  depth : Int             -- Pin.MaxDepth
  modeRec : Bool          -- Pin.Mode = recursive
  src : Option Nat        -- Pin.PinUpdate
  norig : Nat             -- number of origins
  unpinDisable : Bool
  table : Table
  script : List Beh       -- behaviour of the k-th sequential (non-swarm) request

def Input.beh (i : Input) (k : Nat) : Beh := i.script.getD k Beh.ok

/-- what the implementation run shows -/
structure Output where
  res : Res
  trace : List Req        -- sequential requests in arrival order
  swarm : List Nat        -- origin indices of swarm/connect requests received (sorted)
  final : Table

/-- model output: `swarmMax` = swarm/connect requests that may have been sent -/
structure MOut where
  res : Res
  trace : List Req
  final : Table
  swarmMax : Nat

/-! ### api/types.go -/

/-- `IPFSPinStatus.IsPinned(maxDepth)`: the state that counts as "pinned as asked" -/
def asked (depth : Int) : PState := if depth = 0 then .d else .r

/-- `PinDepth.ToPinMode()`: the `type=` filter of pin/ls and `recursive=` of pin/add -/
def typeRec (depth : Int) : Bool := depth != 0

/-! ### the daemon (go-ipfs pinner semantics for an honest answer) -/

def addHonest (t : Table) (c : Nat) (recursive : Bool) : Option Table :=
  if recursive then some (t.set c .r)
  else if t c = .r then none            -- "already pinned recursively"
  else some (t.set c .d)

def updHonest (t : Table) (f c : Nat) (unpin : Bool) : Option Table :=
  if t f ≠ .r then none                 -- "'from' cid was not recursively pinned already"
  else if f = c then some t
  else if t c = .r then none            -- "'to' cid was already recursively pinned"
  else some (if unpin then (t.set c .r).set f .u else t.set c .r)

def rmHonest (t : Table) (c : Nat) : Option Table :=
  if t c = .d ∨ t c = .r then some (t.set c .u) else none   -- "not pinned or pinned indirectly"

/-! ### the connector -/

inductive LsRes
  | status (s : PState)
  | err
  deriving DecidableEq, Repr

/-- `PinLsCid`: network error ⇒ error; IPFS error ⇒ unpinned; 200 ⇒ parse -/
def lsCid (t : Table) (c : Nat) (tr : Bool) (k : Cls) : LsRes :=
  match k with
  | .honest => if t c = (if tr then .r else .d) then .status (t c) else .status .u
  | .honestAny => .status (t c)     -- "not pinned" error ⇒ u; "indirect through …" ⇒ i
  | .ipfsErr | .notPinned => .status .u
  -- a daemon that has nothing to list refuses with its usual error object whatever the wire form
  | .badBody | .lostReply => if t c = (if tr then .r else .d) then .err else .status .u
  | _ => .err

def addReq (c : Nat) (depth : Int) : Req :=
  .add c (typeRec depth) (if depth > 0 then some depth.toNat else none) true

/-- `pinProgress` + watchdog -/
def addCall (t : Table) (c : Nat) (depth : Int) (b : Beh) : Res × Table :=
  match clsAt true b with
  | .honest | .slowOk =>
    match addHonest t c (typeRec depth) with
    | some t' => (.ok, t')
    | none => (.err, t)
  | .badBody | .lostReply =>
    match addHonest t c (typeRec depth) with
    | some t' => (.err, t')
    | none => (.err, t)
  | .streamErr => (.err, t)    -- a message with Type "error", or a non-empty X-Stream-Error trailer at EOF
  | _ => (.err, t)

/-- `pinUpdate`: a plain `postCtx` under a `PinTimeout` deadline (no progress is reported) -/
def updCall (t : Table) (f c : Nat) (b : Beh) : Res × Table :=
  match clsAt false b with
  | .honest | .badBody =>
    match updHonest t f c false with
    | some t' => (.ok, t')
    | none => (.err, t)
  | .lostReply =>
    match updHonest t f c false with
    | some t' => (.err, t')
    | none => (.err, t)
  | _ => (.err, t)

/-- `Unpin` after the `UnpinDisable` test -/
def rmCall (t : Table) (c : Nat) (b : Beh) : Res × Table :=
  match clsAt false b with
  | .honest | .badBody =>
    match rmHonest t c with
    | some t' => (.ok, t')
    | none => (.ok, t)          -- ErrNotPinned text tolerated
  | .lostReply =>
    match rmHonest t c with
    | some t' => (.err, t')
    | none => (.ok, t)
  | .notPinned => (.ok, t)
  | _ => (.err, t)

def pin (i : Input) : MOut :=
  let r0 := Req.ls i.cid (typeRec i.depth)
  match lsCid i.table i.cid (typeRec i.depth) (clsFirst (i.beh 0)) with
  | .err => ⟨.err, [r0], i.table, 0⟩
  | .status s =>
    if s = asked i.depth then ⟨.ok, [r0], i.table, 0⟩
    else
      let sw := min i.norig 10
      match i.src with
      | none =>
        let x := addCall i.table i.cid i.depth (i.beh 1)
        ⟨x.1, [r0, addReq i.cid i.depth], x.2, sw⟩
      | some f =>
        let r1 := Req.ls f i.modeRec
        if lsCid i.table f i.modeRec (clsFirst (i.beh 1)) = .status .r then
          let x := updCall i.table f i.cid (i.beh 2)
          ⟨x.1, [r0, r1, .upd f i.cid false], x.2, sw⟩
        else
          let x := addCall i.table i.cid i.depth (i.beh 2)
          ⟨x.1, [r0, r1, addReq i.cid i.depth], x.2, sw⟩

def unpin (i : Input) : MOut :=
  if i.unpinDisable then ⟨.err, [], i.table, 0⟩
  else
    let x := rmCall i.table i.cid (i.beh 0)
    ⟨x.1, [.rm i.cid], x.2, 0⟩

def lsOp (i : Input) : MOut :=
  let r0 := Req.ls i.cid (typeRec i.depth)
  match lsCid i.table i.cid (typeRec i.depth) (clsFirst (i.beh 0)) with
  | .err => ⟨.err, [r0], i.table, 0⟩
  | .status s => ⟨.st s, [r0], i.table, 0⟩

def run (i : Input) : MOut :=
  match i.op with
  | .pin => pin i
  | .unpin => unpin i
  | .ls => lsOp i

/-- strictly increasing list of origin indices below `m` -/
def swarmOk (m : Nat) : List Nat → Bool
  | [] => true
  | [a] => a < m
  | a :: b :: rest => a < b && swarmOk m (b :: rest)

/-- the implementation's observable output is one the model admits: same
result class, same sequential trace, same pin table on the universe, and the
swarm/connect requests received are some of the first `min norig 10` origins
(they are sent in the background and cancelled when `Pin` returns). -/
def allowed (i : Input) (o : Output) : Bool :=
  let m := run i
  o.res == m.res && o.trace == m.trace &&
    (List.range i.n).all (fun c => o.final c == m.final c) &&
    swarmOk m.swarmMax o.swarm

end CV.C16
