/-!
# C18 — the source text the synchronisation models transcribe (snapshot)

Snapshot of `Gen.Src` (harness/extract_c18, shared printer harness/skel: one entry per source line, logging / tracing statements and
string texts dropped) taken after `Model/C18SyncProgs.lean` was last read against the source. `Gen/C18.lean` is regenerated from the
source on every run and `Props/C18.lean` proves `Gen.Src.f = Expected.f` by `rfl` for every function below: an edit to the shutdown /
start-up / queueing code of the stateless tracker, the crdt consensus component or `Cluster` breaks a named obligation. Re-snapshot
only after re-reading the changed function against the model.
Round 8b (/repo 076a82e): added the tracker's `pin` / `unpin` / `Recover` / `recoverWithPinInfo`, the informers' `SetClient` / `Shutdown` / `GetMetric`
and the checker's `NewChecker` / `alert` / `Alerts` / `Watch`, read against `Model/C18SyncProgs2.lean` (`progT…`, `progI…`, `progW…`).
Round 8c (/repo 3277283): `Cluster.Shutdown` re-read against `cShutdown` (the new peerset test is one more way into the free-choice branch pc 7 → 8: at most one locked write of `c.removed` per call, the local `removed` excludes the leave branch afterwards).
Last snapshot of the older entries: /repo 87856f0 (Cluster ready / Shutdown / watchPeers re-read against `progC…` of `Model/C18SyncProgs.lean`; `NewCluster` added).
-/
namespace CV.C18.Expected

/-- pintracker/stateless/stateless.go:  New -/
def stateless_New : List String := [
  "ctx, cancel := context.WithCancel(context.Background())",
  "spt := &Tracker{",
  "config: cfg,",
  "peerID: pid,",
  "peerName: peerName,",
  "ctx: ctx,",
  "cancel: cancel,",
  "getState: getState,",
  "optracker: optracker.NewOperationTracker(ctx, pid, peerName),",
  "rpcReady: make(chan struct{}, 1),",
  "pinCh: make(chan *optracker.Operation, cfg.MaxPinQueueSize),",
  "unpinCh: make(chan *optracker.Operation, cfg.MaxPinQueueSize),",
  "}",
  "for i := 0; i < spt.config.ConcurrentPins; i++ {",
  "go spt.opWorker(spt.pin, spt.pinCh)",
  "}",
  "go spt.opWorker(spt.unpin, spt.unpinCh)",
  "return spt"
]

/-- pintracker/stateless/stateless.go: *Tracker opWorker -/
def stateless_Tracker_opWorker : List String := [
  "for {",
  "select {",
  "case op := <-opChan:",
  "if cont := applyPinF(pinF, op); cont {",
  "continue",
  "}",
  "spt.optracker.Clean(op.Context(), op)",
  "case <-spt.ctx.Done():",
  "return",
  "}",
  "}"
]

/-- pintracker/stateless/stateless.go: *Tracker enqueue -/
def stateless_Tracker_enqueue : List String := [
  "op := spt.optracker.TrackNewOperation(ctx, c, typ, optracker.PhaseQueued)",
  "if op == nil {",
  "return nil",
  "}",
  "var ch chan *optracker.Operation",
  "switch typ {",
  "case optracker.OperationPin:",
  "ch = spt.pinCh",
  "case optracker.OperationUnpin:",
  "ch = spt.unpinCh",
  "}",
  "select {",
  "case ch <- op:",
  "default:",
  "err := ErrFullQueue",
  "op.SetError(err)",
  "op.Cancel()",
  "return err",
  "}",
  "return nil"
]

/-- pintracker/stateless/stateless.go: *Tracker SetClient -/
def stateless_Tracker_SetClient : List String := [
  "spt.rpcClient = c",
  "spt.rpcReady <- struct{}{}"
]

/-- pintracker/stateless/stateless.go: *Tracker Shutdown -/
def stateless_Tracker_Shutdown : List String := [
  "_ = ctx",
  "spt.shutdownMu.Lock()",
  "defer spt.shutdownMu.Unlock()",
  "if spt.shutdown {",
  "return nil",
  "}",
  "spt.cancel()",
  "close(spt.rpcReady)",
  "spt.wg.Wait()",
  "spt.shutdown = true",
  "return nil"
]

/-- pintracker/stateless/stateless.go: *Tracker pin -/
def stateless_Tracker_pin : List String := [
  "err := spt.rpcClient.CallContext(",
  "ctx,",
  "S,",
  "S,",
  "S,",
  "op.Pin(),",
  "&struct{}{},",
  ")",
  "if err != nil {",
  "return err",
  "}",
  "return nil"
]

/-- pintracker/stateless/stateless.go: *Tracker unpin -/
def stateless_Tracker_unpin : List String := [
  "err := spt.rpcClient.CallContext(",
  "ctx,",
  "S,",
  "S,",
  "S,",
  "op.Pin(),",
  "&struct{}{},",
  ")",
  "if err != nil {",
  "return err",
  "}",
  "return nil"
]

/-- pintracker/stateless/stateless.go: *Tracker Recover -/
def stateless_Tracker_Recover : List String := [
  "pi, ok := spt.optracker.GetExists(ctx, c)",
  "if ok {",
  "return spt.recoverWithPinInfo(ctx, pi)",
  "}",
  "return spt.recoverWithPinInfo(ctx, spt.Status(ctx, c))"
]

/-- pintracker/stateless/stateless.go: *Tracker recoverWithPinInfo -/
def stateless_Tracker_recoverWithPinInfo : List String := [
  "var err error",
  "switch pi.Status {",
  "case api.TrackerStatusPinError, api.TrackerStatusUnexpectedlyUnpinned:",
  "pin := api.PinCid(pi.Cid)",
  "if st, stErr := spt.getState(ctx); stErr == nil {",
  "if statePin, getErr := st.Get(ctx, pi.Cid); getErr == nil {",
  "pin = statePin",
  "}",
  "}",
  "err = spt.enqueue(ctx, pin, optracker.OperationPin)",
  "case api.TrackerStatusUnpinError:",
  "err = spt.enqueue(ctx, api.PinCid(pi.Cid), optracker.OperationUnpin)",
  "}",
  "if err != nil {",
  "return spt.Status(ctx, pi.Cid), err",
  "}",
  "return spt.Status(ctx, pi.Cid), nil"
]

/-- informer/disk/disk.go: *Informer SetClient -/
def disk_Informer_SetClient : List String := [
  "disk.mu.Lock()",
  "disk.rpcClient = c",
  "disk.mu.Unlock()"
]

/-- informer/disk/disk.go: *Informer Shutdown -/
def disk_Informer_Shutdown : List String := [
  "disk.mu.Lock()",
  "disk.rpcClient = nil",
  "disk.mu.Unlock()",
  "return nil"
]

/-- informer/disk/disk.go: *Informer GetMetric -/
def disk_Informer_GetMetric : List String := [
  "disk.mu.Lock()",
  "rpcClient := disk.rpcClient",
  "disk.mu.Unlock()",
  "if rpcClient == nil {",
  "return &api.Metric{",
  "Name: disk.Name(),",
  "Valid: false,",
  "}",
  "}",
  "var repoStat api.IPFSRepoStat",
  "var metric uint64",
  "valid := true",
  "err := rpcClient.CallContext(",
  "ctx,",
  "S,",
  "S,",
  "S,",
  "struct{}{},",
  "&repoStat,",
  ")",
  "if err != nil {",
  "valid = false",
  "} else {",
  "switch disk.config.MetricType {",
  "case MetricFreeSpace:",
  "size := repoStat.RepoSize",
  "total := repoStat.StorageMax",
  "if size < total {",
  "metric = total - size",
  "} else {",
  "metric = 0",
  "}",
  "case MetricRepoSize:",
  "metric = repoStat.RepoSize",
  "}",
  "}",
  "m := &api.Metric{",
  "Name: disk.Name(),",
  "Value: fmt.Sprintf(S, metric),",
  "Valid: valid,",
  "}",
  "m.SetTTL(disk.config.MetricTTL)",
  "return m"
]

/-- informer/numpin/numpin.go: *Informer SetClient -/
def numpin_Informer_SetClient : List String := [
  "npi.mu.Lock()",
  "npi.rpcClient = c",
  "npi.mu.Unlock()"
]

/-- informer/numpin/numpin.go: *Informer Shutdown -/
def numpin_Informer_Shutdown : List String := [
  "npi.mu.Lock()",
  "npi.rpcClient = nil",
  "npi.mu.Unlock()",
  "return nil"
]

/-- informer/numpin/numpin.go: *Informer GetMetric -/
def numpin_Informer_GetMetric : List String := [
  "npi.mu.Lock()",
  "rpcClient := npi.rpcClient",
  "npi.mu.Unlock()",
  "if rpcClient == nil {",
  "return &api.Metric{",
  "Valid: false,",
  "}",
  "}",
  "pinMap := make(map[string]api.IPFSPinStatus)",
  "err := rpcClient.CallContext(",
  "ctx,",
  "S,",
  "S,",
  "S,",
  "S,",
  "&pinMap,",
  ")",
  "valid := err == nil",
  "m := &api.Metric{",
  "Name: MetricName,",
  "Value: fmt.Sprintf(S, len(pinMap)),",
  "Valid: valid,",
  "}",
  "m.SetTTL(npi.config.MetricTTL)",
  "return m"
]

/-- monitor/metrics/checker.go:  NewChecker -/
def metrics_NewChecker : List String := [
  "return &Checker{",
  "ctx: ctx,",
  "alertCh: make(chan *api.Alert, AlertChannelCap),",
  "metrics: metrics,",
  "threshold: threshold,",
  "failedPeers: make(map[peer.ID]map[string]int),",
  "alertedFor: make(map[peer.ID]map[string]int64),",
  "}"
]

/-- monitor/metrics/checker.go: *Checker alert -/
def metrics_Checker_alert : List String := [
  "mc.failedPeersMu.Lock()",
  "defer mc.failedPeersMu.Unlock()",
  "if _, ok := mc.failedPeers[pid]; !ok {",
  "mc.failedPeers[pid] = make(map[string]int)",
  "}",
  "failedMetrics := mc.failedPeers[pid]",
  "lastMetric := mc.metrics.PeerLatest(metricName, pid)",
  "if lastMetric == nil {",
  "lastMetric = &api.Metric{",
  "Name: metricName,",
  "Peer: pid,",
  "}",
  "}",
  "if mc.alertedFor[pid] == nil {",
  "mc.alertedFor[pid] = make(map[string]int64)",
  "}",
  "if mc.alertedFor[pid][metricName] != lastMetric.ReceivedAt {",
  "mc.alertedFor[pid][metricName] = lastMetric.ReceivedAt",
  "delete(failedMetrics, metricName)",
  "}",
  "if failedMetrics[metricName] >= MaxAlertThreshold {",
  "mc.metrics.RemovePeerMetrics(pid, metricName)",
  "delete(failedMetrics, metricName)",
  "if len(mc.failedPeers[pid]) == 0 {",
  "delete(mc.failedPeers, pid)",
  "}",
  "delete(mc.alertedFor[pid], metricName)",
  "if len(mc.alertedFor[pid]) == 0 {",
  "delete(mc.alertedFor, pid)",
  "}",
  "return nil",
  "}",
  "alrt := &api.Alert{",
  "Metric: *lastMetric,",
  "TriggeredAt: time.Now(),",
  "}",
  "select {",
  "case mc.alertCh <- alrt:",
  "failedMetrics[metricName]++",
  "stats.RecordWithTags(",
  "mc.ctx,",
  "[]tag.Mutator{tag.Upsert(observations.RemotePeerKey, pid.Pretty())},",
  "observations.Alerts.M(1),",
  ")",
  "default:",
  "return ErrAlertChannelFull",
  "}",
  "return nil"
]

/-- monitor/metrics/checker.go: *Checker Alerts -/
def metrics_Checker_Alerts : List String := [
  "return mc.alertCh"
]

/-- monitor/metrics/checker.go: *Checker Watch -/
def metrics_Checker_Watch : List String := [
  "ticker := time.NewTicker(interval)",
  "for {",
  "select {",
  "case <-ticker.C:",
  "if peersF != nil {",
  "peers, err := peersF(ctx)",
  "if err != nil {",
  "continue",
  "}",
  "mc.CheckPeers(peers)",
  "} else {",
  "mc.CheckAll()",
  "}",
  "case <-ctx.Done():",
  "ticker.Stop()",
  "return",
  "}",
  "}"
]

/-- consensus/crdt/consensus.go:  New -/
def crdt_New : List String := [
  "err := cfg.Validate()",
  "if err != nil {",
  "return nil, err",
  "}",
  "ctx, cancel := context.WithCancel(context.Background())",
  "var blocksDatastore ds.Batching",
  "ns := ds.NewKey(cfg.DatastoreNamespace)",
  "blocksDatastore = namespace.Wrap(store, ns.ChildString(blocksNs))",
  "ipfs, err := ipfslite.New(",
  "ctx,",
  "blocksDatastore,",
  "host,",
  "dht,",
  "&ipfslite.Config{",
  "Offline: false,",
  "},",
  ")",
  "if err != nil {",
  "cancel()",
  "return nil, err",
  "}",
  "css := &Consensus{",
  "ctx: ctx,",
  "cancel: cancel,",
  "config: cfg,",
  "host: host,",
  "peerManager: pstoremgr.New(ctx, host, S),",
  "dht: dht,",
  "store: store,",
  "ipfs: ipfs,",
  "namespace: ns,",
  "pubsub: pubsub,",
  "rpcReady: make(chan struct{}, 1),",
  "readyCh: make(chan struct{}, 1),",
  "stateReady: make(chan struct{}, 1),",
  "batchItemCh: make(chan batchItem, cfg.Batching.MaxQueueSize),",
  "}",
  "go css.setup()",
  "return css, nil"
]

/-- consensus/crdt/consensus.go: *Consensus setup -/
def crdt_Consensus_setup : List String := [
  "select {",
  "case <-css.ctx.Done():",
  "return",
  "case <-css.rpcReady:",
  "}",
  "for _, p := range css.config.TrustedPeers {",
  "css.Trust(css.ctx, p)",
  "}",
  "topicName := css.config.ClusterName",
  "topicHash, err := multihash.Sum([]byte(css.config.ClusterName), multihash.MD5, -1)",
  "if err != nil {",
  "} else {",
  "topicName = topicHash.B58String()",
  "}",
  "err = css.pubsub.RegisterTopicValidator(",
  "topicName,",
  "func(ctx context.Context, _ peer.ID, msg *pubsub.Message) bool {",
  "signer := msg.GetFrom()",
  "trusted := css.IsTrustedPeer(ctx, signer)",
  "if !trusted {",
  "}",
  "return trusted",
  "},",
  ")",
  "if err != nil {",
  "}",
  "broadcaster, err := crdt.NewPubSubBroadcaster(",
  "css.ctx,",
  "css.pubsub,",
  "topicName,",
  ")",
  "if err != nil {",
  "return",
  "}",
  "opts := crdt.DefaultOptions()",
  "opts.RebroadcastInterval = css.config.RebroadcastInterval",
  "opts.DAGSyncerTimeout = 2 * time.Minute",
  "opts.Logger = logger",
  "crdt, err := crdt.New(",
  "css.store,",
  "css.namespace,",
  "css.ipfs,",
  "broadcaster,",
  "opts,",
  ")",
  "if err != nil {",
  "return",
  "}",
  "css.crdt = crdt",
  "clusterState, err := dsstate.New(",
  "css.crdt,",
  "S,",
  "dsstate.DefaultHandle(),",
  ")",
  "if err != nil {",
  "return",
  "}",
  "css.state = clusterState",
  "batchingState, err := dsstate.NewBatching(",
  "css.crdt,",
  "S,",
  "dsstate.DefaultHandle(),",
  ")",
  "if err != nil {",
  "return",
  "}",
  "css.batchingState = batchingState",
  "if css.config.TrustAll {",
  "}",
  "if css.config.batchingEnabled() {",
  "go css.batchWorker()",
  "}",
  "close(css.stateReady)",
  "css.readyCh <- struct{}{}"
]

/-- consensus/crdt/consensus.go: *Consensus Shutdown -/
def crdt_Consensus_Shutdown : List String := [
  "css.shutdownLock.Lock()",
  "defer css.shutdownLock.Unlock()",
  "if css.shutdown {",
  "return nil",
  "}",
  "css.cancel()",
  "if crdt := css.crdt; crdt != nil {",
  "crdt.Close()",
  "}",
  "if css.config.hostShutdown {",
  "css.host.Close()",
  "}",
  "css.shutdown = true",
  "close(css.rpcReady)",
  "return nil"
]

/-- consensus/crdt/consensus.go: *Consensus SetClient -/
def crdt_Consensus_SetClient : List String := [
  "css.rpcClient = c",
  "css.rpcReady <- struct{}{}"
]

/-- consensus/crdt/consensus.go: *Consensus Ready -/
def crdt_Consensus_Ready : List String := [
  "return css.readyCh"
]

/-- consensus/crdt/consensus.go: *Consensus LogPin -/
def crdt_Consensus_LogPin : List String := [
  "if css.config.batchingEnabled() {",
  "select {",
  "case css.batchItemCh <- batchItem{",
  "ctx: ctx,",
  "isPin: true,",
  "pin: pin,",
  "}:",
  "return nil",
  "default:",
  "return fmt.Errorf(S, ErrMaxQueueSizeReached)",
  "}",
  "}",
  "return css.state.Add(ctx, pin)"
]

/-- consensus/crdt/consensus.go: *Consensus LogUnpin -/
def crdt_Consensus_LogUnpin : List String := [
  "if css.config.batchingEnabled() {",
  "select {",
  "case css.batchItemCh <- batchItem{",
  "ctx: ctx,",
  "isPin: false,",
  "pin: pin,",
  "}:",
  "return nil",
  "default:",
  "return fmt.Errorf(S, ErrMaxQueueSizeReached)",
  "}",
  "}",
  "return css.state.Rm(ctx, pin.Cid)"
]

/-- consensus/crdt/consensus.go: *Consensus batchWorker -/
def crdt_Consensus_batchWorker : List String := [
  "maxSize := css.config.Batching.MaxBatchSize",
  "maxAge := css.config.Batching.MaxBatchAge",
  "batchCurSize := 0",
  "batchTimer := time.NewTimer(maxAge)",
  "if !batchTimer.Stop() {",
  "<-batchTimer.C",
  "}",
  "for {",
  "select {",
  "case <-css.ctx.Done():",
  "return",
  "case batchItem := <-css.batchItemCh:",
  "if batchCurSize == 0 {",
  "batchTimer.Reset(maxAge)",
  "}",
  "var err error",
  "if batchItem.isPin {",
  "err = css.batchingState.Add(batchItem.ctx, batchItem.pin)",
  "} else {",
  "err = css.batchingState.Rm(batchItem.ctx, batchItem.pin.Cid)",
  "}",
  "if err != nil {",
  "continue",
  "}",
  "batchCurSize++",
  "if batchCurSize < maxSize {",
  "continue",
  "}",
  "if err := css.batchingState.Commit(css.ctx); err != nil {",
  "continue",
  "}",
  "if !batchTimer.Stop() {",
  "<-batchTimer.C",
  "}",
  "batchCurSize = 0",
  "case <-batchTimer.C:",
  "if err := css.batchingState.Commit(css.ctx); err != nil {",
  "batchTimer.Reset(maxAge)",
  "continue",
  "}",
  "batchCurSize = 0",
  "}",
  "}"
]

/-- cluster.go:  NewCluster -/
def cluster_NewCluster : List String := [
  "err := cfg.Validate()",
  "if err != nil {",
  "return nil, err",
  "}",
  "if host == nil {",
  "return nil, errors.New(S)",
  "}",
  "if len(informers) == 0 {",
  "return nil, errors.New(S)",
  "}",
  "ctx, cancel := context.WithCancel(ctx)",
  "listenAddrs := S",
  "for _, addr := range host.Addrs() {",
  "listenAddrs += fmt.Sprintf(S, addr, host.ID().Pretty())",
  "}",
  "peerManager := pstoremgr.New(ctx, host, cfg.GetPeerstorePath())",
  "var mdns discovery.Service",
  "if cfg.MDNSInterval > 0 {",
  "mdns, err := discovery.NewMdnsService(ctx, host, cfg.MDNSInterval, mdnsServiceTag)",
  "if err != nil {",
  "} else {",
  "mdns.RegisterNotifee(peerManager)",
  "}",
  "}",
  "c := &Cluster{",
  "ctx: ctx,",
  "cancel: cancel,",
  "id: host.ID(),",
  "config: cfg,",
  "host: host,",
  "dht: dht,",
  "discovery: mdns,",
  "datastore: datastore,",
  "consensus: consensus,",
  "apis: apis,",
  "ipfs: ipfs,",
  "tracker: tracker,",
  "monitor: monitor,",
  "allocator: allocator,",
  "informers: informers,",
  "tracer: tracer,",
  "alerts: []api.Alert{},",
  "peerManager: peerManager,",
  "shutdownB: false,",
  "removed: false,",
  "doneCh: make(chan struct{}),",
  "readyCh: make(chan struct{}),",
  "readyB: false,",
  "}",
  "c.peerManager.ImportPeersFromPeerstore(false, peerstore.AddressTTL)",
  "c.peerManager.ImportPeers(c.config.PeerAddresses, false, peerstore.AddressTTL)",
  "connectedPeers := c.peerManager.Bootstrap(bootstrapCount)",
  "for _, p := range connectedPeers {",
  "if err := c.logPingMetric(ctx, p); err != nil {",
  "}",
  "}",
  "err = c.setupRPC()",
  "if err != nil {",
  "c.Shutdown(ctx)",
  "return nil, err",
  "}",
  "c.setupRPCClients()",
  "c.wg.Add(1)",
  "go func() {",
  "defer c.wg.Done()",
  "c.ready(ReadyTimeout)",
  "c.run()",
  "}()",
  "return c, nil"
]

/-- cluster.go: *Cluster run -/
def cluster_Cluster_run : List String := [
  "c.wg.Add(1)",
  "go func() {",
  "defer c.wg.Done()",
  "c.watchPinset()",
  "}()",
  "c.wg.Add(1)",
  "go func() {",
  "defer c.wg.Done()",
  "c.pushPingMetrics(c.ctx)",
  "}()",
  "c.wg.Add(len(c.informers))",
  "for _, informer := range c.informers {",
  "go func(inf Informer) {",
  "defer c.wg.Done()",
  "c.pushInformerMetrics(c.ctx, inf)",
  "}(informer)",
  "}",
  "c.wg.Add(1)",
  "go func() {",
  "defer c.wg.Done()",
  "c.watchPeers()",
  "}()",
  "c.wg.Add(1)",
  "go func() {",
  "defer c.wg.Done()",
  "c.alertsHandler()",
  "}()",
  "c.wg.Add(1)",
  "go func() {",
  "defer c.wg.Done()",
  "c.reBootstrap()",
  "}()"
]

/-- cluster.go: *Cluster ready -/
def cluster_Cluster_ready : List String := [
  "timer := time.NewTimer(timeout)",
  "select {",
  "case <-timer.C:",
  "go c.Shutdown(ctx)",
  "return",
  "case <-c.consensus.Ready(ctx):",
  "c.RecoverAllLocal(ctx)",
  "case <-c.ctx.Done():",
  "return",
  "}",
  "peers, err := c.consensus.Peers(ctx)",
  "if err != nil {",
  "go c.Shutdown(ctx)",
  "return",
  "}",
  "if len(peers) == 1 {",
  "}",
  "for _, p := range peers {",
  "if p != c.id {",
  "}",
  "}",
  "c.stateLock.Lock()",
  "c.readyB = true",
  "c.stateLock.Unlock()",
  "close(c.readyCh)"
]

/-- cluster.go: *Cluster Ready -/
def cluster_Cluster_Ready : List String := [
  "return c.readyCh"
]

/-- cluster.go: *Cluster Shutdown -/
def cluster_Cluster_Shutdown : List String := [
  "ctx = trace.NewContext(c.ctx, span)",
  "c.shutdownLock.Lock()",
  "defer c.shutdownLock.Unlock()",
  "if c.shutdownB {",
  "return nil",
  "}",
  "c.stateLock.Lock()",
  "ready, removed := c.readyB, c.removed",
  "c.stateLock.Unlock()",
  "if c.discovery != nil {",
  "c.discovery.Close()",
  "}",
  "if ready {",
  "c.peerManager.SavePeerstoreForPeers(c.host.Peerstore().Peers())",
  "}",
  "if c.consensus != nil && ready && !removed {",
  "if peers, err := c.consensus.Peers(ctx); err == nil {",
  "hasMe := false",
  "for _, p := range peers {",
  "if p == c.id {",
  "hasMe = true",
  "break",
  "}",
  "}",
  "if !hasMe {",
  "removed = true",
  "c.stateLock.Lock()",
  "c.removed = true",
  "c.stateLock.Unlock()",
  "}",
  "}",
  "}",
  "if c.consensus != nil && c.config.LeaveOnShutdown && ready && !removed {",
  "_, err := c.consensus.Peers(ctx)",
  "if err == nil {",
  "err := c.consensus.RmPeer(ctx, c.id)",
  "if err != nil {",
  "} else {",
  "removed = true",
  "c.stateLock.Lock()",
  "c.removed = true",
  "c.stateLock.Unlock()",
  "}",
  "}",
  "}",
  "if con := c.consensus; con != nil {",
  "if err := con.Shutdown(ctx); err != nil {",
  "return err",
  "}",
  "}",
  "if removed && ready {",
  "err := c.consensus.Clean(ctx)",
  "if err != nil {",
  "}",
  "}",
  "if err := c.monitor.Shutdown(ctx); err != nil {",
  "return err",
  "}",
  "for _, api := range c.apis {",
  "if err := api.Shutdown(ctx); err != nil {",
  "return err",
  "}",
  "}",
  "if err := c.ipfs.Shutdown(ctx); err != nil {",
  "return err",
  "}",
  "if err := c.tracker.Shutdown(ctx); err != nil {",
  "return err",
  "}",
  "for _, inf := range c.informers {",
  "if err := inf.Shutdown(ctx); err != nil {",
  "return err",
  "}",
  "}",
  "if err := c.tracer.Shutdown(ctx); err != nil {",
  "return err",
  "}",
  "c.cancel()",
  "c.wg.Wait()",
  "c.shutdownB = true",
  "close(c.doneCh)",
  "return nil"
]

/-- cluster.go: *Cluster Done -/
def cluster_Cluster_Done : List String := [
  "return c.doneCh"
]

/-- cluster.go: *Cluster watchPeers -/
def cluster_Cluster_watchPeers : List String := [
  "ticker := time.NewTicker(c.config.PeerWatchInterval)",
  "defer ticker.Stop()",
  "for {",
  "select {",
  "case <-c.ctx.Done():",
  "return",
  "case <-ticker.C:",
  "hasMe := false",
  "peers, err := c.consensus.Peers(c.ctx)",
  "if err != nil {",
  "continue",
  "}",
  "for _, p := range peers {",
  "if p == c.id {",
  "hasMe = true",
  "break",
  "}",
  "}",
  "if !hasMe {",
  "c.stateLock.Lock()",
  "c.removed = true",
  "c.stateLock.Unlock()",
  "go c.Shutdown(c.ctx)",
  "return",
  "}",
  "}",
  "}"
]

end CV.C18.Expected
