/-!
# C18 — the source text the synchronisation models transcribe (snapshot)

Snapshot of `Gen.Src` (harness/extract_c18, shared printer harness/skel: one entry per source line, logging / tracing statements and
string texts dropped) taken after `Model/C18SyncProgs.lean` was last read against the source. `Gen/C18.lean` is regenerated from the
source on every run and `Props/C18.lean` proves `Gen.Src.f = Expected.f` by `rfl` for every function below: an edit to the shutdown /
start-up / queueing code of the stateless tracker, the crdt consensus component or `Cluster` breaks a named obligation. Re-snapshot
only after re-reading the changed function against the model.
-/
namespace CV.C18.Expected

/-- pintracker/stateless/stateless.go:  New -/
def stateless_New : List String := [
  "ctx, cancel := context.WithCancel(context.Background())",
  "spt := &Tracker{",
  "config: cfg,",
  "peerID: pid,",
  "peerName: peerName,",
  "ctx: ctx,",
  "cancel: cancel,",
  "getState: getState,",
  "optracker: optracker.NewOperationTracker(ctx, pid, peerName),",
  "rpcReady: make(chan struct{}, 1),",
  "pinCh: make(chan *optracker.Operation, cfg.MaxPinQueueSize),",
  "unpinCh: make(chan *optracker.Operation, cfg.MaxPinQueueSize),",
  "}",
  "for i := 0; i < spt.config.ConcurrentPins; i++ {",
  "go spt.opWorker(spt.pin, spt.pinCh)",
  "}",
  "go spt.opWorker(spt.unpin, spt.unpinCh)",
  "return spt"
]

/-- pintracker/stateless/stateless.go: *Tracker opWorker -/
def stateless_Tracker_opWorker : List String := [
  "for {",
  "select {",
  "case op := <-opChan:",
  "if cont := applyPinF(pinF, op); cont {",
  "continue",
  "}",
  "spt.optracker.Clean(op.Context(), op)",
  "case <-spt.ctx.Done():",
  "return",
  "}",
  "}"
]

/-- pintracker/stateless/stateless.go: *Tracker enqueue -/
def stateless_Tracker_enqueue : List String := [
  "op := spt.optracker.TrackNewOperation(ctx, c, typ, optracker.PhaseQueued)",
  "if op == nil {",
  "return nil",
  "}",
  "var ch chan *optracker.Operation",
  "switch typ {",
  "case optracker.OperationPin:",
  "ch = spt.pinCh",
  "case optracker.OperationUnpin:",
  "ch = spt.unpinCh",
  "}",
  "select {",
  "case ch <- op:",
  "default:",
  "err := ErrFullQueue",
  "op.SetError(err)",
  "op.Cancel()",
  "return err",
  "}",
  "return nil"
]

/-- pintracker/stateless/stateless.go: *Tracker SetClient -/
def stateless_Tracker_SetClient : List String := [
  "spt.rpcClient = c",
  "spt.rpcReady <- struct{}{}"
]

/-- pintracker/stateless/stateless.go: *Tracker Shutdown -/
def stateless_Tracker_Shutdown : List String := [
  "_ = ctx",
  "spt.shutdownMu.Lock()",
  "defer spt.shutdownMu.Unlock()",
  "if spt.shutdown {",
  "return nil",
  "}",
  "spt.cancel()",
  "close(spt.rpcReady)",
  "spt.wg.Wait()",
  "spt.shutdown = true",
  "return nil"
]

/-- consensus/crdt/consensus.go:  New -/
def crdt_New : List String := [
  "err := cfg.Validate()",
  "if err != nil {",
  "return nil, err",
  "}",
  "ctx, cancel := context.WithCancel(context.Background())",
  "var blocksDatastore ds.Batching",
  "ns := ds.NewKey(cfg.DatastoreNamespace)",
  "blocksDatastore = namespace.Wrap(store, ns.ChildString(blocksNs))",
  "ipfs, err := ipfslite.New(",
  "ctx,",
  "blocksDatastore,",
  "host,",
  "dht,",
  "&ipfslite.Config{",
  "Offline: false,",
  "},",
  ")",
  "if err != nil {",
  "cancel()",
  "return nil, err",
  "}",
  "css := &Consensus{",
  "ctx: ctx,",
  "cancel: cancel,",
  "config: cfg,",
  "host: host,",
  "peerManager: pstoremgr.New(ctx, host, S),",
  "dht: dht,",
  "store: store,",
  "ipfs: ipfs,",
  "namespace: ns,",
  "pubsub: pubsub,",
  "rpcReady: make(chan struct{}, 1),",
  "readyCh: make(chan struct{}, 1),",
  "stateReady: make(chan struct{}, 1),",
  "batchItemCh: make(chan batchItem, cfg.Batching.MaxQueueSize),",
  "}",
  "go css.setup()",
  "return css, nil"
]

/-- consensus/crdt/consensus.go: *Consensus setup -/
def crdt_Consensus_setup : List String := [
  "select {",
  "case <-css.ctx.Done():",
  "return",
  "case <-css.rpcReady:",
  "}",
  "for _, p := range css.config.TrustedPeers {",
  "css.Trust(css.ctx, p)",
  "}",
  "topicName := css.config.ClusterName",
  "topicHash, err := multihash.Sum([]byte(css.config.ClusterName), multihash.MD5, -1)",
  "if err != nil {",
  "} else {",
  "topicName = topicHash.B58String()",
  "}",
  "err = css.pubsub.RegisterTopicValidator(",
  "topicName,",
  "func(ctx context.Context, _ peer.ID, msg *pubsub.Message) bool {",
  "signer := msg.GetFrom()",
  "trusted := css.IsTrustedPeer(ctx, signer)",
  "if !trusted {",
  "}",
  "return trusted",
  "},",
  ")",
  "if err != nil {",
  "}",
  "broadcaster, err := crdt.NewPubSubBroadcaster(",
  "css.ctx,",
  "css.pubsub,",
  "topicName,",
  ")",
  "if err != nil {",
  "return",
  "}",
  "opts := crdt.DefaultOptions()",
  "opts.RebroadcastInterval = css.config.RebroadcastInterval",
  "opts.DAGSyncerTimeout = 2 * time.Minute",
  "opts.Logger = logger",
  "crdt, err := crdt.New(",
  "css.store,",
  "css.namespace,",
  "css.ipfs,",
  "broadcaster,",
  "opts,",
  ")",
  "if err != nil {",
  "return",
  "}",
  "css.crdt = crdt",
  "clusterState, err := dsstate.New(",
  "css.crdt,",
  "S,",
  "dsstate.DefaultHandle(),",
  ")",
  "if err != nil {",
  "return",
  "}",
  "css.state = clusterState",
  "batchingState, err := dsstate.NewBatching(",
  "css.crdt,",
  "S,",
  "dsstate.DefaultHandle(),",
  ")",
  "if err != nil {",
  "return",
  "}",
  "css.batchingState = batchingState",
  "if css.config.TrustAll {",
  "}",
  "if css.config.batchingEnabled() {",
  "go css.batchWorker()",
  "}",
  "close(css.stateReady)",
  "css.readyCh <- struct{}{}"
]

/-- consensus/crdt/consensus.go: *Consensus Shutdown -/
def crdt_Consensus_Shutdown : List String := [
  "css.shutdownLock.Lock()",
  "defer css.shutdownLock.Unlock()",
  "if css.shutdown {",
  "return nil",
  "}",
  "css.cancel()",
  "if crdt := css.crdt; crdt != nil {",
  "crdt.Close()",
  "}",
  "if css.config.hostShutdown {",
  "css.host.Close()",
  "}",
  "css.shutdown = true",
  "close(css.rpcReady)",
  "return nil"
]

/-- consensus/crdt/consensus.go: *Consensus SetClient -/
def crdt_Consensus_SetClient : List String := [
  "css.rpcClient = c",
  "css.rpcReady <- struct{}{}"
]

/-- consensus/crdt/consensus.go: *Consensus Ready -/
def crdt_Consensus_Ready : List String := [
  "return css.readyCh"
]

/-- consensus/crdt/consensus.go: *Consensus LogPin -/
def crdt_Consensus_LogPin : List String := [
  "if css.config.batchingEnabled() {",
  "select {",
  "case css.batchItemCh <- batchItem{",
  "ctx: ctx,",
  "isPin: true,",
  "pin: pin,",
  "}:",
  "return nil",
  "default:",
  "return fmt.Errorf(S, ErrMaxQueueSizeReached)",
  "}",
  "}",
  "return css.state.Add(ctx, pin)"
]

/-- consensus/crdt/consensus.go: *Consensus LogUnpin -/
def crdt_Consensus_LogUnpin : List String := [
  "if css.config.batchingEnabled() {",
  "select {",
  "case css.batchItemCh <- batchItem{",
  "ctx: ctx,",
  "isPin: false,",
  "pin: pin,",
  "}:",
  "return nil",
  "default:",
  "return fmt.Errorf(S, ErrMaxQueueSizeReached)",
  "}",
  "}",
  "return css.state.Rm(ctx, pin.Cid)"
]

/-- consensus/crdt/consensus.go: *Consensus batchWorker -/
def crdt_Consensus_batchWorker : List String := [
  "maxSize := css.config.Batching.MaxBatchSize",
  "maxAge := css.config.Batching.MaxBatchAge",
  "batchCurSize := 0",
  "batchTimer := time.NewTimer(maxAge)",
  "if !batchTimer.Stop() {",
  "<-batchTimer.C",
  "}",
  "for {",
  "select {",
  "case <-css.ctx.Done():",
  "return",
  "case batchItem := <-css.batchItemCh:",
  "if batchCurSize == 0 {",
  "batchTimer.Reset(maxAge)",
  "}",
  "var err error",
  "if batchItem.isPin {",
  "err = css.batchingState.Add(batchItem.ctx, batchItem.pin)",
  "} else {",
  "err = css.batchingState.Rm(batchItem.ctx, batchItem.pin.Cid)",
  "}",
  "if err != nil {",
  "continue",
  "}",
  "batchCurSize++",
  "if batchCurSize < maxSize {",
  "continue",
  "}",
  "if err := css.batchingState.Commit(css.ctx); err != nil {",
  "continue",
  "}",
  "if !batchTimer.Stop() {",
  "<-batchTimer.C",
  "}",
  "batchCurSize = 0",
  "case <-batchTimer.C:",
  "if err := css.batchingState.Commit(css.ctx); err != nil {",
  "batchTimer.Reset(maxAge)",
  "continue",
  "}",
  "batchCurSize = 0",
  "}",
  "}"
]

/-- cluster.go: *Cluster run -/
def cluster_Cluster_run : List String := [
  "c.wg.Add(1)",
  "go func() {",
  "defer c.wg.Done()",
  "c.watchPinset()",
  "}()",
  "c.wg.Add(1)",
  "go func() {",
  "defer c.wg.Done()",
  "c.pushPingMetrics(c.ctx)",
  "}()",
  "c.wg.Add(len(c.informers))",
  "for _, informer := range c.informers {",
  "go func(inf Informer) {",
  "defer c.wg.Done()",
  "c.pushInformerMetrics(c.ctx, inf)",
  "}(informer)",
  "}",
  "c.wg.Add(1)",
  "go func() {",
  "defer c.wg.Done()",
  "c.watchPeers()",
  "}()",
  "c.wg.Add(1)",
  "go func() {",
  "defer c.wg.Done()",
  "c.alertsHandler()",
  "}()",
  "c.wg.Add(1)",
  "go func() {",
  "defer c.wg.Done()",
  "c.reBootstrap()",
  "}()"
]

/-- cluster.go: *Cluster ready -/
def cluster_Cluster_ready : List String := [
  "timer := time.NewTimer(timeout)",
  "select {",
  "case <-timer.C:",
  "c.Shutdown(ctx)",
  "return",
  "case <-c.consensus.Ready(ctx):",
  "c.RecoverAllLocal(ctx)",
  "case <-c.ctx.Done():",
  "return",
  "}",
  "peers, err := c.consensus.Peers(ctx)",
  "if err != nil {",
  "c.Shutdown(ctx)",
  "return",
  "}",
  "if len(peers) == 1 {",
  "}",
  "for _, p := range peers {",
  "if p != c.id {",
  "}",
  "}",
  "close(c.readyCh)",
  "c.shutdownLock.Lock()",
  "c.readyB = true",
  "c.shutdownLock.Unlock()"
]

/-- cluster.go: *Cluster Ready -/
def cluster_Cluster_Ready : List String := [
  "return c.readyCh"
]

/-- cluster.go: *Cluster Shutdown -/
def cluster_Cluster_Shutdown : List String := [
  "ctx = trace.NewContext(c.ctx, span)",
  "c.shutdownLock.Lock()",
  "defer c.shutdownLock.Unlock()",
  "if c.shutdownB {",
  "return nil",
  "}",
  "if c.discovery != nil {",
  "c.discovery.Close()",
  "}",
  "if c.readyB {",
  "c.peerManager.SavePeerstoreForPeers(c.host.Peerstore().Peers())",
  "}",
  "if c.consensus != nil && c.config.LeaveOnShutdown && c.readyB && !c.removed {",
  "_, err := c.consensus.Peers(ctx)",
  "if err == nil {",
  "err := c.consensus.RmPeer(ctx, c.id)",
  "if err != nil {",
  "} else {",
  "c.removed = true",
  "}",
  "}",
  "}",
  "if con := c.consensus; con != nil {",
  "if err := con.Shutdown(ctx); err != nil {",
  "return err",
  "}",
  "}",
  "if c.removed && c.readyB {",
  "err := c.consensus.Clean(ctx)",
  "if err != nil {",
  "}",
  "}",
  "if err := c.monitor.Shutdown(ctx); err != nil {",
  "return err",
  "}",
  "for _, api := range c.apis {",
  "if err := api.Shutdown(ctx); err != nil {",
  "return err",
  "}",
  "}",
  "if err := c.ipfs.Shutdown(ctx); err != nil {",
  "return err",
  "}",
  "if err := c.tracker.Shutdown(ctx); err != nil {",
  "return err",
  "}",
  "for _, inf := range c.informers {",
  "if err := inf.Shutdown(ctx); err != nil {",
  "return err",
  "}",
  "}",
  "if err := c.tracer.Shutdown(ctx); err != nil {",
  "return err",
  "}",
  "c.cancel()",
  "c.wg.Wait()",
  "c.shutdownB = true",
  "close(c.doneCh)",
  "return nil"
]

/-- cluster.go: *Cluster Done -/
def cluster_Cluster_Done : List String := [
  "return c.doneCh"
]

/-- cluster.go: *Cluster watchPeers -/
def cluster_Cluster_watchPeers : List String := [
  "ticker := time.NewTicker(c.config.PeerWatchInterval)",
  "defer ticker.Stop()",
  "for {",
  "select {",
  "case <-c.ctx.Done():",
  "return",
  "case <-ticker.C:",
  "hasMe := false",
  "peers, err := c.consensus.Peers(c.ctx)",
  "if err != nil {",
  "continue",
  "}",
  "for _, p := range peers {",
  "if p == c.id {",
  "hasMe = true",
  "break",
  "}",
  "}",
  "if !hasMe {",
  "c.shutdownLock.Lock()",
  "defer c.shutdownLock.Unlock()",
  "c.removed = true",
  "go c.Shutdown(c.ctx)",
  "return",
  "}",
  "}",
  "}"
]

end CV.C18.Expected
