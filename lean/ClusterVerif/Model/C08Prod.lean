/-
C08 — the producer value space.  Core Lean only.

The codec theorems of `Props/C08.lean` hold for pins whose mode is the one their depth implies
(`p.opts.mode = toPinMode p.maxDepth`), whose reference is not a pointer to `cid.Undef`, and whose type is one
of the PinType constants.  This file turns "the values the code can hold" into "the values the code builds":
`harness/extract_c08prod` lists every site of the repository's non-test code that builds or mutates a value of
a wire record type of package api (`Gen/C08Prod.lean`), and the decidable predicates below say that no such
site sets a field combination the codec theorems exclude.

A site is evaluated abstractly, on the pair (mode, depth) only:

* the shape gives the initial pair: a keyed literal starts from Go's zero values (recursive, 0) — which do NOT
  agree — and applies its fields; `PinCid` gives (recursive, -1); `PinWithOpts` gives (the options' mode, the
  depth of that mode);
* the later assignments `x.Mode = …`, `x.MaxDepth = …`, `x.PinOptions = …` are applied in source order; an
  assignment under a condition that does not enclose the construction is taken both ways (every subset);
* every final pair has to agree: `mode = ToPinMode(depth)`.

Conservative choices: a mode that comes from options is unknown; with an unknown mode a literal depth 0 never
agrees (it needs `Mode = PinModeDirect` on the same path — finding K13), a literal depth ≠ 0 agrees only where
the options' mode is known to be recursive (`modeKnownRecursive`, backed by facts the translator re-establishes
from the source on every run); a depth computed by anything else than a literal or the value's own
`Mode.ToPinDepth()` is unknown and never agrees.
-/
namespace CV.C08.Prod

/-- classified right-hand side of a field -/
inductive Val where
  | intLit (i : Int)          -- integer literal (also `api.PinDepth(<literal>)`)
  | modeConst (m : Nat)       -- api.PinModeRecursive = 0, api.PinModeDirect = 1
  | typeConst (t : Nat)       -- BadType 1, DataType 2, MetaType 4, ClusterDAGType 8, ShardType 16, AllType 30
  | nilLit
  | addrOf (s : String)       -- &ident
  | cidUndef                  -- cid.Undef, cid.Cid{}
  | addrOfCidUndef            -- &cid.Undef, &cid.Cid{}, &x with x still the zero Cid
  | depthOfMode               -- x.MaxDepth = x.Mode.ToPinDepth()   (same x on both sides)
  | modeOfDepth               -- x.Mode = x.MaxDepth.ToPinMode()    (same x on both sides)
  | modeFromString            -- PinModeFromString(..)
  | emptyLit                  -- empty slice/map literal, make(..)
  | other (src : String)
  deriving DecidableEq, Repr

inductive FieldKey where
  | mode | maxDepth | reference | type | cid | allocations | pinOptions | other
  deriving DecidableEq, Repr

/-- the record a row is about: the four that carry a PinMode, any other wire record, a variable whose type is
    not visible (`unknown`), a variable whose visible type is not a record of package api (`foreign`) -/
inductive RecK where
  | pin | pinOptions | pinPath | addParams | otherRec | unknown | foreign
  deriving DecidableEq, Repr

inductive Shape where
  | zero          -- `api.T{}`, `&api.T{}`, `var x api.T`, `new(api.T)`: a decode target or an empty reply
  | literal       -- keyed composite literal
  | pinCid        -- api.PinCid(c)
  | pinWithOpts   -- api.PinWithOpts(c, opts)
  | fieldAssign   -- `x.F = e` on a value that is not built in the same function
  | unrecognised  -- looks like a construction, fits no shape (unkeyed literal, conversion, derived type)
  deriving DecidableEq, Repr

structure FieldSet where
  name : String
  key : FieldKey
  val : Val
  /-- under an if/else/case/for body or function literal that does not enclose the construction -/
  conditional : Bool
  /-- an assignment after the construction (false: a field of the literal) -/
  afterConstruction : Bool
  /-- source text of the enclosing conditions, outermost first, joined by " && " (an else branch reads `!(c)`) -/
  guard : String
  line : Nat
  deriving Repr

structure Site where
  file : String
  func : String
  line : Nat
  /-- the record type (`rec` in the design note; `rec` cannot be a structure field name) -/
  record : String
  recK : RecK
  shape : Shape
  /-- unrecognised: why; fieldAssign: the assigned expression -/
  reason : String
  fields : List FieldSet
  deriving Repr

abbrev Loc := String × String   -- (file, function)

def Site.loc (s : Site) : Loc := (s.file, s.func)

/-! ## recognised -/

def recognised (allow : List Loc) (s : Site) : Bool := s.shape != .unrecognised || allow.contains s.loc

def noUnrecognised (tbl : List Site) (allow : List Loc) : Bool := tbl.all (recognised allow)

/-! ## mode / depth -/

def toPinDepth (m : Nat) : Int := if m == 1 then 0 else -1
def toPinMode (d : Int) : Nat := if d == 0 then 1 else 0

inductive AMode where
  | const (m : Nat)
  | opts        -- whatever the options carry (unknown)
  | ofDepth     -- ToPinMode of the current depth
  deriving DecidableEq, Repr

inductive ADepth where
  | lit (d : Int)
  | ofMode      -- ToPinDepth of the current mode
  | unknown
  deriving DecidableEq, Repr

structure St where
  mode : AMode
  depth : ADepth
  deriving DecidableEq, Repr

/-- the depth as a value that no longer follows the mode (before the mode is overwritten) -/
def St.fixDepth (s : St) : ADepth :=
  match s.depth, s.mode with
  | .ofMode, .const m => .lit (toPinDepth m)
  | .ofMode, _ => .unknown
  | d, _ => d

/-- the mode as a value that no longer follows the depth (before the depth is overwritten) -/
def St.fixMode (s : St) : AMode :=
  match s.mode, s.depth with
  | .ofDepth, .lit d => .const (toPinMode d)
  | .ofDepth, _ => .opts
  | m, _ => m

def St.setMode (s : St) (v : Val) : St :=
  { depth := s.fixDepth,
    mode := match v with
      | .modeConst m => .const m
      | .modeOfDepth => .ofDepth
      | _ => .opts }

def St.setDepth (s : St) (v : Val) : St :=
  { mode := s.fixMode,
    depth := match v with
      | .intLit d => .lit d
      | .depthOfMode => .ofMode
      | _ => .unknown }

/-- `x.PinOptions = opts`: the mode is the options' -/
def St.setOptions (s : St) : St := { depth := s.fixDepth, mode := .opts }

def step (s : St) (f : FieldSet) : St :=
  match f.key with
  | .mode => s.setMode f.val
  | .maxDepth => s.setDepth f.val
  | .pinOptions => s.setOptions
  | _ => s

def affects (f : FieldSet) : Bool := f.key == .mode || f.key == .maxDepth || f.key == .pinOptions

/-- every final state: a conditional assignment is taken both ways -/
def run (init : St) (fs : List FieldSet) : List St :=
  fs.foldl (fun sts f =>
    if affects f then (if f.conditional then sts ++ sts.map (step · f) else sts.map (step · f)) else sts) [init]

/-- `mode = ToPinMode(depth)`; `recursive`: the options' mode is known to be recursive at this site -/
def St.agrees (recursive : Bool) (s : St) : Bool :=
  match s.mode, s.depth with
  | .const m, .lit d => m == toPinMode d
  | .const m, .ofMode => decide (m ≤ 1)
  | .opts, .ofMode => true            -- PinWithOpts: depth derived from the mode (options hold PinMode 0 or 1)
  | .opts, .lit d => d != 0 && recursive
  | .ofDepth, .ofMode => false
  | .ofDepth, _ => true
  | _, .unknown => false

def initOf : Shape → Option St
  | .literal => some ⟨.const 0, .lit 0⟩        -- Go zero values: PinModeRecursive, depth 0
  | .pinCid => some ⟨.const 0, .lit (-1)⟩
  | .pinWithOpts => some ⟨.opts, .ofMode⟩
  | _ => none

/-- sites whose options are known to carry PinModeRecursive.
    adder/sharding/shard.go `shard.Flush` builds its pin from `sh.pinOptions`, which `newShard` sets from its
    parameter, which `ingestBlock` (dag_service.go:168) passes as `dgs.pinOpts`, which `New` (dag_service.go:56-59)
    stores after `opts.Mode = api.PinModeRecursive`.  Each link is re-checked from the source by the translator
    (facts `shardingForcesRecursive`, `shardOptionsFromDagService`), the theorem requires both. -/
def modeKnownRecursive : List Loc := [("adder/sharding/shard.go", "shard.Flush")]

/-- a zero value is a decode target or an empty reply: nothing may set its mode, depth, type or reference
    afterwards (functions allowed to: none) -/
def zeroAssignAllowed : List Loc := []

def zeroOK (s : Site) : Bool :=
  zeroAssignAllowed.contains s.loc ||
  s.fields.all fun f => !(f.key == .mode || f.key == .maxDepth || f.key == .pinOptions || f.key == .type || f.key == .reference)

/-- `evidence`: the translator's facts behind `modeKnownRecursive` -/
def modeDepthOK (evidence : Bool) (s : Site) : Bool :=
  if s.recK != .pin then true else
  match s.shape with
  | .zero => zeroOK s
  | .fieldAssign | .unrecognised => true     -- `fieldAssignOK`, `recognised`
  | sh =>
    match initOf sh with
    | none => false
    | some i => (run i s.fields).all (St.agrees (evidence && modeKnownRecursive.contains s.loc))

/-! ## reference -/

def hasInfix (p : List Char) : List Char → Bool
  | [] => p.isEmpty
  | c :: cs => p.isPrefixOf (c :: cs) || hasInfix p cs

/-- the guard has `<x>.Defined()` as one of its conjuncts; a guard with a negated group `!(…)` (an else branch) or
    a disjunction is not analysed and does not count -/
def guardedDefined (x : String) (guard : String) : Bool :=
  let g := guard.toList
  let c := (x ++ ".Defined()").toList
  let amp := " && ".toList
  !hasInfix "!(".toList g && !hasInfix "||".toList g &&
  (g == c || (c ++ amp).isPrefixOf g || (amp ++ c).isSuffixOf g || hasInfix (amp ++ c ++ amp) g)

/-- `&x` accepted as a reference without a `Defined()` guard, with the reason x is a defined CID there:
    * dag_service.go Finalize `&clusterDAG`: `clusterDAG := clusterDAGNodes[0].Cid()` (line 100), the CID of a node
      that `makeDAG` built;
    * dag_service.go Finalize `&dataRoot`: the parameter. adder.go:173 passes `adderRoot`, which is `cid.Undef` only
      when no file was added; then no shard exists and `flushCurrentShard` (Finalize's first statement) fails with
      "cannot flush a nil shard" before the pins are built. NOT established syntactically — a judgement;
    * api/types.go ProtoUnmarshal `&ref`: in the else branch of `ref, err := cid.Cast(..); if err != nil`
      (the decoder itself: a reference that does not parse reads back as nil). -/
def referenceKnownDefined : List (Loc × String) :=
  [(("adder/sharding/dag_service.go", "DAGService.Finalize"), "clusterDAG"),
   (("adder/sharding/dag_service.go", "DAGService.Finalize"), "dataRoot"),
   (("api/types.go", "Pin.ProtoUnmarshal"), "ref")]

def referenceValOK (loc : Loc) (f : FieldSet) : Bool :=
  match f.val with
  | .nilLit => true
  | .addrOf x => (f.conditional && guardedDefined x f.guard) || referenceKnownDefined.contains (loc, x)
  | _ => false        -- addrOfCidUndef, and anything that cannot be followed

/-- no Pin (or untyped) row sets `Reference` to a pointer that may point to cid.Undef -/
def referenceOK (s : Site) : Bool :=
  if s.recK == .pin || s.recK == .unknown then
    s.fields.all fun f => f.key != .reference || referenceValOK s.loc f
  else true

/-! ## type -/

def pinTypeConsts : List Nat := [2, 4, 8, 16]

/-- a site that builds a Pin sets `Type` only to DataType, MetaType, ClusterDAGType or ShardType -/
def typeOK (s : Site) : Bool :=
  if s.recK == .pin && s.shape != .fieldAssign then
    s.fields.all fun f => f.key != .type ||
      (match f.val with | .typeConst t => pinTypeConsts.contains t | _ => false)
  else true

/-! ## assignments to values built elsewhere -/

/-- functions that may assign Mode / MaxDepth / Type / Reference / PinOptions (or `Cid = cid.Undef`) to a Pin, or to
    a value whose type is not visible as one of PinOptions / PinPath / AddParams:
    * api/types.go `Pin.ProtoUnmarshal`: the decoder itself (its output is the subject of `proto_roundtrip`, not a
      producer); it sets Mode from the decoded MaxDepth (`pin.Mode = pin.MaxDepth.ToPinMode()`);
    * api/types.go `Pin.ProtoMarshal`: `pbPin.Reference = ref.Bytes()` assigns to the protobuf struct `pb.Pin`;
    * config/util.go `DisplayJSON`: `f.Type = hiddenFieldT` assigns to a `reflect.StructField`. -/
def fieldAssignAllowed : List Loc :=
  [("api/types.go", "Pin.ProtoUnmarshal"), ("api/types.go", "Pin.ProtoMarshal"), ("config/util.go", "DisplayJSON")]

/-- records that carry a mode but no depth: setting their Mode (or whole options) cannot break the agreement,
    the depth is derived when `PinWithOpts` builds the pin -/
def optionsOnly (k : RecK) : Bool := k == .pinOptions || k == .pinPath || k == .addParams

def fieldAssignFieldOK (allowed : Bool) (k : RecK) (f : FieldSet) : Bool :=
  match f.key with
  | .allocations | .other => true
  | .cid => f.val != .cidUndef || k == .foreign || allowed
  | .mode | .pinOptions => optionsOnly k || allowed
  | .maxDepth | .type | .reference => allowed

def fieldAssignOK (s : Site) : Bool :=
  s.shape != .fieldAssign || s.fields.all (fieldAssignFieldOK (fieldAssignAllowed.contains s.loc) s.recK)

/-! ## coverage: an extractor that finds nothing fails -/

def hasSite (tbl : List Site) (file func : String) (sh : Shape) (k : RecK) : Bool :=
  tbl.any fun s => s.shape == sh && s.recK == k && s.file == file && s.func == func

def recordNames : List String :=
  ["Pin", "PinOptions", "PinInfo", "PinInfoShort", "GlobalPinInfo", "ID", "IPFSID", "Metric", "Alert", "AddedOutput",
   "RepoGC", "IPFSRepoGC", "GlobalRepoGC", "Error", "Version", "ConnectGraph", "NodeWithMeta", "PinPath", "AddParams"]

/-- the producers that must be there: the two constructors' own bodies, the sharding adder's three pins, the
    single adder's pin, Cluster.Pin, the decoder's assignments, the REST and proxy entry points, and at least one
    site for each of the record types -/
def coverage (tbl : List Site) : Bool :=
  hasSite tbl "api/types.go" "PinCid" .literal .pin &&
  hasSite tbl "api/types.go" "PinWithOpts" .pinCid .pin &&
  hasSite tbl "api/types.go" "Pin.ProtoUnmarshal" .fieldAssign .pin &&
  hasSite tbl "api/types.go" "PinOptions.FromQuery" .fieldAssign .pinOptions &&
  hasSite tbl "adder/sharding/dag_service.go" "DAGService.Finalize" .pinWithOpts .pin &&
  hasSite tbl "adder/sharding/dag_service.go" "New" .fieldAssign .pinOptions &&
  hasSite tbl "adder/sharding/shard.go" "shard.Flush" .pinWithOpts .pin &&
  hasSite tbl "adder/single/dag_service.go" "DAGService.Finalize" .pinWithOpts .pin &&
  hasSite tbl "cluster.go" "Cluster.Pin" .pinWithOpts .pin &&
  hasSite tbl "api/rest/restapi.go" "API.parseCidOrError" .pinWithOpts .pin &&
  hasSite tbl "api/ipfsproxy/ipfsproxy.go" "Server.pinOpHandler" .literal .pinPath &&
  hasSite tbl "api/add.go" "DefaultAddParams" .literal .addParams &&
  recordNames.all fun r => tbl.any fun s => s.record == r

/-! ## everything -/

/-- the facts the translator re-establishes from the source -/
structure Facts where
  pinCidDepthMinus1 : Bool
  pinWithOptsDerivesDepth : Bool
  shardingForcesRecursive : Bool
  shardOptionsFromDagService : Bool
  recordTypesDeclared : Bool
  filesRead : Nat

def Facts.constructors (f : Facts) : Bool := f.pinCidDepthMinus1 && f.pinWithOptsDerivesDepth
def Facts.recursive (f : Facts) : Bool := f.shardingForcesRecursive && f.shardOptionsFromDagService
def Facts.read (f : Facts) : Bool := f.recordTypesDeclared && decide (50 ≤ f.filesRead)

/-- no allow-list for unrecognised rows: there is none in the repository -/
def unrecognisedAllowed : List Loc := []

def siteOK (f : Facts) (s : Site) : Bool :=
  recognised unrecognisedAllowed s && modeDepthOK f.recursive s && referenceOK s && typeOK s && fieldAssignOK s

def allOK (f : Facts) (tbl : List Site) : Bool :=
  f.constructors && f.read && tbl.all (siteOK f) && coverage tbl

end CV.C08.Prod
