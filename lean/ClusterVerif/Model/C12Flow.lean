/-
C12 — handlers as INTERPRETED decision structures (round 8b).

`harness/extract_c12/flow.go` translates the bodies of pinOpHandler, pinLsHandler, pinUpdateHandler, addHandler,
repoStatHandler and repoGCHandler (go/ast) into flat lists of guarded steps (`Gen.C12.*Flow`): argument checks, RPC
calls with their error arm (status, number of error responses, X-Stream-Error, `return`), assignments to request
structures, response writes. This file gives them an executable meaning:

  `interp v f k steps : List Ev`
     v : valuation of the guard atoms (the `if`/`else`/`range` conditions of the source),
     f : which step (by position) fails (ParsePath / cid.Decode / MultipartReader / AddParamsFromQuery reject,
         the RPC answers an error, the adder fails),
     result: the observable events in order — status lines written, RPCs issued with their outcome, X-Stream-Error.

A dropped `return`, an arm that answers 2xx, an ignored error, a swapped / added / removed RPC or a changed argument
expression changes the regenerated structure, hence `interp`, hence the theorems of Props/C12.lean that are stated
over `Gen.C12.*Flow` (not over a snapshot). Core Lean only; the structures only carry numbers (`Gen.C12.flowSyms` is
the symbol table), so the kernel can evaluate them.
-/
import ClusterVerif.Model.C12
namespace CV.C12
open CV.Gen.C12 (Step StepKind Arm)

inductive Ev
  | resp (code : Nat)                      -- a status line (ipfsErrorResponder / w.WriteHeader)
  | op (svc method arg : Nat) (ok : Bool)  -- rpcClient.Call / CallContext and its outcome
  | multi (svc method : Nat)               -- rpcClient.MultiCall (per-peer outcomes are handled by the loop that follows)
  | adder (ok : Bool)                      -- AddMultipartHTTPHandler: adds, pins the root, writes the answer (or the error) itself
  | serr                                   -- X-Stream-Error set
  | set (lhs rhs : Nat)                    -- x.F = e / x.F += e / m[k] = e
deriving DecidableEq, Repr

def guardHolds (v : Nat → Bool) (g : List (Nat × Bool)) : Bool := g.all (fun a => v a.1 == a.2)

/-- what an error arm writes -/
def armEvs : Option Arm → List Ev
  | none => []
  | some a => (if a.serr then [Ev.serr] else []) ++ List.replicate a.writes (Ev.resp a.code)

def armReturns : Option Arm → Bool
  | none => false
  | some a => a.returns

/-- after a failed step: the arm's writes, then the rest of the handler unless the arm returns
    (no arm = the error is ignored: the handler just goes on) -/
def failTail (a : Option Arm) (next : List Ev) : List Ev := armEvs a ++ (if armReturns a then [] else next)

def stepEvs (s : Step) (failed : Bool) (next : List Ev) : List Ev :=
  match s.kind with
  | .check _ _ => if failed then failTail s.arm next else next
  | .rpc a b c => if failed then Ev.op a b c false :: failTail s.arm next else Ev.op a b c true :: next
  | .adder => if failed then Ev.adder false :: failTail s.arm next else Ev.adder true :: next
  | .multi a b => Ev.multi a b :: next
  | .assign l r => Ev.set l r :: next
  | .respondErr c => Ev.resp c :: next
  | .respond c => Ev.resp c :: next
  | .serr => Ev.serr :: next
  | .ret => []
  | _ => next

/-- run the steps; `k` = position of the first one -/
def interp (v : Nat → Bool) (f : Nat → Bool) : Nat → List Step → List Ev
  | _, [] => []
  | k, s :: rest =>
    if guardHolds v s.guard then stepEvs s (f k) (interp v f (k + 1) rest) else interp v f (k + 1) rest

/-! ## predicates on event lists -/

def isErr (c : Nat) : Bool := decide (400 ≤ c)

def isOp : Ev → Bool
  | .op _ _ _ _ => true
  | .multi _ _ => true
  | .adder _ => true
  | _ => false

/-- an error was detected / answered: an error status, a failed RPC, a failed add -/
def isErrEv : Ev → Bool
  | .resp c => isErr c
  | .op _ _ _ ok => !ok
  | .adder ok => !ok
  | _ => false

/-- once an error was detected or answered, no RPC / add is issued any more -/
def quietAfterError : List Ev → Bool
  | [] => true
  | e :: rest => (!isErrEv e || !rest.any isOp) && quietAfterError rest

/-- an error status is the last thing the handler does -/
def errFinal : List Ev → Bool
  | [] => true
  | .resp c :: rest => if isErr c then rest.isEmpty else errFinal rest
  | _ :: rest => errFinal rest

def isResp : Ev → Bool
  | .resp _ => true
  | .adder _ => true
  | _ => false

/-- number of answers written (the adder writes its own) -/
def respCount (l : List Ev) : Nat := (l.filter isResp).length

def anyFailed (l : List Ev) : Bool := l.any isErrEv

/-- the status the client sees: the first status line; none written = 200 (implicit) -/
def statusOf : List Ev → Nat
  | [] => 200
  | .resp c :: _ => c
  | _ :: rest => statusOf rest

def opOks : List Ev → List Bool
  | [] => []
  | .op _ _ _ ok :: rest => ok :: opOks rest
  | _ :: rest => opOks rest

/-- the RPCs issued: (service, method, argument expression) -/
def opsOf : List Ev → List (Nat × Nat × Nat)
  | [] => []
  | .op a b c _ :: rest => (a, b, c) :: opsOf rest
  | _ :: rest => opsOf rest

def absEv (l : List Ev) : Nat × List Bool := (statusOf l, opOks l)
def HOut.abs (h : HOut) : Nat × List Bool := (h.status, h.rpcs.map (·.ok))

/-! ## well-formed flows -/

/-- an error arm returns, answers at most once and with an error status -/
def armOK : Option Arm → Bool
  | some a => a.returns && decide (a.writes ≤ 1) && (a.writes == 0 || isErr a.code)
  | none => false

def isRet (k : StepKind) : Bool := match k with | .ret => true | _ => false

def stepOK (s : Step) (next : Option Step) : Bool :=
  match s.kind with
  | .check _ _ => armOK s.arm
  | .rpc _ _ _ => armOK s.arm
  | .adder => armOK s.arm
  | .respondErr c => isErr c && (match next with | some n => isRet n.kind && n.guard == s.guard | none => false)
  | .respond c => !isErr c
  | .unknown _ => false
  | _ => true

def wfFlow : List Step → Bool
  | [] => true
  | s :: rest => stepOK s rest.head? && wfFlow rest

/-! ## finite tables: `interp` only looks at the atoms of the guards and at the failable positions -/

def failable (s : Step) : Bool :=
  match s.kind with
  | .check _ _ => true
  | .rpc _ _ _ => true
  | .adder => true
  | _ => false

def failIdx : Nat → List Step → List Nat
  | _, [] => []
  | k, s :: rest => if failable s then k :: failIdx (k + 1) rest else failIdx (k + 1) rest

def dedupNat : List Nat → List Nat
  | [] => []
  | a :: l => if (dedupNat l).contains a then dedupNat l else a :: dedupNat l

def atomsOf (steps : List Step) : List Nat := dedupNat (steps.flatMap (fun s => s.guard.map (·.1)))

def subsets : List Nat → List (List Nat)
  | [] => [[]]
  | a :: l => (subsets l).map (a :: ·) ++ subsets l

def memOf (T : List Nat) (a : Nat) : Bool := T.contains a

/-- `P` on the events of every valuation of the atoms and every failure pattern (finite: decidable) -/
def flowAll (P : List Ev → Bool) (steps : List Step) : Bool :=
  (subsets (atomsOf steps)).all fun T => (subsets (failIdx 0 steps)).all fun F => P (interp (memOf T) (memOf F) 0 steps)

/-- like `flowAll`, `P` also sees the valuation -/
def flowAllV (P : (Nat → Bool) → List Ev → Bool) (steps : List Step) : Bool :=
  (subsets (atomsOf steps)).all fun T => (subsets (failIdx 0 steps)).all fun F => P (memOf T) (interp (memOf T) (memOf F) 0 steps)

/-- the six regenerated handler structures -/
def allFlows : List (List Step) :=
  [Gen.C12.pinOpHandlerFlow, Gen.C12.pinLsHandlerFlow, Gen.C12.pinUpdateHandlerFlow, Gen.C12.addHandlerFlow,
   Gen.C12.repoStatHandlerFlow, Gen.C12.repoGCHandlerFlow]

/-- methods (symbol numbers) of the mutating cluster RPCs: `$op` (PinPath / UnpinPath), PinPath, Unpin, RepoGC -/
def mutMethods : List Nat := [5, 27, 30, 57]

/-- the cluster operations that were performed: successful mutating RPCs, a successful add -/
def okMut (evs : List Ev) : List Ev :=
  evs.filter (fun e => match e with
    | .op _ m _ true => mutMethods.contains m
    | .adder true => true
    | _ => false)

/-- the client is told about an error: error status, X-Stream-Error, or the adder signalled its own failure -/
def errored (evs : List Ev) : Bool := isErr (statusOf evs) || evs.contains .serr || evs.contains (.adder false)

/-- FULL strength of "an error answer means no cluster operation" on an event list -/
def errNoOp (evs : List Ev) : Bool := !errored evs || (okMut evs).isEmpty

/-- realistic wrong edits, as transformations of a flow -/
def editArm (i : Nat) (g : Arm → Option Arm) (steps : List Step) : List Step :=
  steps.mapIdx (fun j s => if j == i then { s with arm := s.arm.bind g } else s)

/-! ## repo/stat aggregation (the loop after MultiCall, read per peer) -/

/-- what the handler adds up: one entry per peer, `none` = that peer's RepoStat call failed -/
def statTotal : List (Option (Nat × Nat)) → Nat × Nat
  | [] => (0, 0)
  | none :: rest => statTotal rest
  | some (a, b) :: rest => (a + (statTotal rest).1, b + (statTotal rest).2)

/-! ## frozen expectation of the regenerated flows (re-snapshot only after re-reading the handlers) -/
namespace Expected

def pinOpHandlerFlow : List Step := [
  { guard := [], kind := .setHeaders, arm := none },
  { guard := [], kind := .check 0 1, arm := some { code := 500, writes := 1, returns := true, serr := false } },
  { guard := [], kind := .assign 2 3, arm := none },
  { guard := [], kind := .rpc 4 5 6, arm := some { code := 500, writes := 1, returns := true, serr := false } },
  { guard := [], kind := .respond 200, arm := none },
  { guard := [], kind := .write, arm := none }]

def pinLsHandlerFlow : List Step := [
  { guard := [], kind := .setHeaders, arm := none },
  { guard := [], kind := .assign 7 8, arm := none },
  { guard := [(9, true)], kind := .check 10 1, arm := some { code := 500, writes := 1, returns := true, serr := false } },
  { guard := [(9, true)], kind := .rpc 4 11 12, arm := some { code := 500, writes := 1, returns := true, serr := false } },
  { guard := [(9, true)], kind := .assign 13 14, arm := none },
  { guard := [(9, false)], kind := .rpc 4 15 16, arm := some { code := 500, writes := 1, returns := true, serr := false } },
  { guard := [(9, false), (17, true)], kind := .assign 13 14, arm := none },
  { guard := [], kind := .respond 200, arm := none },
  { guard := [], kind := .write, arm := none }]

def pinUpdateHandlerFlow : List Step := [
  { guard := [], kind := .setHeaders, arm := none },
  { guard := [(18, true)], kind := .respondErr 400, arm := none },
  { guard := [(18, true)], kind := .ret, arm := none },
  { guard := [(19, true)], kind := .respondErr 400, arm := none },
  { guard := [(19, true)], kind := .ret, arm := none },
  { guard := [], kind := .check 0 20, arm := some { code := 500, writes := 1, returns := true, serr := false } },
  { guard := [], kind := .check 0 21, arm := some { code := 500, writes := 1, returns := true, serr := false } },
  { guard := [], kind := .rpc 22 23 24, arm := some { code := 500, writes := 1, returns := true, serr := false } },
  { guard := [], kind := .assign 25 26, arm := none },
  { guard := [], kind := .rpc 4 27 28, arm := some { code := 500, writes := 1, returns := true, serr := false } },
  { guard := [(29, true)], kind := .rpc 4 30 31, arm := some { code := 500, writes := 1, returns := true, serr := false } },
  { guard := [], kind := .respond 200, arm := none },
  { guard := [], kind := .write, arm := none }]

def addHandlerFlow : List Step := [
  { guard := [], kind := .setHeaders, arm := none },
  { guard := [], kind := .check 32 33, arm := some { code := 500, writes := 1, returns := true, serr := false } },
  { guard := [(34, true)], kind := .respondErr 500, arm := none },
  { guard := [(34, true)], kind := .ret, arm := none },
  { guard := [], kind := .check 35 36, arm := some { code := 500, writes := 1, returns := true, serr := false } },
  { guard := [(37, true)], kind := .assign 38 39, arm := none },
  { guard := [], kind := .adder, arm := some { code := 0, writes := 0, returns := true, serr := false } },
  { guard := [(40, true)], kind := .ret, arm := none },
  { guard := [], kind := .rpc 4 30 41, arm := some { code := 0, writes := 0, returns := true, serr := true } }]

def repoStatHandlerFlow : List Step := [
  { guard := [], kind := .setHeaders, arm := none },
  { guard := [], kind := .rpc 42 43 16, arm := some { code := 500, writes := 1, returns := true, serr := false } },
  { guard := [(44, true)], kind := .assign 45 46, arm := none },
  { guard := [(44, true)], kind := .assign 47 48, arm := none },
  { guard := [], kind := .multi 22 49, arm := none },
  { guard := [(50, true), (51, true), (52, true)], kind := .cont, arm := none },
  { guard := [(50, true), (51, true), (52, false)], kind := .cont, arm := none },
  { guard := [(50, true), (51, false)], kind := .assign 53 54, arm := none },
  { guard := [(50, true), (51, false)], kind := .assign 55 56, arm := none },
  { guard := [], kind := .respond 200, arm := none },
  { guard := [], kind := .write, arm := none }]

def repoGCHandlerFlow : List Step := [
  { guard := [], kind := .setHeaders, arm := none },
  { guard := [], kind := .trailer, arm := none },
  { guard := [], kind := .rpc 4 57 16, arm := some { code := 500, writes := 1, returns := true, serr := false } },
  { guard := [], kind := .respond 200, arm := none },
  { guard := [(58, true), (59, true), (60, true)], kind := .emit, arm := some { code := 0, writes := 0, returns := false, serr := false } },
  { guard := [(58, true), (61, true)], kind := .emit, arm := some { code := 0, writes := 0, returns := false, serr := false } },
  { guard := [(63, true)], kind := .serr, arm := none }]

/-- symbol table of the flows: guard atoms, function / service / method names, argument and assigned expressions
    (single-assignment locals substituted) -/
def flowSyms : List String := [
  "path.ParsePath",
  "r.URL.Query().Get(\"arg\")",
  "pinPath.Mode =",
  "api.PinModeFromString(r.URL.Query().Get(\"type\"))",
  "Cluster",
  "$op",
  "&api.PinPath{Path: p.String()}",
  "pinLs.Keys =",
  "make(map[string]ipfsPinType)",
  "r.URL.Query().Get(\"arg\") != \"\"",
  "cid.Decode",
  "PinGet",
  "c",
  "pinLs.Keys[pin.Cid.String()] =",
  "ipfsPinType{Type: \"recursive\"}",
  "Pins",
  "struct{}{}",
  "range pins",
  "len(r.URL.Query()[\"arg\"]) == 0",
  "len(r.URL.Query()[\"arg\"]) == 1",
  "r.URL.Query()[\"arg\"][0]",
  "r.URL.Query()[\"arg\"][1]",
  "IPFSConnector",
  "Resolve",
  "pFrom.String()",
  "pinPath.PinUpdate =",
  "fromCid",
  "PinPath",
  "&api.PinPath{Path: pTo.String()}",
  "!(r.URL.Query().Get(\"unpin\") == \"false\")",
  "Unpin",
  "api.PinCid(fromCid)",
  "r.MultipartReader",
  "",
  "r.URL.Query().Get(\"only-hash\") == \"true\"",
  "api.AddParamsFromQuery",
  "r.URL.Query()",
  "r.URL.Query().Get(\"trickle\") == \"true\"",
  "params.Layout =",
  "\"trickle\"",
  "!(r.URL.Query().Get(\"pin\") == \"false\")",
  "api.PinCid(root)",
  "Consensus",
  "Peers",
  "range repoStats",
  "repoStats[i] =",
  "&api.IPFSRepoStat{}",
  "repoStatsIfaces[i] =",
  "repoStats[i]",
  "RepoStat",
  "range errs",
  "err != nil",
  "rpc.IsAuthorizationError(err)",
  "totalStats.RepoSize +=",
  "repoStats[i].RepoSize",
  "totalStats.StorageMax +=",
  "repoStats[i].StorageMax",
  "RepoGC",
  "range repoGC.PeerMap",
  "gc.Error != \"\"",
  "(r.URL.Query().Get(\"stream-errors\") == \"true\")",
  "range gc.Keys",
  "key.Error != \"\"",
  "!(r.URL.Query().Get(\"stream-errors\") == \"true\") && multiError{}.Error() != \"\""]


end Expected

end CV.C12
