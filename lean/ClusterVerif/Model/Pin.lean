/-
Shared model of `api.Pin` / `api.PinOptions` and of the pinset (state) as a
cid-sorted association list. Core Lean only.

CIDs, peers, names, metadata keys/values and origins are natural numbers
(the harness keeps the integer ↔ real value tables). Times are abstract:
zero, the unix epoch, one instant in the past, instants in the future.
-/
namespace CV

inductive PinType where
  | dataT | metaT | clusterDagT | shardT | badT
  deriving DecidableEq, Repr

inductive Mode where
  | recursive | direct
  deriving DecidableEq, Repr

inductive Expiry where
  | zero | unixZero | past | future (k : Nat)
  deriving DecidableEq, Repr

/-- `!t.IsZero() && t.Before(now)` -/
def Expiry.beforeNow : Expiry → Bool
  | .unixZero => true
  | .past => true
  | _ => false

/-- `!t.IsZero() && t.After(now)` -/
def Expiry.afterNow : Expiry → Bool
  | .future _ => true
  | _ => false

structure Opts where
  rmin : Int
  rmax : Int
  name : Nat                 -- 0 = ""
  mode : Mode
  shard : Nat
  expire : Expiry
  metadata : List (Nat × Nat)    -- key 0 = "", value 0 = ""
  update : Option Nat
  origins : List Nat
  ualloc : List Nat          -- user allocations (transient: never stored)
  deriving DecidableEq, Repr

structure Pin where
  cid : Nat
  type : PinType
  opts : Opts
  depth : Int
  allocs : List Nat
  ref : Option Nat
  deriving DecidableEq, Repr

/-- `PinDepth.ToPinMode` -/
def depthToMode (d : Int) : Mode := if d == 0 then .direct else .recursive
/-- `PinMode.ToPinDepth` -/
def modeToDepth : Mode → Int
  | .recursive => -1
  | .direct => 0

/-- `api.PinWithOpts(c, opts)` -/
def pinWithOpts (c : Nat) (o : Opts) : Pin :=
  { cid := c, type := .dataT, opts := o, depth := modeToDepth o.mode, allocs := [], ref := none }

/-- `api.PinCid(c)` -/
def pinCid (c : Nat) : Pin :=
  { cid := c, type := .dataT, depth := -1, allocs := [], ref := none,
    opts := { rmin := 0, rmax := 0, name := 0, mode := .recursive, shard := 0, expire := .zero,
              metadata := [], update := none, origins := [], ualloc := [] } }

def insertMeta (kv : Nat × Nat) : List (Nat × Nat) → List (Nat × Nat)
  | [] => [kv]
  | x :: xs => if kv.1 < x.1 then kv :: x :: xs else if kv.1 == x.1 then kv :: xs else x :: insertMeta kv xs

/-- metadata as a canonical (key-sorted) association list -/
def normMeta (m : List (Nat × Nat)) : List (Nat × Nat) := m.foldr insertMeta []

/-- What the state holds after `ProtoMarshal`/`ProtoUnmarshal`: user allocations
    dropped, mode re-derived from the depth, unix-zero expiry stored as zero. -/
def Pin.stored (p : Pin) : Pin :=
  { p with opts := { p.opts with ualloc := [], mode := depthToMode p.depth,
                                 expire := if p.opts.expire == .unixZero then .zero else p.opts.expire } }

/-! ### the pinset -/
abbrev PinMap := List Pin

def PinMap.get (m : PinMap) (c : Nat) : Option Pin := m.find? (fun p => p.cid == c)

def PinMap.erase (m : PinMap) (c : Nat) : PinMap := m.filter (fun p => p.cid != c)

/-- insert-or-replace keeping the list sorted by cid -/
def PinMap.put (p : Pin) : PinMap → PinMap
  | [] => [p]
  | x :: xs => if p.cid < x.cid then p :: x :: xs else if p.cid == x.cid then p :: xs else x :: PinMap.put p xs

def PinMap.keys (m : PinMap) : List Nat := m.map (·.cid)

/-- strictly increasing cids: sorted and one entry per cid -/
def sortedKeys : List Nat → Bool
  | [] => true
  | [_] => true
  | a :: b :: t => decide (a < b) && sortedKeys (b :: t)

def PinMap.wf (m : PinMap) : Bool := sortedKeys m.keys

/-- a pin as the state holds it: a fixed point of `stored`, metadata a map (one value per key) -/
def Pin.wfStored (p : Pin) : Bool := p.stored == p && decide (p.opts.metadata.map (·.1)).Nodup

/-- a well-formed pinset: one entry per cid (sorted), every entry in stored form -/
def PinMap.wfState (m : PinMap) : Bool := m.wf && m.all Pin.wfStored

end CV
