import ClusterVerif.Model.C13
import ClusterVerif.Gen.C13Flow
/-!
C13 — the single DAG service *interpreted from its source* and the front of `Adder.FromFiles`
(core Lean only).

`harness/extract_c13flow` reads `New`, `(*DAGService).Add` and `Finalize` of
adder/single/dag_service.go into a `SingleFlow` (lists of recognised statements, anything else
`.other`). `addF` / `finF` below execute such a program against the scripted cluster side of
`Model/C13.lean` (`allocate`, `putRound`, `pinCall`): the order of the statements decides what is
pinned (e.g. `dgs.dests = nil` before `rootPin.Allocations = dgs.dests` pins without allocations;
no `dgs.dests = dests` allocates again at every block). An unrecognised statement makes the
interpreted call answer `Status.panic` (fail-closed: no theorem about successful adds applies).
`Props/C13.lean` proves that the program read from the source behaves as `singleAdd` /
`singleFinalize` (so every theorem about `runSingle` is a theorem about that program) and refutes
the property for the reordered programs.

`fromFiles` is `(*Adder).FromFiles` (adder/adder.go) over abstract entries: format selection,
construction errors, wrap, the entry loop with the cancellation test, the CAR `break`, the iterator
error and `Finalize`; the statement order it was written for is `fromFilesCode`, compared with the
regenerated `Gen.fromFiles`.
-/
namespace CV.C13.Flow
open CV CV.C13

/-- the program `singleAdd` / `singleFinalize` / `workOpts` were written for -/
def code : SingleFlow :=
  { newOps := [.forceRecursive, .retNew], guard := .destsNil,
    guarded := [.allocate, .retIfErr, .storeDests, .ifLocal .localOnly .dests],
    tail := [.retPut], finOps := [.mkPin, .allocsFromDests, .resetDests, .retPin] }

/-- `New`: the options the service keeps (`none`: no recognised return) -/
def newOpts : List SOp → Opts → Option Opts
  | [], _ => none
  | .forceRecursive :: r, o => newOpts r { o with mode := .recursive }
  | .retNew :: _, o => some o
  | _ :: _, _ => none

/-- the locals of one `Add` call -/
structure AddSt where
  s : SSt
  dests : Option (List Nat)    -- the local `dests` (nil before the allocation and when it failed)
  err : Bool
  ret : Option Status

def evalBA (d : Option (List Nat)) : BA → Option (List Nat)
  | .localOnly => some [0]
  | .dests => some (d.getD [])
  | .other => none

def guardedStep (c : Cfg) (a : AddSt) (op : SOp) : AddSt :=
  match a.ret with
  | some _ => a
  | none =>
    match op with
    | .allocate =>
      match allocate c a.s.env with
      | (e, none) => { a with s := { a.s with env := e }, dests := none, err := true }
      | (e, some d) => { a with s := { a.s with env := e }, dests := some d, err := false }
    | .retIfErr => if a.err then { a with ret := some .fail } else a
    | .storeDests => { a with s := { a.s with dests := a.dests } }
    | .ifLocal t e =>
      match evalBA a.dests (if c.local then t else e) with
      | some ba => { a with s := { a.s with ba := ba } }
      | none => { a with ret := some .panic }
    | _ => { a with ret := some .panic }

def tailRun (c : Cfg) (s : SSt) (b : Blk) : List SOp → SSt × Status
  | [.retPut] => singlePut c s b
  | _ => (s, .panic)

/-- `(*DAGService).Add` as the program says -/
def addF (f : SingleFlow) (c : Cfg) (s : SSt) (b : Blk) : SSt × Status :=
  match f.guard with
  | .other => (s, .panic)
  | .destsNil =>
    match s.dests with
    | some _ => tailRun c s b f.tail
    | none =>
      let a := f.guarded.foldl (guardedStep c) ⟨s, none, false, none⟩
      match a.ret with
      | some st => (a.s, st)
      | none => tailRun c a.s b f.tail

structure FinSt where
  s : SSt
  draft : Option Pin
  ret : Option Status

def finStep (f : SingleFlow) (c : Cfg) (root : Nat) (a : FinSt) (op : SOp) : FinSt :=
  match a.ret with
  | some _ => a
  | none =>
    match op with
    | .mkPin =>
      match newOpts f.newOps c.opts with
      | some o => { a with draft := some (pinWithOpts root o) }
      | none => { a with ret := some .panic }
    | .allocsFromDests =>
      match a.draft with
      | some p => { a with draft := some { p with allocs := a.s.dests.getD [] } }
      | none => { a with ret := some .panic }
    | .resetDests => { a with s := { a.s with dests := none } }
    | .retPin =>
      match a.draft with
      | some p =>
        match pinCall c a.s.env p with
        | (e, true) => { a with s := { a.s with env := e }, ret := some .ok }
        | (e, false) => { a with s := { a.s with env := e }, ret := some .fail }
      | none => { a with ret := some .panic }
    | _ => { a with ret := some .panic }

/-- `Finalize` as the program says -/
def finF (f : SingleFlow) (c : Cfg) (s : SSt) (root : Nat) : SSt × Status :=
  let a := f.finOps.foldl (finStep f c root) ⟨s, none, none⟩
  match a.ret with
  | some st => (a.s, st)
  | none => (a.s, .panic)

def addAllG (add : SSt → Blk → SSt × Status) : SSt → List Blk → Nat → List Nat → SSt × List Nat
  | s, [], _, failed => (s, failed)
  | s, b :: bs, i, failed =>
    match add s b with
    | (s1, .ok) => addAllG add s1 bs (i + 1) failed
    | (s1, _) => addAllG add s1 bs (i + 1) (failed ++ [i])

/-- a whole not-sharded add with the interpreted service -/
def runSingleF (f : SingleFlow) (c : Cfg) (stream : List Blk) (fin : Option Nat) : Out :=
  match addAllG (addF f c) SSt.init stream 0 [] with
  | (s, failed) =>
    match fin with
    | none => { status := .fail, failed := failed, finalized := false, root := 0, log := s.env.log.reverse, nodes := deliveredNodes s.env,
                pins := s.env.pins, shards := [], cdag := none, sentAll := sentOf c s.dests }
    | some r =>
      match finF f c s r with
      | (s1, st) => { status := st, failed := failed, finalized := true, root := r, log := s1.env.log.reverse, nodes := deliveredNodes s1.env,
                      pins := s1.env.pins, shards := [], cdag := none, sentAll := sentOf c s.dests }

/-! ### programs a plausible edit of dag_service.go would give -/

/-- `dgs.dests = nil` moved above `rootPin.Allocations = dgs.dests` -/
def resetFirst : SingleFlow := { code with finOps := [.mkPin, .resetDests, .allocsFromDests, .retPin] }
/-- `rootPin.Allocations = dgs.dests` dropped -/
def noAllocs : SingleFlow := { code with finOps := [.mkPin, .resetDests, .retPin] }
/-- `New` no longer forces recursive mode -/
def noForce : SingleFlow := { code with newOps := [.retNew] }
/-- `dgs.dests = dests` dropped: a fresh allocation (and BlockAdder) for every block -/
def noStore : SingleFlow := { code with guarded := [.allocate, .retIfErr, .ifLocal .localOnly .dests] }
/-! ### `(*Adder).FromFiles` -/

inductive Format where
  | unixfs | car | bad
  deriving DecidableEq, Repr

/-- what `FromFiles` is given: the `format` parameter, `wrap`, whether building the importer is refused
    (bad CID version, unknown hash function, CIDv0 with another hash than sha2-256), per top-level
    entry the outcome of `dagFmtr.Add` (its root, or an error), whether the context is cancelled
    before the k-th entry, whether the entry iterator ends with an error (broken multipart body). -/
structure FIn where
  format : Format
  wrap : Bool
  refused : Bool
  entries : List (Option Nat)
  wrapOutcome : Option Nat
  cancelBefore : Option Nat
  itErr : Bool
  deriving Repr

/-- what it does: the entries handed to the formatter, and the root `Finalize` is called with (if it is) -/
structure FOut where
  added : List Nat             -- indices of the entries whose `Add` was called
  finalize : Option Nat        -- `Finalize(a.ctx, adderRoot)`: the root of the last entry added (0 = cid.Undef)
  deriving DecidableEq, Repr

/-- the entry loop: `i` = index of the next entry, `root` = `adderRoot` so far -/
def loop (i : FIn) : List (Option Nat) → Nat → Nat → List Nat → FOut
  | [], _, root, added => if i.itErr then ⟨added, none⟩ else ⟨added, some root⟩
  | e :: es, k, root, added =>
    if i.cancelBefore == some k then ⟨added, none⟩
    else
      match e with
      | none => ⟨added ++ [k], none⟩
      | some r =>
        if i.format == .car then ⟨added ++ [k], some r⟩   -- `break`: only the first CAR entry
        else loop i es (k + 1) r (added ++ [k])

/-- `FromFiles`. With `wrap` the formatter sees ONE entry, the directory that holds the input (its `Add` has the
    outcome `wrapOutcome`; `carAdder.Add` refuses a wrapped upload); the slice iterator never fails. -/
def fromFiles (i : FIn) : FOut :=
  if i.format == .bad || i.refused then ⟨[], none⟩
  else if i.wrap then loop { i with itErr := false } [if i.format == .car then none else i.wrapOutcome] 0 0 []
  else loop i i.entries 0 0 []

/-- the statement order of `FromFiles` this model was written for -/
def fromFilesCode : List FOp :=
  [.setContext, .ifCtxErr, .retCtxErr, .endIf, .deferCancel, .deferCloseOutput, .declFormatter, .declErr,
   .switchFormat, .labelUnixfs, .newIpfsAdder, .labelCar, .newCarAdder, .labelDefault, .errBadFormat, .endSwitch,
   .ifErr, .retErr, .endIf, .ifWrap, .wrapInDir, .endIf, .entries, .declRoot,
   .forEntries, .selectOpen, .caseCtxDone, .retCtxErr, .caseDefault, .addEntry, .ifErr, .retErr, .endIf, .endSelect,
   .ifCar, .breakLoop, .endIf, .endFor, .ifItErr, .retItErr, .endIf, .finalize, .ifErr, .retErr, .endIf, .retRoot]

/-- the statement order of shard.go the sharding model was written for: `AddLink` numbers the link by the
    links so far and adds the block's size to the shard's size; `Flush` builds the node(s), stores them, then
    pins (name, the shard's allocations, shard type, reference iff a previous shard exists, ShardSize = Size()) -/
def shardAddLinkCode : List ShOp := [.linkIndexIsLen, .linkNameDecimal, .storeLink, .sizePlusBlock]
def shardFlushCode : List ShOp :=
  [.makeDAG, .retIfErr, .putNodes, .retIfErr, .rootIsFirstNode, .mkPin, .pinName, .pinAllocsShard, .pinTypeShard,
   .ifPrevDefined, .pinRefPrev, .endIf, .depthLit, .pinShardSizeIsSize, .ifDepthGuard, .depthLit, .endIf, .retPin]

/-! ### shard.go interpreted (`AddLink`, `Size`, `Limit`, `Flush` as the regenerated operation lists say) -/

/-- the shard object: `dagNode` (link name → CID in insertion order; a name is the decimal of a number and is kept
    as that number), `currentSize`, `sizeLimit` -/
structure ShObj where
  dagNode : List (Nat × Nat)
  currentSize : Nat
  sizeLimit : Nat
  deriving DecidableEq, Repr

/-- `m[k] = v` -/
def mapSet (m : List (Nat × Nat)) (k v : Nat) : List (Nat × Nat) :=
  if m.any (fun x => x.1 == k) then m.map (fun x => if x.1 == k then (k, v) else x) else m ++ [(k, v)]

/-- the locals of one `AddLink` call -/
structure ALSt where
  o : ShObj
  linkN : Option Nat
  linkName : Option Nat
  bad : Bool

def alStep (b : Blk) (a : ALSt) (op : ShOp) : ALSt :=
  match op with
  | .linkIndexIsLen => { a with linkN := some a.o.dagNode.length }
  | .linkNameDecimal =>
    match a.linkN with
    | some n => { a with linkName := some n }
    | none => { a with bad := true }
  | .storeLink =>
    match a.linkName with
    | some n => { a with o := { a.o with dagNode := mapSet a.o.dagNode n b.id } }
    | none => { a with bad := true }
  | .sizePlusBlock => { a with o := { a.o with currentSize := a.o.currentSize + b.size } }
  | _ => { a with bad := true }

/-- `(*shard).AddLink` as the program says (`none`: a statement that is not recognised, or a local used before it is set) -/
def addLinkF (ops : List ShOp) (o : ShObj) (b : Blk) : Option ShObj :=
  let a := ops.foldl (alStep b) ⟨o, none, none, false⟩
  if a.bad then none else some a.o

def addLinksF (ops : List ShOp) : ShObj → List Blk → Option ShObj
  | o, [] => some o
  | o, b :: bs =>
    match addLinkF ops o b with
    | some o1 => addLinksF ops o1 bs
    | none => none

/-- `Size()` / `Limit()` as the programs say -/
def sizeF : List ShOp → ShObj → Option Nat
  | [.retCurrentSize], o => some o.currentSize
  | [.retSizeLimit], o => some o.sizeLimit
  | _, _ => none
def limitF : List ShOp → ShObj → Option Nat := sizeF

/-- `ingestBlock`'s test with the interpreted getters: `shard.Size()+size < shard.Limit()` (operator from `Gen.fitStrict`) -/
def fitsF (sizeOps limitOps : List ShOp) (o : ShObj) (size : Nat) : Option Bool :=
  match sizeF sizeOps o, limitF limitOps o with
  | some cur, some lim => some (if Gen.fitStrict then decide (cur + size < lim) else decide (cur + size ≤ lim))
  | _, _ => none

def numbered : Nat → List Nat → List (Nat × Nat)
  | _, [] => []
  | i, x :: xs => (i, x) :: numbered (i + 1) xs

/-- the shard object the hand-written bookkeeping `Cur` stands for (limit `lim`) -/
def objOf (lim : Nat) (k : Cur) : ShObj := ⟨numbered 0 (k.blocks.map (·.id)), k.size, lim⟩

/-- what `Flush` reads besides the object -/
structure FlIn where
  allocs : List Nat
  shardN : Nat
  prev : Option Nat

structure FlSt where
  env : Env
  dests : List Nat
  nodes : Option (List Node)
  err : Bool
  root : Option Nat
  draft : Option Pin
  skip : Bool                  -- inside an `if` whose condition is false
  inIf : Option Bool           -- an `if` is open (`some true`: the depth guard)
  ret : Option Status

def flStep (sizeOps : List ShOp) (c : Cfg) (o : ShObj) (i : FlIn) (a : FlSt) (op : ShOp) : FlSt :=
  match a.ret with
  | some _ => a
  | none =>
    match op with
    | .endIf =>
      match a.inIf with
      | some _ => { a with inIf := none, skip := false }
      | none => { a with ret := some .panic }
    | .ifPrevDefined =>
      match a.inIf with
      | none => { a with inIf := some false, skip := i.prev.isNone }
      | some _ => { a with ret := some .panic }
    | .ifDepthGuard =>
      match a.inIf, a.nodes with
      | none, some ns => { a with inIf := some true, skip := !indirectGuard ns.length o.dagNode.length }
      | _, _ => { a with ret := some .panic }
    | op =>
      if a.skip then a else
      match op with
      | .makeDAG => { a with nodes := some (makeDAG a.env.named (o.dagNode.map (·.2))), err := false }
      | .retIfErr => if a.err then { a with ret := some .fail } else a
      | .putNodes =>
        match a.nodes with
        | some ns =>
          match putMany c a.env a.dests ns with
          | (e, d, ok) => { a with env := e, dests := d, err := !ok }
        | none => { a with ret := some .panic }
      | .rootIsFirstNode =>
        match a.nodes with
        | some ns => { a with root := some (rootOf ns) }
        | none => { a with ret := some .panic }
      | .mkPin =>
        match a.root with
        | some r => { a with draft := some (pinWithOpts r (workOpts c)) }
        | none => { a with ret := some .panic }
      | .pinName =>
        match a.draft with
        | some p => { a with draft := some { p with opts := { p.opts with name := shardName (workOpts c).name i.shardN } } }
        | none => { a with ret := some .panic }
      | .pinAllocsShard =>
        match a.draft with
        | some p => { a with draft := some { p with allocs := i.allocs } }
        | none => { a with ret := some .panic }
      | .pinTypeShard =>
        match a.draft with
        | some p => { a with draft := some { p with type := .shardT } }
        | none => { a with ret := some .panic }
      | .pinRefPrev =>
        match a.draft with
        | some p => { a with draft := some { p with ref := some (i.prev.getD 0) } }
        | none => { a with ret := some .panic }
      | .depthLit =>
        match a.draft with
        | some p => { a with draft := some { p with depth := if a.inIf == some true then Gen.depthIndirect else Gen.depthDirect } }
        | none => { a with ret := some .panic }
      | .pinShardSizeIsSize =>
        match a.draft, sizeF sizeOps o with
        | some p, some n => { a with draft := some { p with opts := { p.opts with shard := n } } }
        | _, _ => { a with ret := some .panic }
      | .retPin =>
        match a.draft with
        | some p =>
          match pinCall c a.env p with
          | (e, true) => { a with env := e, ret := some .ok }
          | (e, false) => { a with env := e, ret := some .fail }
        | none => { a with ret := some .panic }
      | _ => { a with ret := some .panic }

/-- `(*shard).Flush` as the program says: the cluster side afterwards, the BlockAdder's destinations left, the outcome
    (`none`: unrecognised statement / no return reached) -/
def flushF (ops sizeOps : List ShOp) (c : Cfg) (e : Env) (dests : List Nat) (o : ShObj) (i : FlIn) : Option (Env × List Nat × Status) :=
  let a := ops.foldl (flStep sizeOps c o i) ⟨e, dests, none, false, none, none, false, none, none⟩
  match a.ret with
  | some .panic => none
  | some st => some (a.env, a.dests, st)
  | none => none

/-- the part of the hand-written `flush` that is `shard.Flush` (without the bookkeeping of `flushCurrentShard`) -/
def flushCore (c : Cfg) (s : ShSt) (k : Cur) : Env × List Nat × Status :=
  match putMany c s.env k.dests (flushNodes s k) with
  | (e1, d1, false) => (e1, d1, .fail)
  | (e1, d1, true) =>
    match pinCall c e1 (flushPin c s k) with
    | (e2, false) => (e2, d1, .fail)
    | (e2, true) => (e2, d1, .ok)

/-! programs a plausible edit of shard.go would give -/
/-- `sh.currentSize += s` dropped: the size is not accumulated -/
def noSizeAccum : List ShOp := [.linkIndexIsLen, .linkNameDecimal, .storeLink]
/-- `pin.Allocations = sh.allocations` dropped from `Flush` -/
def flushNoAllocs : List ShOp := shardFlushCode.filter (· != .pinAllocsShard)

end CV.C13.Flow
