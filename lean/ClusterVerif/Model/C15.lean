/-!
# C15 model — how one configuration setting travels JSON → Config → JSON

Every component configuration of ipfs-cluster has the same shape
(`*/config.go`): `LoadJSON = json.Unmarshal into a JSON struct; Default();
applyJSONConfig; Validate()` and `ToJSON = toJSONConfig; json.Marshal`.  What
differs per setting is *how* `applyJSONConfig` copies the JSON field into the
`Config` field (the **load kind**) and how `toJSONConfig` copies it back (the
**save kind**).  The kinds below are exactly the statement shapes the translator
(`harness/common/c15_schema.go`) recognises in the sources; everything it does
not recognise is `custom`, a field never mentioned is `none`.

The functions are generic in the Go value type `α` (with its zero value), so
the theorems in `Props/C15.lean` hold for *all* values; the driver instantiates
them at `Const`.  Core Lean only.
-/
namespace CV.C15

inductive Ty | int | uint | float | bool | str | dur | list | map | ptrfloat | ptrint | other
  deriving DecidableEq, Repr

/-- how `applyJSONConfig` moves a JSON field into the Config -/
inductive LoadKind
  | direct                   -- cfg.G = jcfg.F
  | setIfNotDefault          -- config.SetIfNotDefault(jcfg.F, &cfg.G): the zero value leaves cfg.G alone
  | parseDurations           -- config.ParseDurations entry, error returned: "" leaves cfg.G alone
  | parseDurationsUnchecked  -- same, but the error of ParseDurations is dropped (crdt before 639679f; never lossless)
  | parseOrZeroSIND          -- d,_ := time.ParseDuration(jcfg.F); SetIfNotDefault(d, &cfg.G)   (raft)
  | parseOrZeroDirect        -- d,_ := time.ParseDuration(jcfg.F); cfg.G = d                     (pubsubmon, informers)
  | zeroMeansDefault         -- if jcfg.F == 0 { cfg.G = DefaultX } else { cfg.G = jcfg.F }
  | pointerOptional          -- if jcfg.F != nil { cfg.G = *jcfg.F }
  | mergo                    -- option struct merged with mergo.WithOverride: zero never overrides
  | codecAlways              -- x, err := parse(jcfg.F); if err != nil { return err }; cfg.G = x
  | codecNonEmpty            -- if jcfg.F != "" { …the same… }
  | codecListAlways          -- l := nil; for _, a := range jcfg.F { x, err := parse(a); if err…; l = append(l, x) }; cfg.G = l
  | codecListNonEmpty        -- if as := jcfg.F; len(as) > 0 { cfg.G = make(…); for … cfg.G = append(cfg.G, x) }
  | codecListLenient         -- cfg.G = api.StringsToPeers(jcfg.F): undecodable entries are skipped
  | peerListStar             -- crdt trusted_peers: "*" ⇒ TrustAll, list emptied, loop left
  | tlsPath                  -- restapi tlsOptions: pair of paths kept as written, resolved against BaseDir once, key pair loaded
  | emptyZeroParseDurations  -- if jcfg.F == "" { jcfg.F = "0s" } then a checked ParseDurations entry (cors_max_age)
  | copyNonEmpty             -- if x := jcfg.F; len(x) > 0 { cfg.G = x }
  | custom
  | none
  deriving DecidableEq, Repr

/-- how `toJSONConfig` moves the Config field back -/
inductive SaveKind
  | direct            -- jcfg.F = cfg.G   (also F: &cfg.G)
  | durString         -- jcfg.F = cfg.G.String()
  | omitIfDefault     -- if cfg.G != DefaultX { jcfg.F = cfg.G }            (F is omitempty)
  | omitIfDefaultDur  -- if cfg.G != DefaultX { jcfg.F = cfg.G.String() }
  | codecPrint              -- jcfg.F = print(cfg.G)          (String(), Pretty(), EncodeProtectorKey, base64 of Bytes())
  | codecPrintNonZero       -- if cfg.G != <unset> { jcfg.F = print(cfg.G) }
  | codecListPrint          -- for _, a := range cfg.G { l = append(l, print(a)) }; jcfg.F = l   (also api.PeersToStrings)
  | codecListPrintNonEmpty  -- … if len(l) > 0 { jcfg.F = l }
  | peerListStarPrint       -- if cfg.TrustAll { jcfg.F = ["*"] } else { jcfg.F = PeersToStrings(cfg.G) }
  | durSeconds              -- jcfg.F = int(cfg.G / time.Second): LOSSY (sub-second part dropped); not in the unchanged tree
  | custom
  | none
  deriving DecidableEq, Repr

/-- the parse/print pair a codec kind goes through.  `maddr`, `peerID`, `hexSecret`, `base64Key` are library
functions (trusted: print is injective and parse is its left inverse, like `time.ParseDuration`/`String`);
`enum` is a closed table read from the sources, for which the left inverse is *proved* over the table. -/
inductive CodecName | none | maddr | peerID | hexSecret | base64Key | enum
  deriving DecidableEq, Repr

/-- constants as far as they are syntactically evident, and the value tokens of case lines -/
inductive Const
  | int (i : Int) | dur (ns : Int) | bool (b : Bool) | str (s : String) | float (s : String)
  | nil | empty | absent | json (s : String) | unknown
  deriving DecidableEq, Repr

inductive Op | lt | le | gt | ge | eq | ne
  deriving DecidableEq, Repr

/-- one row of the generated table -/
structure Field where
  sec : String
  path : String
  key : String            -- last component of the path (the JSON key itself)
  env : String
  ty : Ty
  omitEmpty : Bool
  hidden : Bool
  sameField : Bool       -- loaded into the Config field it is saved from (both evident)
  load : LoadKind
  save : SaveKind
  dflt : Const          -- value Default() gives the Config field (unknown if not evident)
  omitC : Const         -- the constant an omitIfDefault save compares with
  rej : List (Op × Const)  -- Validate() rejects when `value op const` (simple, unguarded conjuncts only)
  codec : CodecName := .none
  dest : String := ""         -- Config field path the value is loaded into
  hiddenNested : Bool := false  -- a hidden:"true" tag below the top level of the JSON struct (DisplayJSON does not honour it)
  deriving Repr

structure Section where
  name : String
  envPrefix : String
  loadEndsWithValidate : Bool   -- the apply function's last statement is `return cfg.Validate()`
  loadStartsFromDefault : Bool  -- LoadJSON calls Default()/setDefaults() before applying
  nConj : Nat
  nOpaque : Nat
  deriving Repr

/-! ## scalar settings (JSON struct field of a plain Go type: absent ≡ zero value) -/

/-- `cur` is what the Config field holds before the apply (Default() in LoadJSON, the loaded value in
ApplyEnvVars); `dflt` the named default constant. -/
def loadScalar [DecidableEq α] (k : LoadKind) (zero cur dflt j : α) : α :=
  match k with
  | .direct => j
  | .setIfNotDefault => if j = zero then cur else j
  | .mergo => if j = zero then cur else j
  | .copyNonEmpty => if j = zero then cur else j
  | .zeroMeansDefault => if j = zero then dflt else j
  | .none => cur
  | _ => j

/-- what lands in the JSON struct field; a zero in an `omitempty` field is dropped from the text and comes
back as zero, so the JSON-level value is the same either way -/
def saveScalar [DecidableEq α] (k : SaveKind) (zero omitV v : α) : α :=
  match k with
  | .direct => v
  | .omitIfDefault => if v = omitV then zero else v
  | .none => zero
  | _ => v

/-! ## pointer settings (`*float64`): absent is distinguishable -/

def loadPtr (cur : α) : Option α → α
  | some v => v
  | Option.none => cur

def savePtr (v : α) : Option α := some v

/-! ## duration settings: the JSON carries a string -/

/-- a JSON string as `time.ParseDuration` sees it.  Trusted: `ParseDuration (d.String()) = d`, and
`d.String() ≠ ""`. -/
inductive DurJ | empty | bad | ok (ns : Int)
  deriving DecidableEq, Repr

/-- `Option.none` = LoadJSON returns an error -/
def loadDur (k : LoadKind) (cur : Int) : DurJ → Option Int
  | .empty => match k with
      | .parseOrZeroDirect => some 0
      | .emptyZeroParseDurations => some 0
      | _ => some cur
  | .bad => match k with
      | .parseDurations => Option.none
      | .emptyZeroParseDurations => Option.none
      | .parseOrZeroDirect => some 0
      | _ => some cur
  | .ok d => match k with
      | .parseOrZeroSIND => some (if d = 0 then cur else d)
      | .none => some cur
      | _ => some d

def saveDur (k : SaveKind) (omitV v : Int) : DurJ :=
  match k with
  | .omitIfDefaultDur => if v = omitV then .empty else .ok v
  | .none => .empty
  | _ => .ok v

/-- `config.ParseDurations` over its argument list: stops at the first unparsable entry; entries after it
keep their current value.  Result: the values and whether an error was produced. -/
def parseDurations : List (DurJ × Int) → List Int × Bool
  | [] => ([], false)
  | (j, cur) :: rest =>
    match j with
    | .empty => let r := parseDurations rest; (cur :: r.1, r.2)
    | .ok d => let r := parseDurations rest; (d :: r.1, r.2)
    | .bad => (cur :: rest.map (·.2), true)


/-! ## lossy integer-seconds save (`int(cfg.G / time.Second)`, what `corsOptions` does when it *uses*
`cors_max_age`; a save written like that would drop the sub-second part) -/

def nsPerSec : Int := 1000000000

/-- Go integer division truncates toward zero -/
def saveSeconds (v : Int) : Int := v.tdiv nsPerSec
def loadSeconds (n : Int) : Int := n * nsPerSec

/-! ## settings that travel through a parser and a printer (multiaddresses, peer IDs, keys, the secret, enums)

`J` is the JSON-level value (a string), `C` the Config-level value.  `parse j = none`: the library reports an
error and `LoadJSON` returns it. -/

structure Codec (J C : Type) where
  parse : J → Option C
  print : C → J

/-- the fact the round trip needs: what was parsed prints to something that parses to the same value -/
def Codec.RoundTrips (cd : Codec J C) : Prop := ∀ j c, cd.parse j = some c → cd.parse (cd.print c) = some c

/-- the stronger library fact (trusted for the library codecs): parse is a left inverse of print -/
def Codec.LeftInv (cd : Codec J C) : Prop := ∀ c, cd.parse (cd.print c) = some c

/-- one value.  `empty` is the JSON zero value (""), `unset` the Config value meaning "not configured"
(`nil`, `""`).  Outer `none` = refused. -/
def loadCodec [DecidableEq J] (k : LoadKind) (cd : Codec J C) (empty : J) (cur : C) (j : J) : Option C :=
  match k with
  | .codecAlways => cd.parse j
  | .codecNonEmpty => if j = empty then some cur else cd.parse j
  | _ => some cur

def saveCodec [DecidableEq C] (k : SaveKind) (cd : Codec J C) (empty : J) (unset : C) (v : C) : J :=
  match k with
  | .codecPrint => cd.print v
  | .codecPrintNonZero => if v = unset then empty else cd.print v
  | _ => empty

/-- a list of values, all-or-nothing (`for … { x, err := parse(a); if err != nil { return err } … }`) -/
def parseList (cd : Codec J C) : List J → Option (List C)
  | [] => some []
  | a :: rest => match cd.parse a with
    | Option.none => Option.none
    | some c => match parseList cd rest with
      | Option.none => Option.none
      | some l => some (c :: l)

def loadCodecList (k : LoadKind) (cd : Codec J C) (cur : List C) (j : List J) : Option (List C) :=
  match k with
  | .codecListAlways => parseList cd j
  | .codecListNonEmpty => if j.isEmpty then some cur else parseList cd j
  | .codecListLenient => some (j.filterMap cd.parse)
  | _ => some cur

/-- an `omitempty` empty list and an absent key are the same JSON-level value `[]` -/
def saveCodecList (_k : SaveKind) (cd : Codec J C) (v : List C) : List J := v.map cd.print

/-- crdt `trusted_peers`: entries are decoded in order; `"*"` sets TrustAll, empties the list and leaves the
loop (entries after it are not looked at); an undecodable entry before it is an error. -/
def loadStar [DecidableEq J] (cd : Codec J C) (star : J) : List J → Option (Bool × List C)
  | [] => some (false, [])
  | p :: rest =>
    if p = star then some (true, []) else
    match cd.parse p with
    | Option.none => Option.none
    | some c => match loadStar cd star rest with
      | Option.none => Option.none
      | some (true, _) => some (true, [])
      | some (false, l) => some (false, c :: l)

def saveStar (cd : Codec J C) (star : J) (r : Bool × List C) : List J :=
  if r.1 then [star] else r.2.map cd.print

/-- a closed enumeration read from a `switch` (load) and a `String()` method (save) -/
def lookup (t : List (String × String)) (k : String) : Option String := (t.find? (·.1 == k)).map (·.2)

def enumCodec (loadT saveT : List (String × String)) : Codec String String :=
  { parse := lookup loadT, print := fun c => (lookup saveT c).getD "" }

/-! ## restapi `ssl_cert_file` / `ssl_key_file` (tlsOptions)

Both empty: nothing happens.  Otherwise the two strings are recorded *as written* (`pathSSLCertFile`,
`pathSSLKeyFile`, which `toJSONConfig` writes back), each is resolved against the base directory once
(`filepath.IsAbs` / `filepath.Join`), and the pair is loaded (`newTLSConfig`); a failure is returned.
`fs` stands for the file system: does this resolved pair load? -/
structure TLSState where
  cert : String
  key : String
  loaded : Bool
  deriving DecidableEq, Repr

def resolvePath (isAbs : String → Bool) (join : String → String → String) (base p : String) : String :=
  if isAbs p then p else join base p

def loadTLS (isAbs : String → Bool) (join : String → String → String) (fs : String → String → Bool)
    (base : String) (cur : TLSState) (cert key : String) : Option TLSState :=
  if cert ++ key = "" then some cur else
  if fs (resolvePath isAbs join base cert) (resolvePath isAbs join base key) then
    some { cert := cert, key := key, loaded := true }
  else Option.none

def saveTLS (s : TLSState) : String × String := (s.cert, s.key)

/-! ## Validate conjuncts -/

def Op.holds (o : Op) (a b : Int) : Bool :=
  match o with
  | .lt => a < b | .le => a ≤ b | .gt => a > b | .ge => a ≥ b | .eq => a == b | .ne => a != b

def Const.num? : Const → Option Int
  | .int i => some i
  | .dur n => some n
  | _ => Option.none

/-- does Validate reject the numeric value `v`?  (conjuncts over non-numeric constants are skipped) -/
def rejected (rej : List (Op × Const)) (v : Int) : Bool :=
  rej.any fun (o, c) => match c.num? with
    | some b => o.holds v b
    | Option.none => false


/-! ## Validate() of a section as a conjunction over the whole Config

The translator (`harness/common/c15_validate.go`) reads every `Validate()` as a list of conjuncts
`(guard?, cond)`: the configuration is **rejected** when some conjunct's guard holds (or is absent) and its
condition holds.  Conditions compare Config fields with constants *and with each other* (`low_water >
high_water`, the replication factor pair), take `len(x)`, `x.String()`, nil-ness, and combine with `&& || !`;
helper functions (`isReplicationFactorValid`, `validateLibp2p`) are inlined.  `opaque`: not expressible
(`hraft.ValidateConfig`, `MatchesPrivateKey`); `opaqueConst`: not expressible but reading nothing a JSON key can
change (`isRPCPolicyValid(cfg.RPCPolicy)`) — constant over all configuration files, observed not to fire by the
`default` case of every run.  Evaluation is three-valued. -/

inductive Val
  | int (i : Int) | str (s : String) | bool (b : Bool) | nil | nonnil
  | frac (lo hi : Int)   -- a float64 x as (⌊x·10⁶⌋, ⌈x·10⁶⌉)
  | unknown
  deriving DecidableEq, Repr

inductive Tm | fld (n : String) | len (n : String) | strOf (n : String) | cst (c : Const)
  deriving DecidableEq, Repr

inductive Cond
  | cmp (a : Tm) (o : Op) (b : Tm)
  | and (a b : Cond) | or (a b : Cond) | not (a : Cond)
  | tru (n : String)
  | opaque | opaqueConst
  deriving DecidableEq, Repr

structure Conj where
  guard : Option Cond
  cond : Cond
  deriving DecidableEq, Repr

abbrev Env := List (String × Val)

def Env.get (e : Env) (k : String) : Val := ((e.find? (·.1 == k)).map (·.2)).getD .unknown

def Tm.eval (e : Env) : Tm → Val
  | .fld n => e.get ("f:" ++ n)
  | .len n => e.get ("l:" ++ n)
  | .strOf n => e.get ("s:" ++ n)
  | .cst (.int i) => .int i
  | .cst (.dur i) => .int i
  | .cst (.str s) => .str s
  | .cst (.bool b) => .bool b
  | .cst .nil => .nil
  | .cst _ => .unknown

def fracScale : Int := 1000000

def cmpVal (o : Op) : Val → Val → Option Bool
  | .int a, .int b => some (o.holds a b)
  | .frac lo hi, .int b =>
    let n := b * fracScale
    some (match o with
      | .lt => lo < n | .ge => lo ≥ n | .le => hi ≤ n | .gt => hi > n
      | .eq => lo == n && hi == n | .ne => !(lo == n && hi == n))
  | .str a, .str b => (match o with | .eq => some (a == b) | .ne => some (a != b) | _ => Option.none)
  | .nil, .nil => (match o with | .eq => some true | .ne => some false | _ => Option.none)
  | .nonnil, .nil => (match o with | .eq => some false | .ne => some true | _ => Option.none)
  | _, _ => Option.none

def and3 : Option Bool → Option Bool → Option Bool
  | some false, _ => some false
  | _, some false => some false
  | some true, some true => some true
  | _, _ => Option.none

def or3 : Option Bool → Option Bool → Option Bool
  | some true, _ => some true
  | _, some true => some true
  | some false, some false => some false
  | _, _ => Option.none

def Cond.eval (e : Env) : Cond → Option Bool
  | .cmp a o b => cmpVal o (a.eval e) (b.eval e)
  | .and a b => and3 (a.eval e) (b.eval e)
  | .or a b => or3 (a.eval e) (b.eval e)
  | .not a => (a.eval e).map (!·)
  | .tru n => (match e.get ("f:" ++ n) with | .bool b => some b | _ => Option.none)
  | .opaque => Option.none
  | .opaqueConst => some false

/-- does the conjunct reject the configuration? -/
def Conj.fires (e : Env) (c : Conj) : Option Bool :=
  match c.guard with
  | Option.none => c.cond.eval e
  | some g => and3 (g.eval e) (c.cond.eval e)

inductive Verdict | accept | reject | unknown
  deriving DecidableEq, Repr

/-- `Validate()`: rejected as soon as one conjunct fires; accepted when every conjunct is known not to -/
def validate (e : Env) (cs : List Conj) : Verdict :=
  if cs.any (fun c => c.fires e == some true) then .reject
  else if cs.all (fun c => c.fires e == some false) then .accept
  else .unknown

/-- `LoadJSON` of a section: the apply stage either fails (a parse error: `none`) or leaves a Config, whose
last step is `return cfg.Validate()` (`Section.loadEndsWithValidate`, re-read from the sources on every run) -/
def loadSection (applied : Option Env) (cs : List Conj) : Option Env :=
  match applied with
  | Option.none => Option.none
  | some e => if validate e cs == .reject then Option.none else some e

/-! ## which kind pairs keep a setting -/

/-- kind pairs for which `Props/C15.lean` proves: load ∘ save ∘ load = load and every non-zero value is
settable (`omitIfDefault*` additionally need the compared constant to be the default, checked per row). -/
def lossless : LoadKind → SaveKind → Bool
  | .direct, .direct => true
  | .setIfNotDefault, .direct => true
  | .setIfNotDefault, .omitIfDefault => true
  | .zeroMeansDefault, .direct => true
  | .mergo, .direct => true
  | .pointerOptional, .direct => true
  | .parseDurations, .durString => true
  | .parseDurations, .omitIfDefaultDur => true
  | .parseOrZeroSIND, .durString => true
  | .parseOrZeroDirect, .durString => true
  | .emptyZeroParseDurations, .durString => true
  | .copyNonEmpty, .direct => true
  | .codecAlways, .codecPrint => true
  | .codecNonEmpty, .codecPrint => true
  | .codecNonEmpty, .codecPrintNonZero => true
  | .codecListAlways, .codecListPrint => true
  | .codecListNonEmpty, .codecListPrint => true
  | .codecListNonEmpty, .codecListPrintNonEmpty => true
  | .codecListLenient, .codecListPrint => true
  | .peerListStar, .peerListStarPrint => true
  | .tlsPath, .direct => true
  | _, _ => false

/-- load kinds that cannot write the zero value over a non-zero current value -/
def zeroBlind : LoadKind → Bool
  | .setIfNotDefault | .mergo | .parseOrZeroSIND | .zeroMeansDefault => true
  | .copyNonEmpty | .codecNonEmpty | .codecListNonEmpty => true
  | _ => false

/-! ## prediction for one case (driver) -/

def Ty.zero : Ty → Const
  | .int | .uint | .ptrint => .int 0
  | .float | .ptrfloat => .float "0"
  | .bool => .bool false
  | .str => .str ""
  | .dur => .dur 0
  | _ => .nil

inductive Pred | reject | accept (eff got : Const) | unknown
  deriving DecidableEq, Repr

def numOf : Const → Option Int
  | .int i => some i
  | .dur n => some n
  | .float "0" => some 0
  | _ => Option.none

def tyMatches : Ty → Const → Bool
  | .int, .int _ => true
  | .ptrint, .int _ => true
  | .uint, .int i => i ≥ 0
  | .bool, .bool _ => true
  | .str, .str _ => true
  | .float, .float _ => true
  | _, _ => false

/-- duration settings -/
def predictDur (f : Field) (cur val : Const) : Pred :=
  let j : Option DurJ := match val with
    | .dur n => some (DurJ.ok n)
    | .str "" => some DurJ.empty
    | .str _ => some DurJ.bad
    | _ => Option.none
  match j, cur with
  | some j, .dur c =>
    match loadDur f.load c j with
    | Option.none => Pred.reject
    | some v =>
      if rejected f.rej v then Pred.reject else
      match f.save with
      | .omitIfDefaultDur =>
        (match f.omitC with
         | .dur o => (match saveDur f.save o v with
                      | .ok n => Pred.accept (.dur v) (.dur n)
                      | _ => Pred.accept (.dur v) .absent)
         | _ => Pred.unknown)
      | _ => Pred.accept (.dur v) (.dur v)
  | _, _ => Pred.unknown

/-- scalar settings -/
def predictScalar (f : Field) (cur val : Const) : Pred :=
  if !(tyMatches f.ty val) then Pred.unknown else
  if f.load == .zeroMeansDefault && f.dflt == Const.unknown then Pred.unknown else
  let v := if f.load == .pointerOptional then val else loadScalar f.load f.ty.zero cur f.dflt val
  let isFloat := match v with | .float _ => true | _ => false
  if isFloat && !f.rej.isEmpty then Pred.unknown else
  let rej := match numOf v with
    | some n => rejected f.rej n
    | Option.none => match v with
      | .str "" => f.rej.any (fun (o, c) => o == Op.eq && c == Const.str "")
      | _ => false
  if rej then Pred.reject else
  match f.save with
  | .omitIfDefault =>
    if f.omitC == Const.unknown then Pred.unknown else
    let s := saveScalar f.save f.ty.zero f.omitC v
    if f.omitEmpty && s == f.ty.zero then Pred.accept v .absent else Pred.accept v s
  | _ => if f.omitEmpty && v == f.ty.zero then Pred.accept v .absent else Pred.accept v v

/-- kinds whose values are not plain scalars of the case-line token language -/
def LoadKind.isCodec : LoadKind → Bool
  | .codecAlways | .codecNonEmpty | .codecListAlways | .codecListNonEmpty | .codecListLenient | .peerListStar
  | .tlsPath | .copyNonEmpty => true
  | _ => false

/-- what a load of the default JSON with this one field set to `val` (`cur` = the Config value before the
apply), followed by `ToJSON`, shows for the field — as far as the row determines it. -/
def predict (f : Field) (cur val : Const) : Pred :=
  if !(lossless f.load f.save) then Pred.unknown else
  if f.load.isCodec then Pred.unknown else
  if cur == Const.unknown then Pred.unknown else
  match f.ty with
  | .dur => predictDur f cur val
  | .int | .uint | .bool | .str | .float | .ptrint => predictScalar f cur val
  | _ => Pred.unknown


/-! ## config.Manager: a whole configuration file (config/config.go LoadJSON / ToJSON / ToDisplayJSON)

After `json.Unmarshal` a file is: the `cluster` object (a nil pointer when the key is absent or `null`) and, per
section group (`consensus`, `api`, …), a Go map component-name → raw JSON (`nil` for `"name": null`; an absent
or `null` group is the empty map; a group of another JSON type is refused by `Unmarshal` and is not a `File`;
top-level keys other than `source`, `cluster` and the ten groups are dropped by `Unmarshal`).  Duplicate keys:
the last one wins (`lookupLast`).  The Manager keeps the parsed file (`jsonCfg`) and `ToJSON` writes every
*registered* component into it — so unknown component names are **kept** verbatim, registered components that
the file did not define are **written** with their defaults, and `ToDisplayJSON` starts from an empty file — so
unknown components are **not displayed**.  `DisplayJSON` masks the top-level fields tagged `hidden:"true"`.

`σ`: a component's Config; `V`: JSON values.  Registered components are given as a partial function
group → name → spec, files and Manager states likewise (Go maps); `Loads` is a relation. -/
namespace Mgr

abbrev CompJ (V : Type) := List (String × V)

structure CompSpec (σ V : Type) where
  load : CompJ V → Option σ     -- LoadJSON (Default(), apply, Validate); none = error
  dflt : σ
  save : σ → CompJ V
  hidden : List String          -- top-level keys tagged hidden:"true"

inductive Entry (V : Type) | null | obj (j : CompJ V)

structure File (V : Type) where
  cluster : Option (CompJ V)
  entry : String → String → Option (Entry V)

structure Reg (σ V : Type) where
  cluster : CompSpec σ V
  spec : String → String → Option (CompSpec σ V)

structure State (σ V : Type) where
  cluster : Option σ            -- none: the cluster section was never loaded (does not validate)
  comp : String → String → Option σ
  raw : File V

/-- duplicate keys of a JSON object: the last one wins -/
def lookupLast (l : List (String × α)) (k : String) : Option α := (l.reverse.find? (·.1 == k)).map (·.2)

/-- `Manager.LoadJSON` of a plain file on a Manager in state `prev` accepts and ends in state `s` -/
def Loads (r : Reg σ V) (prev : State σ V) (f : File V) (s : State σ V) : Prop :=
  (match f.cluster with
    | none => s.cluster = prev.cluster
    | some j => ∃ c, r.cluster.load j = some c ∧ s.cluster = some c) ∧
  s.cluster ≠ none ∧
  (∀ g n, match r.spec g n with
    | none => s.comp g n = none
    | some sp => match f.entry g n with
      | none => s.comp g n = some sp.dflt
      | some .null => False
      | some (.obj j) => ∃ x, sp.load j = some x ∧ s.comp g n = some x) ∧
  s.raw = f

/-- `Manager.ToJSON` (no source set): refuses when the cluster section does not validate -/
def saved (r : Reg σ V) (s : State σ V) : Option (File V) :=
  match s.cluster with
  | none => none
  | some c => some
    { cluster := some (r.cluster.save c),
      entry := fun g n => match r.spec g n, s.comp g n with
        | some sp, some x => some (.obj (sp.save x))
        | _, _ => s.raw.entry g n }

/-- `config.DisplayJSON`: top-level hidden fields replaced by a constant -/
def mask (hidden : List String) (maskV : V) (j : CompJ V) : CompJ V :=
  j.map fun kv => if hidden.contains kv.1 then (kv.1, maskV) else kv

/-- `Manager.ToDisplayJSON`: starts from an empty file, writes the masked form of every registered component -/
def display (r : Reg σ V) (maskV : V) (s : State σ V) : File V :=
  { cluster := s.cluster.map fun c => mask r.cluster.hidden maskV (r.cluster.save c),
    entry := fun g n => match r.spec g n, s.comp g n with
      | some sp, some x => some (.obj (mask sp.hidden maskV (sp.save x)))
      | _, _ => none }

end Mgr

/-! ## config.Manager and the remote `source` of a configuration (config/config.go:355-475, 496-515)

A configuration document either is not parsable, or declares a non-empty `"source"` URL (everything else in
it is then ignored), or is a plain set of sections.  `Manager.LoadJSON` of a sourced document sets
`Manager.Source`, fetches the URL and loads the body with `sourceRedirs = 1`, which refuses a body that has a
source of its own (after having set `Source` to it and fetched it).  `Manager.ToJSON` writes only
`{"source": Source}` while `Source` is non-empty.  `Source` is cleared only by a parsable plain document given
to `LoadJSON` directly (`sourceRedirs = 0`; /repo fbf34ff) — before its sections are loaded, so also when
they then fail; an unparsable document returns before that, the nested body of a fetch never clears it, and
neither does `Default()`.

`υ` is the type of URLs, `web` what a GET answers.  The effective configuration of the registered sections is
abstracted to a number (`cfg = none`: the sections do not validate, `ToJSON` refuses). -/
namespace Src

inductive Doc (υ : Type) where
  | garbage                          -- json.Unmarshal fails
  | sourced (u : υ)                  -- "source": u, u ≠ ""
  | plain (c : Nat) (valid : Bool)   -- sections; valid = every section loads and Manager.Validate passes
  deriving DecidableEq, Repr

inductive Remote (υ : Type) where
  | down                                 -- http.Get fails
  | resp (code : Nat) (body : Doc υ)     -- after redirects have been followed
  deriving Repr

/-- the Manager state that matters: `Source` (none = "") and the loaded sections -/
structure Mgr (υ : Type) where
  source : Option υ
  cfg : Option Nat
  deriving DecidableEq, Repr

def fresh : Mgr υ := { source := none, cfg := none }

/-- `LoadJSON` as called from `LoadJSONFromHTTPSource` (sourceRedirs = 1) -/
def loadNested (m : Mgr υ) : Doc υ → Mgr υ × Bool
  | .garbage => (m, false)
  | .plain c v => ({ m with cfg := if v then some c else none }, v)
  | .sourced u => ({ m with source := some u }, false)  -- Source := u, GET, then fetch error / status / errSourceRedirect

/-- `LoadJSONFromHTTPSource` on a Manager at rest (sourceRedirs = 0; the deferred reset restores 0) -/
def fromHTTP (web : υ → Remote υ) (m : Mgr υ) (u : υ) : Mgr υ × Bool :=
  let m1 := { m with source := some u }
  match web u with
  | .down => (m1, false)
  | .resp code body => if code ≥ 300 then (m1, false) else loadNested m1 body

/-- `LoadJSON` / `LoadJSONFromFile` on a Manager at rest -/
def loadJSON (web : υ → Remote υ) (m : Mgr υ) : Doc υ → Mgr υ × Bool
  | .garbage => (m, false)                                                     -- returns before the reset
  | .plain c v => ({ source := none, cfg := if v then some c else none }, v)   -- Source := "" then the sections
  | .sourced u => fromHTTP web m u

/-- `Manager.Default()`: every section takes its default (configuration number 0); `Source` is not touched -/
def dflt (m : Mgr υ) : Mgr υ := { m with cfg := some 0 }

/-- `ToJSON` / `SaveJSON`: refuses when the sections do not validate -/
def save (m : Mgr υ) : Option (Doc υ) :=
  match m.cfg with
  | none => none
  | some c => match m.source with
    | some u => some (.sourced u)
    | none => some (.plain c true)

inductive Op (υ : Type) where
  | load (d : Doc υ)     -- LoadJSON or LoadJSONFromFile
  | http (u : υ)         -- LoadJSONFromHTTPSource
  | dflt
  deriving Repr

def step (web : υ → Remote υ) (m : Mgr υ) : Op υ → Mgr υ × Bool
  | .load d => loadJSON web m d
  | .http u => fromHTTP web m u
  | .dflt => (dflt m, true)

/-- one Manager used for a sequence of operations: final state and the result of each -/
def run (web : υ → Remote υ) (m : Mgr υ) : List (Op υ) → Mgr υ × List Bool
  | [] => (m, [])
  | o :: rest =>
    let r := step web m o
    let rr := run web r.1 rest
    (rr.1, r.2 :: rr.2)

end Src

/-! ## environment variables (round 8): `ApplyEnvVars = toJSONConfig; envconfig.Process; applyJSONConfig`

The JSON struct is first filled from the *current* Config (the save kind), `envconfig.Process` overwrites the
fields whose variable is set, and the same apply function as in `LoadJSON` copies the struct back — with the
current Config as `cur` (no `Default()` in between).  `env = none`: the variable is not set. -/
def applyEnvScalar [DecidableEq α] (lk : LoadKind) (sk : SaveKind) (zero omitV dflt cur : α) (env : Option α) : α :=
  loadScalar lk zero cur dflt (match env with | some e => e | none => saveScalar sk zero omitV cur)

/-- `Manager.LoadJSONFileAndEnv` for one setting: `Default()`, the file's value, then the environment -/
def fileThenEnv [DecidableEq α] (lk : LoadKind) (sk : SaveKind) (zero dflt file : α) (env : Option α) : α :=
  applyEnvScalar lk sk zero dflt dflt (loadScalar lk zero dflt dflt file) env

/-! ## identity.json (config/identity.go, round 8)

Peer IDs and private keys are abstracted to the index of the key pair they belong to: `id n` is the text of the
peer ID derived from key pair `n`, `key n` the base64 text of its private key, so `MatchesPrivateKey` is equality
of indices (trusted: `peer.IDFromPublicKey` is injective on the generated pairs).  `applyIdentityJSON` assigns
`ident.ID` *before* it decodes the key, so a refused load can leave a half-updated Identity — modelled as is. -/
namespace Ident

inductive IdTok | bad | id (n : Nat)
  deriving DecidableEq, Repr
/-- `badB64`: not base64; `badKey`: base64 of bytes `crypto.UnmarshalPrivateKey` refuses (also the empty text) -/
inductive KeyTok | badB64 | badKey | key (n : Nat)
  deriving DecidableEq, Repr

structure St where
  id : Option Nat := none
  key : Option Nat := none
  deriving DecidableEq, Repr

def fresh : St := {}

/-- `Identity.Validate`: ID set, key set, ID matches key -/
def valid (s : St) : Bool :=
  match s.id, s.key with
  | some a, some b => a == b
  | _, _ => false

/-- `applyIdentityJSON`: Decode ID (error ⇒ return) ; assign ID ; base64 ; UnmarshalPrivateKey (error ⇒ return) ;
assign key ; `return ident.Validate()` -/
def apply (s : St) (i : IdTok) (k : KeyTok) : St × Bool :=
  match i with
  | .bad => (s, false)
  | .id a =>
    match k with
    | .key b => ({ id := some a, key := some b }, valid { id := some a, key := some b })
    | _ => ({ s with id := some a }, false)

inductive Doc | garbage | obj (i : IdTok) (k : KeyTok)
  deriving DecidableEq, Repr

/-- `Identity.LoadJSON` (an absent key is the empty text: `bad` / `badKey`) -/
def load (s : St) : Doc → St × Bool
  | .garbage => (s, false)
  | .obj i k => apply s i k

/-- `toIdentityJSON`; needs a private key (`none`: the code dereferences a nil key — callers load first) -/
def save (s : St) : Option (IdTok × KeyTok) :=
  match s.key with
  | none => none
  | some b => some ((match s.id with | some a => .id a | none => .bad), .key b)

/-- `Identity.ApplyEnvVars` with `CLUSTER_ID` / `CLUSTER_PRIVATEKEY` (`none` = not set) -/
def applyEnv (s : St) (ei : Option IdTok) (ek : Option KeyTok) : St × Bool :=
  match save s with
  | none => (s, false)
  | some (i, k) => apply s (ei.getD i) (ek.getD k)

inductive Op | load (d : Doc) | env (ei : Option IdTok) (ek : Option KeyTok)
  deriving DecidableEq, Repr

def step (s : St) : Op → St × Bool
  | .load d => load s d
  | .env ei ek => applyEnv s ei ek

/-- one Identity used for a sequence of operations -/
def run (s : St) : List Op → St × List Bool
  | [] => (s, [])
  | o :: rest =>
    let r := step s o
    let rr := run r.1 rest
    (rr.1, r.2 :: rr.2)

/-! ### restapi's libp2p identity (api/rest/config.go `loadLibp2pOptions`, `validateLibp2p`) on a fresh Config

`none` = key absent or `""` (the loader skips it).  The key is decoded first, then the ID; `Validate`: if any of
ID / key / libp2p_listen_multiaddress is set, all must be, and the ID must match the key.  `none` result = refused. -/
def restLoad (i : Option IdTok) (k : Option KeyTok) (addr : Bool) : Option St :=
  match k with
  | some .badB64 => none
  | some .badKey => none
  | _ =>
    match i with
    | some .bad => none
    | _ =>
      let s : St := { id := (match i with | some (.id a) => some a | _ => none),
                      key := (match k with | some (.key b) => some b | _ => none) }
      if s.id.isSome || s.key.isSome || addr then (if s.id.isSome && s.key.isSome && addr && valid s then some s else none)
      else some s

/-- `toJSONConfig`: an unset ID / key is saved as `""` -/
def restSave (s : St) : Option IdTok × Option KeyTok := (s.id.map .id, s.key.map .key)

/-! ### the regenerated statement sequence of `applyIdentityJSON`, interpreted

`harness/common/c15_util.go` reads the function body as a list of events; `interp` executes them.  Theorem
`gen_ident_apply` (Props): the interpretation of the regenerated sequence *is* `apply`, for all inputs — a dropped
`return ident.Validate()`, a dropped error return or a reordering changes the interpretation. -/
inductive Ev | decodeId | retErr | setId | b64 | unmarshalKey | setKey | retValidate | retNil | unknown
  deriving DecidableEq, Repr

structure Frame where
  st : St
  err : Bool := false          -- `err != nil`
  pid : Option Nat := none     -- result of peer.Decode
  pkb : Bool := false          -- base64 decoded to key bytes
  pkey : Option Nat := none    -- result of UnmarshalPrivateKey

def interp (i : IdTok) (k : KeyTok) : List Ev → Frame → Option (St × Bool)
  | [], _ => none
  | .decodeId :: r, c =>
    (match i with
     | .id a => interp i k r { c with pid := some a, err := false }
     | .bad => interp i k r { c with pid := none, err := true })
  | .retErr :: r, c => if c.err then some (c.st, false) else interp i k r c
  | .setId :: r, c => interp i k r { c with st := { c.st with id := c.pid } }
  | .b64 :: r, c =>
    (match k with
     | .badB64 => interp i k r { c with pkb := false, err := true }
     | _ => interp i k r { c with pkb := true, err := false })
  | .unmarshalKey :: r, c =>
    (match k with
     | .key b => if c.pkb then interp i k r { c with pkey := some b, err := false } else interp i k r { c with pkey := none, err := true }
     | _ => interp i k r { c with pkey := none, err := true })
  | .setKey :: r, c => interp i k r { c with st := { c.st with key := c.pkey } }
  | .retValidate :: _, c => some (c.st, valid c.st)
  | .retNil :: _, c => some (c.st, true)
  | .unknown :: _, _ => none

end Ident

/-! ### `config.SetIfNotDefault`: the regenerated arms of its type switch, interpreted -/

/-- does `SetIfNotDefault(src, dest)` assign, for a `src` of Go type `ty` that is / is not the zero value?
No arm for the type: nothing happens (the function has no default case). -/
def sindAssigns (arms : List (String × String)) (ty : String) (isZero : Bool) : Bool :=
  match (arms.find? (·.1 == ty)).map (·.2) with
  | some g => if g == "ne0" || g == "neEmpty" || g == "isTrue" then !isZero else if g == "always" then true else false
  | none => false

/-- Go type behind a table `Ty` when the row is copied with SetIfNotDefault -/
def Ty.goName : Ty → String
  | .int => "int" | .uint => "uint64" | .float => "float64" | .bool => "bool" | .str => "string" | .dur => "time.Duration"
  | _ => "?"

/-- `Manager.LoadJSONFileAndEnv` as the regenerated order of its calls: `file` = LoadJSON (Default() first), `env` = ApplyEnvVars -/
def runOrder [DecidableEq α] (lk : LoadKind) (sk : SaveKind) (zero d file : α) (env : Option α) : List String → α → α
  | [], cur => cur
  | c :: r, cur =>
    if c == "file" then runOrder lk sk zero d file env r (loadScalar lk zero d d file)
    else if c == "env" then runOrder lk sk zero d file env r (applyEnvScalar lk sk zero d d cur env)
    else cur

/-! ## `config.DisplayJSON` (config/util.go:126-184, round 8)

A configuration value is flattened to its leaves; each leaf carries the path of struct fields from the root
(JSON name + whether that field carries `hidden:"true"`) and its printed value.  `DisplayJSON` rebuilds the
*top-level* struct type only: a top-level field tagged hidden gets the type `hiddenField` (printed as the mask,
its whole subtree gone); every other field keeps its Go type, so tags further down are not looked at. -/
namespace Disp

structure Seg where
  name : String
  hidden : Bool
  deriving DecidableEq, Repr

structure Leaf where
  path : List Seg
  val : String
  deriving DecidableEq, Repr

def maskText : String := "XXX_hidden_XXX"

/-- the author's intent: some field on the way to the leaf is tagged hidden -/
def Leaf.tagged (l : Leaf) : Bool := l.path.any (·.hidden)

/-- what the code looks at: the top-level field only -/
def Leaf.topHidden (l : Leaf) : Bool :=
  match l.path with
  | [] => false
  | s :: _ => s.hidden

/-- the displayed form: per leaf, its top-level field name and the text shown for it -/
def display (cfg : List Leaf) : List (List String × String) :=
  cfg.map fun l => if l.topHidden then ((l.path.take 1).map (·.name), maskText) else (l.path.map (·.name), l.val)

/-- the alternative a deep walk would implement -/
def displayDeep (cfg : List Leaf) : List (List String × String) :=
  cfg.map fun l => if l.tagged then ((l.path.take 1).map (·.name), maskText) else (l.path.map (·.name), l.val)

/-- texts visible in a displayed form -/
def shown (d : List (List String × String)) : List String := d.map (·.2)

end Disp

/-! ## Round 8b: the call sequence of every section's LoadJSON / ApplyEnvVars / apply function

`harness/common/c15_seq.go` reads, for every section, the top-level statements of `LoadJSON`, `ApplyEnvVars`
and of the apply function (its helper load functions inlined) as events; the model *interprets* the events
under an oracle saying which fallible step fails, which early-return guard fires and what `Validate()` says. -/
namespace Seq

inductive Ev
  | unmarshal    -- `err := json.Unmarshal(raw, jcfg)` followed by `if err != nil { return err }`
  | toJSON       -- `jcfg[, err] := cfg.toJSONConfig()` (with its error check when it has an error result)
  | process      -- `err := envconfig.Process(key, jcfg)` followed by its error check
  | dflt         -- `cfg.Default()` / `cfg.setDefaults()`
  | apply        -- `return cfg.applyJSONConfig(jcfg)` (replaced by the apply sequence)
  | assign       -- a statement without `return` (assignment, SetIfNotDefault, conditional copy)
  | try          -- a fallible step: error-producing call + `if err != nil { return err }`, or `if bad { return error }`
  | earlyNil     -- a conditional `return nil` before the end
  | skip (n : Nat) -- a conditional `return nil` inside an inlined helper: leaves the helper, i.e. jumps over its next n events
  | droppedErr   -- `err` assigned and not checked by the next statement
  | retValidate  -- `return cfg.Validate()`
  | retNil       -- `return nil`
  | retTry       -- `return <fallible call>` other than Validate
  | unknown
  deriving DecidableEq, Repr

structure Oracle where
  fails : Nat → Bool   -- the fallible step at position i fails
  fires : Nat → Bool   -- the guard of the early return at position i holds
  valid : Bool         -- what Validate() says about the object reached

structure St where
  dflt : Bool          -- Default() ran in this call
  assigned : Nat       -- assignments executed since
  dropped : Bool       -- an error was produced and ignored
  deriving DecidableEq, Repr

inductive Res
  | err
  | ok (validated : Bool) (s : St)
  | stuck
  deriving DecidableEq, Repr

def interp (o : Oracle) : List Ev → Nat → Nat → St → Res
  | [], _, _, _ => .stuck
  | _ :: es, i, k + 1, s => interp o es (i + 1) k s
  | e :: es, i, 0, s =>
    match e with
    | .unmarshal | .toJSON | .process | .try => if o.fails i then .err else interp o es (i + 1) 0 s
    | .dflt => interp o es (i + 1) 0 { s with dflt := true, assigned := 0 }
    | .assign => interp o es (i + 1) 0 { s with assigned := s.assigned + 1 }
    | .earlyNil => if o.fires i then .ok false s else interp o es (i + 1) 0 s
    | .skip n => if o.fires i then interp o es (i + 1) n s else interp o es (i + 1) 0 s
    | .droppedErr => interp o es (i + 1) 0 { s with dropped := s.dropped || o.fails i }
    | .retValidate => if o.valid then .ok true s else .err
    | .retNil => .ok false s
    | .retTry => if o.fails i then .err else .ok false s
    | .apply | .unknown => .stuck

/-- run a whole sequence from position 0 -/
def run (o : Oracle) (l : List Ev) (s : St) : Res := interp o l 0 0 s

def isBody : Ev → Bool
  | .assign | .try => true
  | _ => false

def countAssign (l : List Ev) : Nat := (l.filter (· == .assign)).length

/-- the apply function: assignments and fallible steps only, then `return cfg.Validate()` -/
def applyOk (a : List Ev) : Bool := a.getLast? == some .retValidate && a.dropLast.all isBody && 0 < countAssign a

/-- helper-scoped early returns allowed: each `skip n` at position k of the part before `return cfg.Validate()` stays inside it -/
def skipsInside : List Ev → Bool
  | [] => true
  | .skip n :: es => n ≤ es.length && skipsInside es
  | e :: es => isBody e && skipsInside es

def applyOkSkips (a : List Ev) : Bool := a.getLast? == some .retValidate && skipsInside a.dropLast && 0 < countAssign a

/-- sections whose apply function may leave a helper early (restapi: `tlsOptions` returns when neither a certificate nor a key
file is named — nothing to load; the `tlsPath` kind theorems speak about that row) -/
def skipAllowed : List String := ["restapi"]

def expand (outer a : List Ev) : List Ev := outer.flatMap fun e => if e == .apply then a else [e]

structure SecSeq where
  name : String
  load : List Ev
  env : List Ev
  apply : List Ev
  deriving Repr

/-- LoadJSON = parse, Default, apply; ApplyEnvVars = current values, environment, apply (no Default). The identity has no
defaults to start from (its apply assigns both fields or refuses). -/
def SecSeq.ok (s : SecSeq) : Bool :=
  (applyOk s.apply || (skipAllowed.contains s.name && applyOkSkips s.apply)) && s.env == [.toJSON, .process, .apply] &&
    (s.load == [.unmarshal, .dflt, .apply] || (s.name == "identity" && s.load == [.unmarshal, .apply]))

def fresh : St := { dflt := false, assigned := 0, dropped := false }

end Seq

/-! ## hashicorp/raft `ValidateConfig` (round 8c): the formerly opaque conjunct of the raft section

`harness/common/c15_validate.go` now follows `hraft.ValidateConfig(cfg.RaftConfig)` into the module go.mod names (module cache),
folds `protocolMin` (`ProtocolVersionMin` = 0 ⇒ 1) and inlines its 11 conjuncts over `RaftConfig.<field>`. `HRaft.conjs` is what
the translator must regenerate (`table_raft_hraft`); `HRaft.Valid` is the same as a Prop. -/
namespace HRaft

/-- the Config fields `hraft.ValidateConfig` reads (durations in ns; `lid` = len(LocalID)) -/
structure Vals where
  pv : Int
  lid : Int
  hb : Int
  el : Int
  ct : Int
  mae : Int
  si : Int
  ll : Int
  deriving Repr

def ms : Int := 1000000

/-- hashicorp/raft v1.1.1 `ValidateConfig`, conjunct by conjunct (each entry REJECTS when it holds) -/
def conjs : List Conj := [
  { guard := none, cond := .or (.cmp (.fld "RaftConfig.ProtocolVersion") .lt (.cst (.int 1))) (.cmp (.fld "RaftConfig.ProtocolVersion") .gt (.cst (.int 3))) },
  { guard := none, cond := .cmp (.len "RaftConfig.LocalID") .eq (.cst (.int 0)) },
  { guard := none, cond := .cmp (.fld "RaftConfig.HeartbeatTimeout") .lt (.cst (.dur 5000000)) },
  { guard := none, cond := .cmp (.fld "RaftConfig.ElectionTimeout") .lt (.cst (.dur 5000000)) },
  { guard := none, cond := .cmp (.fld "RaftConfig.CommitTimeout") .lt (.cst (.dur 1000000)) },
  { guard := none, cond := .cmp (.fld "RaftConfig.MaxAppendEntries") .le (.cst (.int 0)) },
  { guard := none, cond := .cmp (.fld "RaftConfig.MaxAppendEntries") .gt (.cst (.int 1024)) },
  { guard := none, cond := .cmp (.fld "RaftConfig.SnapshotInterval") .lt (.cst (.dur 5000000)) },
  { guard := none, cond := .cmp (.fld "RaftConfig.LeaderLeaseTimeout") .lt (.cst (.dur 5000000)) },
  { guard := none, cond := .cmp (.fld "RaftConfig.LeaderLeaseTimeout") .gt (.fld "RaftConfig.HeartbeatTimeout") },
  { guard := none, cond := .cmp (.fld "RaftConfig.ElectionTimeout") .lt (.fld "RaftConfig.HeartbeatTimeout") }]

def env (r : Vals) : Env := [
  ("f:RaftConfig.ProtocolVersion", .int r.pv), ("l:RaftConfig.LocalID", .int r.lid),
  ("f:RaftConfig.HeartbeatTimeout", .int r.hb), ("f:RaftConfig.ElectionTimeout", .int r.el),
  ("f:RaftConfig.CommitTimeout", .int r.ct), ("f:RaftConfig.MaxAppendEntries", .int r.mae),
  ("f:RaftConfig.SnapshotInterval", .int r.si), ("f:RaftConfig.LeaderLeaseTimeout", .int r.ll)]

/-- what hashicorp/raft calls a valid configuration -/
def Valid (r : Vals) : Prop :=
  1 ≤ r.pv ∧ r.pv ≤ 3 ∧ r.lid ≠ 0 ∧ 5 * ms ≤ r.hb ∧ 5 * ms ≤ r.el ∧ ms ≤ r.ct ∧ 1 ≤ r.mae ∧ r.mae ≤ 1024 ∧
  5 * ms ≤ r.si ∧ 5 * ms ≤ r.ll ∧ r.ll ≤ r.hb ∧ r.hb ≤ r.el

/-- hraft's own defaults (DefaultConfig) with the LocalID ipfs-cluster sets -/
def dflt : Vals := { pv := 3, lid := 25, hb := 1000 * ms, el := 1000 * ms, ct := 50 * ms, mae := 64, si := 120000 * ms, ll := 500 * ms }

/-- both sides of every bound of `ValidateConfig`, from hraft's defaults -/
def boundaryCases : List (Vals × Verdict) := [
  (dflt, .accept),
  ({ dflt with pv := 0 }, .reject), ({ dflt with pv := 1 }, .accept), ({ dflt with pv := 3 }, .accept), ({ dflt with pv := 4 }, .reject),
  ({ dflt with lid := 0 }, .reject), ({ dflt with lid := 1 }, .accept),
  ({ dflt with hb := 5 * ms, ll := 5 * ms }, .accept), ({ dflt with hb := 5 * ms - 1, ll := 5 * ms - 1 }, .reject),
  ({ dflt with hb := 5 * ms - 1, ll := 5 * ms }, .reject),
  ({ dflt with el := 5 * ms, hb := 5 * ms, ll := 5 * ms }, .accept), ({ dflt with el := 5 * ms - 1, hb := 5 * ms, ll := 5 * ms }, .reject),
  ({ dflt with ct := ms }, .accept), ({ dflt with ct := ms - 1 }, .reject), ({ dflt with ct := 0 }, .reject),
  ({ dflt with mae := 0 }, .reject), ({ dflt with mae := 1 }, .accept), ({ dflt with mae := 1024 }, .accept), ({ dflt with mae := 1025 }, .reject),
  ({ dflt with mae := -1 }, .reject),
  ({ dflt with si := 5 * ms }, .accept), ({ dflt with si := 5 * ms - 1 }, .reject),
  ({ dflt with ll := 5 * ms }, .accept), ({ dflt with ll := 5 * ms - 1 }, .reject),
  ({ dflt with ll := 1000 * ms }, .accept), ({ dflt with ll := 1000 * ms + 1 }, .reject),
  ({ dflt with el := 1000 * ms }, .accept), ({ dflt with el := 1000 * ms - 1 }, .reject), ({ dflt with hb := 1000 * ms + 1 }, .reject)]

end HRaft

/-! ## Environment-variable DECODE KINDS (kelseyhightower/envconfig v1.4.0, `processField`)

`ApplyEnvVars` of a section is `toJSONConfig; envconfig.Process(prefix, jcfg); applyJSONConfig`. `Process` decodes the TEXT of a
variable by the Go type of the JSON-struct field: string as is, bool by `strconv.ParseBool`, ints by `ParseInt(text, 0, bits)`
(base 0, NOT base 10: `0x10`, `010`, `1_000` are accepted - the model answers `undecided` on those), slices by splitting on `,`
(blank text = empty slice), maps as `k:v` pairs separated by `,` (a pair without exactly one `:` refuses the whole variable).
Durations are `string` fields of the JSON structs: envconfig passes the text on and `config.ParseDurations` (modelled as `DurJ`)
decides. The kind of every field is regenerated from the sources (`Gen.envKinds`). Texts are `List Char`. -/
namespace EnvK

inductive Kind | str | int (bits : Nat) | uint (bits : Nat) | bool | float | strList | floatList | strMap | strListMap | other
deriving DecidableEq, Repr

inductive Val
  | str (s : List Char) | int (i : Int) | bool (b : Bool) | strs (l : List (List Char))
  | pairs (l : List (List Char × List Char))
deriving DecidableEq

/-- `refuse`: `Process` returns an error (the section's `ApplyEnvVars` must return it and change nothing);
`undecided`: a form the model does not decide (base prefixes, floats) -/
inductive Res | ok (v : Val) | refuse | undecided
deriving DecidableEq

/-- `strings.Split(text, string c)` -/
def splitC (c : Char) : List Char → List (List Char)
  | [] => [[]]
  | x :: xs =>
    if x = c then [] :: splitC c xs
    else match splitC c xs with
      | [] => [[x]]
      | h :: t => (x :: h) :: t

/-- `strings.Join(parts, string c)` -/
def joinC (c : Char) : List (List Char) → List Char
  | [] => []
  | [p] => p
  | p :: q :: r => p ++ c :: joinC c (q :: r)

/-- `len(strings.TrimSpace(text)) == 0` (ASCII white space) -/
def isBlank (s : List Char) : Bool := s.all (fun c => c = ' ' || c = '\t' || c = '\n' || c = '\r')

def trues : List (List Char) := ["1", "t", "T", "TRUE", "true", "True"].map String.toList
def falses : List (List Char) := ["0", "f", "F", "FALSE", "false", "False"].map String.toList

/-- `strconv.ParseBool` -/
def decBool (s : List Char) : Res :=
  if s ∈ trues then .ok (.bool true) else if s ∈ falses then .ok (.bool false) else .refuse

def natOfDigits (s : List Char) : Nat := s.foldl (fun a c => a * 10 + (c.toNat - 48)) 0

/-- `strconv.ParseInt(text, 0, bits)` / `ParseUint`: plain decimal forms are decided; a leading `0` followed by more, or an
underscore, is a base-0 form (`undecided`); anything else is refused; out of range is refused -/
def decInt (signed : Bool) (bits : Nat) (s : List Char) : Res :=
  let (neg, body) := match s with
    | '-' :: r => (true, r)
    | '+' :: r => (false, r)
    | r => (false, r)
  if body.isEmpty then .refuse
  else if (neg || s.head? == some '+') && !signed then .refuse
  else if body.all Char.isDigit then
    if body.head? == some '0' && body.length > 1 then .undecided
    else
      let n := natOfDigits body
      if signed then
        if neg then (if n ≤ 2 ^ (bits - 1) then .ok (.int (- (n : Int))) else .refuse)
        else (if n < 2 ^ (bits - 1) then .ok (.int n) else .refuse)
      else (if n < 2 ^ bits then .ok (.int n) else .refuse)
  else if body.head? == some '0' || body.contains '_' then .undecided
  else .refuse

/-- the `k:v` pairs of a map variable: every piece must split on `:` into exactly two parts -/
def decPairs : List (List Char) → Option (List (List Char × List Char))
  | [] => some []
  | p :: ps =>
    match splitC ':' p with
    | [k, v] => (decPairs ps).map ((k, v) :: ·)
    | _ => none

def envDecode : Kind → List Char → Res
  | .str, s => .ok (.str s)
  | .bool, s => decBool s
  | .int b, s => decInt true b s
  | .uint b, s => decInt false b s
  | .strList, s => if isBlank s then .ok (.strs []) else .ok (.strs (splitC ',' s))
  | .strMap, s | .strListMap, s =>
    if isBlank s then .ok (.pairs [])
    else match decPairs (splitC ',' s) with
      | some l => .ok (.pairs l)
      | none => .refuse
  | _, _ => .undecided

/-- canonical text of a decoded value (what the harness prints for the saved JSON value) -/
def Val.show : Val → String
  | .str s => String.mk s
  | .int i => toString i
  | .bool b => toString b
  | .strs l => String.mk (joinC ',' l)
  | .pairs l => String.mk (joinC ',' (l.map fun (k, v) => k ++ ':' :: v))

def Res.show : Res → String
  | .ok v => "ok:" ++ v.show
  | .refuse => "refuse"
  | .undecided => "undecided"

def parseKind : String → Kind
  | "str" => .str | "bool" => .bool | "float" => .float | "strList" => .strList | "floatList" => .floatList
  | "strMap" => .strMap | "strListMap" => .strListMap
  | "int64" => .int 64 | "int32" => .int 32 | "uint64" => .uint 64 | "uint32" => .uint 32
  | _ => .other

end EnvK


end CV.C15
