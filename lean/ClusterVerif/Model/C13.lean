import ClusterVerif.Model.Pin
import ClusterVerif.Gen.C13
/-!
C13 — model of the DAG-service bookkeeping of the adders over an abstract
block stream (core Lean only).

What is modelled (anchors: adder/util.go `BlockAdder.Add`, `BlockAllocate`, `Pin`;
adder/single/dag_service.go; adder/sharding/{dag_service.go, shard.go, dag.go};
adder/adder.go for the calling contract "Add every block, stop at the first
error, then Finalize with the importer's root"):

* a block is an identifier (its CID, numbered by first appearance) and the length
  of its raw data; shard / cluster-DAG nodes are numbered `metaBase + k` in the
  order they are first handed to a `BlockPut`;
* the cluster side is scripted: the k-th `BlockAllocate` answers `allocs[k mod n]`
  (or fails), the k-th `Cluster.Pin` succeeds or fails, and the j-th `BlockPut`
  received by a destination succeeds, fails as an IPFS error or fails as an RPC
  error (`faults`);
* `BlockAdder.Add`: one put per current destination; the call fails iff every
  put returned an error or no destination is left; destinations whose put failed
  with an RPC error are dropped for the following blocks, destinations that
  returned an IPFS error are kept;
* single: allocate at the first block, put every block (repeated blocks too) to
  the allocated peers (to the local peer only with `local`), pin the root with
  the allocated peers;
* sharding: skip blocks already seen; a block joins the current shard iff
  `size + current < limit`; otherwise the shard is flushed (node(s) built by
  `makeDAG`, put to the shard's destinations, shard pinned with depth 1 or 2) and
  the block retried on a fresh shard, an error if it does not fit an empty one;
  `Finalize` flushes the last shard, stores the cluster-DAG node(s) on the local
  peer, pins the cluster DAG (direct, everywhere) and the meta entry.
-/
namespace CV.C13

def metaBase : Nat := 1000000
def unknownId : Nat := 999999

structure Blk where
  id : Nat
  size : Nat
  deriving DecidableEq, Repr, Inhabited

inductive PutOut where
  | ok | ipfs | rpc
  deriving DecidableEq, Repr

structure Attempt where
  peer : Nat
  out : PutOut
  deriving DecidableEq, Repr

inductive Ev where
  | alloc (ok : Bool)
  | put (blk : Nat) (atts : List Attempt)
  | pin (p : Pin) (ok : Bool)
  deriving DecidableEq, Repr

structure Node where
  id : Nat
  links : List Nat
  deriving DecidableEq, Repr

structure Fault where
  peer : Nat
  start : Nat
  count : Nat
  kind : PutOut
  deriving DecidableEq, Repr

/-- the input part of a case -/
structure Cfg where
  shard : Bool
  «local» : Bool
  opts : Opts
  allocs : List (List Nat)
  afail : List Nat
  pfail : List Nat
  faults : List Fault
  deriving Repr

/-- what the scripted cluster side has seen so far -/
structure Env where
  cnt : List (Nat × Nat)       -- BlockPut attempts received per destination
  nAlloc : Nat
  nPin : Nat
  named : List Node            -- every cbor node handed to a BlockPut so far (the k-th one is numbered metaBase + k)
  log : List Ev                -- newest first
  nodes : List Node            -- delivered cbor nodes, newest first
  pins : List (Pin × Bool)     -- Pin calls in order, with their outcome
  deriving Repr

def Env.init : Env := { cnt := [], nAlloc := 0, nPin := 0, named := [], log := [], nodes := [], pins := [] }

def countOf (cnt : List (Nat × Nat)) (p : Nat) : Nat :=
  match cnt.find? (fun x => x.1 == p) with
  | some x => x.2
  | none => 0

def bump (cnt : List (Nat × Nat)) (p : Nat) : List (Nat × Nat) :=
  if cnt.any (fun x => x.1 == p) then cnt.map (fun x => if x.1 == p then (x.1, x.2 + 1) else x)
  else cnt ++ [(p, 1)]

def outcomeAt (faults : List Fault) (p j : Nat) : PutOut :=
  match faults.find? (fun f => f.peer == p && decide (f.start ≤ j) && decide (j < f.start + f.count)) with
  | some f => f.kind
  | none => .ok

/-- the puts of one `MultiCall`: one attempt per destination -/
def attempts (faults : List Fault) : List (Nat × Nat) → List Nat → List (Nat × Nat) × List Attempt
  | cnt, [] => (cnt, [])
  | cnt, p :: ps =>
    let a : Attempt := ⟨p, outcomeAt faults p (countOf cnt p)⟩
    let r := attempts faults (bump cnt p) ps
    (r.1, a :: r.2)

def insertAtt (a : Attempt) : List Attempt → List Attempt
  | [] => [a]
  | x :: xs => if a.peer ≤ x.peer then a :: x :: xs else x :: insertAtt a xs

def sortAtts (l : List Attempt) : List Attempt := l.foldr insertAtt []

/-- `BlockAdder.Add`: `none` = ErrBlockAdder, `some d` = the destinations kept -/
def putRound (c : Cfg) (e : Env) (dests : List Nat) (blk : Nat) : Env × Option (List Nat) :=
  let r := attempts c.faults e.cnt dests
  let atts := r.2
  let numErrs := (atts.filter (fun a => a.out != .ok)).length
  let succ := (atts.filter (fun a => a.out != .rpc)).map (·.peer)
  let e' : Env := { e with cnt := r.1, log := if dests.isEmpty then e.log else .put blk (sortAtts atts) :: e.log }
  if numErrs == dests.length || succ.isEmpty then (e', none) else (e', some succ)

/-- `adder.BlockAllocate` against the script -/
def allocate (c : Cfg) (e : Env) : Env × Option (List Nat) :=
  let k := e.nAlloc
  if c.afail.contains k then ({ e with nAlloc := k + 1, log := .alloc false :: e.log }, none)
  else
    let a := if c.allocs.isEmpty then [] else c.allocs.getD (k % c.allocs.length) []
    ({ e with nAlloc := k + 1, log := .alloc true :: e.log }, some a)

/-- `adder.Pin`: replicate-everywhere pins carry no allocations -/
def sentPin (p : Pin) : Pin := if p.opts.rmin < 0 then { p with allocs := [] } else p

def pinCall (c : Cfg) (e : Env) (p : Pin) : Env × Bool :=
  let ok := !c.pfail.contains e.nPin
  ({ e with nPin := e.nPin + 1, log := .pin (sentPin p) ok :: e.log, pins := e.pins ++ [(sentPin p, ok)] }, ok)

/-- the options the DAG services work with (`opts.Mode = api.PinModeRecursive`) -/
def workOpts (c : Cfg) : Opts := { c.opts with mode := .recursive }

inductive Status where
  | ok | fail | panic
  deriving DecidableEq, Repr

/-! ### single.DAGService -/

structure SSt where
  env : Env
  dests : Option (List Nat)    -- `dgs.dests` (nil until allocated)
  ba : List Nat                -- the BlockAdder's current destinations
  deriving Repr

def SSt.init : SSt := { env := Env.init, dests := none, ba := [] }

def singlePut (c : Cfg) (s : SSt) (b : Blk) : SSt × Status :=
  match putRound c s.env s.ba b.id with
  | (e, none) => ({ s with env := e }, .fail)
  | (e, some d) => ({ s with env := e, ba := d }, .ok)

def singleAdd (c : Cfg) (s : SSt) (b : Blk) : SSt × Status :=
  match s.dests with
  | some _ => singlePut c s b
  | none =>
    match allocate c s.env with
    | (e, none) => ({ s with env := e }, .fail)
    | (e, some d) => singlePut c { env := e, dests := some d, ba := if c.local then [0] else d } b

def singleAddAll (c : Cfg) : SSt → List Blk → Nat → List Nat → SSt × List Nat
  | s, [], _, failed => (s, failed)
  | s, b :: bs, i, failed =>
    match singleAdd c s b with
    | (s1, .ok) => singleAddAll c s1 bs (i + 1) failed
    | (s1, _) => singleAddAll c s1 bs (i + 1) (failed ++ [i])

def rootPin (c : Cfg) (root : Nat) (dests : List Nat) : Pin :=
  { pinWithOpts root (workOpts c) with allocs := dests }

def singleFinalize (c : Cfg) (s : SSt) (root : Nat) : SSt × Status :=
  match pinCall c s.env (rootPin c root (s.dests.getD [])) with
  | (e, true) => ({ s with env := e, dests := none }, .ok)
  | (e, false) => ({ s with env := e, dests := none }, .fail)

/-! ### sharding.DAGService -/

structure Cur where
  allocs : List Nat            -- `shard.allocations`
  dests : List Nat             -- the shard's BlockAdder destinations
  blocks : List Blk            -- links in order
  deriving Repr

def Cur.size (k : Cur) : Nat := (k.blocks.map (·.size)).sum

/-- a flushed and pinned shard -/
structure ShardRec where
  pin : Pin
  blocks : List Blk
  allocs : List Nat
  nnodes : Nat
  deriving Repr

structure ShSt where
  env : Env
  added : List Nat             -- CIDs visited, in order of first visit
  cur : Option Cur
  prev : Option Nat
  shards : List ShardRec
  deriving Repr

def ShSt.init : ShSt := { env := Env.init, added := [], cur := none, prev := none, shards := [] }

def shardName (n k : Nat) : Nat := (k + 2) * 1000 + n
def cdagName (n : Nat) : Nat := 1000 + n

/-- split into consecutive pieces of `n` (n > 0) -/
def piecesAux (n : Nat) : Nat → List Nat → List (List Nat)
  | 0, _ => []
  | fuel + 1, l => l.take n :: piecesAux n fuel (l.drop n)

/-- the number a node with these links already has (same links = same CID) -/
def nodeId (named : List Node) (links : List Nat) : Option Nat :=
  (named.find? (fun n => n.links == links)).map (·.id)

def leafIds (named : List Node) : Nat → List (List Nat) → List Nat
  | _, [] => []
  | next, l :: ls =>
    match nodeId named l with
    | some id => id :: leafIds named next ls
    | none => (metaBase + next) :: leafIds named (next + 1) ls

/-- `makeDAG`: the nodes in the order they are put (root first). Link lists of
    more than `MaxLinks` entries get `len / MaxLinks + 1` leaves (the last one
    possibly empty) under one indirect node. Nodes are numbered by first put. -/
def makeDAG (named : List Node) (links : List Nat) : List Node :=
  if links.length ≤ Gen.maxLinks then [⟨(nodeId named links).getD (metaBase + named.length), links⟩]
  else
    let nleaves := links.length / Gen.maxLinks + 1
    let leaves := piecesAux Gen.maxLinks nleaves links
    let ids := leafIds named (named.length + 1) leaves
    let allOld := leaves.all (fun l => (nodeId named l).isSome)
    let rootId := if allOld then (nodeId named ids).getD (metaBase + named.length) else metaBase + named.length
    ⟨rootId, ids⟩ :: (ids.zip leaves).map (fun (x : Nat × List Nat) => (⟨x.1, x.2⟩ : Node))

def addNamed (named : List Node) (n : Node) : List Node :=
  if named.any (fun x => x.id == n.id) then named else named ++ [n]

def addDelivered (nodes : List Node) (n : Node) : List Node :=
  if nodes.any (fun x => x.id == n.id) then nodes else n :: nodes

/-- `BlockAdder.AddMany`: the destinations left, and whether every node was stored -/
def putMany (c : Cfg) : Env → List Nat → List Node → Env × List Nat × Bool
  | e, d, [] => (e, d, true)
  | e, d, n :: ns =>
    let e0 : Env := { e with named := addNamed e.named n }
    match putRound c e0 d n.id with
    | (e1, none) => (e1, d, false)
    | (e1, some d1) => putMany c { e1 with nodes := addDelivered e1.nodes n } d1 ns

/-- `len(nodes) > 1` as the guard stands in shard.Flush -/
def indirectGuard (nnodes nlinks : Nat) : Bool :=
  decide (nnodes > (if Gen.guardUsesLinks then nlinks else 0) + Gen.guardConst)

def shardPin (c : Cfg) (root : Nat) (k : Cur) (n : Nat) (prev : Option Nat) (nnodes : Nat) : Pin :=
  let o := workOpts c
  { cid := root, type := .shardT,
    opts := { o with name := shardName o.name n, shard := k.size },
    depth := if indirectGuard nnodes k.blocks.length then Gen.depthIndirect else Gen.depthDirect,
    allocs := k.allocs, ref := prev }

def rootOf (nodes : List Node) : Nat :=
  match nodes with
  | n :: _ => n.id
  | [] => 0

def flushNodes (s : ShSt) (k : Cur) : List Node := makeDAG s.env.named (k.blocks.map (·.id))

def flushPin (c : Cfg) (s : ShSt) (k : Cur) : Pin :=
  shardPin c (rootOf (flushNodes s k)) k s.shards.length s.prev (flushNodes s k).length

/-- the shard record a successful flush appends -/
def flushRec (c : Cfg) (s : ShSt) (k : Cur) : ShardRec :=
  { pin := sentPin (flushPin c s k), blocks := k.blocks, allocs := k.allocs, nnodes := (flushNodes s k).length }

/-- `shard.Flush` + the bookkeeping of `flushCurrentShard`. A failed flush leaves the shard
    current (with the destinations that are left). -/
def flush (c : Cfg) (s : ShSt) (k : Cur) : ShSt × Status :=
  match putMany c s.env k.dests (flushNodes s k) with
  | (e1, d1, false) => ({ s with env := e1, cur := some { k with dests := d1 } }, .fail)
  | (e1, d1, true) =>
    match pinCall c e1 (flushPin c s k) with
    | (e2, false) => ({ s with env := e2, cur := some { k with dests := d1 } }, .fail)
    | (e2, true) =>
      ({ s with env := e2, cur := none, prev := some (rootOf (flushNodes s k)), shards := s.shards ++ [flushRec c s k] }, .ok)

/-- `newShard` -/
def newShard (c : Cfg) (s : ShSt) : ShSt × Status × Cur :=
  match allocate c s.env with
  | (e, none) => ({ s with env := e }, .fail, ⟨[], [], []⟩)
  | (e, some a) =>
    if c.opts.rmin > 0 && a.isEmpty then ({ s with env := e }, .panic, ⟨[], [], []⟩)
    else
      let k : Cur := ⟨a, a, []⟩
      ({ s with env := e, cur := some k }, .ok, k)

def fits (cur size limit : Nat) : Bool :=
  if Gen.fitStrict then decide (cur + size < limit) else decide (cur + size ≤ limit)

/-- `AddLink` then the shard's `BlockAdder.Add` (the link stays when the put fails) -/
def addToCur (c : Cfg) (s : ShSt) (k : Cur) (b : Blk) : ShSt × Status :=
  let k1 : Cur := { k with blocks := k.blocks ++ [b] }
  match putRound c s.env k.dests b.id with
  | (e, none) => ({ s with env := e, cur := some k1 }, .fail)
  | (e, some d) => ({ s with env := e, cur := some { k1 with dests := d } }, .ok)

/-- `ingestBlock` with no current shard (also the retry after a flush): a new shard, which is
    empty, so a block that does not fit it is an error -/
def ingestFresh (c : Cfg) (s : ShSt) (b : Blk) : ShSt × Status :=
  match newShard c s with
  | (s1, .ok, k) => if fits k.size b.size c.opts.shard then addToCur c s1 k b else (s1, .fail)
  | (s1, st, _) => (s1, st)

/-- `ingestBlock` with current shard `k` -/
def ingestIn (c : Cfg) (s : ShSt) (k : Cur) (b : Blk) : ShSt × Status :=
  if fits k.size b.size c.opts.shard then addToCur c s k b
  else if k.size == 0 then (s, .fail)
  else
    match flush c s k with
    | (s1, .ok) => ingestFresh c s1 b
    | (s1, st) => (s1, st)

def ingest (c : Cfg) (s : ShSt) (b : Blk) : ShSt × Status :=
  match s.cur with
  | some k => ingestIn c s k b
  | none => ingestFresh c s b

/-- `DAGService.Add`: blocks seen before are skipped -/
def shAdd (c : Cfg) (s : ShSt) (b : Blk) : ShSt × Status :=
  if s.added.contains b.id then (s, .ok) else ingest c { s with added := s.added ++ [b.id] } b

/-- every block of the stream in turn. A failed Add does not stop the stream here: whether the
    caller goes on is the importer's business (it stops - except where go-unixfs drops the error);
    the indices of the failed Adds are collected. A panic ends everything. -/
def shAddAll (c : Cfg) : ShSt → List Blk → Nat → List Nat → ShSt × Bool × List Nat
  | s, [], _, failed => (s, false, failed)
  | s, b :: bs, i, failed =>
    match shAdd c s b with
    | (s1, .ok) => shAddAll c s1 bs (i + 1) failed
    | (s1, .fail) => shAddAll c s1 bs (i + 1) (failed ++ [i])
    | (s1, .panic) => (s1, true, failed ++ [i])

def cdagPin (c : Cfg) (cdag root : Nat) : Pin :=
  let o := workOpts c
  { cid := cdag, type := .clusterDagT,
    opts := { o with rmin := -1, rmax := -1, mode := .direct, name := cdagName o.name },
    depth := 0, allocs := [], ref := some root }

def metaPin (c : Cfg) (cdag root : Nat) : Pin :=
  { cid := root, type := .metaT, opts := workOpts c, depth := modeToDepth (workOpts c).mode, allocs := [],
    ref := some cdag }

def cdagNodes (s : ShSt) : List Node := makeDAG s.env.named (s.shards.map (·.pin.cid))

/-- after the last flush: store the cluster DAG on the local peer, pin it, pin the meta entry -/
def finishCdag (c : Cfg) (s1 : ShSt) (root : Nat) : ShSt × Status × Option Nat :=
  let cdag := rootOf (cdagNodes s1)
  match putMany c s1.env [0] (cdagNodes s1) with
  | (e2, _, false) => ({ s1 with env := e2 }, .fail, none)
  | (e2, _, true) =>
    match pinCall c e2 (cdagPin c cdag root) with
    | (e3, false) => ({ s1 with env := e3 }, .fail, none)
    | (e3, true) =>
      match pinCall c e3 (metaPin c cdag root) with
      | (e4, false) => ({ s1 with env := e4 }, .fail, some cdag)
      | (e4, true) => ({ s1 with env := e4 }, .ok, some cdag)

/-- `Finalize`: flush the last shard, store and pin the cluster DAG, pin the meta entry.
    The third component is the cluster-DAG root when it was pinned. -/
def shFinalize (c : Cfg) (s : ShSt) (root : Nat) : ShSt × Status × Option Nat :=
  match s.cur with
  | none => (s, .fail, none)
  | some k =>
    match flush c s k with
    | (s1, .ok) => finishCdag c s1 root
    | (s1, st) => (s1, st, none)

/-! ### a whole add: every block, then Finalize -/

/-- the view of a run that the property talks about (what the Spec inspects) -/
structure ShardV where
  pin : Pin
  blocks : List Nat            -- the data blocks reachable through its node(s), in link order
  height : Nat                 -- 1: the pinned node links the blocks; 2: it links leaves that do; 0: unresolvable
  sent : List Nat              -- destinations that were handed one of its blocks (sorted)
  deriving DecidableEq, Repr

structure View where
  ok : Bool
  root : Nat
  stream : List Blk
  pinsOk : List Pin            -- pins accepted by Cluster.Pin, in order
  shards : List ShardV         -- one per accepted shard pin, in order
  cdagLinks : Option (List Nat)
  sentAll : List Nat           -- destinations that were handed a block of the stream (sorted)
  delivered : Bool             -- every block of the stream was accepted by at least one destination
  closure : Bool
  readback : Bool
  rootPlain : Bool
  rootImporter : Bool
  deriving DecidableEq, Repr

/-- some destination accepted (stored) this block -/
def acceptedBy (log : List Ev) (id : Nat) : Bool :=
  log.any (fun e => match e with
    | .put b atts => b == id && atts.any (fun a => a.out == .ok)
    | _ => false)

def allDelivered (log : List Ev) (stream : List Blk) : Bool := stream.all (fun b => acceptedBy log b.id)

def insertNat (a : Nat) : List Nat → List Nat
  | [] => [a]
  | x :: xs => if a < x then a :: x :: xs else if a == x then x :: xs else x :: insertNat a xs

/-- sorted, without repetitions -/
def sortDedup (l : List Nat) : List Nat := l.foldr insertNat []

structure Out where
  status : Status              -- of Finalize when it was reached (.fail when it was not; .panic after a panic)
  failed : List Nat            -- stream positions whose Add returned an error
  finalized : Bool
  root : Nat
  log : List Ev                -- in order
  nodes : List Node            -- in order of delivery
  pins : List (Pin × Bool)
  shards : List ShardRec
  cdag : Option Nat
  sentAll : List Nat
  deriving Repr

def acceptedPins (l : List (Pin × Bool)) : List Pin := l.filterMap (fun x => if x.2 then some x.1 else none)

/-- a link to a node that was never handed to a put has no number -/
def fixLinks (named : List Node) (n : Node) : Node :=
  { n with links := n.links.map (fun l => if decide (metaBase ≤ l) && !named.any (fun x => x.id == l) then unknownId else l) }

def deliveredNodes (e : Env) : List Node := (e.nodes.reverse).map (fixLinks e.named)

def sentOf (c : Cfg) (dests : Option (List Nat)) : List Nat :=
  match dests with
  | some d => sortDedup (if c.local then [0] else d)
  | none => []

def runSingle (c : Cfg) (stream : List Blk) (fin : Option Nat) : Out :=
  match singleAddAll c SSt.init stream 0 [] with
  | (s, failed) =>
    match fin with
    | none => { status := .fail, failed := failed, finalized := false, root := 0, log := s.env.log.reverse, nodes := deliveredNodes s.env,
                pins := s.env.pins, shards := [], cdag := none, sentAll := sentOf c s.dests }
    | some r =>
      match singleFinalize c s r with
      | (s1, st) => { status := st, failed := failed, finalized := true, root := r, log := s1.env.log.reverse, nodes := deliveredNodes s1.env,
                      pins := s1.env.pins, shards := [], cdag := none, sentAll := sentOf c s.dests }

def runShard (c : Cfg) (stream : List Blk) (fin : Option Nat) : Out :=
  match shAddAll c ShSt.init stream 0 [] with
  | (s, true, failed) =>
    { status := .panic, failed := failed, finalized := false, root := 0, log := s.env.log.reverse, nodes := deliveredNodes s.env,
      pins := s.env.pins, shards := s.shards, cdag := none, sentAll := [] }
  | (s, false, failed) =>
    match fin with
    | none => { status := .fail, failed := failed, finalized := false, root := 0, log := s.env.log.reverse, nodes := deliveredNodes s.env,
                pins := s.env.pins, shards := s.shards, cdag := none, sentAll := [] }
    | some r =>
      match shFinalize c s r with
      | (s1, st, cd) => { status := st, failed := failed, finalized := true, root := r, log := s1.env.log.reverse, nodes := deliveredNodes s1.env,
                          pins := s1.env.pins, shards := s1.shards, cdag := cd, sentAll := [] }

def run (c : Cfg) (stream : List Blk) (fin : Option Nat) : Out :=
  if c.shard then runShard c stream fin else runSingle c stream fin

def shardView (r : ShardRec) : ShardV :=
  { pin := r.pin, blocks := r.blocks.map (·.id), height := if r.nnodes > 1 then 2 else 1, sent := sortDedup r.allocs }

/-- the model's view of its own run; the four content facts are not modelled and come from outside -/
def Out.view (o : Out) (stream : List Blk) (closure readback rootPlain rootImporter : Bool) : View :=
  { ok := o.status == .ok, root := if o.status == .ok then o.root else 0, stream := stream,
    pinsOk := acceptedPins o.pins,
    shards := o.shards.map shardView,
    cdagLinks := o.cdag.map (fun _ => o.shards.map (·.pin.cid)),
    sentAll := o.sentAll,
    delivered := allDelivered o.log stream,
    closure := closure, readback := readback, rootPlain := rootPlain, rootImporter := rootImporter }

/-- inputs the model is meant for: allocation lists without repetitions, block ids below the node numbers,
    one size per block id -/
def nodupNat : List Nat → Bool
  | [] => true
  | x :: xs => !xs.contains x && nodupNat xs

def consistent : List Blk → Bool
  | [] => true
  | b :: bs => bs.all (fun x => x.id != b.id || x.size == b.size) && consistent bs

def wf (c : Cfg) (stream : List Blk) : Bool :=
  c.allocs.all nodupNat && stream.all (fun b => decide (0 < b.id) && decide (b.id < unknownId)) && consistent stream

end CV.C13
