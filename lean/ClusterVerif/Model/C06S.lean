import ClusterVerif.Model.C06
import ClusterVerif.Gen.C06
/-!
# C06, round 8 — the status filter from the command line / URL to the tracker

Model of `api/types.go` `TrackerStatus.Match`, `TrackerStatus.String`,
`TrackerStatusFromString`, of the filter guards of `statusAllHandler`
(api/rest/restapi.go), `defaultClient.StatusAll` (api/rest/client/methods.go) and
`ipfs-cluster-ctl status --filter`, all of them INTERPRETED from tables and
expressions that `harness/extract_c06` regenerates from the source with go/ast:

* `Gen.statusNames` — the `trackerStatusString` map literal in source order;
* `Gen.matchExpr`, `Gen.stringLoopCond`, `Gen.restGuard`, `Gen.ctlGuard`,
  `Gen.clientGuard` — Go expressions in prefix notation, evaluated by `evalP`;
* `Gen.fromStrip`, `Gen.fromSep`, `Gen.stringJoin` — the characters
  `TrackerStatusFromString` removes / splits on, the separator `String` joins with.

Go's map iteration order is open: `String` is modelled for an arbitrary `order`
(a permutation of the table). Core Lean only.
-/
namespace CV.C06

/-! ## interpreter for the regenerated expressions -/

def b2n (b : Bool) : Nat := if b then 1 else 0

/-- binary operators by code: 1 || 2 && 3 == 4 != 5 > 6 >= 7 < 8 <= 9 & 10 | -/
def binOp (op a b : Nat) : Option Nat :=
  if op == 1 then some (b2n (a != 0 || b != 0))
  else if op == 2 then some (b2n (a != 0 && b != 0))
  else if op == 3 then some (b2n (a == b))
  else if op == 4 then some (b2n (a != b))
  else if op == 5 then some (b2n (decide (a > b)))
  else if op == 6 then some (b2n (decide (a ≥ b)))
  else if op == 7 then some (b2n (decide (a < b)))
  else if op == 8 then some (b2n (decide (a ≤ b)))
  else if op == 9 then some (a &&& b)
  else if op == 10 then some (a ||| b)
  else none

/-- one token, read right to left, on a value stack (`none` = refused) -/
def stepTok (v0 v1 : Nat) (tok : Nat × Nat) (st : Option (List Nat)) : Option (List Nat) :=
  match st with
  | none => none
  | some s =>
    if tok.1 == 0 then some (tok.2 :: s)
    else if tok.1 == 1 then (if tok.2 == 0 then some (v0 :: s) else if tok.2 == 1 then some (v1 :: s) else none)
    else if tok.1 == 2 then
      (if tok.2 == 11 then
        match s with
        | a :: r => some (b2n (a == 0) :: r)
        | [] => none
      else
        match s with
        | a :: b :: r => (binOp tok.2 a b).map (· :: r)
        | _ => none)
    else none

/-- value of a prefix expression (`none`: unknown token or ill-formed) -/
def evalP (e : List (Nat × Nat)) (v0 v1 : Nat) : Option Nat :=
  match e.foldr (stepTok v0 v1) (some []) with
  | some [x] => some x
  | _ => none

/-- `st.Match(filter)` as today's source computes it -/
def matchG (st filter : Nat) : Bool := evalP Gen.matchExpr st filter == some 1

/-! ## the name table -/

def namesC : List (List Char × Nat) := Gen.statusNames.map (fun e => (e.1.toList, e.2))

/-- `stringTrackerStatus[v]` (the inverted table built in `init()`) -/
def lookupName (t : List Char) : Option Nat := (namesC.find? (fun e => e.1 == t)).map (·.2)

/-- or of every value of the table: the bits that have a name -/
def namedMask : Nat := namesC.foldl (fun a e => a ||| e.2) 0

/-! ## TrackerStatusFromString -/

def sepChar : Char := (Gen.fromSep.toList.head?).getD '?'
def joinChar : Char := (Gen.stringJoin.toList.head?).getD '?'

def stripC (cs : List Char) : List Char := cs.filter (fun c => !Gen.fromStrip.toList.contains c)

/-- `strings.Split(s, sep)` for a one-character separator -/
def splitOnC (sep : Char) : List Char → List (List Char)
  | [] => [[]]
  | c :: cs =>
    if c == sep then [] :: splitOnC sep cs
    else match splitOnC sep cs with
      | [] => [[c]]
      | t :: ts => (c :: t) :: ts

/-- `strings.Join(toks, sep)` -/
def joinC (sep : Char) : List (List Char) → List Char
  | [] => []
  | [t] => t
  | t :: ts => t ++ sep :: joinC sep ts

/-- one turn of the loop: `st, ok := stringTrackerStatus[v]; if ok { status |= st }` -/
def orStep (a : Nat) (t : List Char) : Nat :=
  match lookupName t with
  | some k => a ||| k
  | none => a

/-- the loop over the tokens (unknown names are skipped) -/
def parseToks (toks : List (List Char)) : Nat := toks.foldl orStep 0

def parseC (cs : List Char) : Nat :=
  if Gen.fromCombine == "|" then parseToks (splitOnC sepChar (stripC cs)) else 0

def parseFilter (s : String) : Nat := parseC s.toList

/-! ## TrackerStatus.String -/

/-- the condition under which `String` names a table entry `k` for the filter `st` -/
def loopCondG (st k : Nat) : Bool := evalP Gen.stringLoopCond st k == some 1

/-- the readable form: `k != 0 && st & k == k` -/
def loopCond (st k : Nat) : Bool := k != 0 && (st &&& k) == k

def printToks (order : List (List Char × Nat)) (f : Nat) : List (List Char) :=
  match (if Gen.stringExactFirst then namesC.find? (fun e => e.2 == f) else none) with
  | some e => [e.1]
  | none => (order.filter (fun e => loopCondG f e.2)).map (·.1)

def printC (order : List (List Char × Nat)) (f : Nat) : List Char := joinC joinChar (printToks order f)

/-! ## the guards around the filter -/

/-- `statusAllHandler`: the filter handed to the RPC, `none` = 400 Bad Request -/
def restFilter (cs : List Char) : Option Nat :=
  let f := parseC cs
  match evalP Gen.restGuard f (b2n (!cs.isEmpty)) with
  | some 0 => some f
  | _ => none

/-- `ipfs-cluster-ctl status --filter` -/
def ctlFilter (cs : List Char) : Option Nat :=
  let f := parseC cs
  match evalP Gen.ctlGuard f (b2n (!cs.isEmpty)) with
  | some 0 => some f
  | _ => none

/-- REST client + REST server: the filter that reaches `Cluster.StatusAll[Local]` when the
client is called with the mask `f` (`none`: refused by the client or by the server). The text
goes through `url.QueryEscape` / `URL.Query()`, which is the identity on it (trusted). -/
def endToEnd (order : List (List Char × Nat)) (f : Nat) : Option Nat :=
  let s := printC order f
  match evalP Gen.clientGuard f (b2n (!s.isEmpty)) with
  | some 0 => if f == 0 then restFilter [] else restFilter s
  | _ => none

end CV.C06
