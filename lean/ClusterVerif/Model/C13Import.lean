/-
C13 — the importer front-end of an add: what `adder/adder.go` (`FromFiles`: wrap, one `Add` per
top-level entry), `adder/ipfsadd/add.go` (`addFile`, `addDir`, `addSymlink`, `AddAllAndPin`) and the
libraries they drive build out of a file tree, as total functions. Core Lean only.

* `chunk` — go-ipfs-chunker `sizeSplitterv2.NextBytes` (`size-N`, and the default = `size-262144`):
  `io.ReadFull` of N bytes; a short read is the last chunk; a read of nothing ends the stream, so there is
  never an empty chunk and the empty file has no chunk at all. (`size-0` is refused by `FromString`; rabin and
  buzhash boundaries are not modelled: for them the chunk list is taken from the observation.)
* `balanced` — go-unixfs `importer/balanced` `Layout` / `fillNodeRec`: no chunk = one empty leaf; one chunk =
  that leaf is the root; otherwise the current root becomes the first child of a new root of depth+1 which
  is filled with up to `W` children (`W = DefaultLinksPerBlock = 174`) of depth-1 sub-DAGs, until no data is left.
* `trickle` — `importer/trickle` `Layout` / `fillTrickleRec`: the root always is an inner node; first up to `W`
  leaves, then for depth 1, 2, 3 … up to 4 (`depthRepeat`) sub-DAGs of that depth while data is left.
* leaves: raw blocks with raw-leaves, else unixfs nodes of type `File` (balanced) / `Raw` (trickle).
* every builder returns, with the node, the file size it *recorded* for it (the running sum the Go code keeps
  in `FSNode.blocksizes`) and the blocks it handed to `DAGService.Add` while building (`AddChild` adds the
  child), in order. That these are the true sizes and the post-order of the tree are theorems, not definitions.
* hashing is abstracted: a block is the tree node itself; a CID function is a parameter wherever one is needed.
* directories: go-mfs / go-unixfs basic directories; go-merkledag encodes links sorted by name; the hidden
  filter of go-ipfs-files `NewSerialFile` (used by the REST client and `ipfs-cluster-ctl add`) drops entries
  whose name starts with a dot below the top-level paths unless `hidden` is set.
-/
namespace CV.C13.Imp

/-! ## the size splitter -/

def chunkAux {β : Type} (n : Nat) : Nat → List β → List (List β)
  | 0, _ => []
  | fuel + 1, xs => if xs.isEmpty then [] else xs.take n :: chunkAux n fuel (xs.drop n)

/-- `size-n`: pieces of `n` items, the last one shorter; nothing for the empty input -/
def chunk {β : Type} (n : Nat) (xs : List β) : List (List β) := chunkAux n xs.length xs

def chunkLensAux (n : Nat) : Nat → Nat → List Nat
  | 0, _ => []
  | fuel + 1, len => if len = 0 then [] else min n len :: chunkLensAux n fuel (len - n)

/-- the chunk lengths of a file of `len` bytes (what the driver uses: contents are not on the case line) -/
def chunkLens (n len : Nat) : List Nat := chunkLensAux n len len

/-! ## file DAGs -/

inductive LeafKind where
  | raw    -- a raw block (raw-leaves)
  | file   -- unixfs protobuf node of type File carrying the data (balanced layout)
  | rawpb  -- unixfs protobuf node of type Raw carrying the data (trickle layout)
  deriving DecidableEq, Repr, Inhabited

inductive FNode (α : Type) where
  | leaf (kind : LeafKind) (data : α)
  | inner (kids : List (FNode α)) (sizes : List Nat)   -- links in order; recorded `blocksizes`
  deriving Repr, Inhabited

/-- what a builder call returns: the node, the file size recorded for it, the blocks it added below it -/
structure Built (α : Type) where
  node : FNode α
  size : Nat
  below : List (FNode α)

/-- everything a finished builder call has handed to `Add` once its caller has linked it -/
def Built.emitted {α : Type} (b : Built α) : List (FNode α) := b.below ++ [b.node]

/-- `FSNodeOverDag` with its children: `AddChild` appends the link, the child's file size, and adds the child -/
def mkInner {α : Type} (ks : List (Built α)) : Built α :=
  { node := .inner (ks.map (·.node)) (ks.map (·.size)),
    size := (ks.map (·.size)).sum,
    below := ks.flatMap (·.emitted) }

/-- the loop `for node.NumChildren() < max && !db.Done() { child := mk(); node.AddChild(child) }` with `room`
    free places -/
def fillKids {α : Type} (mk : List α → Built α × List α) : Nat → List α → List (Built α) × List α
  | 0, cs => ([], cs)
  | room + 1, cs =>
    if cs.isEmpty then ([], cs) else
      let r := mk cs
      let rs := fillKids mk room r.2
      (r.1 :: rs.1, rs.2)

structure Codec (α : Type) where
  len : α → Nat     -- length of a chunk
  empty : α         -- `nil` data

variable {α : Type}

def leafKind (raw : Bool) (pbKind : LeafKind) : LeafKind := if raw then .raw else pbKind

/-- `db.NewLeafDataNode`: the next chunk as a leaf (never called when no data is left) -/
def nextLeaf (cd : Codec α) (k : LeafKind) : List α → Built α × List α
  | [] => ({ node := .leaf k cd.empty, size := 0, below := [] }, [])
  | c :: cs => ({ node := .leaf k c, size := cd.len c, below := [] }, cs)

/-- `fillNodeRec(db, nil, depth)`; depth 0 stands for a leaf -/
def sub (cd : Codec α) (k : LeafKind) (W : Nat) : Nat → List α → Built α × List α
  | 0, cs => nextLeaf cd k cs
  | d + 1, cs =>
    let r := fillKids (sub cd k W d) W cs
    (mkInner r.1, r.2)

/-- the loop of `balanced.Layout`: while data is left the root becomes the first child of a new root -/
def grow (cd : Codec α) (k : LeafKind) (W : Nat) : Nat → Nat → Built α → List α → Built α
  | 0, _, root, _ => root
  | fuel + 1, depth, root, cs =>
    if cs.isEmpty then root else
      let r := fillKids (sub cd k W depth) (W - 1) cs
      grow cd k W fuel (depth + 1) (mkInner (root :: r.1)) r.2

def balanced (cd : Codec α) (raw : Bool) (W : Nat) (chunks : List α) : Built α :=
  let k := leafKind raw .file
  match chunks with
  | [] => { node := .leaf k cd.empty, size := 0, below := [] }
  | c :: cs => grow cd k W cs.length 0 { node := .leaf k c, size := cd.len c, below := [] } cs

/-- children of `fillTrickleRec(db, node, maxDepth = m + 1)`: the leaf layer, then for depth 1..m up to four
    sub-DAGs `fillTrickleRec(db, new, depth)` each -/
def tKids (cd : Codec α) (k : LeafKind) (W : Nat) : Nat → List α → List (Built α) × List α
  | 0, cs => fillKids (nextLeaf cd k) W cs
  | m + 1, cs =>
    let r := tKids cd k W m cs
    let more := fillKids (fun cs' => let q := tKids cd k W m cs'; (mkInner q.1, q.2)) 4 r.2
    (r.1 ++ more.1, more.2)

def tNode (cd : Codec α) (k : LeafKind) (W : Nat) (m : Nat) (cs : List α) : Built α × List α :=
  let q := tKids cd k W m cs
  (mkInner q.1, q.2)

/-- `trickle.Layout`: `maxDepth = -1`, the depth loop runs until no data is left; a level that finds none
    adds nothing, so `length` levels are enough (`tKids_stable`) -/
def trickle (cd : Codec α) (raw : Bool) (W : Nat) (chunks : List α) : Built α :=
  (tNode cd (leafKind raw .rawpb) W chunks.length chunks).1

/-! ### reading a file DAG -/

mutual
/-- the leaves' data, left to right: what a DAG reader streams -/
def FNode.leaves : FNode α → List α
  | .leaf _ d => [d]
  | .inner ks _ => leavesL ks
def leavesL : List (FNode α) → List α
  | [] => []
  | k :: ks => k.leaves ++ leavesL ks
end

mutual
/-- post-order: children left to right, then the node -/
def FNode.post : FNode α → List (FNode α)
  | .leaf k d => [.leaf k d]
  | .inner ks s => postL ks ++ [.inner ks s]
def postL : List (FNode α) → List (FNode α)
  | [] => []
  | k :: ks => k.post ++ postL ks
end

def FNode.links : FNode α → List (FNode α)
  | .leaf _ _ => []
  | .inner ks _ => ks

mutual
/-- the true file size under a node -/
def FNode.fsize (len : α → Nat) : FNode α → Nat
  | .leaf _ d => len d
  | .inner ks _ => fsizeL len ks
def fsizeL (len : α → Nat) : List (FNode α) → Nat
  | [] => 0
  | k :: ks => k.fsize len + fsizeL len ks
end

mutual
def FNode.height : FNode α → Nat
  | .leaf _ _ => 0
  | .inner ks _ => heightL ks + 1
def heightL : List (FNode α) → Nat
  | [] => 0
  | k :: ks => max k.height (heightL ks)
end

mutual
def FNode.nleaves : FNode α → Nat
  | .leaf _ _ => 1
  | .inner ks _ => nleavesL ks
def nleavesL : List (FNode α) → Nat
  | [] => 0
  | k :: ks => k.nleaves + nleavesL ks
end

mutual
/-- every inner node records, per link, the true file size under that link -/
def FNode.sized (len : α → Nat) : FNode α → Bool
  | .leaf _ _ => true
  | .inner ks s => (s == mapFsize len ks) && sizedL len ks
def sizedL (len : α → Nat) : List (FNode α) → Bool
  | [] => true
  | k :: ks => k.sized len && sizedL len ks
def mapFsize (len : α → Nat) : List (FNode α) → List Nat
  | [] => []
  | k :: ks => k.fsize len :: mapFsize len ks
end

mutual
/-- no node has more than `b` links -/
def FNode.fan (b : Nat) : FNode α → Bool
  | .leaf _ _ => true
  | .inner ks _ => decide (lengthL ks ≤ b) && fanL b ks
def fanL (b : Nat) : List (FNode α) → Bool
  | [] => true
  | k :: ks => k.fan b && fanL b ks
def lengthL : List (FNode α) → Nat
  | [] => 0
  | _ :: ks => lengthL ks + 1
end

mutual
def FNode.map {β : Type} (f : α → β) : FNode α → FNode β
  | .leaf k d => .leaf k (f d)
  | .inner ks s => .inner (mapL f ks) s
def mapL {β : Type} (f : α → β) : List (FNode α) → List (FNode β)
  | [] => []
  | k :: ks => k.map f :: mapL f ks
end

/-! ## directories -/

/-- the request: what the client sends -/
inductive Entry (β : Type) where
  | file (bytes : List β)
  | symlink (target : String)
  | dir (entries : List (String × Entry β))
  deriving Repr, Inhabited

/-- a unixfs DAG node = a block (structural identity) -/
inductive UNode (α : Type) where
  | file (n : FNode α)                       -- any node of a file DAG
  | symlink (target : String)
  | dir (links : List (String × UNode α))   -- links as encoded: sorted by name
  deriving Repr, Inhabited

structure Params where
  chunkSize : Nat := 262144
  trickle : Bool := false
  raw : Bool := false
  wrap : Bool := false
  hidden : Bool := false
  width : Nat := 174
  deriving Repr

/-- go-ipfs-files `isHidden`: the name begins with a dot -/
def isHiddenName (n : String) : Bool :=
  match n.toList with
  | c :: _ => c == '.'
  | [] => false

mutual
/-- go-ipfs-files serial directories: dot-entries are skipped unless hidden files are asked for -/
def visible {β : Type} (hidden : Bool) : Entry β → Entry β
  | .file b => .file b
  | .symlink t => .symlink t
  | .dir es => .dir (visibleL hidden es)
def visibleL {β : Type} (hidden : Bool) : List (String × Entry β) → List (String × Entry β)
  | [] => []
  | (n, e) :: rest =>
    if !hidden && isHiddenName n then visibleL hidden rest else (n, visible hidden e) :: visibleL hidden rest
end

/-- the top-level paths are named by the user: never filtered, filtered below -/
def visibleTop {β : Type} (hidden : Bool) : List (String × Entry β) → List (String × Entry β)
  | [] => []
  | (n, e) :: rest => (n, visible hidden e) :: visibleTop hidden rest

/-- links are encoded in name order (stable insertion sort; names are distinct in a directory) -/
def insertLink {γ : Type} (x : String × γ) : List (String × γ) → List (String × γ)
  | [] => [x]
  | y :: ys => if x.1 ≤ y.1 then x :: y :: ys else y :: insertLink x ys

def sortLinks {γ : Type} (l : List (String × γ)) : List (String × γ) := l.foldr insertLink []

def chunksOf {β : Type} (p : Params) (bytes : List β) : List (List β) := chunk p.chunkSize bytes

def layoutOf (cd : Codec α) (p : Params) (chunks : List α) : Built α :=
  if p.trickle then trickle cd p.raw p.width chunks else balanced cd p.raw p.width chunks

def bytesCodec {β : Type} : Codec (List β) := { len := List.length, empty := [] }

def importFile {β : Type} (p : Params) (bytes : List β) : Built (List β) :=
  layoutOf bytesCodec p (chunksOf p bytes)

mutual
def importEntry {β : Type} (p : Params) : Entry β → UNode (List β)
  | .file b => .file (importFile p b).node
  | .symlink t => .symlink t
  | .dir es => .dir (sortLinks (importEntries p es))
def importEntries {β : Type} (p : Params) : List (String × Entry β) → List (String × UNode (List β))
  | [] => []
  | (n, e) :: rest => (n, importEntry p e) :: importEntries p rest
end

/-- the root the add returns. Wrapping: a directory of the top-level entries. Not wrapping: the single
    top-level entry itself (several entries without wrapping: outside the property). -/
def importRoot {β : Type} (p : Params) (top : List (String × Entry β)) : Option (UNode (List β)) :=
  if p.wrap then some (.dir (sortLinks (importEntries p (visibleTop p.hidden top))))
  else match top with
    | [(_, e)] => some (importEntry p (visible p.hidden e))
    | _ => none

def UNode.isDir : UNode α → Bool
  | .dir _ => true
  | _ => false

def Entry.isDir {β : Type} : Entry β → Bool
  | .dir _ => true
  | _ => false

def UNode.links : UNode α → List (UNode α)
  | .file n => n.links.map .file
  | .symlink _ => []
  | .dir ls => ls.map (·.2)

mutual
/-- all blocks under a node, post-order -/
def UNode.blocks : UNode α → List (UNode α)
  | .file n => n.post.map .file
  | .symlink t => [.symlink t]
  | .dir ls => blocksL ls ++ [.dir ls]
def blocksL : List (String × UNode α) → List (UNode α)
  | [] => []
  | (_, n) :: rest => n.blocks ++ blocksL rest
end

/-! ## the block stream handed to the DAG service

`addFile`: the layout adds the file's blocks (post-order), `addNode` → `mfs.PutNode` adds the file root again;
`addSymlink`: the node, and again through `PutNode`; `addDir` below the top level: `mfs.Mkdir` adds the *empty*
directory node (a block that is under the root only if the tree has an empty directory); directories are added
when go-mfs flushes them (children before parents here; go-mfs walks its cache in map order and may add a
directory several times); without
wrapping a single file or symlink is put into the MFS root under its CID as name: that directory block is
added too although it is not under the returned root (`scaffold`); `PinRoot` adds the root once more. -/

mutual
def emitEntry {β : Type} (p : Params) : Entry β → List (UNode (List β))
  | .file b => (importFile p b).emitted.map .file ++ [.file (importFile p b).node]
  | .symlink t => [.symlink t, .symlink t]
  | .dir es => [.dir []] ++ emitEntries p es ++ [.dir (sortLinks (importEntries p es))]
def emitEntries {β : Type} (p : Params) : List (String × Entry β) → List (UNode (List β))
  | [] => []
  | (_, e) :: rest => emitEntry p e ++ emitEntries p rest
end

mutual
/-- the empty directory nodes `mfs.Mkdir` adds, one per directory below the top level -/
def mkdirs {β : Type} : Entry β → List (UNode (List β))
  | .file _ => []
  | .symlink _ => []
  | .dir es => .dir [] :: mkdirsL es
def mkdirsL {β : Type} : List (String × Entry β) → List (UNode (List β))
  | [] => []
  | (_, e) :: rest => mkdirs e ++ mkdirsL rest
end

/-- the MFS root that holds a lone file or symlink under its CID string -/
def scaffold {β : Type} (nameOf : UNode (List β) → String) (r : UNode (List β)) : List (UNode (List β)) :=
  if r.isDir then [] else [.dir [(nameOf r, r)]]

def emitStream {β : Type} (nameOf : UNode (List β) → String) (p : Params) (top : List (String × Entry β)) :
    List (UNode (List β)) :=
  match importRoot p top with
  | none => []
  | some r =>
    (if p.wrap then emitEntries p (visibleTop p.hidden top) ++ [r]
     else match top with
       | [(_, e)] =>
         match visible p.hidden e with
         | .dir es => emitEntries p es ++ [r]   -- the top-level directory is the MFS root itself: no Mkdir
         | e' => emitEntry p e'
       | _ => []) ++ scaffold nameOf r ++ [r]

/-! ## the DAG service behind the importer, as far as the importer can tell

`Add` may fail; `adder.go` stops at the first error. Whatever service is plugged in (single, sharding), the
blocks offered are a prefix of `emitStream` and the root, when the add gets that far, is `importRoot`. -/

structure Svc (σ : Type) (ν : Type) where
  add : σ → ν → σ × Bool     -- new state, success

def feed {σ ν : Type} (svc : Svc σ ν) : σ → List ν → σ × List ν × Bool
  | s, [] => (s, [], true)
  | s, b :: bs =>
    let r := svc.add s b
    if r.2 then
      let q := feed svc r.1 bs
      (q.1, b :: q.2.1, q.2.2)
    else (r.1, [b], false)

structure AddResult (σ ν : Type) where
  state : σ
  offered : List ν
  root : Option ν

def importWith {β σ : Type} (svc : Svc σ (UNode (List β))) (s0 : σ) (nameOf : UNode (List β) → String) (p : Params)
    (top : List (String × Entry β)) : AddResult σ (UNode (List β)) :=
  let q := feed svc s0 (emitStream nameOf p top)
  { state := q.1, offered := q.2.1, root := if q.2.2 then importRoot p top else none }

/-- the seen-set of the sharding DAG service over CIDs: first occurrences, in order -/
def firsts {γ : Type} [DecidableEq γ] (seen : List γ) : List γ → List γ
  | [] => []
  | x :: xs => if x ∈ seen then firsts seen xs else x :: firsts (x :: seen) xs

/-! ## rendering (driver): the shape of a DAG as one token -/

def kindTag : LeafKind → String
  | .raw => "r" | .file => "f" | .rawpb => "w"

def natsTok (l : List Nat) : String := ",".intercalate (l.map toString)

mutual
/-- leaf: `r12` / `f12` / `w12` (kind, data length); inner: `(kid kid …)[blocksizes]` -/
def FNode.render : FNode Nat → String
  | .leaf k n => kindTag k ++ toString n
  | .inner ks s => "(" ++ renderL ks ++ ")[" ++ natsTok s ++ "]"
def renderL : List (FNode Nat) → String
  | [] => ""
  | [k] => k.render
  | k :: ks => k.render ++ " " ++ renderL ks
end

end CV.C13.Imp
