/-
C10 — model of what the surviving peers do when a peer is declared failed
(alertsHandler → repinFromPeer), when a peer is removed (PeerRemove → vacatePeer → RmPeer)
and of the expiry sweep (StateSync), cluster.go + util.go (distanceChecker).

Hashes (blake2b-256 of the peer id / cid key) are natural numbers (big-endian
value of the 32 bytes; `bytes.Compare` on equal-length arrays is the numeric
order). Re-pinning itself is `C04.pinOp` with the failed peer blacklisted and the
allocation delegated to the C03 relation. Core Lean only.

Three layers:
* one member handling one event: `onAlert`, `vacate`, `stateSync` — all three are a *sweep* over
  the list of pins the member read from the state (`cState.List`), running a per-pin call
  (`repinFromPeer` / `Unpin`) that reads the state again (`PinGet`) and commits at once;
* a *round*: the event reaching every member. `roundSeq` — the members act one after the other,
  each against the pinset the previous ones left (any order: the schedule is a parameter);
  `snapLogs` + `commitAll` — every member acts against the same pre-state and the logged
  operations are committed afterwards in any order (what lagging replicas of the state amount to);
  each member has its *own* view of the peerset and of whom it trusts (`Actor.w`);
* `peerRemove`: vacate, then the membership change, as an ordered trace.
-/
import ClusterVerif.Model.C04
namespace CV.C10
open CV

structure World where
  members : List (Nat × Nat)          -- consensus.Peers(): (peer id, hash of the peer id)
  cidHash : List (Nat × Nat)          -- cid ↦ hash of its key
  untrusted : List Nat                -- peers for which IsTrustedPeer is false
  deriving Repr

def World.peerHash (w : World) (p : Nat) : Nat := (C04.lookup w.members p).getD 0
def World.hashOf (w : World) (c : Nat) : Nat := (C04.lookup w.cidHash c).getD 0

/-- `getTrustedPeers(exclude)`: trusted members other than self and `exclude` -/
def others (w : World) (self : Nat) (exclude : Option Nat) : List Nat :=
  (w.members.map (·.1)).filter (fun p => p != self && some p != exclude && !w.untrusted.contains p)

/-- `distanceChecker.isClosest`: no other peer is strictly closer (xor metric) to the cid -/
def isClosest (w : World) (self : Nat) (exclude : Option Nat) (c : Nat) : Bool :=
  (others w self exclude).all (fun o => !decide (w.peerHash self ^^^ w.hashOf c > w.peerHash o ^^^ w.hashOf c))

/-- per-peer configuration -/
structure PeerCfg where
  self : Nat
  follower : Bool
  disableRepin : Bool
  base : C04.Cfg                      -- default factors, strategy, the metrics this peer sees
  deriving Repr

/-- allocation the implementation chose for a cid at this peer (read off its LogPin) -/
abbrev Chosen := Nat → List Nat

structure Acc where
  st : PinMap
  log : List C04.LogEntry
  deriving Repr

/-- the configuration `Cluster.pin` / `Cluster.Unpin` run under at this peer -/
def PeerCfg.cfg (pc : PeerCfg) : C04.Cfg := { pc.base with follower := pc.follower }

/-- `repinFromPeer(p, pin)` as a call on the state: allocations cleared, pin() with the failed peer blacklisted -/
def repinOut (pc : PeerCfg) (failed : Nat) (ch : Chosen) (st : PinMap) (pin : Pin) : C04.Out :=
  C04.pinOp pc.cfg st { pin with allocs := [] } [failed] (ch pin.cid)

/-- `c.Unpin(p.Cid)` as a call on the state -/
def unpinOut (pc : PeerCfg) (st : PinMap) (pin : Pin) : C04.Out := C04.unpinOp pc.cfg st pin.cid

/-- one iteration of a loop `for _, pin := range list { if cond(pin) { call(pin) } }` -/
def sweep (cond : Pin → Bool) (run : PinMap → Pin → C04.Out) (acc : Acc) (pin : Pin) : Acc :=
  if cond pin then { st := (run acc.st pin).post, log := acc.log ++ (run acc.st pin).log } else acc

/-- the whole loop over the list read at the start, the state evolving with every call -/
def sweepAll (cond : Pin → Bool) (run : PinMap → Pin → C04.Out) (pre : PinMap) : Acc :=
  pre.foldl (sweep cond run) { st := pre, log := [] }

def repin (pc : PeerCfg) (failed : Nat) (ch : Chosen) (acc : Acc) (pin : Pin) : Acc :=
  { st := (repinOut pc failed ch acc.st pin).post, log := acc.log ++ (repinOut pc failed ch acc.st pin).log }

/-- the test in the loop of `alertsHandler` -/
def alertCond (w : World) (pc : PeerCfg) (failed : Nat) (pin : Pin) : Bool :=
  pin.allocs.contains failed && isClosest w pc.self (some failed) pin.cid

/-- one delivery of a ping alert for `failed` to the peer `pc` -/
def onAlert (w : World) (pc : PeerCfg) (failed : Nat) (ch : Chosen) (pre : PinMap) : Acc :=
  if pc.follower || pc.disableRepin then { st := pre, log := [] } else
  sweepAll (alertCond w pc failed) (repinOut pc failed ch) pre

/-- `vacatePeer(p)` (PeerRemove): every pin allocated to `p`, no closest test -/
def vacate (pc : PeerCfg) (failed : Nat) (ch : Chosen) (pre : PinMap) : Acc :=
  if pc.disableRepin then { st := pre, log := [] } else
  sweepAll (fun pin => pin.allocs.contains failed) (repinOut pc failed ch) pre

/-- `Pin.ExpiredAt(now)`: `!ExpireAt.IsZero() && ExpireAt.Before(now)` with abstract instants -/
def expired (p : Pin) : Bool := p.opts.expire == .past

/-- `ExpireAt` on a concrete clock (unix nanoseconds): Go's zero `time.Time`, or an instant -/
inductive Stamp where
  | zero
  | at (t : Int)
  deriving DecidableEq, Repr

/-- `Pin.ExpiredAt(now)` on the concrete clock: never for the zero time or the unix epoch, else strictly before -/
def expiredAt (now : Int) : Stamp → Bool
  | .zero => false
  | .at t => t != 0 && decide (t < now)

/-- the abstract instant the shared pin model uses for a stamp, as seen at `now` -/
def Stamp.abs (now : Int) : Stamp → Expiry
  | .zero => .zero
  | .at t => if t == 0 then .unixZero else if t < now then .past else .future (t - now).toNat

def syncCond (w : World) (pc : PeerCfg) (pin : Pin) : Bool := expired pin && isClosest w pc.self none pin.cid

/-- `StateSync`: unpin expired pins this peer is closest to -/
def stateSync (w : World) (pc : PeerCfg) (pre : PinMap) : Acc :=
  if pc.follower then { st := pre, log := [] } else sweepAll (syncCond w pc) (unpinOut pc) pre

/-! ### The alert handler as a loop

`alertsHandler` reads alerts one after the other for as long as the peer runs. What it does for one
ping alert (`onAlert`) depends on the peerset and trust at the time of that alert and on the pinset
at that time, never on earlier alerts: the loop keeps no state of its own. An alert that cannot be
handled (state or peerset unavailable, re-pinning disabled, not a ping alert) is skipped and the
loop goes on. -/

inductive AlertEv where
  | ping (w : World) (failed : Nat) (ch : Chosen)   -- a ping alert, seen with the world of its time
  | skipped                                         -- an alert the handler could do nothing about

def handleEv (pc : PeerCfg) (st : PinMap) : AlertEv → PinMap
  | .ping w f ch => (onAlert w pc f ch st).st
  | .skipped => st

def handleAlerts (pc : PeerCfg) (st : PinMap) (evs : List AlertEv) : PinMap := evs.foldl (handleEv pc) st

/-! ### Rounds: the event reaches every member -/

abbrev Logs := List (Nat × List C04.LogEntry)    -- per acting member, in acting order

/-- a member taking part in a round: its own view of the peerset / trust, its configuration, and
    the allocations its allocator picked -/
structure Actor where
  w : World
  pc : PeerCfg
  ch : Chosen

def entryCid : C04.LogEntry → Nat
  | .logPin p => p.cid
  | .logUnpin c => c

/-- a committed operation applied to the shared pinset (what the Raft FSM / the CRDT hooks do) -/
def commit (st : PinMap) : C04.LogEntry → PinMap
  | .logPin p => PinMap.put p.stored st
  | .logUnpin c => st.erase c

def commitAll (st : PinMap) (es : List C04.LogEntry) : PinMap := es.foldl commit st

/-- the operations a log holds for one cid -/
def forCid (c : Nat) (es : List C04.LogEntry) : List C04.LogEntry := es.filter (fun e => entryCid e == c)

/-- a round, generic in what a member does with the pinset it finds -/
def roundWith (act : Actor → PinMap → Acc) (sched : List Actor) (pre : PinMap) : PinMap × Logs :=
  sched.foldl (fun acc a => ((act a acc.1).st, acc.2 ++ [(a.pc.self, (act a acc.1).log)])) (pre, [])

/-- serial discipline: the members handle the alert in schedule order, each against the pinset
    left by the previous ones -/
def roundSeq (failed : Nat) (sched : List Actor) (pre : PinMap) : PinMap × Logs :=
  roundWith (fun a st => onAlert a.w a.pc failed a.ch st) sched pre

/-- snapshot discipline: every member handles the alert against the same pre-state … -/
def snapLogsWith (act : Actor → PinMap → Acc) (sched : List Actor) (pre : PinMap) : Logs :=
  sched.map (fun a => (a.pc.self, (act a pre).log))
def snapLogs (failed : Nat) (sched : List Actor) (pre : PinMap) : Logs :=
  snapLogsWith (fun a st => onAlert a.w a.pc failed a.ch st) sched pre

/-- … and the logged operations reach the shared pinset afterwards, in the order `order`
    (any permutation of what was logged). -/
def allEntries (logs : Logs) : List C04.LogEntry := logs.flatMap (·.2)

/-- the expiry sweep reaching every member, serial discipline -/
def roundSync (sched : List Actor) (pre : PinMap) : PinMap × Logs :=
  roundWith (fun a st => stateSync a.w a.pc st) sched pre
def snapLogsSync (sched : List Actor) (pre : PinMap) : Logs :=
  snapLogsWith (fun a st => stateSync a.w a.pc st) sched pre

/-- (member, operation) pairs a round holds for one cid -/
def roundFor (c : Nat) (logs : Logs) : List (Nat × C04.LogEntry) :=
  logs.flatMap (fun l => (forCid c l.2).map (fun e => (l.1, e)))

/-! ### PeerRemove: vacate, then the membership change

`PeerRemove` runs at the one member that received the call. `vacatePeer` returns nothing: a re-pin
that fails (allocation impossible, pin expired, follower) is logged and skipped, the loop goes on,
and `consensus.RmPeer` is attempted in every case; only its error is returned to the caller. -/

inductive RmEv where
  | op (e : C04.LogEntry)             -- a LogPin committed while vacating
  | rmPeer (p : Nat) (ok : Bool)      -- consensus.RmPeer(p) and whether it succeeded
  deriving DecidableEq, Repr

structure RemoveOut where
  st : PinMap
  log : List C04.LogEntry
  trace : List RmEv
  members : List Nat                  -- the peerset afterwards
  err : Bool                          -- what PeerRemove returns
  deriving Repr

def peerRemove (pc : PeerCfg) (failed : Nat) (ch : Chosen) (rmOk : Bool) (members : List Nat) (pre : PinMap) : RemoveOut :=
  let v := vacate pc failed ch pre
  { st := v.st, log := v.log, trace := v.log.map .op ++ [.rmPeer failed rmOk],
    members := if rmOk then members.filter (· != failed) else members, err := !rmOk }

end CV.C10
