/-
C10 — model of what the surviving peers do when a peer is declared failed
(alertsHandler → repinFromPeer), when a peer is removed (PeerRemove → vacatePeer)
and of the expiry sweep (StateSync), cluster.go + util.go (distanceChecker).

Hashes (blake2b-256 of the peer id / cid key) are natural numbers (big-endian
value of the 32 bytes; `bytes.Compare` on equal-length arrays is the numeric
order). Re-pinning itself is `C04.pinOp` with the failed peer blacklisted and the
allocation delegated to the C03 relation. Core Lean only.
-/
import ClusterVerif.Model.C04
namespace CV.C10
open CV

structure World where
  members : List (Nat × Nat)          -- consensus.Peers(): (peer id, hash of the peer id)
  cidHash : List (Nat × Nat)          -- cid ↦ hash of its key
  untrusted : List Nat                -- peers for which IsTrustedPeer is false (same view at every member)
  deriving Repr

def World.peerHash (w : World) (p : Nat) : Nat := (C04.lookup w.members p).getD 0
def World.hashOf (w : World) (c : Nat) : Nat := (C04.lookup w.cidHash c).getD 0

/-- `getTrustedPeers(exclude)`: trusted members other than self and `exclude` -/
def others (w : World) (self : Nat) (exclude : Option Nat) : List Nat :=
  (w.members.map (·.1)).filter (fun p => p != self && some p != exclude && !w.untrusted.contains p)

/-- `distanceChecker.isClosest`: no other peer is strictly closer (xor metric) to the cid -/
def isClosest (w : World) (self : Nat) (exclude : Option Nat) (c : Nat) : Bool :=
  (others w self exclude).all (fun o => !decide (w.peerHash self ^^^ w.hashOf c > w.peerHash o ^^^ w.hashOf c))

/-- per-peer configuration -/
structure PeerCfg where
  self : Nat
  follower : Bool
  disableRepin : Bool
  base : C04.Cfg                      -- default factors, strategy, the metrics this peer sees
  deriving Repr

/-- allocation the implementation chose for a cid at this peer (read off its LogPin) -/
abbrev Chosen := Nat → List Nat

structure Acc where
  st : PinMap
  log : List C04.LogEntry
  deriving Repr

/-- `repinFromPeer(p, pin)`: allocations cleared, pin() with the failed peer blacklisted -/
def repin (pc : PeerCfg) (failed : Nat) (ch : Chosen) (acc : Acc) (pin : Pin) : Acc :=
  let out := C04.pinOp { pc.base with follower := pc.follower } acc.st { pin with allocs := [] } [failed] (ch pin.cid)
  { st := out.post, log := acc.log ++ out.log }

/-- one delivery of a ping alert for `failed` to the peer `pc` -/
def onAlert (w : World) (pc : PeerCfg) (failed : Nat) (ch : Chosen) (pre : PinMap) : Acc :=
  if pc.follower || pc.disableRepin then { st := pre, log := [] } else
  pre.foldl (fun acc pin =>
    if pin.allocs.contains failed && isClosest w pc.self (some failed) pin.cid then repin pc failed ch acc pin else acc)
    { st := pre, log := [] }

/-- `vacatePeer(p)` (PeerRemove): every pin allocated to `p`, no closest test -/
def vacate (pc : PeerCfg) (failed : Nat) (ch : Chosen) (pre : PinMap) : Acc :=
  if pc.disableRepin then { st := pre, log := [] } else
  pre.foldl (fun acc pin => if pin.allocs.contains failed then repin pc failed ch acc pin else acc)
    { st := pre, log := [] }

/-- `Pin.ExpiredAt(now)` -/
def expired (p : Pin) : Bool := p.opts.expire == .past

/-- `StateSync`: unpin expired pins this peer is closest to -/
def stateSync (w : World) (pc : PeerCfg) (pre : PinMap) : Acc :=
  if pc.follower then { st := pre, log := [] } else
  pre.foldl (fun acc pin =>
    if expired pin && isClosest w pc.self none pin.cid then
      let out := C04.unpinOp { pc.base with follower := pc.follower } acc.st pin.cid
      { st := out.post, log := acc.log ++ out.log }
    else acc) { st := pre, log := [] }

/-! ### The alert handler as a loop

`alertsHandler` reads alerts one after the other for as long as the peer runs. What it does for one
ping alert (`onAlert`) depends on the peerset and trust at the time of that alert and on the pinset
at that time, never on earlier alerts: the loop keeps no state of its own. An alert that cannot be
handled (state or peerset unavailable, re-pinning disabled, not a ping alert) is skipped and the
loop goes on. -/

inductive AlertEv where
  | ping (w : World) (failed : Nat) (ch : Chosen)   -- a ping alert, seen with the world of its time
  | skipped                                         -- an alert the handler could do nothing about

def handleEv (pc : PeerCfg) (st : PinMap) : AlertEv → PinMap
  | .ping w f ch => (onAlert w pc f ch st).st
  | .skipped => st

def handleAlerts (pc : PeerCfg) (st : PinMap) (evs : List AlertEv) : PinMap := evs.foldl (handleEv pc) st

end CV.C10
