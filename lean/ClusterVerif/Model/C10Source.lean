/-!
# C10 — the source text the hand-written model transcribes (snapshot)

Taken with `tools/snapshot_skeleton.py C10` from the translator output after the model was last read against the source.
`Gen/C10.lean` is regenerated from /repo on every run and `Props/C10.lean` proves `Gen.f = Expected.f` for every function below
(`rfl`): an edit to any of these functions breaks that obligation, and the check then searches for a failing input with the
correspondence run (a rewrite that keeps the behaviour ends as `no-failing-input-found`, see DESIGN 2.2).
-/
namespace CV.C10.Expected


/-- Cluster.alertsHandler -/
def alertsHandler : List String := [
  "for {",
  "select {",
  "case <-c.ctx.Done():",
  "return",
  "case alrt := <-c.monitor.Alerts():",
  "if c.config.FollowerMode {",
  "continue",
  "}",
  "c.alertsMux.Lock()",
  "{",
  "if len(c.alerts) > maxAlerts {",
  "c.alerts = c.alerts[:0]",
  "}",
  "c.alerts = append(c.alerts, *alrt)",
  "}",
  "c.alertsMux.Unlock()",
  "if alrt.Name != pingMetricName {",
  "continue",
  "}",
  "if c.config.DisableRepinning {",
  "continue",
  "}",
  "cState, err := c.consensus.State(c.ctx)",
  "if err != nil {",
  "continue",
  "}",
  "list, err := cState.List(c.ctx)",
  "if err != nil {",
  "continue",
  "}",
  "distance, err := c.distances(c.ctx, alrt.Peer)",
  "if err != nil {",
  "continue",
  "}",
  "for _, pin := range list {",
  "if containsPeer(pin.Allocations, alrt.Peer) && distance.isClosest(pin.Cid) {",
  "c.repinFromPeer(c.ctx, alrt.Peer, pin)",
  "}",
  "}",
  "}",
  "}"
]

/-- Cluster.repinFromPeer -/
def repinFromPeer : List String := [
  "pin.Allocations = nil",
  "_, ok, err := c.pin(ctx, pin, []peer.ID{p})",
  "if ok && err == nil {",
  "}"
]

/-- Cluster.vacatePeer -/
def vacatePeer : List String := [
  "if c.config.DisableRepinning {",
  "return",
  "}",
  "cState, err := c.consensus.State(ctx)",
  "if err != nil {",
  "return",
  "}",
  "list, err := cState.List(ctx)",
  "if err != nil {",
  "return",
  "}",
  "for _, pin := range list {",
  "if containsPeer(pin.Allocations, p) {",
  "c.repinFromPeer(ctx, p, pin)",
  "}",
  "}"
]

/-- Cluster.PeerRemove -/
def peerRemove : List String := [
  "ctx = trace.NewContext(c.ctx, span)",
  "c.vacatePeer(ctx, pid)",
  "err := c.consensus.RmPeer(ctx, pid)",
  "if err != nil {",
  "return err",
  "}",
  "return nil"
]

/-- Cluster.StateSync -/
def stateSync : List String := [
  "ctx = trace.NewContext(c.ctx, span)",
  "if c.config.FollowerMode {",
  "return nil",
  "}",
  "cState, err := c.consensus.State(ctx)",
  "if err != nil {",
  "return err",
  "}",
  "timeNow := time.Now()",
  "clusterPins, err := cState.List(ctx)",
  "if err != nil {",
  "return err",
  "}",
  "distance, err := c.distances(ctx, S)",
  "if err != nil {",
  "return err",
  "}",
  "for _, p := range clusterPins {",
  "if p.ExpiredAt(timeNow) && distance.isClosest(p.Cid) {",
  "if _, err := c.Unpin(ctx, p.Cid); err != nil {",
  "}",
  "}",
  "}",
  "return nil"
]

/-- Cluster.distances -/
def distances : List String := [
  "trustedPeers, err := c.getTrustedPeers(ctx, exclude)",
  "if err != nil {",
  "return nil, err",
  "}",
  "return &distanceChecker{",
  "local: c.id,",
  "otherPeers: trustedPeers,",
  "cache: make(map[peer.ID]distance, len(trustedPeers)+1),",
  "}, nil"
]

/-- Cluster.getTrustedPeers -/
def getTrustedPeers : List String := [
  "peers, err := c.consensus.Peers(ctx)",
  "if err != nil {",
  "return nil, err",
  "}",
  "trustedPeers := make([]peer.ID, 0, len(peers))",
  "for _, p := range peers {",
  "if p == c.id || p == exclude || !c.consensus.IsTrustedPeer(ctx, p) {",
  "continue",
  "}",
  "trustedPeers = append(trustedPeers, p)",
  "}",
  "return trustedPeers, nil"
]

/-- distanceChecker.isClosest -/
def isClosest : List String := [
  "ciHash := convertKey(ci.KeyString())",
  "localPeerHash := dc.convertPeerID(dc.local)",
  "myDistance := xor(ciHash, localPeerHash)",
  "for _, p := range dc.otherPeers {",
  "peerHash := dc.convertPeerID(p)",
  "distance := xor(peerHash, ciHash)",
  "if bytes.Compare(myDistance[:], distance[:]) > 0 {",
  "return false",
  "}",
  "}",
  "return true"
]

/-- distanceChecker.convertPeerID -/
def convertPeerID : List String := [
  "hash, ok := dc.cache[id]",
  "if ok {",
  "return hash",
  "}",
  "hashBytes := convertKey(string(id))",
  "dc.cache[id] = hashBytes",
  "return hashBytes"
]

/-- convertKey -/
def convertKey : List String := [
  "return blake2b.Sum256([]byte(id))"
]

end CV.C10.Expected
