/-
C14 — model of the state round trips (cmdutils/state.go export/import,
dsstate Marshal/Unmarshal, raft SnapshotSave/OfflineState), of the Raft data
folder rotation (raft.CleanupRaft / dataBackupHelper.makeBackup) and of the
peerstore file (pstoremgr SavePeerstore / LoadPeerstore / ImportPeers /
PeerInfos).

Core Lean only (the driver links this file).

Abstraction level
* CIDs, peer IDs, names, metadata strings and multiaddresses are indices into
  the harness's naming tables (byte-level codecs of those atoms are C08's
  subject and trusted here; the harness maps real values back to indices and
  prints `?` for anything it cannot map).
* A `Pin` is the Go `api.Pin` value field by field. `store` is what
  `ProtoMarshal`→`ProtoUnmarshal` (the form a pin has inside a dsstate) does to
  it. `JPin` is the JSON document `encoding/json` writes for a pin, field by
  field, with the JSON-level types (null / array, mode as a string, type as a
  number, the time as an instant).
* What Go leaves open (datastore query order, map order of the peerstore's
  address book, `sort.Sort` instability) is an explicit list argument or an
  `allowed` relation.
-/
namespace CV.C14

/-! ## 1. Pins -/

structure Pin where
  cid     : Nat
  ptype   : Nat              -- Go `PinType` value (a bit mask: 1 bad, 2 data, 4 meta, 8 clusterdag, 16 shard)
  allocs  : List Nat
  depth   : Int              -- MaxDepth
  ref     : Option Nat       -- Reference (nil = none)
  rmin    : Int
  rmax    : Int
  name    : Nat
  mode    : Nat              -- 0 recursive, 1 direct
  shard   : Nat
  ualloc  : List Nat         -- UserAllocations (never stored)
  expire  : Nat              -- ExpireAt as unix seconds; 0 = zero time / not set
  pmeta   : List (Nat × Nat) -- Metadata, sorted by key (canonical form of the Go map)
  pupdate : Option Nat       -- PinUpdate (cid.Undef = none)
  origins : List Nat
  deriving DecidableEq, Repr

/-- int32 truncation done by the protobuf fields. -/
def wrap32 (x : Int) : Int := (x + 2147483648) % 4294967296 - 2147483648

/-- number of right shifts until 1 is reached (`fuel` ≥ the value is enough) -/
def shifts : Nat → Nat → Nat
  | 0, _ => 0
  | fuel + 1, n => if n ≥ 2 then shifts fuel (n / 2) + 1 else 0

/-- `convertPinType` then `1 << GetType()`: the highest set bit (0 gives BadType = 1). -/
def normType (t : Nat) : Nat := if t = 0 then 1 else 2 ^ shifts t t

/-- `PinDepth.ToPinMode`. -/
def depthMode (d : Int) : Nat := if d = 0 then 1 else 0

/-- `ProtoMarshal` then `ProtoUnmarshal`: the form every pin has inside a dsstate. -/
def store (p : Pin) : Pin :=
  { p with ptype := normType p.ptype, depth := wrap32 p.depth, rmin := wrap32 p.rmin, rmax := wrap32 p.rmax,
           mode := depthMode (wrap32 p.depth), ualloc := [] }

/-- last second `time.Time.MarshalJSON` accepts (9999-12-31T23:59:59Z) -/
def maxJSONTime : Nat := 253402300799

def int32 (x : Int) : Bool := decide (-2147483648 ≤ x) && decide (x ≤ 2147483647)

/-- strictly increasing keys: the canonical list form of a Go map -/
def keysSorted : List (Nat × Nat) → Bool
  | [] => true
  | [_] => true
  | a :: b :: t => decide (a.1 < b.1) && keysSorted (b :: t)

/-- Well-formed pin (the quantifier of the property): a real pin type, factor and depth
    fields that fit the stored width, an expiry `encoding/json` can print, canonical metadata. -/
def wfPin (p : Pin) : Bool :=
  (p.ptype == 2 || p.ptype == 4 || p.ptype == 8 || p.ptype == 16) &&
  int32 p.depth && int32 p.rmin && int32 p.rmax &&
  decide (p.expire ≤ maxJSONTime) && decide (p.shard < 18446744073709551616) && keysSorted p.pmeta &&
  decide (p.mode ≤ 1)

/-! ## 2. The pinset inside a dsstate: association list keyed by cid, kept sorted by cid -/

abbrev PinMap := List Pin

/-- datastore `Put` under the pin's key (replaces an entry with the same cid) -/
def put (p : Pin) : PinMap → PinMap
  | [] => [p]
  | q :: t => if p.cid < q.cid then p :: q :: t else if p.cid = q.cid then p :: t else q :: put p t

/-- `State.Add` -/
def add (p : Pin) (m : PinMap) : PinMap := put (store p) m

def putAll (m : PinMap) (l : List Pin) : PinMap := l.foldl (fun m p => put p m) m
def addAll (m : PinMap) (l : List Pin) : PinMap := l.foldl (fun m p => add p m) m

/-- the pinset of a state into which the pins of `g` were added in order -/
def fromList (g : List Pin) : PinMap := addAll [] g

/-- strictly sorted by cid (the representation invariant) -/
def sortedMap : PinMap → Bool
  | [] => true
  | [_] => true
  | a :: b :: t => decide (a.cid < b.cid) && sortedMap (b :: t)

/-! ## 3. Marshal / Unmarshal (dsstate) and the Raft snapshot -/

/-- `State.Marshal`: one `serialEntry{key, value}` per stored pin, in the datastore's query
    order (`order` is any arrangement of the entries: see `isArrangement`). The value bytes
    are the protobuf of the stored pin, the key its cid: an entry is the stored pin itself. -/
def isArrangement (m : PinMap) (stream : List Pin) : Bool := stream.isPerm m

/-- `State.Unmarshal` (after aaef85d): delete every key of the namespace, then put each entry. -/
def unmarshal (_prior : PinMap) (stream : List Pin) : PinMap := putAll [] stream

/-- `raft.SnapshotSave` stores the Marshal stream; `raft.OfflineState` unmarshals it onto the
    given store (no snapshot: the store is left as it is). -/
def offlineState (prior : PinMap) (snapshot : Option (List Pin)) : PinMap :=
  match snapshot with
  | none => prior
  | some s => unmarshal prior s

/-! ## 4. export / import (cmdutils/state.go): a JSON stream of pins -/

inductive ModeStr where
  | recursive | direct | other
  deriving DecidableEq, Repr

/-- the JSON document of one pin -/
structure JPin where
  replication_factor_min : Int
  replication_factor_max : Int
  name             : Nat
  mode             : ModeStr
  shard_size       : Nat
  user_allocations : Option (List Nat)        -- null | [strings]
  expire_at        : Int                      -- the instant (unix seconds); the zero time is `zeroTime`
  metadata         : Option (List (Nat × Nat)) -- null | object
  pin_update       : Option Nat               -- null | {"/": …}
  origins          : Option (List Nat)        -- null | [strings]
  cid              : Nat
  type             : Nat                      -- number
  allocations      : Option (List Nat)
  max_depth        : Int
  reference        : Option Nat
  deriving DecidableEq, Repr

/-- 0001-01-01T00:00:00Z as unix seconds -/
def zeroTime : Int := -62135596800

def nullIfEmpty (l : List α) : Option (List α) := if l.isEmpty then none else some l

/-- `json.Encoder.Encode(pin)` for a pin as `State.List` returns it (allocations and origins
    are non-nil slices, user allocations and an empty metadata map are nil). `none`: the
    encoder fails (`Time.MarshalJSON: year outside of range`). -/
def jenc (p : Pin) : Option JPin :=
  if p.expire > maxJSONTime then none else
  some { replication_factor_min := p.rmin, replication_factor_max := p.rmax, name := p.name,
         mode := if p.mode = 1 then .direct else .recursive,
         shard_size := p.shard, user_allocations := nullIfEmpty p.ualloc,
         expire_at := if p.expire = 0 then zeroTime else (p.expire : Int),
         metadata := nullIfEmpty p.pmeta, pin_update := p.pupdate, origins := some p.origins,
         cid := p.cid, type := p.ptype, allocations := some p.allocs, max_depth := p.depth,
         reference := p.ref }

/-- `json.Decoder.Decode(&pin)`. `none`: the decoder fails — a non-empty `origins` array
    cannot be decoded into `[]multiaddr.Multiaddr` (an interface type). -/
def jdec (j : JPin) : Option Pin :=
  match j.origins with
  | some (_ :: _) => none
  | _ =>
    some { cid := j.cid, ptype := j.type, allocs := j.allocations.getD [], depth := j.max_depth,
           ref := j.reference, rmin := j.replication_factor_min, rmax := j.replication_factor_max,
           name := j.name, mode := if j.mode = .direct then 1 else 0, shard := j.shard_size,
           ualloc := j.user_allocations.getD [],
           expire := if j.expire_at = zeroTime ∨ j.expire_at = 0 then 0 else j.expire_at.toNat,
           pmeta := j.metadata.getD [], pupdate := j.pin_update, origins := [] }

/-- `exportState`: encode the listed pins in list order; stops at the first failure. -/
def exportStream : List Pin → Option (List JPin)
  | [] => some []
  | p :: t => match jenc p, exportStream t with
    | some j, some js => some (j :: js)
    | _, _ => none

inductive Res where
  | ok (m : PinMap)
  | err                     -- the operation reported an error
  deriving DecidableEq, Repr

/-- `State.Unmarshal` of a stream that breaks off inside its entry number `k` (0-based), after 6b95ff7:
    the first entry is decoded before anything is deleted, so a stream whose very first entry is
    broken leaves the target as it was; otherwise the target holds the `k` whole entries. Always an error. -/
def unmarshalCut (prior : PinMap) (stream : List Pin) (k : Nat) : Res × PinMap :=
  if k = 0 then (.err, prior) else (.err, putAll [] (stream.take k))

/-- `importState` onto a state: decode and add one by one, stop at the first failure. -/
def importInto : PinMap → List JPin → Option PinMap
  | m, [] => some m
  | m, j :: t => match jdec j with
    | none => none
    | some p => importInto (add p m) t

/-- `StateManager.ImportState` (raft and crdt): clean whatever was there, then import into
    the empty state; on failure nothing is saved/committed, the cleaned state stays empty.
    `garbage`: the stream is cut or followed by bytes that are not a JSON document. -/
def importState (_prior : PinMap) (stream : List JPin) (garbage : Bool) : Res × PinMap :=
  match importInto [] stream with
  | none => (.err, [])
  | some m => if garbage then (.err, []) else (.ok m, m)

/-- `crdtStateManager.ImportState`: as above, then `BatchingState.Commit` — unless no pin at all
    was added (after 2096d62 `importState` counts them): committing a batch without operations
    would make go-ds-crdt dereference a nil delta, so the manager returns right after the clean.
    The result is that of the raft manager for every stream. -/
def importStateCrdt (_prior : PinMap) (stream : List JPin) (garbage : Bool) : Res × PinMap :=
  match importInto [] stream with
  | none => (.err, [])
  | some m => if garbage then (.err, []) else
      if stream.isEmpty then (.ok [], [])       -- n = 0: cleaned store, no Commit
      else (.ok m, m)                           -- Commit

/-! ## 5. Raft data folder and its rotated backups -/

/-- what a folder holds -/
inductive Folder (α : Type) where
  | nosnap            -- a folder without any snapshot in it
  | snap (s : α)      -- a folder holding the snapshot `s`
  deriving DecidableEq, Repr

structure Dirs (α : Type) where
  data : Option (Folder α)            -- `<data_folder>` (none = does not exist)
  old  : Nat → Option (Folder α)      -- `<data_folder>.old.<i>`

/-- `listBackups`: length of the run of existing `old.0, old.1, …` among the first `k` indices -/
def firstGap (old : Nat → Option β) : Nat → Nat
  | 0 => 0
  | k + 1 => let g := firstGap old k; if g = k ∧ (old k).isSome then k + 1 else g

/-- `dataBackupHelper.makeBackup`. `none` = panic (keep = 0 indexes backups[-1]). -/
def makeBackup (keep : Nat) (d : Dirs α) : Option (Dirs α) :=
  match d.data with
  | none => some d                                    -- nothing to back up
  | some f =>
    if keep = 0 then none else
    let l := firstGap d.old keep
    -- the slots old.0 … old.(n-1) are rotated; old.(n-1) is free (removed, or the first gap)
    let n := if l ≥ keep then l else l + 1
    some { data := none,
           old := fun i => if i = 0 then some f else if i < n then d.old (i - 1) else d.old i }

/-- `raft.CleanupRaft`: a folder without snapshot is removed without backup. -/
def cleanupRaft (keep : Nat) (d : Dirs α) : Option (Dirs α) :=
  match d.data with
  | some (.snap _) => makeBackup keep d
  | _ => some { d with data := none }

/-- `raft.SnapshotSave`: an existing snapshot is cleaned (rotated) first. -/
def snapshotSave (keep : Nat) (d : Dirs α) (s : α) : Option (Dirs α) :=
  match d.data with
  | some (.snap _) => (cleanupRaft keep d).map (fun d' => { d' with data := some (.snap s) })
  | _ => some { d with data := some (.snap s) }

inductive Op (α : Type) where
  | clean                -- CleanupRaft
  | save (s : α)         -- SnapshotSave
  | mkdir                -- the data folder appears without a snapshot (a peer that never snapshotted)
  | setKeep (k : Nat)    -- backups_rotate is reconfigured
  deriving DecidableEq, Repr

/-- one operation; the retention is part of the state because it can be reconfigured -/
def step (st : Nat × Dirs α) : Op α → Option (Nat × Dirs α)
  | .clean => (cleanupRaft st.1 st.2).map (fun d => (st.1, d))
  | .save s => (snapshotSave st.1 st.2 s).map (fun d => (st.1, d))
  | .mkdir => some (st.1, match st.2.data with | none => { st.2 with data := some .nosnap } | some _ => st.2)
  | .setKeep k => some (k, st.2)

/-- the states after each operation (stops at a panic) -/
def run (st : Nat × Dirs α) : List (Op α) → List (Option (Nat × Dirs α))
  | [] => []
  | o :: t => match step st o with
    | none => [none]
    | some st' => some st' :: run st' t

/-! ## 6. The peerstore file -/

/-- addresses below this index of the harness table are DNS addresses (`madns.Matches`);
    the table is sorted by `String()`, so index order is the order `byString` sorts in -/
def dnsCount : Nat := 4
def isDns (a : Nat) : Bool := decide (a < dnsCount)

structure Known where
  id    : Nat
  prio  : Option Nat        -- the `cluster` priority tag, if any
  addrs : List Nat          -- the peerstore's addresses for the peer (a set)
  deriving DecidableEq, Repr

structure PSInput where
  self  : Nat
  known : List Known        -- the host's peerstore
  peers : List Nat          -- argument of PeerInfos / SavePeerstoreForPeers
  deriving Repr

def lookup (known : List Known) (p : Nat) : Option Known := known.find? (fun k => k.id == p)
def prioOf (known : List Known) (p : Nat) : Nat := ((lookup known p).bind (·.prio)).getD 0
def addrsOf (known : List Known) (p : Nat) : List Nat := ((lookup known p).map (·.addrs)).getD []

def insertSorted (a : Nat) : List Nat → List Nat
  | [] => [a]
  | b :: t => if a ≤ b then a :: b :: t else b :: insertSorted a t
def sortNat (l : List Nat) : List Nat := l.foldr insertSorted []

def sameMembers (a b : List Nat) : Bool := a.isPerm b

/-- `filteredPeerAddrs`: what the code may return for a peer: its DNS addresses in the
    address book's (map) order if it has any, else all addresses sorted by string. -/
def addrsAllowed (known : List Known) (p : Nat) (out : List Nat) : Bool :=
  let all := addrsOf known p
  let dns := all.filter isDns
  if dns.isEmpty then out == sortNat all else sameMembers out dns

/-- peers `PeerInfos` lists (before sorting): not ourselves, at least one address -/
def listed (i : PSInput) : List Nat :=
  i.peers.filter (fun p => p != i.self && !(addrsOf i.known p).isEmpty)

def sortedByPrio (known : List Known) : List Nat → Bool
  | [] => true
  | [_] => true
  | a :: b :: t => decide (prioOf known a ≤ prioOf known b) && sortedByPrio known (b :: t)

/-- `PeerInfos`: the listed peers in non-decreasing priority (ties in any order: `sort.Sort`) -/
def peerInfosAllowed (i : PSInput) (out : List (Nat × List Nat)) : Bool :=
  (out.map (·.1)).isPerm (listed i) && sortedByPrio i.known (out.map (·.1)) &&
  out.all (fun e => addrsAllowed i.known e.1 e.2)

/-- one deterministic resolution (stable insertion sort, DNS addresses in book order) -/
def insertByPrio (known : List Known) (p : Nat) : List Nat → List Nat
  | [] => [p]
  | q :: t => if prioOf known p < prioOf known q then p :: q :: t else q :: insertByPrio known p t
def peerInfos (i : PSInput) : List (Nat × List Nat) :=
  ((listed i).foldr (fun p acc => insertByPrio i.known p acc) []).map (fun p =>
    let all := addrsOf i.known p
    let dns := all.filter isDns
    (p, if dns.isEmpty then sortNat all else dns))

/-- a line of the peerstore file -/
inductive Line where
  | full (a p : Nat)     -- <addr>/p2p/<peer>
  | bare (a : Nat)       -- a multiaddress without /p2p part: parses, cannot be imported
  | slashBad (k : Nat)   -- starts with '/', does not parse
  | noSlash (k : Nat)    -- does not start with '/' (comment, blank-prefixed, garbage)
  | empty
  | long                 -- an unparsable line of 64 KiB or more (starts with '/')
  deriving DecidableEq, Repr

/-- `SavePeerstore`: one line per address, peers in the given order -/
def save (pinfos : List (Nat × List Nat)) : List Line :=
  pinfos.flatMap (fun e => e.2.map (fun a => Line.full a e.1))

def Line.loads : Line → Bool
  | .full _ _ => true
  | .bare _ => true
  | _ => false

/-- `LoadPeerstore` (after fcf3a57 and 610b52a): every line that parses, in file order. Lines are
    read with `bufio.Reader.ReadString` and may be of any length: a line of 64 KiB or more is
    treated like any other line (until 610b52a a `bufio.Scanner` gave up at such a line and the
    rest of the file was not read). -/
def load (file : List Line) : List Line := file.filter Line.loads

/-! ### the shape of a hand-edited file

`LoadPeerstore` reads with `ReadString('\n')` until EOF, strips one trailing "\n" and then one
trailing "\r" from what it got, and looks at the remaining text — also at the text that comes
together with `io.EOF` (a last line without newline). So:
* whether the file ends in a newline does not matter (`finalNewline` is not used by `loadShaped`);
* a line may end in "\n" or "\r\n" (`cr` = 0 or 1): the text is the same;
* only ONE "\r" is stripped: "\r\r\n" (`cr` = 2) leaves a "\r" glued to the text, which then does
  not parse (an address) or does not start with '/' (a blank line) — the line is skipped. A "\r" in
  the middle of a line is just part of an unparsable text (a `slashBad` entry of the harness table);
* a UTF-8 byte order mark glues to the first line, which then does not start with '/'. -/

/-- a line of the file together with the number of "\r" before its line end -/
structure FLine where
  l  : Line
  cr : Nat
  deriving DecidableEq, Repr

structure FileShape where
  finalNewline : Bool      -- the last line is terminated by "\n"
  bom          : Bool      -- the file starts with EF BB BF
  deriving DecidableEq, Repr

def FLine.parses (fl : FLine) : Bool := fl.l.loads && decide (fl.cr ≤ 1)

/-- `LoadPeerstore` on a file of the given shape -/
def loadShaped (sh : FileShape) (file : List FLine) : List Line :=
  ((if sh.bom then file.drop 1 else file).filter FLine.parses).map (·.l)

/-- "\r\n" read as "\n": the one "\r" the code strips -/
def FLine.stripCr (fl : FLine) : FLine := { fl with cr := if fl.cr ≤ 1 then 0 else fl.cr }

/-- `ImportPeers` walks the loaded addresses with their index `i` and sets priority `i` on the
    peer of every importable entry: what remains is the index of the peer's last entry -/
def lastIdx (p : Nat) : List Line → Nat → Option Nat → Option Nat
  | [], _, acc => acc
  | l :: t, i, acc => lastIdx p t (i + 1) (match l with
      | .full _ q => if q = p then some i else acc
      | _ => acc)

/-- priority `ImportPeers` leaves on a peer (our own entries are not imported) -/
def importPrio (self : Nat) (loaded : List Line) (p : Nat) : Option Nat :=
  if p = self then none else lastIdx p loaded 0 none

/-- addresses `ImportPeers(loaded)` adds for a peer -/
def importedAddrs (self : Nat) (loaded : List Line) (p : Nat) : List Nat :=
  loaded.filterMap (fun l => match l with
    | .full a q => if q = p ∧ p ≠ self then some a else none
    | _ => none)

def importedEntry (self : Nat) (loaded : List Line) (p : Nat) : Option Known :=
  match importPrio self loaded p with
  | none => none
  | some pr => some { id := p, prio := some pr, addrs := importedAddrs self loaded p }

/-- peerstore of a fresh host `self` after `ImportPeers(loaded)` -/
def importPeers (self : Nat) (loaded : List Line) (univ : List Nat) : List Known :=
  univ.filterMap (importedEntry self loaded)

end CV.C14
