import ClusterVerif.Model.C11
/-!
# C11 (round 8b): `sendResponse` as an interpreted decision table

`harness/extract_c11b` translates the body of `(*API).sendResponse` (api/rest/restapi.go) into `Gen.sendLogic : List SArm`
and every call site `api.sendResponse(w, <status>, <err>, <resp>)` of every method of `*API` into `Gen.handlerSends`.
This file is the interpreter: `sendResponse logic auto status err resp` = the statuses passed to `w.WriteHeader` and the
number of JSON documents encoded, for EVERY status value; `groupAnswer` = what a handler answers after the RPC named
came back `ok | err | notFound`, by running the call site that fires through the interpreted `sendResponse`.
`Props/C11.lean` proves the status / body discipline over the extracted table and that every handler's call sites give
exactly the status and document count of the hand-written model arm (`runHandler`). Core Lean only.
-/
namespace CV.C11

/-- a condition inside `sendResponse` -/
inductive SCond where
  | errNonNil | respNonNil | statusAuto
  | statusLt (n : Nat)
  | or (a b : SCond) | and (a b : SCond) | not (a : SCond)
  deriving DecidableEq, Repr

/-- a statement of `sendResponse` that matters for the answer -/
inductive SStmt where
  | ifSet (c : SCond) (st : Nat)     -- `if c { status = st }`
  | writeHeader                      -- `w.WriteHeader(status)`
  | encode                           -- `enc.Encode(…)`: one JSON document
  | ret
  deriving DecidableEq, Repr

/-- a top-level `if guard { body }` of `sendResponse` (`guard = none`: statements at top level) -/
structure SArm where
  guard : Option SCond
  body : List SStmt
  deriving DecidableEq, Repr

def SCond.eval (auto st : Int) (err resp : Bool) : SCond → Bool
  | .errNonNil => err
  | .respNonNil => resp
  | .statusAuto => st == auto
  | .statusLt n => decide (st < (n : Int))
  | .or a b => a.eval auto st err resp || b.eval auto st err resp
  | .and a b => a.eval auto st err resp && b.eval auto st err resp
  | .not a => !a.eval auto st err resp

/-- what was written: the arguments of `WriteHeader`, in order, and the number of documents encoded -/
structure SOut where
  written : List Int
  docs : Nat
  deriving DecidableEq, Repr

/-- run a statement list; the Bool says that a `return` was reached -/
def runStmts (auto : Int) (err resp : Bool) : List SStmt → Int → SOut → Int × SOut × Bool
  | [], st, o => (st, o, false)
  | .ifSet c n :: r, st, o => runStmts auto err resp r (if c.eval auto st err resp then (n : Int) else st) o
  | .writeHeader :: r, st, o => runStmts auto err resp r st { o with written := o.written ++ [st] }
  | .encode :: r, st, o => runStmts auto err resp r st { o with docs := o.docs + 1 }
  | .ret :: _, st, o => (st, o, true)

def runArms (auto : Int) (err resp : Bool) : List SArm → Int → SOut → SOut
  | [], _, o => o
  | a :: r, st, o =>
    if (match a.guard with | none => true | some c => c.eval auto st err resp) then
      let res := runStmts auto err resp a.body st o
      if res.2.2 then res.2.1 else runArms auto err resp r res.1 res.2.1
    else runArms auto err resp r st o

/-- `api.sendResponse(w, status, err, resp)` interpreted over the extracted body -/
def sendResponse (logic : List SArm) (auto st : Int) (err resp : Bool) : SOut :=
  runArms auto err resp logic st ⟨[], 0⟩

/-! ### call sites -/

inductive ErrArg where
  | nil        -- the literal nil
  | fresh      -- errors.New(…) / fmt.Errorf(…): never nil
  | var        -- a variable (the error of the preceding call)
  deriving DecidableEq, Repr

/-- the innermost enclosing condition that mentions `err` -/
inductive Guard where
  | none | errNonNil | errNotFound | other
  deriving DecidableEq, Repr

structure SendCall where
  status : Option Nat      -- none = autoStatus
  err : ErrArg
  resp : Bool              -- a value is passed (not the literal nil)
  guard : Guard
  deriving DecidableEq, Repr

def Guard.fires : Guard → RpcMode → Bool
  | .none, _ => true
  | .errNonNil, .ok => false
  | .errNonNil, _ => true
  | .errNotFound, .notFound => true
  | .errNotFound, _ => false
  | .other, _ => false

def ErrArg.val : ErrArg → RpcMode → Bool
  | .nil, _ => false
  | .fresh, _ => true
  | .var, .ok => false
  | .var, _ => true

def SendCall.answer (logic : List SArm) (auto : Int) (c : SendCall) (m : RpcMode) : SOut :=
  sendResponse logic auto (match c.status with | some n => (n : Int) | none => auto) (c.err.val m) c.resp

def unguarded (gs : List (String × List SendCall)) : List SendCall :=
  (gs.map (·.2)).flatten.filter (fun c => c.guard == .none)

/-- the call that answers after the RPC `name` came back in mode `m`: the first call of its group that fires, else the
    first unguarded call further down (`statusAllHandler`: both branches fall through to one final call) -/
def groupCall : List (String × List SendCall) → String → RpcMode → Option SendCall
  | [], _, _ => none
  | (n, cs) :: later, name, m =>
    if n == name then (cs ++ unguarded later).find? (fun c => c.guard.fires m)
    else groupCall later name m

def groupAnswer (logic : List SArm) (auto : Int) (gs : List (String × List SendCall)) (name : String) (m : RpcMode) :
    Option SOut :=
  (groupCall gs name m).map (fun c => c.answer logic auto m)

/-- a call made before any RPC (and every call of a parse helper / the 404 / 405 handlers) is a refusal:
    a 4xx status by name, no value, and an error that is not nil there -/
def SendCall.refusal (c : SendCall) : Bool :=
  (match c.status with | some n => decide (400 ≤ n) && decide (n < 500) | none => false) &&
  !c.resp && (c.err == .fresh || (c.err == .var && c.guard == .errNonNil))

def preCalls (gs : List (String × List SendCall)) : List SendCall :=
  ((gs.filter (fun g => g.1 == "")).map (·.2)).flatten

/-- no call after an RPC sits under a condition on `err` the translator does not know -/
def guardsKnown (gs : List (String × List SendCall)) : Bool :=
  (gs.map (·.2)).flatten.all (fun c => c.guard != .other)

/-! ### a well-formed sample request per route, to read the model's status discipline off `runHandler` -/

def sampleSeg : Seg := ⟨"x", some 1, some 1⟩

def sampleSegs : List PSeg → List Seg
  | [] => []
  | .lit s :: r => lit s :: sampleSegs r
  | .var _ :: r => sampleSeg :: sampleSegs r
  | .alt _ o :: r => lit (o.headD "") :: sampleSegs r
  | .rest _ :: r => sampleSeg :: sampleSegs r

def sampleReq (rt : Route) (loc : Bool) (m : RpcMode) : Req :=
  { creds := false, auth := .none, pf := false, method := rt.method, segs := sampleSegs rt.pat, slash := false,
    query := if loc then [("local", boolQ true)] else [], md := [], body := .peerJson sampleSeg, rpc := m }

def docsOf : BodyShape → Option Nat
  | .docs n => some n
  | .junk _ => none

/-- for one route, local flag and cluster answer: the model's arm performs one operation and answers with the status and
    document count that the extracted call sites of the route's handler give through the extracted `sendResponse` -/
def sendsAgree (logic : List SArm) (auto : Int) (sends : List (String × List (String × List SendCall)))
    (rt : Route) (loc : Bool) (m : RpcMode) : Bool :=
  match Handler.ofName rt.handler with
  | none => false
  | some h =>
    let o := runHandler h (sampleReq rt loc m) rt.pat
    match o.ops with
    | [op] =>
      (match sends.lookup rt.handler with
       | some gs => guardsKnown gs &&
           groupAnswer logic auto gs op.name m == (docsOf o.body).map (fun d => ⟨[(o.status : Int)], d⟩)
       | none => false)
    | _ => rt.handler == "addHandler"      -- the add endpoint answers through AddMultipartHTTPHandler

/-- the refusal a function makes (its pre-RPC calls) is the model's `refuse st`: status `st`, one document -/
def refusalsAgree (logic : List SArm) (auto : Int) (gs : List (String × List SendCall)) : Bool :=
  (preCalls gs).all (fun c => c.refusal &&
    (match c.status with
     | some n => c.answer logic auto .err == ⟨[(n : Int)], 1⟩ && (refuse n).status == n && (refuse n).body == .docs 1
     | none => false))

end CV.C11
