/-
C18 (round 8c) — semantic tie of the synchronisation models, second part (core Lean only).

`Gen.syncOps` (harness/extract_c18/syncops.go, go/ast) lists EVERY channel receive (`<-ch`, `range ch`), every `<-x.Done()`,
every WaitGroup call (`Add` with its argument, `Done`, `Wait`) and every go statement in a function of the ten anchored files,
with its class: `plain` / `-` / `defer` (a statement of its own), `select` (communication of a case of a select without default),
`default` (… with a default clause). `syncSites` says, per (function, kind, expression, class), HOW OFTEN the function contains it
and which instruction of which transcribed thread it is — or `none` with the reason why no program transcribes it.
`syncOpsOK` looks INTO the program:
* a `select` row must be an alternative of an instruction with at least two alternatives and no default branch,
* a `default` row an alternative of an instruction with a default branch,
* any other row the only alternative of an instruction without default (a plain statement),
* the thread must contain at least as many such instructions as the function has rows of the site,
* every row of the source is a known site with exactly the recorded multiplicity (a NEW receive / `ctx.Done()` arm / WaitGroup call /
  go statement, a dropped one, one moved into or out of a `select`, a changed `Add` argument fail closed), every site still exists.
Timer / ticker receives are `tau` alternatives of the model (time is not modelled: the arm may always fire).
-/
import ClusterVerif.Model.C18ChanOps

namespace CV.C18
open Sync Sync.Progs

/-- function `pkg|Recv.name`, kind, expression, class -/
abbrev SyncOp := String × String × String × String

/-- does the model operation `w` transcribe `op`? (`spawn _`: any go statement — the thread index is a model name) -/
def opIs (w : Op) (op : Op) : Bool :=
  match w, op with
  | .spawn _, .spawn _ => true
  | _, _ => decide (w = op)

/-- shape of the instruction an operation of class `cls` must sit in -/
def shapeOK (cls : String) (ins : Instr) : Bool :=
  if cls == "select" then ins.dflt.isNone && Nat.ble 2 ins.alts.length
  else if cls == "default" then ins.dflt.isSome
  else ins.dflt.isNone && Nat.beq ins.alts.length 1

/-- number of instructions of `code` that carry `w` in the shape of class `cls` -/
def countShaped (code : Code) (w : Op) (cls : String) : Nat :=
  (code.filter fun ins => shapeOK cls ins && ins.alts.any fun a => opIs w a.op).length

structure SyncSite where
  fn : String
  kind : String
  expr : String
  cls : String
  /-- how many times the function contains this operation -/
  count : Nat
  /-- thread code and model operation; `none`: reviewed, in no transcribed program (reason next to the row) -/
  model : Option (Code × Op)
  /-- how many of the `count` occurrences the thread code transcribes (`run()`: one of its six counted goroutines) -/
  copies : Nat

/-- the kind of the source row and the constructor of the model operation agree (a ticker / timer receive is a `tau`) -/
def kindOK (kind : String) : Op → Bool
  | .recv _ => kind == "recv"
  | .tau => kind == "recv"
  | .done _ => kind == "done"
  | .wgAdd _ _ => kind == "wgAdd"
  | .wgDone _ => kind == "wgDone"
  | .wgWait _ => kind == "wgWait"
  | .spawn _ => kind == "go"
  | _ => false

private def S (fn kind expr cls : String) (count : Nat) (model : Option (Code × Op)) : SyncSite := ⟨fn, kind, expr, cls, count, model, count⟩
private def S1 (fn kind expr cls : String) (count : Nat) (model : Option (Code × Op)) : SyncSite := ⟨fn, kind, expr, cls, count, model, 1⟩

def syncSites : List SyncSite := [
  -- NewCluster: c.wg.Add(1); go func(){ defer c.wg.Done(); c.ready(); c.run() }()
  S ".|NewCluster" "wgAdd" "c.wg" "1" 1 (some (cMain true, .wgAdd 0 1)),
  S ".|NewCluster" "go" "func" "-" 1 (some (cMain true, .spawn 0)),
  S ".|NewCluster" "wgDone" "c.wg" "defer" 1 (some (cStart true 6 2, .wgDone 0)),
  -- ticker loops started by run(): `for { select { case <-ctx.Done(): return ; case <-ticker.C: … } }`, counted in c.wg by run();
  -- "like watchPeers without its removal branch" (cStart pc 8), no thread of their own in the programs
  S ".|Cluster.watchPinset" "recv" "stateSyncTicker.C" "select" 1 none,
  S ".|Cluster.watchPinset" "recv" "recoverTicker.C" "select" 1 none,
  S ".|Cluster.watchPinset" "done" "c.ctx" "select" 1 none,
  S ".|Cluster.pushInformerMetrics" "done" "ctx" "select" 1 none,
  S ".|Cluster.pushInformerMetrics" "recv" "timer.C" "select" 1 none,
  S ".|Cluster.pushPingMetrics" "done" "ctx" "select" 1 none,
  S ".|Cluster.pushPingMetrics" "recv" "timer.C" "select" 1 none,
  S ".|Cluster.reBootstrap" "done" "c.ctx" "select" 1 none,
  S ".|Cluster.reBootstrap" "recv" "ticker.C" "select" 1 none,
  -- alertsHandler = the consumer of progW
  S ".|Cluster.alertsHandler" "done" "c.ctx" "select" 1 (some (wConsumer, .done 0)),
  S ".|Cluster.alertsHandler" "recv" "c.monitor.Alerts()" "select" 1 (some (wConsumer, .recv 0)),
  -- watchPeers (loop as written, with its removal branch)
  S ".|Cluster.watchPeers" "done" "c.ctx" "select" 1 (some (cWatchPeers true true 8, .done 0)),
  S ".|Cluster.watchPeers" "recv" "ticker.C" "select" 1 (some (cWatchPeers true true 8, .tau)),
  S ".|Cluster.watchPeers" "go" "c.Shutdown" "-" 1 (some (cWatchPeers true true 8, .spawn 0)),
  -- run(): six times `c.wg.Add(n); go func(){ defer c.wg.Done(); … }()`; the programs carry ONE of them (watchPeers)
  S1 ".|Cluster.run" "wgAdd" "c.wg" "1" 5 (some (cStart true 6 2, .wgAdd 0 1)),
  S ".|Cluster.run" "wgAdd" "c.wg" "len(c.informers)" 1 none,   -- one pushInformerMetrics goroutine per informer, each `defer c.wg.Done()`
  S1 ".|Cluster.run" "go" "func" "-" 6 (some (cStart true 6 2, .spawn 0)),
  S1 ".|Cluster.run" "wgDone" "c.wg" "defer" 6 (some (cWatchPeers true true 8, .wgDone 0)),
  -- ready(): all three arms of its select, both failure arms start Shutdown in a goroutine
  S ".|Cluster.ready" "recv" "timer.C" "select" 1 (some (cStart true 6 2, .tau)),
  S ".|Cluster.ready" "recv" "c.consensus.Ready(ctx)" "select" 1 (some (cStart true 6 2, .tau)),
  S ".|Cluster.ready" "done" "c.ctx" "select" 1 (some (cStart true 6 2, .done 0)),
  S ".|Cluster.ready" "go" "c.Shutdown" "-" 2 (some (cStart true 6 2, .spawn 0)),
  S ".|Cluster.Shutdown" "wgWait" "c.wg" "-" 1 (some (cShutdown, .wgWait 0)),
  -- Join: the same counted-goroutine pattern (Add(1); go func(){ defer Done(); select refresh / ctx.Done() }()), not transcribed
  S ".|Cluster.Join" "wgAdd" "c.wg" "1" 1 none,
  S ".|Cluster.Join" "go" "func" "-" 1 none,
  S ".|Cluster.Join" "wgDone" "c.wg" "defer" 1 none,
  S ".|Cluster.Join" "recv" "c.dht.LAN.RefreshRoutingTable()" "select" 1 none,
  S ".|Cluster.Join" "recv" "c.dht.WAN.RefreshRoutingTable()" "select" 1 none,
  S ".|Cluster.Join" "done" "c.ctx" "select" 2 none,
  -- Operation.Cancelled: a non-blocking poll (`default_never_blocks`)
  S "pintracker/optracker|Operation.Cancelled" "done" "op.ctx" "default" 1 (some ([tryOp (.done 0) 1 1, halt], .done 0)),
  -- stateless tracker: New starts both workers; NOBODY calls spt.wg.Add (see `tracker_wg_never_added`)
  S "pintracker/stateless|New" "go" "spt.opWorker" "-" 2 (some (tMain false 1, .spawn 0)),
  S "pintracker/stateless|Tracker.opWorker" "recv" "opChan" "select" 1 (some (tWorker 1, .recv 1)),
  S "pintracker/stateless|Tracker.opWorker" "done" "spt.ctx" "select" 1 (some (tWorker 1, .done 0)),
  S "pintracker/stateless|Tracker.Shutdown" "wgWait" "spt.wg" "-" 1 (some (aShutdown, .wgWait 0)),
  S "monitor/metrics|Checker.Watch" "recv" "ticker.C" "select" 1 (some (wWatch false, .tau)),
  S "monitor/metrics|Checker.Watch" "done" "ctx" "select" 1 (some (wWatch false, .done 0)),
  -- crdt
  S "consensus/crdt|New" "go" "css.setup" "-" 1 (some (progQ.headD [], .spawn 0)),
  S "consensus/crdt|Consensus.setup" "done" "css.ctx" "select" 1 (some (bSetup 2, .done 0)),
  S "consensus/crdt|Consensus.setup" "recv" "css.rpcReady" "select" 1 (some (bSetup 2, .recv 0)),
  S "consensus/crdt|Consensus.setup" "go" "css.batchWorker" "-" 1 (some (bSetup 2, .spawn 0)),
  S "consensus/crdt|Consensus.batchWorker" "done" "css.ctx" "select" 1 (some (bBatchWorker, .done 0)),
  S "consensus/crdt|Consensus.batchWorker" "recv" "css.batchItemCh" "select" 1 (some (bBatchWorker, .recv 2)),
  -- the batch timer: its arm commits the batch (touches no shared state of the model), the two plain receives drain a stopped timer
  S "consensus/crdt|Consensus.batchWorker" "recv" "batchTimer.C" "select" 1 none,
  S "consensus/crdt|Consensus.batchWorker" "recv" "batchTimer.C" "plain" 2 none,
  -- State(): waits for css.stateReady (closed once by setup, `chanSites`), in no model
  S "consensus/crdt|Consensus.State" "done" "ctx" "select" 1 none,
  S "consensus/crdt|Consensus.State" "done" "css.ctx" "select" 1 none,
  S "consensus/crdt|Consensus.State" "recv" "css.stateReady" "select" 1 none ]

def sameSyncSite (o : SyncOp) (s : SyncSite) : Bool :=
  s.fn == o.1 && s.kind == o.2.1 && s.expr == o.2.2.1 && s.cls == o.2.2.2

/-- one site against the source rows and against the program that transcribes it -/
def syncSiteOK (ops : List SyncOp) (s : SyncSite) : Bool :=
  Nat.ble 1 s.count && Nat.beq (ops.filter fun o => sameSyncSite o s).length s.count &&
  match s.model with
  | none => true
  | some (code, w) => kindOK s.kind w && Nat.ble 1 s.copies && Nat.ble s.copies s.count && Nat.ble s.copies (countShaped code w (if s.kind == "wgAdd" then "-" else s.cls))

def syncOpsOK (ops : List SyncOp) : Bool :=
  (ops.all fun o => syncSites.any (sameSyncSite o)) && syncSites.all (syncSiteOK ops)

/-- the sites that are tied to a program (not merely reviewed) -/
def modelledSites : Nat := (syncSites.filter fun s => s.model.isSome).length

/-- no `Add` on a WaitGroup anywhere in a function of package `pkg` -/
def noWgAdd (ops : List SyncOp) (pkg : String) : Bool :=
  ops.all fun o => !(o.2.1 == "wgAdd" && (pkg ++ "|").isPrefixOf o.1)

end CV.C18
