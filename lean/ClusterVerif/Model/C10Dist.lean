/-
C10 — byte level of util.go's distance checker.

`distance` is a 32-byte array. `xor` is byte-wise, `bytes.Compare` is lexicographic, `convertPeerID` answers from a
per-checker cache (a map peer id ↦ hash) and fills it. `Model/C10.lean` works with the big-endian VALUE of those arrays
(`beVal`) and Nat `^^^` / `>`; the theorems of `Props/C10.lean` (section "byte level") show both levels give the same answers,
that the cache is transparent as long as it holds only what the checker itself stored, and what realistic wrong edits
(comparison of a prefix only, xor that skips a byte, a cache that keeps distances) do to "exactly one member is closest".
Core Lean only.
-/
import ClusterVerif.Model.C10
namespace CV.C10.Dist
open CV

abbrev Bytes := List Nat

/-- `xor(a, b)`: byte-wise -/
def xorB : Bytes → Bytes → Bytes
  | x :: xs, y :: ys => (x ^^^ y) :: xorB xs ys
  | _, _ => []

/-- `bytes.Compare(a, b)`: lexicographic; a proper prefix is smaller -/
def cmpB : Bytes → Bytes → Ordering
  | [], [] => .eq
  | [], _ :: _ => .lt
  | _ :: _, [] => .gt
  | x :: xs, y :: ys => if x < y then .lt else if x > y then .gt else cmpB xs ys

/-- big-endian value of a byte string -/
def beVal : Bytes → Nat
  | [] => 0
  | x :: xs => 2 ^ (8 * xs.length) * x + beVal xs

/-- every element is a byte -/
def isBytes (b : Bytes) : Bool := b.all (fun x => decide (x < 256))

/-- the cache of one `distanceChecker`: peer id ↦ hash -/
abbrev Cache := List (Nat × Bytes)

def Cache.get (c : Cache) (id : Nat) : Option Bytes := C04.lookup c id

/-- `convertPeerID(id)`: the cached hash if there is one, else `hashFn id`, which is stored -/
def convertPeerID (hashFn : Nat → Bytes) (c : Cache) (id : Nat) : Bytes × Cache :=
  match c.get id with
  | some h => (h, c)
  | none => (hashFn id, (id, hashFn id) :: c)

/-- the loop of `isClosest` over `otherPeers`: false at the first peer that is strictly closer -/
def scan (hashFn : Nat → Bytes) (ciHash myDist : Bytes) : Cache → List Nat → Bool × Cache
  | c, [] => (true, c)
  | c, p :: ps =>
    let r := convertPeerID hashFn c p
    if cmpB myDist (xorB r.1 ciHash) == .gt then (false, r.2) else scan hashFn ciHash myDist r.2 ps

/-- `distanceChecker.isClosest(ci)` with the checker's cache threaded through -/
def isClosestB (hashFn : Nat → Bytes) (c : Cache) (self : Nat) (others : List Nat) (ciHash : Bytes) : Bool × Cache :=
  let r := convertPeerID hashFn c self
  scan hashFn ciHash (xorB ciHash r.1) r.2 others

/-- the same checker asked about several cids one after the other (one run of the alert handler / of StateSync) -/
def isClosestSeq (hashFn : Nat → Bytes) (c : Cache) (self : Nat) (others : List Nat) : List Bytes → List Bool × Cache
  | [] => ([], c)
  | h :: hs =>
    let r := isClosestB hashFn c self others h
    let rs := isClosestSeq hashFn r.2 self others hs
    (r.1 :: rs.1, rs.2)

/-- the answer without any cache: what the Nat-level model computes -/
def isClosestPure (hashFn : Nat → Bytes) (self : Nat) (others : List Nat) (ciHash : Bytes) : Bool :=
  others.all (fun p => !(cmpB (xorB ciHash (hashFn self)) (xorB (hashFn p) ciHash) == .gt))

/-- the cache holds only what the checker itself would have stored -/
def Consistent (hashFn : Nat → Bytes) (c : Cache) : Prop := ∀ id h, c.get id = some h → h = hashFn id

/-- the candidate list `getTrustedPeers(exclude)` builds for `self` out of the member list (everybody trusted) -/
def candidates (members : List Nat) (self : Nat) (exclude : Option Nat) : List Nat :=
  members.filter (fun p => p != self && some p != exclude)

/-! ### realistic wrong edits, as alternative comparisons -/

/-- "compare the first k bytes only" (e.g. the first 8 as one uint64) -/
def isClosestPrefix (k : Nat) (hashFn : Nat → Bytes) (self : Nat) (others : List Nat) (ciHash : Bytes) : Bool :=
  others.all (fun p => !(cmpB ((xorB ciHash (hashFn self)).take k) ((xorB (hashFn p) ciHash).take k) == .gt))

/-- an `xor` whose loop stops one byte early (the last byte of the distance stays 0) -/
def xorShort (a b : Bytes) : Bytes := (xorB a.dropLast b.dropLast) ++ [0]

def isClosestShortXor (hashFn : Nat → Bytes) (self : Nat) (others : List Nat) (ciHash : Bytes) : Bool :=
  others.all (fun p => !(cmpB (xorShort ciHash (hashFn self)) (xorShort (hashFn p) ciHash) == .gt))


end CV.C10.Dist
