import ClusterVerif.Model.C14Snaps

/-! # C14 — a data folder whose snapshots may be DAMAGED or share one (term, index) (round 8c)

Two folder contents `Model/C14Snaps.lean` leaves out:

* a snapshot directory with readable `meta.json` whose `state.bin` no longer matches the CRC recorded in the metadata
  (power loss after the rename, a truncated copy, bit rot). `FileSnapshotStore.List` still shows it (only the metadata is
  read); `FileSnapshotStore.Open` fails with "CRC mismatch". `latestSnapshot` opens `List()[0]` ONLY, so
  `LastStateRaw`/`OfflineState`/`SnapshotSave` return that error when the newest snapshot is the damaged one — there is no
  fall-back to an older snapshot — while `CleanupRaft` (guard `meta == nil && err == nil`) takes the backup arm;
* two snapshots with the same (term, index): `snapMetaSlice.Less` then compares the ids (`<term>-<index>-<msec>`), so the one
  created LATER is listed first.

The list is in CREATION order. Leftovers (`*.tmp`, unreadable metadata, files) are `Snaps.Item`s and stay in the other model;
here `junk` only counts them (they never change which snapshot is read). Core Lean only. -/
namespace CV.C14.Damage
open CV.C14.Snaps

structure DSnap where
  s : Snap
  bad : Bool
  deriving DecidableEq, Repr

/-- keep the earlier one only when it is STRICTLY newer by (term, index): on a tie the later-created one wins -/
def pickD (acc : Option DSnap) (x : DSnap) : Option DSnap :=
  match acc with
  | none => some x
  | some a => if newer a.s x.s then some a else some x

/-- `List()[0]` — damage is invisible to `List` -/
def newestD (l : List DSnap) : Option DSnap := l.foldl pickD none

inductive Read where
  | absent | nosnap | pins (c : Nat) | broken
  deriving DecidableEq, Repr

/-- the data folder: `none` = absent -/
abbrev DFolder := Option (List DSnap)

/-- `LastStateRaw` + `OfflineState` -/
def offlineD : DFolder → Read
  | none => .absent
  | some l => match newestD l with
    | none => .nosnap
    | some m => if m.bad then .broken else .pins m.s.pin

/-- what hashicorp/raft `restoreSnapshot` restores at START: the snapshots in listing order, the first that opens
    (read from the library, NOT driven by the suite — see notes) -/
def startD (l : List DSnap) : Option Nat := (newestD (l.filter (fun x => !x.bad))).map (·.s.pin)

structure After where
  data : DFolder
  old0 : DFolder
  failed : Bool
  deriving DecidableEq, Repr

/-- `CleanupRaft`: anything `List` shows (readable or not) ⇒ the whole folder becomes old.0; nothing listed ⇒ removed -/
def cleanupD (f : DFolder) : After :=
  match f with
  | none => ⟨none, none, false⟩
  | some l => match newestD l with
    | none => ⟨none, none, false⟩
    | some _ => ⟨none, f, false⟩

/-- `SnapshotSave c`: a damaged newest snapshot ⇒ the error of `latestSnapshot` is returned before anything is touched -/
def saveD (f : DFolder) (c : Nat) : After :=
  match newestD (f.getD []) with
  | none => ⟨some (f.getD [] ++ [⟨⟨1, 2, c⟩, false⟩]), none, false⟩
  | some m => if m.bad then ⟨some (f.getD []), none, true⟩ else ⟨some [⟨⟨m.s.term, m.s.index, c⟩, false⟩], f, false⟩

/-- the raft state manager's `ImportState` = `Clean` then `SnapshotSave` on what `Clean` left (nothing) -/
def importD (f : DFolder) (c : Nat) : After :=
  let a := cleanupD f
  let b := saveD a.data c
  ⟨b.data, a.old0, b.failed⟩

/-! ### the raft state manager's `ImportState` as an INTERPRETED operation list (round 8c)

`harness/extract_c14` reads the folder-relevant operations of `raftStateManager.ImportState` from the syntax tree
(`Gen.SemImport.raftImportOps`, strings); `decodeOp` turns them into `IOp`s (unknown ⇒ `none` ⇒ the run is `none`: fail-closed) and
`runImport` executes them on the folder model. `Props`: the regenerated list, interpreted, IS `importD` — so an edit that drops
or moves the `Clean` changes what the model computes (e.g. on a folder whose newest snapshot is damaged the import then fails). -/
inductive IOp where
  | clean | store | offline | imp | save
  deriving DecidableEq, Repr

def decodeOp (s : String) : Option IOp :=
  if s == "clean!" then some .clean else if s == "store!" then some .store else if s == "offline!" then some .offline
  else if s == "import!" then some .imp else if s == "save!" then some .save else none

/-- `st`: the state object in hand (`none` = none yet; `some 0` = the empty pinset) -/
def runImport : List (Option IOp) → DFolder → DFolder → Option Nat → Nat → Option After
  | [], _, _, _, _ => none                      -- no `return SnapshotSave(…)` at the end: not a function this model knows
  | none :: _, _, _, _, _ => none
  | some .clean :: rest, data, old0, st, c =>
    runImport rest (cleanupD data).data (if (cleanupD data).old0.isSome then (cleanupD data).old0 else old0) st c
  | some .store :: rest, data, old0, st, c => runImport rest data old0 st c
  | some .offline :: rest, data, old0, _, c =>
    match offlineD data with
    | .broken => some ⟨data, old0, true⟩          -- the error of GetOfflineState ends the import; nothing was touched
    | .absent => runImport rest data old0 (some 0) c
    | .nosnap => runImport rest data old0 (some 0) c
    | .pins n => if n = 0 then runImport rest data old0 (some 0) c else none   -- import INTO a pinset: a union, outside this model
  | some .imp :: rest, data, old0, st, c =>
    match st with
    | some 0 => runImport rest data old0 (some c) c
    | _ => none
  | some .save :: _, data, old0, st, _ =>
    match st with
    | some x => some ⟨(saveD data x).data, if (saveD data x).old0.isSome then (saveD data x).old0 else old0, (saveD data x).failed⟩
    | none => none

def countD : DFolder → Nat
  | none => 0
  | some l => l.length

/-- the alternative "fall back to the next snapshot that opens" (what a starting peer does) for the offline read -/
def offlineFallback (l : List DSnap) : Read :=
  match startD l with
  | some c => .pins c
  | none => if l.isEmpty then .nosnap else .broken

end CV.C14.Damage
