import ClusterVerif.Model.C02
/-!
# C02 round 8b (core Lean only): hooks → tracker hand-off, batching configuration, shutdown

**(H) the Put/Delete hooks of `setup()`** as the code is. A hook receives the RAW datastore key and value:
`PutHook(k, v)`: `pin.ProtoUnmarshal(v)`; on error log and return; else `PinTracker.Track(pin)` — the pin DECODED
FROM THE VALUE (its cid is the one the value carries: `cid.Undef` when that field does not cast; the key is not
looked at). `DeleteHook(k)`: `dshelp.BinaryFromDsKey(k)`, `cid.Cast`, on either error log and return; else
`PinTracker.Untrack(api.PinCid(c))`. `State.List` (dsstate) lists an entry iff the key un-keys to a cid AND the
value decodes, and gives it the KEY's cid (`deserializePin` overwrites `p.Cid`).

`HStep` is the semantic shape of a hook body produced by the go/ast translator (`harness/extract_c02`);
`runHook` interprets it (fail-closed: an unknown statement, a call before its operand exists = `none`).

**(C) batching configuration** (`config.go`): `BCfg` = (max_batch_size, max_batch_age [ns], max_queue_size) as
signed integers; `enabled` = `batchingEnabled()`; `valid` = the batching arm of `Validate`; `loadJSON` = what
`LoadJSON`/`applyJSONConfig` make of the three JSON fields (size copied as is, age kept at the default 0 when the
string is empty, queue kept at the default 50000 when 0/omitted — `SetIfNotDefault`).

**(S) shutdown**: `batchWorker` leaves through `case <-css.ctx.Done(): return` — no final flush.
-/
namespace CV.C02.Hk

/-! ## (H) hooks -/

inductive RKey where
  | cidKey (c : Nat)       -- `dshelp.NewKeyFromBinary(c.Bytes())`
  | notBinary (n : Nat)    -- `BinaryFromDsKey` fails (not base32)
  | notCid (n : Nat)       -- base32 of bytes that `cid.Cast` rejects
  deriving DecidableEq, Repr

inductive RVal where
  | pin (c : Option Nat) (content : Nat)   -- decodes; `none`: the cid field does not cast (`pin.Cid = cid.Undef`)
  | garbage (n : Nat)                      -- `proto.Unmarshal` fails
  deriving DecidableEq, Repr

inductive Call where
  | track (c : Option Nat) (content : Nat)
  | untrack (c : Nat)
  deriving DecidableEq, Repr

def cidOfKey : RKey → Option Nat
  | .cidKey c => some c
  | _ => none

/-- `opts.PutHook` -/
def putHook (_k : RKey) : RVal → List Call
  | .pin c v => [.track c v]
  | .garbage _ => []

/-- `opts.DeleteHook` -/
def delHook : RKey → List Call
  | .cidKey c => [.untrack c]
  | _ => []

/-- one entry of `dsstate.State.List`: cid of the KEY, content of the value -/
def listEntry (k : RKey) (v : RVal) : Option (Nat × Nat) :=
  match k, v with
  | .cidKey c, .pin _ n => some (c, n)
  | _, _ => none

/-- semantic shape of a hook body (translator output) -/
inductive HStep where
  | unmarshalVal     -- `pin := &api.Pin{}` … `err := pin.ProtoUnmarshal(v)`
  | binaryFromKey    -- `kb, err := dshelp.BinaryFromDsKey(k)`
  | castCid          -- `c, err := cid.Cast(kb)`
  | retOnErr         -- `if err != nil { <logging>; return }`
  | logOnErr         -- `if err != nil { <logging> }`
  | pinOfCid         -- `pin := api.PinCid(c)`
  | callTrack        -- `err = css.rpcClient.CallContext(ctx, "", "PinTracker", "Track", pin, &struct{}{})`
  | callUntrack      -- … `"Untrack"` …
  | unknown (src : String)
  deriving DecidableEq, Repr

structure HEnv where
  key : RKey
  val : Option RVal
  pin : Option (Option Nat × Nat) := none
  kb : Option RKey := none
  cid : Option Nat := none
  err : Bool := false
  calls : List Call := []
  returned : Bool := false
  stuck : Bool := false
  deriving Repr

def hexec (e : HEnv) : HStep → HEnv
  | .unmarshalVal =>
    match e.val with
    | some (.pin c v) => { e with pin := some (c, v), err := false }
    | some (.garbage _) => { e with err := true }
    | none => { e with stuck := true }
  | .binaryFromKey =>
    match e.key with
    | .notBinary _ => { e with err := true }
    | k => { e with kb := some k, err := false }
  | .castCid =>
    match e.kb with
    | some (.cidKey c) => { e with cid := some c, err := false }
    | some _ => { e with err := true }
    | none => { e with stuck := true }
  | .retOnErr => if e.err then { e with returned := true } else e
  | .logOnErr => e
  | .pinOfCid =>
    match e.cid with
    | some c => { e with pin := some (some c, 0) }
    | none => { e with stuck := true }
  | .callTrack =>
    match e.pin with
    | some (c, v) => { e with calls := e.calls ++ [.track c v], err := false }
    | none => { e with stuck := true }
  | .callUntrack =>
    match e.pin with
    | some (some c, _) => { e with calls := e.calls ++ [.untrack c], err := false }
    | _ => { e with stuck := true }
  | .unknown _ => { e with stuck := true }

def hstep (e : HEnv) (s : HStep) : HEnv := if e.returned || e.stuck then e else hexec e s

/-- interpret a hook body on a raw key (and value, for the put hook); `none` = shape not understood -/
def runHook (shape : List HStep) (k : RKey) (v : Option RVal) : Option (List Call) :=
  let e := shape.foldl hstep { key := k, val := v }
  if e.stuck then none else some e.calls

/-- how the model's natural-number keys / values stand for raw keys / values -/
structure Enc where
  key : Key → RKey
  val : Val → RVal

/-- what reaches the pin tracker for a sequence of hook invocations -/
def trackerCalls (enc : Enc) : List Hook → List Call
  | [] => []
  | .put k v :: hs => putHook (enc.key k) (enc.val v) ++ trackerCalls enc hs
  | .del k :: hs => delHook (enc.key k) ++ trackerCalls enc hs

/-- the hook concerns an entry as `State.Add/Rm` write it: cid key, decodable value carrying the key's cid -/
def wfHook (enc : Enc) : Hook → Bool
  | .put k v =>
    match enc.key k, enc.val v with
    | .cidKey c, .pin (some c') _ => c == c'
    | _, _ => false
  | .del k => (cidOfKey (enc.key k)).isSome

/-- the tracker call the property asks for -/
def wantCall (enc : Enc) : Hook → Option Call
  | .put k v =>
    match enc.key k, enc.val v with
    | .cidKey c, .pin _ n => some (.track (some c) n)
    | _, _ => none
  | .del k => (cidOfKey (enc.key k)).map .untrack

/-! ### a single replica written through raw puts / deletes (what the `hook` suite drives) -/

inductive RawOp where
  | put (k : RKey) (v : RVal)
  | del (k : RKey)
  deriving DecidableEq, Repr

abbrev RStore := List (RKey × RVal)

def RStore.del (s : RStore) (k : RKey) : RStore := s.filter (fun e => e.1 != k)

/-- local write published on top of everything (it always wins): store and tracker calls.
    A delete of an absent key publishes nothing (`set.Rmv` finds no element: no tombstone, no hook). -/
def rawStep (s : RStore) : RawOp → RStore × List Call
  | .put k v => ((k, v) :: s.del k, putHook k v)
  | .del k => if s.any (fun e => e.1 == k) then (s.del k, delHook k) else (s, [])

def rawList (s : RStore) : List (Nat × Nat) := s.filterMap (fun e => listEntry e.1 e.2)

/-! ## (C) batching configuration -/

structure BCfg where
  size : Int
  age : Int
  queue : Int
  deriving DecidableEq, Repr

def defaultQueue : Int := 50000

def BCfg.enabled (c : BCfg) : Bool := decide (0 < c.size) && decide (0 < c.age)
def BCfg.valid (c : BCfg) : Bool := !decide (c.queue ≤ 0)

/-- what `LoadJSON` makes of `max_batch_size`, `max_batch_age` (`none` = empty string), `max_queue_size` -/
def loadJSON (size : Int) (age : Option Int) (queue : Int) : BCfg :=
  { size := size, age := age.getD 0, queue := if queue = 0 then defaultQueue else queue }

/-- the worker configuration of the step model; `none` = batching disabled (`St.direct`) -/
def BCfg.mode (c : BCfg) : Option Cfg :=
  if c.enabled then some { maxSize := c.size.toNat, qcap := c.queue.toNat } else none

inductive Fld where
  | size | age | queue | other (s : String)
  deriving DecidableEq, Repr
inductive Cmp where
  | gt | le | other (s : String)
  deriving DecidableEq, Repr

def BCfg.get (c : BCfg) : Fld → Option Int
  | .size => some c.size
  | .age => some c.age
  | .queue => some c.queue
  | .other _ => none

def evalCmp (c : BCfg) (a : Fld × Cmp × Int) : Option Bool :=
  match c.get a.1, a.2.1 with
  | some x, .gt => some (decide (a.2.2 < x))
  | some x, .le => some (decide (x ≤ a.2.2))
  | _, _ => none

/-- `return a && b && …` -/
def evalConj (c : BCfg) : List (Fld × Cmp × Int) → Option Bool
  | [] => some true
  | a :: as =>
    match evalCmp c a, evalConj c as with
    | some x, some y => some (x && y)
    | _, _ => none

/-- `if a { return err }; if b { return err }; …; return nil`: `true` = nil -/
def evalArms (c : BCfg) : List (Fld × Cmp × Int) → Option Bool
  | [] => some true
  | a :: as =>
    match evalCmp c a, evalArms c as with
    | some x, some y => some (!x && y)
    | _, _ => none

/-! ## (S) shutdown -/

/-- `Shutdown` cancels `css.ctx`; the worker returns from its select: whatever is queued or pending stays
    uncommitted for good (the channel and the crdt batch are dropped with the component) -/
def shutdown (s : St) : St := { s with queue := [], pend := {}, curSize := 0, timer := false, phase := .idle }

/-- the same on the composed replica (ghost fields: `batch` = operations of the open batch) -/
def cshutdown (c : CSt) : CSt :=
  { c with queue := [], pend := {}, curSize := 0, timer := false, phase := .idle, batch := [] }

end CV.C02.Hk
