/-
C12 — executable model of the IPFS proxy (api/ipfsproxy/ipfsproxy.go, headers.go,
adder/adderutils/adderutils.go) at the level the property talks about:

  request (method, raw path, raw query, end-to-end headers, body)
    → which daemon requests are made, which cluster RPCs are made (and whether
      each succeeded), and what the client is answered.

What is modelled from the code
* Go's request-target parsing: percent-decoding of the path (`url.unescape`,
  path mode), `URL.EscapedPath` (what `httputil.ReverseProxy` writes on the
  wire: the raw path when it is a valid encoding, otherwise the re-escaped
  decoded path), `url.ParseQuery` (split on `&`, pairs containing `;` dropped,
  `+` → space, bad escapes dropped, first value wins for `Get`).
* gorilla/mux `Router.ServeHTTP`: the 301 answer for a path that `cleanPath`
  would change, then routes in registration order: the hijack sub-router
  (methods, prefix, the generated table `Gen.C12.routes`, `{arg}` = one
  non-empty segment) and the catch-all reverse proxy.
* `slashHandler` (sets the query value `arg` to the captured segment), every
  handler with its early exits in source order, `ipfsErrorResponder` statuses,
  the two helper requests `setHeaders` sends to the daemon.
* `AddMultipartHTTPHandler`: 500 vs 200+`X-Stream-Error` trailer depending on
  `stream-channels`; the header set after the body was written is lost when
  no trailer was announced.

What is an input (trusted dependencies, results handed in by the harness)
* `path.ParsePath` and `cid.Decode` on the request's arguments (`Env.oracle`),
* whether the multipart reader / DAG builder accept the body and the add
  options they consume (`Env.ing`),
* what the fake cluster answers (`pinCid`, `resCid`, `pins`, `gcKeys`,
  `npeers`) and which RPC methods are scripted to fail (`fails`),
* for `add`: the root CID the adder computed and the hashes it streamed
  (`AddObs`, taken from the implementation's own output; the model constrains
  how they are used, not their value).
-/
import ClusterVerif.Gen.C12
namespace CV.C12

abbrev Bytes := List Nat

open Lean in
/-- ASCII bytes of a string literal, expanded to a list of numerals at elaboration time
    (so that nothing in the model computes on `String`s: kernel evaluation stays cheap) -/
macro:max "b!" s:str : term => do
  let elems := s.getString.toList.toArray.map (fun c => Syntax.mkNumLit (toString c.toNat))
  `(([$elems,*] : List Nat))

/-- ASCII bytes of a string (run time; used only to relate the generated table's strings to its byte patterns) -/
def lit (s : String) : Bytes := s.toList.map Char.toNat

inductive Endpoint | pinAdd | pinRm | pinLs | pinUpdate | add | repoStat | repoGC
deriving DecidableEq, Repr

inductive RpcName
  | pinPath | unpinPath | pinGet | pins | pin | unpin | repoGC | peers | repoStat | resolve
  | blockAllocate | blockPut | other
deriving DecidableEq, Repr

/-- one recorded RPC call, canonical -/
structure Rpc where
  name : RpcName
  path : Bytes := []      -- PinPath.Path / Resolve argument
  direct : Bool := false  -- PinPath.Mode = direct
  cid : Bytes := []       -- cid argument (PinGet, Pin, Unpin)
  upd : Bytes := []       -- PinPath.PinUpdate
  pname : Bytes := []     -- Pin name
  rmin : Int := 0
  rmax : Int := 0
  ok : Bool := true       -- false: the (fake) cluster answered an error
deriving DecidableEq, Repr

/-- a request as the daemon received it -/
structure DReq where
  method : String
  path : Bytes                  -- raw path of the request target
  query : Option Bytes          -- raw query (none: no `?`)
  hdrs : List (String × Bytes)  -- end-to-end headers, sorted, canonical names
  body : Bytes
deriving DecidableEq, Repr

/-- the duration fields of `ipfsproxy.Config` (milliseconds; defaults of config.go) -/
structure Timeouts where
  readHeader : Nat := 5000
  idle : Nat := 60000
  read : Nat := 0
  write : Nat := 0
deriving DecidableEq, Repr

structure Env where
  dStatus : Nat := 200
  dBody : Bytes := []
  dHdr : Bytes := []
  fails : List RpcName := []
  pinCid : Bytes := []
  resCid : Bytes := []
  pins : List Bytes := []
  npeers : Nat := 0
  gcKeys : List Bytes := []
  /-- (argument, ParsePath(argument).String(), cid.Decode(argument).String()) -/
  oracle : List (Bytes × Option Bytes × Option Bytes) := []
  /-- add: 0 = `r.MultipartReader()` fails, 1 = the adder rejects body/options, 2 = accepted,
      3 = accepted but no file in the body (no root to pin unless the adder wraps in a directory) -/
  ing : Nat := 2
  extractPath : Bytes := []
  /-- the proxy's configured timeouts (round 8) -/
  cfg : Timeouts := {}
  /-- the daemon starts answering after `dDelay` ms and pauses `dGap` ms in the middle of the body -/
  dDelay : Nat := 0
  dGap : Nat := 0
  /-- repo/stat (round 8b): the RepoStat calls (numbered in the order they reach the peers) that answer an error -/
  statBad : List Nat := []
  /-- repo/gc (round 8b/8c): the scripted collection reports errors (bit 0: a peer failed as a whole, bit 1: a key error).
      With `stream-errors=true` they travel in the body (plain 200); otherwise the handler joins them into the
      `X-Stream-Error` trailer AFTER the collection ran (`gcSerr`, known finding K12d) -/
  gcErr : Nat := 0
deriving Repr

structure Input where
  method : String
  path : Bytes
  query : Option Bytes
  hdrs : List (String × Bytes)
  body : Bytes
  env : Env
deriving Repr

structure Output where
  status : Nat
  serr : Bool := false          -- an X-Stream-Error header/trailer reached the client
  body : Bytes := []
  dhdr : Bytes := []            -- the daemon's scripted response header as seen by the client
  items : List Bytes := []      -- canonical content of a hijacked answer
  dreqs : List DReq := []
  rpcs : List Rpc := []
deriving DecidableEq, Repr

/-- what the adder produced (taken from the implementation's output) -/
structure AddObs where
  root : Bytes := []
  items : List Bytes := []
deriving Repr

/-! ## bytes -/

def splitOn (sep : Nat) : Bytes → List Bytes
  | [] => [[]]
  | c :: cs =>
    if c = sep then [] :: splitOn sep cs
    else match splitOn sep cs with
      | [] => [[c]]
      | s :: ss => (c :: s) :: ss

/-- strings.Cut -/
def cut (sep : Nat) : Bytes → Bytes × Option Bytes
  | [] => ([], none)
  | c :: cs => if c = sep then ([], some cs) else ((c :: (cut sep cs).1), (cut sep cs).2)

def hexVal (c : Nat) : Option Nat :=
  if 48 ≤ c ∧ c ≤ 57 then some (c - 48)
  else if 97 ≤ c ∧ c ≤ 102 then some (c - 87)
  else if 65 ≤ c ∧ c ≤ 70 then some (c - 55)
  else none

/-- url.unescape: path mode (`plus = false`) or query-component mode (`plus = true`) -/
def pctDecode (plus : Bool) : Bytes → Option Bytes
  | [] => some []
  | c :: rest =>
    if c = 37 then
      match rest with
      | a :: b :: r =>
        match hexVal a, hexVal b, pctDecode plus r with
        | some h, some l, some d => some ((h * 16 + l) :: d)
        | _, _, _ => none
      | _ => none
    else
      match pctDecode plus rest with
      | some d => some ((if plus && c == 43 then 32 else c) :: d)
      | none => none

def isAlnum (c : Nat) : Bool := (97 ≤ c && c ≤ 122) || (65 ≤ c && c ≤ 90) || (48 ≤ c && c ≤ 57)

/-- url.shouldEscape(c, encodePath) -/
def shouldEscape (c : Nat) : Bool :=
  !(isAlnum c || c == 45 || c == 95 || c == 46 || c == 126 ||      -- - _ . ~
    c == 36 || c == 38 || c == 43 || c == 44 || c == 47 || c == 58 || c == 59 || c == 61 || c == 64)  -- $ & + , / : ; = @

def hexDigit (n : Nat) : Nat := if n < 10 then 48 + n else 55 + n

/-- url.escape(s, encodePath) -/
def goEscape : Bytes → Bytes
  | [] => []
  | c :: cs => if shouldEscape c then 37 :: hexDigit (c / 16) :: hexDigit (c % 16) :: goEscape cs else c :: goEscape cs

/-- url.validEncoded(s, encodePath) -/
def validEncoded (s : Bytes) : Bool :=
  s.all (fun c => c == 33 || c == 36 || c == 38 || c == 39 || c == 40 || c == 41 || c == 42 || c == 43 || c == 44 ||
                  c == 59 || c == 61 || c == 58 || c == 64 || c == 91 || c == 93 || c == 37 || !shouldEscape c)

/-- the path `ReverseProxy` writes to the daemon for a request whose raw path was `raw` (decoded: `dec`) -/
def fwdPath (raw dec : Bytes) : Bytes := if validEncoded raw then raw else goEscape dec

/-! ## query (url.ParseQuery / Values.Get) -/

def parsePair (kv : Bytes) : Option (Bytes × Bytes) :=
  if kv.contains 59 || kv.isEmpty then none
  else
    match pctDecode true (cut 61 kv).1, pctDecode true ((cut 61 kv).2.getD []) with
    | some k, some v => some (k, v)
    | _, _ => none

def parseQuery (q : Bytes) : List (Bytes × Bytes) := (splitOn 38 q).filterMap parsePair

def qAll (q : List (Bytes × Bytes)) (k : Bytes) : List Bytes := (q.filter (fun kv => kv.1 == k)).map (·.2)
def qGet (q : List (Bytes × Bytes)) (k : Bytes) : Bytes := ((qAll q k).head?).getD []

/-- slashHandler: `q.Set("arg", a)` -/
def setArg (q : List (Bytes × Bytes)) (a : Bytes) : List (Bytes × Bytes) :=
  q.filter (fun kv => kv.1 != b!"arg") ++ [(b!"arg", a)]

/-! ## numbers and booleans of the add options -/

def digitsVal : Bytes → Option Nat
  | [] => none
  | l => l.foldl (fun acc c => match acc with
                    | some n => if 48 ≤ c && c ≤ 57 then some (n * 10 + (c - 48)) else none
                    | none => none) (some 0)

/-- strconv.Atoi on a 64-bit platform -/
def atoi (s : Bytes) : Option Int :=
  match s with
  | 45 :: r => match digitsVal r with
    | some n => if n ≤ 9223372036854775808 then some (-(n : Int)) else none
    | none => none
  | 43 :: r => match digitsVal r with
    | some n => if n ≤ 9223372036854775807 then some (n : Int) else none
    | none => none
  | r => match digitsVal r with
    | some n => if n ≤ 9223372036854775807 then some (n : Int) else none
    | none => none

/-- strconv.ParseUint(s, 10, 64) succeeds -/
def uintOK (s : Bytes) : Bool :=
  match digitsVal s with
  | some n => n ≤ 18446744073709551615
  | none => false

/-- strconv.ParseBool -/
def parseBool (s : Bytes) : Option Bool :=
  if s == b!"1" || s == b!"t" || s == b!"T" || s == b!"TRUE" || s == b!"true" || s == b!"True" then some true
  else if s == b!"0" || s == b!"f" || s == b!"F" || s == b!"FALSE" || s == b!"false" || s == b!"False" then some false
  else none

/-- parseBoolParam / parseIntParam fail -/
def boolBad (q : List (Bytes × Bytes)) (k : Bytes) : Bool := !(qGet q k).isEmpty && (parseBool (qGet q k)).isNone
def intBad (q : List (Bytes × Bytes)) (k : Bytes) : Bool := !(qGet q k).isEmpty && (atoi (qGet q k)).isNone

/-- the replication factor the request asks for under key `k` (`replication-min` / `-max`):
    `replication`, when given, overrides both (PinOptions.FromQuery; values are validated by `addParamsErr`) -/
def replVal (q : List (Bytes × Bytes)) (k : Bytes) : Int :=
  if !(qGet q b!"replication").isEmpty then (atoi (qGet q b!"replication")).getD 0
  else if (qGet q k).isEmpty then 0 else (atoi (qGet q k)).getD 0

/-- PinOptions.FromQuery refuses the pin options (fix b5b684c: every value given must parse — an unknown `mode`,
    a malformed `replication-min`/`-max` even when `replication` overrides it, a malformed `replication`) -/
def pinOptsErr (q : List (Bytes × Bytes)) : Bool :=
  !((qGet q b!"mode").isEmpty || qGet q b!"mode" == b!"recursive" || qGet q b!"mode" == b!"direct") ||
  intBad q b!"replication-min" || intBad q b!"replication-max" || intBad q b!"replication" ||
  (!(qGet q b!"shard-size").isEmpty && !uintOK (qGet q b!"shard-size"))

/-- strings.ToLower on ASCII -/
def lower (s : Bytes) : Bytes := s.map (fun c => if 65 ≤ c && c ≤ 90 then c + 32 else c)

/-- a hash function other than sha2-256 is asked for together with an explicit `cid-version=0`
    (fix 6355d34: CIDv0 only carries sha2-256; without an explicit version the adder moves to CIDv1) -/
def hashNeedsV1 (q : List (Bytes × Bytes)) : Bool :=
  !(qGet q b!"hash").isEmpty && lower (qGet q b!"hash") != b!"sha2-256" &&
  !(qGet q b!"cid-version").isEmpty && atoi (qGet q b!"cid-version") == some 0

/-- api.AddParamsFromQuery returns an error (for the keys the model covers) -/
def addParamsErr (q : List (Bytes × Bytes)) : Bool :=
  pinOptsErr q || hashNeedsV1 q ||
  !(qGet q b!"layout" == b!"trickle" || qGet q b!"layout" == b!"balanced" || (qGet q b!"layout").isEmpty) ||
  !(qGet q b!"format" == b!"car" || qGet q b!"format" == b!"unixfs" || (qGet q b!"format").isEmpty) ||
  boolBad q b!"local" || boolBad q b!"recursive" || boolBad q b!"hidden" || boolBad q b!"wrap-with-directory" ||
  boolBad q b!"shard" || boolBad q b!"progress" || intBad q b!"cid-version" ||
  boolBad q b!"raw-leaves" || boolBad q b!"stream-channels" || boolBad q b!"nocopy"

/-- options of `add` the model does not cover (time-dependent or structured values, peer IDs, sharding, CAR import) -/
def addUnmodelled (q : List (Bytes × Bytes)) : Bool :=
  !(qGet q b!"user-allocations").isEmpty ||
  !(qGet q b!"expire-at").isEmpty || !(qGet q b!"expire-in").isEmpty || !(qGet q b!"pin-update").isEmpty ||
  !(qGet q b!"origins").isEmpty || parseBool (qGet q b!"shard") == some true || parseBool (qGet q b!"nocopy") == some true ||
  qGet q b!"format" == b!"car"

/-! ## routing (gorilla/mux) -/

def isDot (s : Bytes) : Bool := s == [46] || s == [46, 46]

def cleanSegs : List Bytes → Bool
  | [] => true
  | [last] => !isDot last
  | s :: rest => !s.isEmpty && !isDot s && cleanSegs rest

/-- `cleanPath p == p` for a path that starts with '/' -/
def isClean (p : Bytes) : Bool :=
  match splitOn 47 p with
  | [] :: rest => cleanSegs rest
  | _ => false

/-- a compiled template segment: a literal, or `{arg}` = `[^/]+` -/
inductive Pat
  | lit (b : Bytes)
  | var
deriving DecidableEq, Repr

def compileSeg (t : String) : Pat := if t == "{arg}" then .var else .lit (lit t)

/-- a compiled route template against the path's segments; the captured variables -/
def matchPats : List Pat → List Bytes → Option (List Bytes)
  | [], [] => some []
  | .var :: ps, s :: ss => if s.isEmpty then none else (matchPats ps ss).map (s :: ·)
  | .lit b :: ps, s :: ss => if s == b then matchPats ps ss else none
  | _, _ => none

/-- first matching route of a compiled table (mux tries routes in registration order);
    a route wrapped in slashHandler hands the captured segment over as the argument -/
def routeC {α : Type} (tbl : List (List Pat × α × Bool)) (segs : List Bytes) : Option (α × Option Bytes) :=
  tbl.findSome? (fun r => (matchPats r.1 segs).map
    (fun caps => (r.2.1, if r.2.2 then some (caps.head?.getD []) else none)))

/-- the generated byte patterns of a route (`none` = `{arg}`) -/
def patsOf (r : Gen.C12.Route) : List Pat := r.pats.map (fun o => match o with
  | some b => Pat.lit b
  | none => Pat.var)

def routeSegs (tbl : List Gen.C12.Route) (segs : List Bytes) : Option (String × Option Bytes) :=
  routeC (tbl.map (fun r => (patsOf r, r.handler, r.slash))) segs

inductive Target
  | badUrl | redirect | relay
  | hijack (handler : String) (arg : Option Bytes)
deriving DecidableEq, Repr

def routeWith (mths : List String) (tbl : List Gen.C12.Route) (m : String) (raw : Bytes) : Target :=
  match pctDecode false raw with
  | none => .badUrl
  | some p =>
    if !isClean p then .redirect
    else if mths.contains m then
      match routeSegs tbl (splitOn 47 p) with
      | some (h, a) => .hijack h a
      | none => .relay
    else .relay

/-- the router of today's source -/
def route (m : String) (raw : Bytes) : Target := routeWith Gen.C12.methods Gen.C12.routes m raw

/-! ## handlers -/

structure HOut where
  status : Nat
  serr : Bool := false
  items : List Bytes := []
  rpcs : List Rpc := []
deriving DecidableEq, Repr

def Env.fail (e : Env) (n : RpcName) : Bool := e.fails.contains n

def Env.pp (e : Env) (a : Bytes) : Option Bytes :=
  match e.oracle.find? (fun o => o.1 == a) with
  | some o => o.2.1
  | none => none

def Env.cd (e : Env) (a : Bytes) : Option Bytes :=
  match e.oracle.find? (fun o => o.1 == a) with
  | some o => o.2.2
  | none => none

def rpcOfString : String → RpcName
  | "PinPath" => .pinPath | "UnpinPath" => .unpinPath | "PinGet" => .pinGet | "Pins" => .pins
  | "Pin" => .pin | "Unpin" => .unpin | "RepoGC" => .repoGC | "Peers" => .peers
  | "RepoStat" => .repoStat | "Resolve" => .resolve | "BlockAllocate" => .blockAllocate
  | "BlockPut" => .blockPut | _ => .other

/-- pinOpHandler(op) -/
def pinOpH (e : Env) (q : List (Bytes × Bytes)) (op : RpcName) : HOut :=
  match e.pp (qGet q b!"arg") with
  | none => { status := 500 }
  | some p =>
    if e.fail op then { status := 500, rpcs := [{ name := op, path := p, direct := qGet q b!"type" == b!"direct", ok := false }] }
    else { status := 200, items := [e.pinCid], rpcs := [{ name := op, path := p, direct := qGet q b!"type" == b!"direct" }] }

def pinLsH (e : Env) (q : List (Bytes × Bytes)) : HOut :=
  if (qGet q b!"arg").isEmpty then
    if e.fail .pins then { status := 500, rpcs := [{ name := .pins, ok := false }] }
    else { status := 200, items := e.pins, rpcs := [{ name := .pins }] }
  else
    match e.cd (qGet q b!"arg") with
    | none => { status := 500 }
    | some c =>
      if e.fail .pinGet then { status := 500, rpcs := [{ name := .pinGet, cid := c, ok := false }] }
      else { status := 200, items := [c], rpcs := [{ name := .pinGet, cid := c }] }

def pinUpdateH (e : Env) (q : List (Bytes × Bytes)) : HOut :=
  match qAll q b!"arg" with
  | [] => { status := 400 }
  | [_] => { status := 400 }
  | frm :: to :: _ =>
    match e.pp frm, e.pp to with
    | none, _ => { status := 500 }
    | some _, none => { status := 500 }
    | some pf, some pt =>
      if e.fail .resolve then { status := 500, rpcs := [{ name := .resolve, path := pf, ok := false }] }
      else if e.fail .pinPath then
        { status := 500, rpcs := [{ name := .resolve, path := pf }, { name := .pinPath, path := pt, upd := e.resCid, ok := false }] }
      else if qGet q b!"unpin" == b!"false" then
        { status := 200, items := [e.resCid, e.pinCid],
          rpcs := [{ name := .resolve, path := pf }, { name := .pinPath, path := pt, upd := e.resCid }] }
      else if e.fail .unpin then
        { status := 500,
          rpcs := [{ name := .resolve, path := pf }, { name := .pinPath, path := pt, upd := e.resCid },
                   { name := .unpin, cid := e.resCid, ok := false }] }
      else
        { status := 200, items := [e.resCid, e.pinCid],
          rpcs := [{ name := .resolve, path := pf }, { name := .pinPath, path := pt, upd := e.resCid },
                   { name := .unpin, cid := e.resCid }] }

def addStream (q : List (Bytes × Bytes)) : Bool :=
  if (qGet q b!"stream-channels").isEmpty then true else (parseBool (qGet q b!"stream-channels")).getD true

/-- the adder has no root: empty multipart body and no wrapping directory; Cluster.Pin refuses the undefined CID -/
def addNoRoot (e : Env) (q : List (Bytes × Bytes)) : Bool :=
  e.ing == 3 && !(parseBool (qGet q b!"wrap-with-directory") == some true)

def addPinRpc (q : List (Bytes × Bytes)) (root : Bytes) (ok : Bool) : Rpc :=
  { name := .pin, cid := root, pname := qGet q b!"name",
    rmin := replVal q b!"replication-min", rmax := replVal q b!"replication-max", ok := ok }

/-- addHandler + AddMultipartHTTPHandler (single, non-sharded adder).
`typedUnpin`: the argument of the final Cluster.Unpin call has the type the RPC method takes. In today's
source it is a `cid.Cid` where `Cluster.Unpin` takes a `*api.Pin`: gorpc refuses the call before it
reaches the service, so nothing is unpinned and the handler sets `X-Stream-Error`. -/
def addH (typedUnpin : Bool) (e : Env) (q : List (Bytes × Bytes)) (obs : AddObs) : HOut :=
  if e.ing == 0 then { status := 500 }
  else if qGet q b!"only-hash" == b!"true" then { status := 500 }
  else if addParamsErr q then { status := 500 }
  else if addNoRoot e q then
    (if addStream q then { status := 200, serr := true, items := obs.items, rpcs := [{ name := .pin, ok := false }] }
     else { status := 500, rpcs := [{ name := .pin, ok := false }] })
  else if e.ing == 1 || e.fail .blockAllocate || e.fail .blockPut then
    (if addStream q then { status := 200, serr := true, items := obs.items } else { status := 500 })
  else if e.fail .pin then
    (if addStream q then { status := 200, serr := true, items := obs.items, rpcs := [addPinRpc q obs.root false] }
     else { status := 500, rpcs := [addPinRpc q obs.root false] })
  else if !(qGet q b!"pin" == b!"false") then
    { status := 200, items := obs.items, rpcs := [addPinRpc q obs.root true] }
  else if !typedUnpin then
    -- the header set after the handler returned is a trailer only when one was announced (stream mode)
    { status := 200, serr := addStream q, items := obs.items, rpcs := [addPinRpc q obs.root true] }
  else if e.fail .unpin then
    { status := 200, serr := addStream q, items := obs.items,
      rpcs := [addPinRpc q obs.root true, { name := .unpin, cid := obs.root, ok := false }] }
  else
    { status := 200, items := obs.items, rpcs := [addPinRpc q obs.root true, { name := .unpin, cid := obs.root }] }

def dec (n : Nat) : Bytes := lit (toString n)

/-- the k-th RepoStat call succeeds -/
def statOk (e : Env) (k : Nat) : Bool := !(e.fail .repoStat) && !(e.statBad.contains k)

/-- what each peer reports to the loop after MultiCall (`none` = its call failed); the fake peers report 1000 / 100000 -/
def statAnswers (e : Env) : List (Option (Nat × Nat)) :=
  (List.range e.npeers).map (fun k => if statOk e k then some (1000, 100000) else none)

/-- number of peers whose call succeeded -/
def statOkCount (e : Env) : Nat := ((List.range e.npeers).filter (statOk e)).length

/-- repoStatHandler: Consensus.Peers, RepoStat on every peer, the totals over the peers that answered
    (a failed peer is skipped, the answer is still 200) -/
def repoStatH (e : Env) : HOut :=
  if e.fail .peers then { status := 500, rpcs := [{ name := .peers, ok := false }] }
  else
    { status := 200, items := [dec (statOkCount e * 1000), dec (statOkCount e * 100000)],
      rpcs := { name := .peers } :: (List.range e.npeers).map (fun k => { name := .repoStat, ok := statOk e k }) }

/-- repoGCHandler's last statement: `if !streamErrors && mErrStr != "" { w.Header().Set("X-Stream-Error", mErrStr) }`
    with `streamErrors := queryValues.Get("stream-errors") == "true"` (the literal spelling only) and `mErrStr` the joined
    peer / key errors of the collection (non-empty iff the collection reported one) -/
def gcSerr (e : Env) (q : List (Bytes × Bytes)) : Bool :=
  e.gcErr != 0 && !(qGet q b!"stream-errors" == b!"true")

def repoGCH (e : Env) (q : List (Bytes × Bytes)) : HOut :=
  if e.fail .repoGC then { status := 500, rpcs := [{ name := .repoGC, ok := false }] }
  else { status := 200, serr := gcSerr e q, items := e.gcKeys, rpcs := [{ name := .repoGC }] }

/-- the RPC a thin pin handler uses, as written in today's source -/
def pinOpOf (h : String) : RpcName :=
  match Gen.C12.pinOps.find? (fun p => p.1 == h) with
  | some p => rpcOfString p.2
  | none => .other

/-- today's source passes a well-typed argument to Cluster.Unpin in addHandler -/
def typedUnpinNow : Bool := Gen.C12.addUnpinArg != "root"

def handlerOut (typedUnpin : Bool) (h : String) (e : Env) (q : List (Bytes × Bytes)) (obs : AddObs) : HOut :=
  if h == "pinHandler" || h == "unpinHandler" then pinOpH e q (pinOpOf h)
  else if h == "pinLsHandler" then pinLsH e q
  else if h == "pinUpdateHandler" then pinUpdateH e q
  else if h == "addHandler" then addH typedUnpin e q obs
  else if h == "repoStatHandler" then repoStatH e
  else if h == "repoGCHandler" then repoGCH e q
  else { status := 0 }

/-- the query the handler sees -/
def handlerQuery (i : Input) (arg : Option Bytes) : List (Bytes × Bytes) :=
  match arg with
  | some a => setArg (parseQuery (i.query.getD [])) a
  | none => parseQuery (i.query.getD [])

/-- setHeaders: a CORS pre-flight for the same path, then one POST to ExtractHeadersPath (fresh proxy) -/
def helperReqs (i : Input) (p : Bytes) : List DReq :=
  [ { method := "OPTIONS", path := goEscape p, query := none, hdrs := [], body := [] },
    { method := "POST", path := i.env.extractPath, query := none, hdrs := [], body := [] } ]

/-- a response to this method/status carries no body -/
def bodyless (m : String) (status : Nat) : Bool := m == "HEAD" || status == 204 || status == 304

/-- the observable behaviour of a hijacked request: what the handler did, plus the helper requests -/
def mkOut (o : HOut) (d : List DReq) : Output :=
  { status := o.status, serr := o.serr, items := o.items, rpcs := o.rpcs, dreqs := d }

/-- a non-hijacked request: one daemon request, the daemon's answer -/
def relayOut (i : Input) (p : Bytes) : Output :=
  { status := i.env.dStatus,
    body := if bodyless i.method i.env.dStatus then [] else i.env.dBody,
    dhdr := i.env.dHdr,
    dreqs := [{ method := i.method, path := fwdPath i.path p, query := i.query, hdrs := i.hdrs, body := i.body }] }

def runWith (mths : List String) (tbl : List Gen.C12.Route) (typedUnpin : Bool) (i : Input) (obs : AddObs) : Output :=
  match routeWith mths tbl i.method i.path with
  | .badUrl => { status := 400 }
  | .redirect => { status := 301 }
  | .relay => relayOut i ((pctDecode false i.path).getD [])
  | .hijack h arg =>
    mkOut (handlerOut typedUnpin h i.env (handlerQuery i arg) obs) (helperReqs i ((pctDecode false i.path).getD []))

def run (i : Input) (obs : AddObs) : Output := runWith Gen.C12.methods Gen.C12.routes typedUnpinNow i obs

/-! ## relay set-up (round 8): the model INTERPRETS the transport regenerated from `New` -/

/-- the value (ms) of a duration source under a configuration; `none`: not a duration this model understands -/
def durMs (c : Timeouts) : Gen.C12.Dur → Option Nat
  | .cfg .readTimeout => some c.read
  | .cfg .readHeaderTimeout => some c.readHeader
  | .cfg .writeTimeout => some c.write
  | .cfg .idleTimeout => some c.idle
  | .ms n => some n
  | .other _ => none

/-- the value a field of the transport ends up with (literal field, later assignments override) -/
def fieldVal (fs : List (String × Gen.C12.Dur)) (name : String) : Option Gen.C12.Dur :=
  ((fs.filter (fun f => f.1 == name)).getLast?).map (·.2)

/-- the bound (ms) the relay's round tripper puts on the daemon's time to its first response byte; `none` = it waits
    for ever. `http.DefaultTransport` (and a clone of it) sets no `ResponseHeaderTimeout`; on an `http.Transport`
    the field bounds it when non-zero. (Dial/TLS/Expect-Continue/idle-pool timeouts do not bound a request the daemon
    has accepted; `httputil.ReverseProxy` adds no deadline of its own.) -/
def ttfbBound (k : Gen.C12.TransportKind) (fs : List (String × Gen.C12.Dur)) (c : Timeouts) : Option Nat :=
  match k with
  | .transportLit =>
    match fieldVal fs "ResponseHeaderTimeout" with
    | some d =>
      match durMs c d with
      | some 0 => none
      | some n => some n
      | none => none
    | none => none
  | _ => none

/-- transport fields whose meaning this model knows (none of them but ResponseHeaderTimeout bounds an accepted request) -/
def knownTransportFields : List String :=
  ["Proxy", "DialContext", "Dial", "MaxIdleConns", "MaxIdleConnsPerHost", "MaxConnsPerHost", "IdleConnTimeout",
   "TLSHandshakeTimeout", "ResponseHeaderTimeout", "ExpectContinueTimeout", "ForceAttemptHTTP2", "TLSClientConfig",
   "DisableKeepAlives", "DisableCompression", "WriteBufferSize", "ReadBufferSize"]

/-- fail-closed: the translator resolved the transport, every field is one the model knows, and the
    `ResponseHeaderTimeout` (if set) is a duration source the model can evaluate -/
def relaySetupUnderstood (k : Gen.C12.TransportKind) (fs : List (String × Gen.C12.Dur)) : Bool :=
  (match k with | .unknown _ => false | _ => true) &&
  fs.all (fun f => knownTransportFields.contains f.1) &&
  (match fieldVal fs "ResponseHeaderTimeout" with | some (.other _) => false | _ => true)

/-- the daemon's answer comes later than the relay is prepared to wait -/
def timedOut (k : Gen.C12.TransportKind) (fs : List (String × Gen.C12.Dur)) (e : Env) : Bool :=
  match ttfbBound k fs e.cfg with
  | some t => decide (t < e.dDelay)
  | none => false

/-- `httputil.ReverseProxy`'s default ErrorHandler: 502, no body; the daemon did receive the request -/
def gatewayOut (i : Input) (p : Bytes) : Output :=
  { relayOut i p with status := 502, body := [], dhdr := [] }

/-- `runWith` with the relay set-up interpreted: a relayed request whose daemon is slower than the transport's
    response-header timeout is answered 502 -/
def runT (k : Gen.C12.TransportKind) (fs : List (String × Gen.C12.Dur)) (mths : List String) (tbl : List Gen.C12.Route)
    (typedUnpin : Bool) (i : Input) (obs : AddObs) : Output :=
  match routeWith mths tbl i.method i.path with
  | .relay =>
    if timedOut k fs i.env then gatewayOut i ((pctDecode false i.path).getD [])
    else relayOut i ((pctDecode false i.path).getD [])
  | _ => runWith mths tbl typedUnpin i obs

/-- today's code: table, Unpin typing AND relay transport as regenerated -/
def runNow (i : Input) (obs : AddObs) : Output :=
  runT Gen.C12.relayTransport Gen.C12.relayTransportFields Gen.C12.methods Gen.C12.routes typedUnpinNow i obs

/-- the model's arm, for the histogram -/
def arm (i : Input) (obs : AddObs) : String :=
  match route i.method i.path with
  | .badUrl => "badurl"
  | .redirect => "redirect301"
  | .relay => "relay-" ++ i.method ++
      (if i.env.dDelay > 0 then (if i.env.dDelay > i.env.cfg.readHeader then "-slower-than-read-header-timeout" else "-slow") else "") ++
      (if i.env.dGap > 0 then "-paused-body" else "") ++
      (if timedOut Gen.C12.relayTransport Gen.C12.relayTransportFields i.env then "-502-transport-timeout" else "")
  | .hijack h arg =>
    let o := handlerOut typedUnpinNow h i.env (handlerQuery i arg) obs
    let unpinRefused := h == "addHandler" && o.status == 200 && qGet (handlerQuery i arg) b!"pin" == b!"false" &&
      o.rpcs.length == 1 && o.rpcs.all (·.ok)
    h ++ (if unpinRefused then "-unpin-refused" else "") ++ (if arg.isSome then "-slash" else "") ++ "-" ++ toString o.status ++
      -- (repo/gc keeps the arm name `repoGCHandler-200` when the trailer is set: K12d's registered signature is keyed on it)
      (if o.serr && h != "repoGCHandler" then "-serr" else "") ++
      -- a collection that reported errors, answered without the trailer (stream-errors=true): its own arm, so that K12d's
      -- signature (which does not look at the query) cannot match an implementation that sets the trailer there too
      (if h == "repoGCHandler" && o.status == 200 && i.env.gcErr != 0 && !o.serr then "-errors-in-body" else "") ++
      (if o.rpcs.any (fun r => !r.ok) then "-rpcfail" else "")

/-- the arguments whose ParsePath / cid.Decode result the model consults -/
def oracleArgs (i : Input) : List Bytes :=
  match route i.method i.path with
  | .hijack h arg =>
    let q := handlerQuery i arg
    if h == "pinUpdateHandler" then (qAll q b!"arg").take 2
    else if h == "pinHandler" || h == "unpinHandler" then [qGet q b!"arg"]
    else if h == "pinLsHandler" then (if (qGet q b!"arg").isEmpty then [] else [qGet q b!"arg"])
    else []
  | _ => []

end CV.C12
