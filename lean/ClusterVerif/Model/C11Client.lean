import ClusterVerif.Model.C11
/-!
C11 — the bundled client's methods as a regenerated table (round 8c).

`harness/extract_c11c` translates every method of `*defaultClient` in api/rest/client/methods.go that sends a
request (`c.do` / `c.doStream`) into a `CRow`: verb, path template piece by piece (literal segments, `%s` holes
classified by the expression that fills them and the escaping applied), query template (`key=%t` / `key=%s`
holes, or the whole query from `PinOptions.ToQuery` / `AddParams.ToQueryString`), body, whether a result object
is decoded, and the pre-send refusals.  `interpRow` INTERPRETS a row on a `Call`: it is what the method sends.
`Props/C11.lean` proves that the hand-written `build` (over which `client_server_inverse` is proved) is the
interpretation of the generated table for every call, so an edit of a verb, a path piece, an escaping or a query
key in methods.go changes the request the model sends.  Also: the decision table of `handleResponse`.
-/
namespace CV.C11
open CV

/-- what fills a `%s` hole of the path -/
inductive PathArg where
  | cidStr        -- `ci.String()` of a cid.Cid parameter
  | peerPretty    -- `id.Pretty()` of a peer.ID parameter
  | pathEscape    -- `url.PathEscape(<string parameter>)`
  | rawString     -- a string parameter as it is (not escaped)
  deriving DecidableEq, Repr

inductive PathPiece where
  | lit (s : String)
  | arg (a : PathArg)
  | escPath        -- `escapePath(ipfspath.String())`, `ipfspath` from a checked `gopath.ParsePath(<parameter>)`: starts with "/"
  | rawPath        -- `ipfspath.String()` unescaped
  deriving DecidableEq, Repr

inductive QArg where
  | boolT          -- `%t` filled by a bool parameter
  | queryEscape    -- `%s` filled by `url.QueryEscape(…)`
  | rawString      -- `%s` filled by anything else
  deriving DecidableEq, Repr

inductive QPiece where
  | kv (key : String) (a : QArg)
  | pinQuery       -- the whole of `opts.ToQuery()` (error checked)
  | addQuery       -- the whole of `params.ToQueryString()` (error checked)
  deriving DecidableEq, Repr

inductive CBody where
  | none | peerAddJson | multipart
  deriving DecidableEq, Repr

inductive CGuard where
  | parsePath | toQuery | toQueryString | emptyArg | emptyFilterName
  deriving DecidableEq, Repr

structure CRow where
  name : String
  verb : String
  path : List PathPiece
  query : List QPiece
  body : CBody
  out : Bool        -- a result object is passed to `do`
  stream : Bool     -- `doStream`
  guards : List CGuard
  deriving DecidableEq, Repr

/-- the method of the Go client a `Call` stands for -/
def callName : Call → String
  | .id => "ID" | .version => "Version" | .peers => "Peers" | .alerts => "Alerts" | .graph => "GetConnectGraph"
  | .metricNames => "MetricNames" | .peerAdd _ => "PeerAdd" | .peerRm _ => "PeerRm" | .pin _ _ => "Pin"
  | .unpin _ => "Unpin" | .allocation _ => "Allocation" | .pinPath _ _ => "PinPath" | .unpinPath _ => "UnpinPath"
  | .allocations _ => "Allocations" | .status _ _ => "Status" | .recover _ _ => "Recover"
  | .statusAll _ _ => "StatusAll" | .recoverAll _ => "RecoverAll" | .repoGC _ => "RepoGC" | .metrics _ => "Metrics"

/-- the single CID / peer / name argument of a call -/
def callSeg : Call → Option Seg
  | .peerRm s | .pin s _ | .unpin s | .allocation s | .status s _ | .recover s _ | .metrics s => some s
  | _ => none

def callBodySeg : Call → Option Seg
  | .peerAdd s => some s
  | _ => none

def callPathArg : Call → Option (List Seg)
  | .pinPath p _ | .unpinPath p => some p
  | _ => none

def callLocal : Call → Option Bool
  | .status _ l | .recover _ l | .statusAll _ l | .recoverAll l | .repoGC l => some l
  | _ => none

def callOpts : Call → Option Opts
  | .pin _ o | .pinPath _ o => some o
  | _ => none

/-- the text a filter argument is written as (`PinType` names joined / `TrackerStatus.String`), query-escaped -/
def callFilter : Call → Option QV
  | .allocations m => some (if m == 0 then .empty else .valid (.str "types"))
  | .statusAll m _ => some (if m == 0 then .empty else .valid (.str (toString (widen m))))
  | _ => none

/-- the segments a path template yields for a call; `none` = the method refuses before sending (or the template asks for
    an argument the call does not have) -/
def pathSegs (c : Call) : List PathPiece → Option (List Seg)
  | [] => some []
  | .lit s :: ps => (pathSegs c ps).map (lit s :: ·)
  | .arg .rawString :: _ => none          -- unescaped text in the path: not modelled (K26's shape), fails `build_interpreted`
  | .arg _ :: ps => (callSeg c).bind (fun s => (pathSegs c ps).map (s :: ·))
  | .escPath :: ps => (callPathArg c).bind (fun p => (clientPath p).bind (fun p' => (pathSegs c ps).map (p' ++ ·)))
  | .rawPath :: _ => none

def querySegs (c : Call) : List QPiece → Option (List (String × QV))
  | [] => some []
  | .kv k .boolT :: qs => (callLocal c).bind (fun l => (querySegs c qs).map ((k, boolQ l) :: ·))
  | .kv k .queryEscape :: qs => (callFilter c).bind (fun v => (querySegs c qs).map ((k, v) :: ·))
  | .kv _ .rawString :: _ => none
  | .pinQuery :: qs => (callOpts c).bind (fun o => (querySegs c qs).map (toQuery o ++ ·))
  | .addQuery :: _ => none

def rowMeta (row : CRow) (c : Call) : List (Nat × Nat) :=
  if row.query.contains .pinQuery then (match callOpts c with | some o => toQueryMeta o | none => []) else []

def rowBody (row : CRow) (c : Call) : Option Body :=
  match row.body with
  | .none => some .none
  | .peerAddJson => (callBodySeg c).map .peerJson
  | .multipart => none

/-- the request the method of this row sends for the call -/
def interpRow (row : CRow) (cfg : CliCfg) (c : Call) : Option Req :=
  (pathSegs c row.path).bind (fun segs => (querySegs c row.query).bind (fun q => (rowBody row c).map (fun b =>
    mkReq cfg row.verb segs q (rowMeta row c) b)))

def interpTable (table : List CRow) (cfg : CliCfg) (c : Call) : Option Req :=
  (table.find? (fun row => row.name == callName c)).bind (fun row => if row.stream then none else interpRow row cfg c)

/-! ### the route a row addresses, statically -/

def sampleCSeg : Seg := ⟨"x", some 1, some 1⟩

/-- a concrete path for a row's template (every hole filled by a non-empty plain segment, an IPFS path by `/ipfs/x`) -/
def rowSample : List PathPiece → List Seg
  | [] => []
  | .lit s :: ps => lit s :: rowSample ps
  | .arg _ :: ps => sampleCSeg :: rowSample ps
  | .escPath :: ps | .rawPath :: ps => lit "ipfs" :: sampleCSeg :: rowSample ps

/-- the server route that the method of a row is meant for -/
def rowRouteName (n : String) : String :=
  if n == "PeerRm" then "PeerRemove" else if n == "GetConnectGraph" then "ConnectionGraph"
  else if n == "AddMultiFile" then "Add" else n

def rowRoutes (table : List Route) (row : CRow) : Bool :=
  match table.find? (fun rt => rt.method == row.verb && matchPat rt.pat (rowSample row.path) false) with
  | some rt => rt.name == rowRouteName row.name
  | none => false

/-- the option keys a row writes by name are read under the same name by the handler of its route: `local` and
    `filter` are the only named keys; everything else travels through ToQuery / ToQueryString -/
def rowKeysKnown (row : CRow) : Bool :=
  row.query.all (fun q => match q with
    | .kv k .boolT => k == "local"
    | .kv k .queryEscape => k == "filter"
    | .kv _ .rawString => false
    | .pinQuery => row.name == "Pin" || row.name == "PinPath"
    | .addQuery => row.stream)

/-! ### `handleResponse` as a decision table -/

/-- `switch { case StatusCode == a: … case StatusCode == b: … default: if StatusCode > lo && StatusCode < hi { error } decode }` -/
structure DecodeLogic where
  silent : List Nat     -- statuses answered nil without looking at the body
  errLo : Nat
  errHi : Nat
  errDecoded : Bool     -- the error arm returns the decoded api.Error (or one with the status code when it does not decode)
  objDecoded : Bool     -- otherwise the body is decoded into the result object, a failure is an error with the status code
  deriving DecidableEq, Repr

/-- `clientRet` read off the table -/
def decodeRet (l : DecodeLogic) (c : Call) (o : Resp) : Ret :=
  if l.silent.contains o.status then .same
  else if decide (l.errLo < o.status) && decide (o.status < l.errHi) && l.errDecoded then .err o.status
  else if l.objDecoded && answerHasOrigins c then .err o.status
  else .same

end CV.C11
