/-
C01 — where the committed sequence comes from (core Lean only).

The replica model (`Model/C01.lean`) takes the committed sequence `ops` as a parameter; the commit path
(`Model/C01Commit.lean`) says which calls of LogPin / LogUnpin are acknowledged. This file joins them:
the Raft log is what the submissions that some attempt committed have appended, in order. A submission
is an operation together with the oracle of what its attempts meet (who leads, whether the forward /
the local apply succeed). Since 3d753d4 `commit()` refuses an operation that cannot be decoded before
any attempt, so no such operation is ever appended (`gated_log_decodable` in `Props/C01.lean`).
-/
import ClusterVerif.Model.C01
import ClusterVerif.Model.C01Commit
namespace CV.C01
open CV CV.C01.Commit

/-- one call of LogPin (`op = .pin p`) or LogUnpin (`op = .unpin p`) at some member -/
structure Submission where
  op : Op
  oracle : List Outcome
  deriving Repr

/-- the answer of `commit` to a submission -/
def answerOf (g : GateShape) (rs : RedirShape) (os : OuterShape) (retries : Nat) (s : Submission) : Result :=
  commitOp g rs os retries s.op.decodable s.oracle

/-- some attempt of the call committed the operation (the leader's `CommitOp` appended it to the log) -/
def Commit.Result.committed (r : Result) : Bool := r.consumed.any (·.success)

/-- the log after a sequence of submissions: every operation some attempt committed, in order -/
def logAfter (g : GateShape) (rs : RedirShape) (os : OuterShape) (retries : Nat) : List Submission → List Op
  | [] => []
  | s :: rest =>
    (if (answerOf g rs os retries s).committed then [s.op] else []) ++ logAfter g rs os retries rest

/-- the committed sequence when every accepted submission meets a leader at once: what the harness'
    FSM-level histories use (`ops.filter decodable`) -/
def committedOf (submitted : List Op) : List Op := submitted.filter (·.decodable)

end CV.C01
