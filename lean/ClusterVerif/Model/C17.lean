/-
C17 — model of the Raft membership wrapper logic of ipfs-cluster and of what follows
from a single replicated log. Core Lean only.

Anchors (code as of this tree):
* consensus/raft/raft.go    raftWrapper.AddPeer / RemovePeer (presence checks, single-peer guard), Peers
* consensus/raft/consensus.go  Consensus.AddPeer / RmPeer / commit (redirectToLeader + retry loops), WaitForSync, Peers (sorted)
* cluster.go                PeerRemove (vacatePeer, then RmPeer), watchPeers (self-removal), Shutdown (leave / Clean: fix f1a149d, `removed` only after a successful RmPeer)
* hashicorp/raft v1.1.1 configuration.go nextConfiguration / checkConfiguration (TRUSTED, mirrored here only as
  far as its answers are visible through the wrapper: AddVoter gives the vote at once, AddNonvoter never
  demotes, a configuration without voters is refused)

Agreement itself (every member sees the same committed log, prefixes only) is hashicorp/raft's and is
the assumption under which everything below is stated: there is ONE `log`, members hold prefixes of it.
Peers are natural numbers (the harness keeps the index <-> peer.ID table).
-/
import ClusterVerif.Model.Pin
namespace CV.C17
open CV

/-! ### sorted sets of peer indexes (Consensus.Peers sorts what Raft reports) -/
def insertPeer (p : Nat) : List Nat → List Nat
  | [] => [p]
  | x :: xs => if p < x then p :: x :: xs else if p == x then x :: xs else x :: insertPeer p xs

def erasePeer (p : Nat) (l : List Nat) : List Nat := l.filter (· != p)

def normPeers (l : List Nat) : List Nat := l.foldr insertPeer []

/-! ### the Raft configuration: servers with suffrage, kept sorted by id -/
abbrev Config := List (Nat × Bool)

def cfgIds (c : Config) : List Nat := c.map (·.1)
def cfgHas (c : Config) (p : Nat) : Bool := (cfgIds c).contains p
def cfgVoter (c : Config) (p : Nat) : Bool := c.any (fun s => s.1 == p && s.2)
def cfgVoters (c : Config) : List Nat := (c.filter (·.2)).map (·.1)
def cfgNonvoters (c : Config) : List Nat := (c.filter (fun s => !s.2)).map (·.1)

/-- insert-or-replace keeping the list sorted by id -/
def cfgPut (s : Nat × Bool) : Config → Config
  | [] => [s]
  | x :: xs => if s.1 < x.1 then s :: x :: xs else if s.1 == x.1 then s :: xs else x :: cfgPut s xs

def cfgErase (p : Nat) (c : Config) : Config := c.filter (fun s => s.1 != p)

/-- `makeServerConf(InitPeerset + self)`: everyone a voter, no duplicates -/
def initCfg (init : List Nat) : Config := init.foldr (fun p c => cfgPut (p, true) c) []

/-! ### the replicated log -/
inductive Entry where
  | boot (ids : List Nat)      -- BootstrapCluster(serverConfig)
  | addVoter (p : Nat)         -- raft.AddVoter (AddStaging: a vote right away in hashicorp/raft 1.1.1)
  | addNonvoter (p : Nat)      -- raft.AddNonvoter (never issued by ipfs-cluster; test hook only)
  | rmServer (p : Nat)         -- raft.RemoveServer
  | pin (p : Pin)              -- LogOp{Type: LogOpPin}
  | unpin (c : Nat)            -- LogOp{Type: LogOpUnpin}
  deriving DecidableEq, Repr

def applyCfg (c : Config) : Entry → Config
  | .boot ids => initCfg ids
  | .addVoter p => cfgPut (p, true) c
  | .addNonvoter p => if cfgVoter c p then c else cfgPut (p, false) c
  | .rmServer p => cfgErase p c
  | _ => c

/-- `LogOp.ApplyTo`: `state.Add(pin)` stores the pin as the state serialises it; `state.Rm(cid)` -/
def applyPin (m : PinMap) : Entry → PinMap
  | .pin p => PinMap.put p.stored m
  | .unpin c => m.erase c
  | _ => m

def cfgAt (log : List Entry) : Config := log.foldl applyCfg []
def pinsAt (log : List Entry) : PinMap := log.foldl applyPin []

/-- hashicorp `checkConfiguration`: the next configuration needs a voter -/
def raftAccepts (c : Config) (e : Entry) : Bool := !(cfgVoters (applyCfg c e)).isEmpty

inductive Res where
  | ok | err
  deriving DecidableEq, Repr

/-! ### raftWrapper (raft.go) -/

/-- `raftWrapper.AddPeer`: present ⇒ success without a log entry; `fut` = the AddVoter future succeeds -/
def rwAddPeer (p : Nat) (c : Config) (fut : Bool) : Res × List Entry :=
  if cfgHas c p then (.ok, [])
  else if fut && raftAccepts c (.addVoter p) then (.ok, [.addVoter p])
  else (.err, [])

/-- `raftWrapper.RemovePeer`: absent ⇒ success without a log entry; the only peer ⇒ error -/
def rwRemovePeer (p : Nat) (c : Config) (fut : Bool) : Res × List Entry :=
  if !cfgHas c p then (.ok, [])
  else if (cfgIds c).length == 1 && (cfgIds c).head? == some p then (.err, [])
  else if fut && raftAccepts c (.rmServer p) then (.ok, [.rmServer p])
  else (.err, [])

/-- `consensus.CommitOp(op)` on the leader -/
def rwCommit (e : Entry) (_c : Config) (fut : Bool) : Res × List Entry :=
  if fut then (.ok, [e]) else (.err, [])

/-! ### Consensus.AddPeer / RmPeer / commit: redirect to the leader, retry (consensus.go)

The environment is an oracle: the `k`-th consultation yields a `Tick`. -/
structure Tick where
  leader : Option Nat   -- whom Leader() / WaitForLeader names; none = timed out waiting for a leader
  ok : Bool             -- redirected: the RPC to the leader returns its answer; leading: the Raft future succeeds
  lost : Bool           -- redirected and ¬ok: the leader did perform the call, only the answer was lost
  deriving Repr

abbrev Attempt := Config → Bool → Res × List Entry

inductive Redir where
  | leading | done | failed | noLeader
  deriving DecidableEq, Repr

/-- `redirectToLeader`: `fuel` = CommitRetries+1 iterations; returns how it ended, the oracle position and the log.
    The call executed by the leader on our behalf is the same attempt on a healthy Raft. -/
def redirect (self : Nat) (att : Attempt) (orc : Nat → Tick) : Nat → Nat → List Entry → Redir × Nat × List Entry
  | 0, pos, log => (.failed, pos, log)
  | n+1, pos, log =>
    match (orc pos).leader with
    | none => (.noLeader, pos + 1, log)
    | some l =>
      if l == self then (.leading, pos, log)
      else
        let r := att (cfgAt log) true
        let log' := if (orc pos).ok || (orc pos).lost then log ++ r.2 else log
        if (orc pos).ok && r.1 == .ok then (.done, pos + 1, log')
        else redirect self att orc n (pos + 1) log'

/-- the retry loop shared by AddPeer, RmPeer and commit: `fuel` = CommitRetries+1 -/
def consLoop (self retries : Nat) (att : Attempt) (orc : Nat → Tick) : Nat → Nat → List Entry → Res × List Entry
  | 0, _, log => (.err, log)
  | n+1, pos, log =>
    match redirect self att orc (retries + 1) pos log with
    | (.noLeader, _, log') => (.err, log')
    | (.done, _, log') => (.ok, log')
    | (.failed, _, log') => (.err, log')
    | (.leading, pos', log') =>
      let r := att (cfgAt log') (orc pos').ok
      if r.1 == .ok then (.ok, log' ++ r.2) else consLoop self retries att orc n (pos' + 1) log'

def consAddPeer (self retries : Nat) (orc : Nat → Tick) (log : List Entry) (p : Nat) : Res × List Entry :=
  consLoop self retries (rwAddPeer p) orc (retries + 1) 0 log
def consRmPeer (self retries : Nat) (orc : Nat → Tick) (log : List Entry) (p : Nat) : Res × List Entry :=
  consLoop self retries (rwRemovePeer p) orc (retries + 1) 0 log
def consCommit (self retries : Nat) (orc : Nat → Tick) (log : List Entry) (e : Entry) : Res × List Entry :=
  consLoop self retries (rwCommit e) orc (retries + 1) 0 log

/-- a healthy cluster: the leader `l` is known and reachable, futures succeed -/
def healthy (l : Nat) : Nat → Tick := fun _ => { leader := some l, ok := true, lost := false }

/-- what a call amounts to in a healthy cluster, whoever issues it -/
def direct (att : Attempt) (log : List Entry) : Res × List Entry :=
  let r := att (cfgAt log) true
  (r.1, log ++ r.2)

/-! ### members and WaitForSync -/

/-- a member holds a prefix of the log (`have_` entries, Raft's LastIndex) and has applied a prefix of that -/
structure Member where
  id : Nat
  have_ : Nat
  applied : Nat
  deriving Repr

def Member.wf (log : List Entry) (m : Member) : Bool := decide (m.applied ≤ m.have_) && decide (m.have_ ≤ log.length)
/-- Raft uses the latest configuration in its log, committed or not -/
def Member.cfg (log : List Entry) (m : Member) : Config := cfgAt (log.take m.have_)
def Member.peers (log : List Entry) (m : Member) : List Nat := cfgIds (m.cfg log)
def Member.pins (log : List Entry) (m : Member) : PinMap := pinsAt (log.take m.applied)

/-- `WaitForSync` returns nil: a leader is known, this peer is a Voter, applied index = last index -/
def syncReady (log : List Entry) (leaderKnown : Bool) (m : Member) : Bool :=
  leaderKnown && cfgVoter (m.cfg log) m.id && m.applied == m.have_

/-- the entry gives `p` a vote -/
def Entry.enfranchises (p : Nat) : Entry → Bool
  | .boot ids => ids.contains p
  | .addVoter q => q == p
  | _ => false

def Entry.isPinOp : Entry → Bool
  | .pin _ => true
  | .unpin _ => true
  | _ => false

/-! ### Cluster.watchPeers / Cluster.Shutdown (cluster.go) -/
structure CFlags where
  ready : Bool
  removed : Bool
  leaveOnShutdown : Bool
  shutdown : Bool
  deriving DecidableEq, Repr

inductive Act where
  | rmSelf | consShutdown | clean | done
  deriving DecidableEq, Repr

/-- one tick of `watchPeers`: `peers` = none when `consensus.Peers` errs. Returns the flags and whether `Shutdown` is spawned. -/
def watchTick (peers : Option (List Nat)) (self : Nat) (f : CFlags) : CFlags × Bool :=
  match peers with
  | none => (f, false)
  | some ps => if ps.contains self then (f, false) else ({ f with removed := true }, true)

/-- `Cluster.Shutdown`: try to leave when configured (and ready, and not already removed) — the peer counts as
    removed only when `RmPeer(self)` succeeded (`rmOk`) —, stop consensus, clean when removed and ready -/
def shutdownActs (f : CFlags) (peersOk rmOk : Bool) : CFlags × List Act :=
  if f.shutdown then (f, [])
  else
    let tries := f.leaveOnShutdown && f.ready && !f.removed && peersOk
    let f1 : CFlags := if tries && rmOk then { f with removed := true } else f
    let a1 : List Act := if tries then [.rmSelf] else []
    let a3 : List Act := if f1.removed && f1.ready then [.clean] else []
    ({ f1 with shutdown := true }, a1 ++ [.consShutdown] ++ a3 ++ [.done])

/-! ### the Raft data folder and its rotated backups (raft.go `CleanupRaft`, data_helper.go `makeBackup`) -/
structure Disk where
  data : Bool      -- the data folder holds raft.db and/or snapshots
  snap : Bool      -- it holds at least one snapshot (only then a backup is made)
  backups : Nat    -- <folder>.old.0 … <folder>.old.(backups-1) exist
  deriving DecidableEq, Repr

/-- `dataBackupHelper.makeBackup` with `keep` = backups_rotate ≥ 1: when `keep` copies are listed the oldest is removed
    (`os.RemoveAll`), the others are renamed one up, the data folder becomes `.old.0` -/
def makeBackup (keep : Nat) (d : Disk) : Disk :=
  { data := false, snap := false, backups := if keep ≤ d.backups then d.backups else d.backups + 1 }

/-- `CleanupRaft(cfg)`. No snapshot: the folder is removed outright (`os.RemoveAll`), else it is rotated away.
    `slash`: `data_folder` was configured with a trailing slash — since fix b8a019e `newDataBackupHelper` cleans the
    path first, so it makes no difference (before, `filepath.Dir`/`Base` named a folder inside the data folder and
    nothing was moved); the parameter stays as a regression dimension of the scripts. -/
def cleanupRaft (keep : Nat) (_slash : Bool) (d : Disk) : Disk :=
  if !d.snap then { d with data := false }
  else makeBackup keep d

/-- what `Clean` may leave behind for a peer with `prev` backups, with and without a snapshot in its folder:
    (data folder emptied, number of backups) -/
def cleanOutcomes (keep : Nat) (slash : Bool) (prev : Nat) : List (Bool × Nat) :=
  [false, true].map (fun sn =>
    let d' := cleanupRaft keep slash { data := true, snap := sn, backups := prev }
    (!d'.data, d'.backups))

inductive DiskOp where
  | write (snap : Bool)   -- the peer runs again on this folder (joins, logs, possibly snapshots)
  | clean                 -- it is removed: Shutdown + Clean
  deriving DecidableEq, Repr

def diskStep (keep : Nat) (slash : Bool) (d : Disk) : DiskOp → Disk
  | .write sn => { d with data := true, snap := sn }
  | .clean => cleanupRaft keep slash d

def runDisk (keep : Nat) (slash : Bool) (d : Disk) (ops : List DiskOp) : Disk := ops.foldl (diskStep keep slash) d

/-! ### Cluster.PeerRemove (cluster.go) -/
inductive Call where
  | logPin (p : Pin)
  | rmPeer (p : Nat)
  deriving DecidableEq, Repr

/-- `vacatePeer` then `consensus.RmPeer`: `realloc` = the outcome of `pin()` with `p` blacklisted (none = refused) -/
def peerRemoveCalls (repin : Bool) (pins : PinMap) (p : Nat) (realloc : Pin → Option Pin) : List Call :=
  (if repin then (pins.filter (fun q => q.allocs.contains p)).filterMap (fun q => (realloc q).map Call.logPin) else [])
  ++ [.rmPeer p]

/-! ### scripts: what the harness does to a set of peers, with the outcomes it saw -/
inductive SyncRes where
  | ok | err | okNoVote
  deriving DecidableEq, Repr

inductive Op where
  | start (j : Nat)
  | add (at_ j : Nat) (res : Res)
  | rm (at_ j : Nat) (res : Res)
  | pin (at_ : Nat) (p : Pin) (res : Res)
  | unpin (at_ c : Nat) (res : Res)
  | ready (j : Nat) (leader voter synced : Bool) (pins : PinMap)
  | nonvoter (at_ j : Nat) (res : Res)
  | sync (j : Nat) (res : SyncRes)
  | stop (j : Nat)
  | restart (j : Nat)
  | clean (j : Nat) (gone : Bool) (nb : Nat)
  -- full-cluster suite
  | join (j via : Nat) (res : Res) (pins : PinMap)
  | peerRm (at_ p : Nat) (res : Res) (calls : List Call)
  | leave (j : Nat) (res : Res)
  deriving Repr

inductive Tier where
  | cons | cluster
  deriving DecidableEq, Repr

structure MState where
  tier : Tier
  repin : Bool
  log : List Entry
  running : List Nat     -- peers whose process is up (sorted set)
  departed : List Nat    -- cluster suite: peers expected to have stopped themselves and discarded their Raft data
  wiped : List Nat       -- cluster suite: peers whose Raft data folder was rotated away
  backups : List (Nat × Nat)   -- consensus suite: rotated copies next to each peer's data folder (absent = 0)
  deriving Repr

/-- configuration of every peer of a script -/
structure Env where
  keep : Nat      -- backups_rotate
  slash : Bool    -- data_folder written with a trailing slash
  deriving Repr

def backupsOf (l : List (Nat × Nat)) (j : Nat) : Nat :=
  match l.find? (fun x => x.1 == j) with
  | some x => x.2
  | none => 0

def setBackups (j nb : Nat) (l : List (Nat × Nat)) : List (Nat × Nat) := (j, nb) :: l.filter (fun x => x.1 != j)

def MState.cfg (s : MState) : Config := cfgAt s.log
def MState.ids (s : MState) : List Nat := cfgIds s.cfg
def MState.pins (s : MState) : PinMap := pinsAt s.log
/-- a running server of the current configuration -/
def MState.member (s : MState) (i : Nat) : Bool := s.running.contains i && cfgHas s.cfg i

def canonPin (p : Pin) : Pin := { p with opts := { p.opts with metadata := normMeta p.opts.metadata } }
def canonMap (m : PinMap) : PinMap := m.map canonPin

def initState (tier : Tier) (repin : Bool) (init : List Nat) : MState :=
  { tier := tier, repin := repin, log := [.boot init], running := normPeers init, departed := [], wiped := [], backups := [] }

/-- a call issued at peer `at_` in a healthy cluster. At a running member the outcome is determined;
    at a peer outside the configuration (a removed peer still running) either outcome is possible:
    success means the leader did it, failure means nothing happened. -/
def issue (s : MState) (at_ : Nat) (att : Attempt) (res : Res) : Option MState :=
  let r := direct att s.log
  if s.member at_ then
    if r.1 == res then some { s with log := r.2 } else none
  else if s.running.contains at_ then
    match res with
    | .err => some s
    | .ok => if r.1 == .ok then some { s with log := r.2 } else none
  else none

/-- holders of `pin` that remain once `p` is blacklisted: allocated peers that are still servers (only those have metrics) -/
def holdersLeft (c : Config) (p : Nat) (pin : Pin) : Nat :=
  (pin.allocs.filter (fun a => a != p && cfgHas c a)).length

/-- `allocate` with `p` blacklisted keeps the current allocations (those still name `p`) iff the remaining
    holders already satisfy the factors: `needed <= 0` and not `wanted < 0` -/
def keepsAllocs (c : Config) (p : Nat) (pin : Pin) : Bool :=
  decide (pin.opts.rmin ≤ (holdersLeft c p pin : Int)) && decide ((holdersLeft c p pin : Int) ≤ pin.opts.rmax)

/-- `pin()` with `p` blacklisted succeeds: enough holders left, or enough other servers to reach the minimum -/
def repinSucceeds (c : Config) (p : Nat) (pin : Pin) : Bool :=
  decide (pin.opts.rmin ≤ (holdersLeft c p pin : Int)) ||
  decide (pin.opts.rmin ≤ ((erasePeer p (cfgIds c)).length : Int))

/-- the entries `vacatePeer` re-pins: those allocated to `p` whose re-allocation succeeds -/
def repinCids (repin : Bool) (c : Config) (pins : PinMap) (p : Nat) : List Nat :=
  if repin then (pins.filter (fun q => q.allocs.contains p && repinSucceeds c p q)).map (·.cid) else []

def callCids : List Call → List Nat
  | [] => []
  | .logPin q :: rest => q.cid :: callCids rest
  | .rmPeer _ :: rest => callCids rest

/-- shape of the calls recorded during `PeerRemove(p)`: re-pins of entries allocated to `p` (naming `p` again exactly
    when the allocation was kept), then exactly one `RmPeer(p)` -/
def vacateShape (c : Config) (pins : PinMap) (p : Nat) : List Call → Bool
  | [.rmPeer q] => q == p
  | .logPin q :: rest =>
    (match pins.get q.cid with
     | some old => old.allocs.contains p && (q.allocs.contains p == keepsAllocs c p old)
     | none => false) && vacateShape c pins p rest
  | _ => false

def vacateOk (repin : Bool) (c : Config) (pins : PinMap) (p : Nat) (calls : List Call) : Bool :=
  vacateShape c pins p calls &&
  (repinCids repin c pins p).all (callCids calls).contains &&
  (callCids calls).all (repinCids repin c pins p).contains

def callEntries : List Call → List Entry
  | [] => []
  | .logPin q :: rest => .pin q :: callEntries rest
  | .rmPeer _ :: rest => callEntries rest

/-- one step of the script: `none` = the recorded outcome is not one the model allows -/
def step (e : Env) (s : MState) : Op → Option MState
  | .start j =>
    if s.running.contains j then none
    else some { s with running := insertPeer j s.running, wiped := erasePeer j s.wiped }   -- a fresh staging instance
  | .add at_ j res => issue s at_ (rwAddPeer j) res
  | .rm at_ j res => issue s at_ (rwRemovePeer j) res
  | .pin at_ p res =>
    if s.tier == .cluster && res == .err then
      (if s.running.contains at_ then some s else none)   -- Cluster.Pin refused (allocation): nothing is logged
    else issue s at_ (rwCommit (.pin p)) res
  | .unpin at_ c res =>
    if s.tier == .cluster && (s.pins.get c).isNone then
      (if res == .err && s.running.contains at_ then some s else none)   -- Cluster.Unpin refuses an absent cid
    else issue s at_ (rwCommit (.unpin c)) res
  | .ready j l v sy pins =>
    if s.running.contains j && cfgVoter s.cfg j && l && v && sy && canonMap pins == canonMap s.pins then some s else none
  | .nonvoter at_ j res =>
    if s.member at_ && res == .ok then some { s with log := s.log ++ [.addNonvoter j] } else none
  | .sync j res =>
    if s.running.contains j && res == (if cfgVoter s.cfg j then SyncRes.ok else SyncRes.err) then some s else none
  | .stop j => some { s with running := erasePeer j s.running }
  | .restart j =>
    -- a peer whose data folder was rotated away (it left) does not come back by a restart: it has to join afresh
    if s.wiped.contains j then none
    else some { s with running := insertPeer j s.running, departed := erasePeer j s.departed }
  | .clean j gone nb =>
    if (cleanOutcomes e.keep e.slash (backupsOf s.backups j)).contains (gone, nb) then
      some { s with running := erasePeer j s.running, backups := setBackups j nb s.backups }
    else none
  | .join j via res pins =>
    if s.member via && !s.running.contains j && !cfgHas s.cfg j && res == .ok then
      let log' := s.log ++ [.addVoter j]
      if canonMap pins == canonMap (pinsAt log') then
        some { s with log := log', running := insertPeer j s.running, departed := erasePeer j s.departed, wiped := erasePeer j s.wiped }
      else none
    else none
  | .peerRm at_ p res calls =>
    if s.member at_ && vacateOk s.repin s.cfg s.pins p calls then
      let log1 := s.log ++ callEntries calls
      let r := direct (rwRemovePeer p) log1
      if r.1 == res then
        if res == .ok && s.running.contains p then
          some { s with log := r.2, running := erasePeer p s.running, departed := insertPeer p s.departed }
        else some { s with log := r.2 }
      else none
    else none
  | .leave j res =>
    if s.member j then
      let r := direct (rwRemovePeer j) s.log
      if r.1 == res then
        -- only a peer whose RmPeer(self) succeeded is `removed` and discards its data; either way it shuts down
        (if res == .ok then
           some { s with log := r.2, running := erasePeer j s.running, departed := insertPeer j s.departed, wiped := insertPeer j s.wiped }
         else some { s with log := r.2, running := erasePeer j s.running })
      else none
    else none

def replay (e : Env) (s : MState) : List Op → Option MState
  | [] => some s
  | op :: rest => match step e s op with
    | some s' => replay e s' rest
    | none => none

/-! ### observations at a sync point (every member caught up) -/
structure MemberObs where
  id : Nat
  peers : List Nat
  pins : PinMap
  nonvoters : List Nat
  deriving Repr

structure Obs where
  members : List MemberObs            -- running peers
  gone : List (Nat × Bool × Bool)     -- cluster suite: (peer, Done() closed, raft data folder rotated away)
  deriving Repr

structure Case where
  tier : Tier
  repin : Bool
  retries : Nat
  init : List Nat
  keep : Nat
  slash : Bool
  ops : List Op
  obs : Obs

/-- what the model allows the members to report once everybody has caught up -/
def obsOk (_e : Env) (s : MState) (o : Obs) : Bool :=
  o.members.all (fun m =>
    !s.member m.id ||
      (m.peers == s.ids && canonMap m.pins == canonMap s.pins && m.nonvoters == cfgNonvoters s.cfg)) &&
  s.running.all (fun i => !cfgHas s.cfg i || o.members.any (fun m => m.id == i)) &&
  s.departed.all (fun j => o.gone.any (fun g => g.1 == j && g.2.1 && g.2.2))

def allowed (k : Case) : Bool :=
  match replay ⟨k.keep, k.slash⟩ (initState k.tier k.repin k.init) k.ops with
  | some s => obsOk ⟨k.keep, k.slash⟩ s k.obs
  | none => false

end CV.C17
