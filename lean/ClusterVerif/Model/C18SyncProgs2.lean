/-
C18 (round 8b) — more protocols of the anchored files as `Sync` programs (core Lean only):
(t) the stateless pin tracker IN USE beyond `progA`: both workers, `spt.rpcClient` as a cell (written by `SetClient`
    without a lock, read by the workers and by `Status` / `Recover`), `Track` on a queue that can be full, `Recover`
    (status read, re-enqueue) — all racing two `Shutdown`s;
(i) the informers (`informer/disk`, `informer/numpin`): `SetClient` / `GetMetric` / `Shutdown` on `mu` + `rpcClient`;
(w) `metrics.Checker`: `Watch` (ticker loop → `CheckPeers` → `alert`: non-blocking send on `alertCh` inside
    `failedPeersMu`) vs a concurrent `CheckAll` caller, the alert consumer and the cancellation of the context;
(q) the crdt batching queue when it is full / after `Shutdown` (`LogPin` ×3 on a queue of 2, `batchWorker` gone).
Each with the realistic wrong edits that are refuted by one schedule (`Lemmas/C18SyncMore.lean`).
-/
import ClusterVerif.Model.C18SyncProgs

namespace CV.C18.Sync.Progs
open CV.C18.Sync

/-! ## (t) stateless pin tracker in use (`pintracker/stateless/stateless.go`)
mutex 0 = `shutdownMu`; cell 0 = `spt.shutdown`, cell 1 = `spt.rpcClient`; channel 0 = `rpcReady` (cap 1),
1 = `pinCh`, 2 = `unpinCh` (cap 1 each = `MaxPinQueueSize`, so that the full-queue arm of `enqueue` is reached);
ctx 0 = `spt.ctx`; wg 0 = `spt.wg` (never Added).
Threads: 0 `New` + `SetClient` + the callers it hands the tracker to, 1 `opWorker(spt.pin, spt.pinCh)`,
2 `opWorker(spt.unpin, spt.unpinCh)`, 3 `Track` ×2, then `Recover` (`Status`, `enqueue`, `Status`) and / or `Shutdown`s. -/

def cfgT (nT : Nat) : Cfg := { nT := nT, nMu := 1, caps := [1, 1, 1], nWg := 1, nCtx := 1, nCell := 2 }

/-- `opWorker(pinF, opChan)`: the operation function reads `spt.rpcClient` (`spt.rpcClient.CallContext(…)` in `pin` / `unpin`) -/
def tWorker (ch : Nat) : Code := [
  two (.recv ch) 1 (.done 0) 2,  -- 0: for { select { case op := <-opChan: ; case <-spt.ctx.Done(): return }
  two (.ld 1 1) 0 (.ld 1 0) 0,   -- 1:   applyPinF(pinF, op): spt.rpcClient.CallContext(...) ; optracker.Clean ; loop }
  halt ]

/-- two `Track` calls: `enqueue(OperationPin)` twice on a queue of capacity 1 -/
def tTrack2 : Code := [
  tryOp (.send 1) 1 1,           -- 0: select { case spt.pinCh <- op: ; default: ErrFullQueue, op.SetError, op.Cancel }
  tryOp (.send 1) 2 2,           -- 1: same
  halt ]

/-- `Recover(c)`: `Status` (IPFS pin ls through `spt.rpcClient`), `recoverWithPinInfo` → `enqueue(OperationUnpin)`, `Status` again -/
def tRecover : Code := [
  two (.ld 1 1) 1 (.ld 1 0) 1,   -- 0: spt.Status(ctx, c): spt.rpcClient.CallContext(… "PinLsCid" …)
  tryOp (.send 2) 2 2,           -- 1: recoverWithPinInfo: spt.enqueue(ctx, pin, OperationUnpin): select { case ch <- op: ; default: }
  two (.ld 1 1) 3 (.ld 1 0) 3,   -- 2: return spt.Status(ctx, pi.Cid)
  halt ]

/-- `New`, `SetClient`, then the users: `Track` ×2 = thread 3, then the threads `4 … 4 + more` (`early = true`: the first
user is started BEFORE `SetClient`: misuse) -/
def tMain (early : Bool) (more : Nat) : Code := [
  one (.spawn 1) 1,              -- 0: New: go spt.opWorker(spt.pin, spt.pinCh)
  one (.spawn 2) (if early then 4 else 2),
                                 -- 1: New: go spt.opWorker(spt.unpin, spt.unpinCh)
  one (.st 1 1) 3,               -- 2: SetClient: spt.rpcClient = c
  one (.send 0) (if early then 5 else 4),
                                 -- 3: SetClient: spt.rpcReady <- struct{}{}
  one (.spawn 3) (if early then 2 else 5),
                                 -- 4: user: Track ×2
  one (.spawn 4) (if more ≥ 1 then 6 else 8),
                                 -- 5: user (Recover / Shutdown)
  (if more ≥ 1 then one (.spawn 5) (if more ≥ 2 then 7 else 8) else halt),
                                 -- 6: user (Shutdown)
  (if more ≥ 2 then one (.spawn 6) 8 else halt),
                                 -- 7: user (Shutdown)
  halt ]

/-- (t-i) both workers, `Track` ×2 on a queue of one, `Recover`, one `Shutdown` (1179 states) -/
def progT : List Code := [ tMain false 1, tWorker 1, tWorker 2, tTrack2, tRecover, aShutdown ]
/-- (t-ii) both workers, `Track` ×2 on a queue of one, two concurrent `Shutdown`s (597 states) -/
def progTS : List Code := [ tMain false 1, tWorker 1, tWorker 2, tTrack2, aShutdown, aShutdown ]
/-- everything at once (4229 states: every check passes when evaluated; not kernel-certified, cf. `cluster`) -/
def progTAll : List Code := [ tMain false 2, tWorker 1, tWorker 2, tTrack2, tRecover, aShutdown, aShutdown ]
def initT : Nat := mkInit (cfgT 6) [0]

/-- (t1) MISUSE: `Track` handed out before `SetClient` — the worker's read of `spt.rpcClient` races `SetClient`'s write -/
def progT1 : List Code := [ tMain true 1, tWorker 1, tWorker 2, tTrack2, tRecover, aShutdown ]

/-- (t2) WRONG EDIT: `enqueue` sends without `default:` (blocking send) -/
def tTrack2Blocking : Code := [
  one (.send 1) 1,               -- 0: spt.pinCh <- op
  one (.send 1) 2,               -- 1: spt.pinCh <- op
  halt ]
def progT2 : List Code := [ tMain false 1, tWorker 1, tWorker 2, tTrack2Blocking, tRecover, aShutdown ]

/-- (t3) WRONG EDIT: `Shutdown` also closes the queue (`close(spt.pinCh)`): a later `enqueue` sends on a closed channel -/
def tShutdownClosesQueue : Code := [
  one (.lock 0) 1,
  two (.ld 0 1) 2 (.ld 0 0) 3,
  one (.unlock 0) 9,
  one (.cancel 0) 4,
  one (.close 0) 5,
  one (.close 1) 6,              -- 5: close(spt.pinCh)   (the edit)
  one (.wgWait 0) 7,
  one (.st 0 1) 8,
  one (.unlock 0) 9,
  halt ]
def progT3 : List Code := [ tMain false 1, tWorker 1, tWorker 2, tTrack2, tRecover, tShutdownClosesQueue ]

/-! ## (i) informers (`informer/disk/disk.go`, `informer/numpin/numpin.go`: the three methods have the same shape)
mutex 0 = `mu`; cell 0 = `rpcClient` (0 = nil).
Threads: 0 `NewCluster` (`SetClient` once, then the users), 1 / 2 `GetMetric`, 3 `Shutdown`, 4 a later `SetClient`. -/

def cfgI (nT : Nat) : Cfg := { nT := nT, nMu := 1, caps := [], nWg := 0, nCtx := 0, nCell := 1 }

def iSetClient : Code := [
  one (.lock 0) 1,               -- 0: disk.mu.Lock()
  one (.st 0 1) 2,               -- 1: disk.rpcClient = c
  one (.unlock 0) 3,             -- 2: disk.mu.Unlock()
  halt ]

def iShutdown : Code := [
  one (.lock 0) 1,               -- 0: disk.mu.Lock()
  one (.st 0 0) 2,               -- 1: disk.rpcClient = nil
  one (.unlock 0) 3,             -- 2: disk.mu.Unlock()
  halt ]

def iGetMetric : Code := [
  one (.lock 0) 1,               -- 0: disk.mu.Lock()
  two (.ld 0 0) 2 (.ld 0 1) 3,   -- 1: rpcClient := disk.rpcClient
  one (.unlock 0) 6,             -- 2: disk.mu.Unlock() ; if rpcClient == nil { return &api.Metric{Valid: false} }
  one (.unlock 0) 4,             -- 3: disk.mu.Unlock()
  one (.tau) 5,                  -- 4: rpcClient.CallContext(…)   (the LOCAL copy: no shared access)
  one (.tau) 6,                  -- 5: m := &api.Metric{…} ; return m
  halt ]

def iMain : Code := [
  one (.lock 0) 1,               -- 0: NewCluster → informer.SetClient(c): disk.mu.Lock()
  one (.st 0 1) 2,               -- 1:   disk.rpcClient = c
  one (.unlock 0) 3,             -- 2:   disk.mu.Unlock()
  one (.spawn 1) 4,              -- 3: user: GetMetric
  one (.spawn 2) 5,              -- 4: user: GetMetric
  one (.spawn 3) 6,              -- 5: user: Shutdown
  one (.spawn 4) 7,              -- 6: user: SetClient (again)
  halt ]

def progI : List Code := [ iMain, iGetMetric, iGetMetric, iShutdown, iSetClient ]
def initI : Nat := mkInit (cfgI 5) [0]

/-- (i1) WRONG EDIT: `GetMetric` tests the field under the lock and then uses the FIELD (not a local copy) for the call -/
def iGetMetricReread : Code := [
  one (.lock 0) 1,               -- 0: disk.mu.Lock()
  two (.ld 0 0) 2 (.ld 0 1) 3,   -- 1: isNil := disk.rpcClient == nil
  one (.unlock 0) 5,             -- 2: disk.mu.Unlock() ; return invalid
  one (.unlock 0) 4,             -- 3: disk.mu.Unlock()
  two (.ld 0 0) 5 (.ld 0 1) 5,   -- 4: disk.rpcClient.CallContext(…)   (second read, no lock; nil here = nil dereference)
  halt ]
def progI1 : List Code := [ iMain, iGetMetricReread, iGetMetricReread, iShutdown, iSetClient ]

/-- (i2) WRONG EDIT = revert of 85a92cc: `Shutdown` without the mutex -/
def iShutdownNoMu : Code := [ one (.st 0 0) 1, halt ]
def progI2 : List Code := [ iMain, iGetMetric, iGetMetric, iShutdownNoMu, iSetClient ]

/-! ## (w) `metrics.Checker` (`monitor/metrics/checker.go`): `Watch` / `CheckAll` / `alert` / the consumer of `Alerts()`
mutex 0 = `failedPeersMu`; cell 0 = `failedPeers` / `alertedFor` (the maps, written inside `alert`); channel 0 = `alertCh`
(cap 2 here, 256 in the code); ctx 0 = the context given to `Watch` (and the consumer's).
`Watch`'s `for { select }` is unrolled to THREE ticks (then only `ctx.Done()` is left), so that together with the `CheckAll`
caller four alerts meet a queue of two and no thread can move for ever (cf. `cWatchPeers`).
Threads: 0 the monitor (`go mc.Watch(...)`, then the users), 1 `Watch`, 2 the consumer (`for { select { case a := <-Alerts(): ; case <-ctx.Done(): return } }`,
unrolled to two receptions), 3 a direct `CheckAll` caller, 4 the cancellation. -/

def cfgW (nT : Nat) : Cfg := { nT := nT, nMu := 1, caps := [2], nWg := 0, nCtx := 1, nCell := 1 }

/-- one `alert` call starting at pc `b` and continuing at `next` (`blocking`: the wrong edit without `default:`) -/
def wAlert (blocking : Bool) (b next : Nat) : List Instr := [
  one (.lock 0) (b + 1),                       -- b:   mc.failedPeersMu.Lock() ; defer Unlock
  two (.ld 0 0) (b + 2) (.ld 0 1) (b + 2),     -- b+1: failedMetrics := mc.failedPeers[pid] ; mc.alertedFor[pid][name] …
  one (.st 0 1) (b + 3),                       -- b+2: mc.alertedFor[pid][name] = … ; delete(failedMetrics, name)
  (if blocking then one (.send 0) (b + 4) else tryOp (.send 0) (b + 4) (b + 5)),
                                               -- b+3: select { case mc.alertCh <- alrt: ; default: return ErrAlertChannelFull }
  one (.st 0 1) (b + 5),                       -- b+4:   failedMetrics[metricName]++
  one (.unlock 0) next ]                       -- b+5: (deferred) mc.failedPeersMu.Unlock()

/-- `Watch`, three ticks -/
def wWatch (blocking : Bool) : Code :=
  [ two (.tau) 1 (.done 0) 21 ] ++ wAlert blocking 1 7 ++      -- 0: select { case <-ticker.C: CheckPeers → alert ; case <-ctx.Done(): return }
  [ two (.tau) 8 (.done 0) 21 ] ++ wAlert blocking 8 14 ++     -- 7: second tick
  [ two (.tau) 15 (.done 0) 21 ] ++ wAlert blocking 15 22 ++   -- 14: third tick
  [ halt,                                                      -- 21: ticker.Stop() ; return
    one (.done 0) 21 ]                                         -- 22: (unrolled) only case <-ctx.Done() is left

/-- the consumer of `Alerts()` (pubsubmon hands the channel to `Cluster.alertsHandler`) -/
def wConsumer : Code := [
  two (.recv 0) 1 (.done 0) 3,   -- 0: select { case alrt := <-c.monitor.Alerts(): ; case <-c.ctx.Done(): return }
  two (.recv 0) 2 (.done 0) 3,   -- 1: same
  one (.done 0) 3,               -- 2: (unrolled) only ctx.Done() is left
  halt ]

/-- a direct `CheckAll()` caller: one `alert` -/
def wCheckAll (blocking : Bool) : Code := wAlert blocking 0 6 ++ [ halt ]

def wMain : Code := [
  one (.spawn 1) 1,              -- 0: go mc.Watch(ctx, peersF, interval)
  one (.spawn 2) 2,              -- 1: go alertsHandler
  one (.spawn 3) 3,              -- 2: user: CheckAll()
  one (.spawn 4) 4,              -- 3: user: Shutdown → cancel
  halt ]

def wCancel : Code := [ one (.cancel 0) 1, halt ]

def progW : List Code := [ wMain, wWatch false, wConsumer, wCheckAll false, wCancel ]
def initW : Nat := mkInit (cfgW 5) [0]

/-- (w1) WRONG EDIT: `alert` sends with a plain `mc.alertCh <- alrt` inside `failedPeersMu` -/
def progW1 : List Code := [ wMain, wWatch true, wConsumer, wCheckAll true, wCancel ]

/-- (w2) WRONG EDIT = M9: `alert` without `failedPeersMu` (only the map accesses and the send) -/
def wAlertNoMu (b next : Nat) : List Instr := [
  two (.ld 0 0) (b + 1) (.ld 0 1) (b + 1),
  one (.st 0 1) (b + 2),
  tryOp (.send 0) (b + 3) next,
  one (.st 0 1) next ]
def progW2 : List Code :=
  [ wMain, [ two (.tau) 1 (.done 0) 5 ] ++ wAlertNoMu 1 5 ++ [ halt ], wConsumer, wAlertNoMu 0 4 ++ [ halt ], wCancel ]

/-! ## (q) crdt batching queue when full / after `Shutdown` (`consensus/crdt/consensus.go`), layout of `cfgB`:
three `LogPin` calls of one caller on the queue of two: the third finds the queue full once `batchWorker` has left. -/

def bLogPin3 : Code := [
  tryOp (.send 2) 1 1,           -- 0: select { case css.batchItemCh <- item: return nil ; default: ErrMaxQueueSizeReached }
  tryOp (.send 2) 2 2,           -- 1: same
  tryOp (.send 2) 3 3,           -- 2: same
  halt ]

def progQ : List Code := [
  [ one (.spawn 1) 1,            -- 0: New: go css.setup()
    one (.send 0) 2,             -- 1: SetClient
    one (.recv 1) 3,             -- 2: <-css.Ready()
    one (.spawn 3) 4,            -- 3: user: LogPin ×3
    one (.spawn 4) 5,            -- 4: user: Shutdown
    one (.spawn 5) 6,            -- 5: user: Shutdown
    halt ],
  bSetup 2, bBatchWorker, bLogPin3, bShutdown, bShutdown ]

/-- (q1) WRONG EDIT: `LogPin` sends without `default:` -/
def bLogPin3Blocking : Code := [ one (.send 2) 1, one (.send 2) 2, one (.send 2) 3, halt ]
def progQ1 : List Code := [
  [ one (.spawn 1) 1, one (.send 0) 2, one (.recv 1) 3, one (.spawn 3) 4, one (.spawn 4) 5, one (.spawn 5) 6, halt ],
  bSetup 2, bBatchWorker, bLogPin3Blocking, bShutdown, bShutdown ]

end CV.C18.Sync.Progs
