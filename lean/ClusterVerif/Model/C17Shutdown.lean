import ClusterVerif.Model.C17

/-!
C17 — `(*Cluster).Shutdown` as a regenerated structure that the model INTERPRETS. Core Lean only.

The translator (`harness/extract_c17`, `emitShutdownEffects`) emits `Gen.shutdownEffects`: the tracked effects of
`Shutdown` in source order (`read` of `c.readyB, c.removed`; `setRemoved`; `rmSelf` = `consensus.RmPeer(c.id)`;
`consShutdown`; `clean` = `consensus.Clean`; `done` = `close(c.doneCh)`; every `return`), each with the atoms of the
conditions that enclose it. `interpShutdown` runs such a list on the peer's flags and an oracle; an atom or an effect it
does not know gives `none` (failed obligation). `shutdownActsC` is the closed form the departure machine and its theorems
use: `Props` proves (by `decide`, on every run, for all flag/oracle values) that the interpretation of today's list IS it.
-/

namespace CV.C17

/-- `Shutdown` with (`consult = true`) or without a look at `consensus.Peers` before deciding whether the peer was
    removed: a ready peer that is not flagged, whose `Peers()` answers and does not list it, counts as removed. -/
def shutdownActsC (consult : Bool) (f : CFlags) (member peersOk rmOk : Bool) : CFlags × List Act :=
  if f.shutdown then (f, [])
  else shutdownActs (if consult && f.ready && !f.removed && peersOk && !member then { f with removed := true } else f) peersOk rmOk

/-- what `Shutdown` is run on -/
structure SEnv where
  f : CFlags
  member : Bool     -- `consensus.Peers` lists this peer
  peersOk : Bool    -- `consensus.Peers` answers
  rmOk : Bool       -- `consensus.RmPeer(self)` succeeds
  deriving DecidableEq, Repr

structure SRun where
  read : Bool
  ready : Bool
  removed : Bool
  returned : Bool
  acts : List Act
  deriving DecidableEq, Repr

/-- one atom of a guard; components other than consensus stop without error -/
def evalAtom (e : SEnv) (r : SRun) (a : String) : Option Bool :=
  if a == "c.shutdownB" then some e.f.shutdown
  else if a == "ready" then (if r.read then some r.ready else none)
  else if a == "removed" then (if r.read then some r.removed else none)
  else if a == "!removed" then (if r.read then some (!r.removed) else none)
  else if a == "c.config.LeaveOnShutdown" then some e.f.leaveOnShutdown
  else if a == "c.consensus != nil" || a == "con != nil" || a == "c.discovery != nil" then some true
  else if a == "err@Peers == nil" then some e.peersOk
  else if a == "err@RmPeer != nil" then some (!e.rmOk)
  else if a == "!(err@RmPeer != nil)" then some e.rmOk
  else if a == "!hasMe" then some (!e.member)
  else if a == "err@Shutdown != nil" || a == "err@Clean != nil" then some false
  else none

def evalPath (e : SEnv) (r : SRun) : List String → Option Bool
  | [] => some true
  | a :: rest =>
    match evalAtom e r a with
    | none => none
    | some false => if rest.all (fun x => (evalAtom e r x).isSome) then some false else none
    | some true => evalPath e r rest

def stepEffect (e : SEnv) (r : SRun) (eff : String × List String) : Option SRun :=
  if r.returned then
    -- still fail-closed on what is not understood
    (if eff.1 == "read" || eff.1 == "setRemoved" || eff.1 == "rmSelf" || eff.1 == "consShutdown" || eff.1 == "clean"
        || eff.1 == "done" || eff.1 == "return" then some r else none)
  else
    match evalPath e r (eff.2.filter (· != "loop")) with
    | none => none
    | some false =>
      if eff.1 == "read" || eff.1 == "setRemoved" || eff.1 == "rmSelf" || eff.1 == "consShutdown" || eff.1 == "clean"
        || eff.1 == "done" || eff.1 == "return" then some r else none
    | some true =>
      if eff.1 == "read" then some { r with read := true, ready := e.f.ready, removed := e.f.removed }
      else if eff.1 == "setRemoved" then some { r with removed := true }
      else if eff.1 == "rmSelf" then some { r with acts := r.acts ++ [.rmSelf] }
      else if eff.1 == "consShutdown" then some { r with acts := r.acts ++ [.consShutdown] }
      else if eff.1 == "clean" then some { r with acts := r.acts ++ [.clean] }
      else if eff.1 == "done" then some { r with acts := r.acts ++ [.done] }
      else if eff.1 == "return" then some { r with returned := true }
      else none

def runEffects (e : SEnv) : SRun → List (String × List String) → Option SRun
  | r, [] => some r
  | r, eff :: rest =>
    match stepEffect e r eff with
    | none => none
    | some r' => runEffects e r' rest

/-- the interpretation: (the peer counts as removed when `Shutdown` ends, what it did) -/
def interpShutdown (effs : List (String × List String)) (e : SEnv) : Option (Bool × List Act) :=
  match runEffects e ⟨false, false, false, false, []⟩ effs with
  | some r => if r.returned then some (r.removed, r.acts) else none
  | none => none

/-- the list sets the flag from a look at the peerset -/
def effectsConsult (effs : List (String × List String)) : Bool :=
  effs.any (fun x => x.1 == "setRemoved" && x.2.contains "!hasMe")

/-- the closed form, in the shape `interpShutdown` answers -/
def closedShutdown (consult : Bool) (e : SEnv) : Bool × List Act :=
  let r := shutdownActsC consult e.f e.member e.peersOk e.rmOk
  (if e.f.shutdown then false else r.1.removed, r.2)

end CV.C17
