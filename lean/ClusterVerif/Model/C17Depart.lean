import ClusterVerif.Model.C17Shutdown

/-!
C17 — departure of a peer (cluster.go: `PeerRemove`, `watchPeers`, `ready`, `NewCluster`, `Shutdown`). Core Lean only.

`Cluster.Shutdown` reads `ready, removed` ONCE and calls `consensus.Clean` only if both hold. Whether a removed peer
discards its Raft data therefore depends on WHO starts `Shutdown` and on whether `c.removed = true` was assigned before
that start. The translator (`harness/extract_c17`) regenerates `Gen.shutdownSites`: every mention of `c.Shutdown` in
cluster.go with its enclosing conditions and whether the two flag assignments dominate it. This file classifies those
sites (`classify`; an unknown site = failed obligation), states when a site list is safe (`sitesSafe`) and INTERPRETS a
site list in a one-peer state machine over histories of removals, watch rounds and operator stops (`depStep`, `depRun`).
-/

namespace CV.C17

/-- one place that starts `c.Shutdown` -/
structure Site where
  fn : String
  path : List String   -- enclosing conditions, outermost first
  flagged : Bool       -- `c.removed = true` dominates the start
  readySet : Bool      -- `c.readyB = true` dominates the start
  deriving DecidableEq, Repr

def Site.ofGen (t : String × List String × Bool × Bool) : Site := ⟨t.1, t.2.1, t.2.2.1, t.2.2.2⟩

/-- what makes a site fire -/
inductive Trig where
  | absent       -- a `watchPeers` round finds the peer missing from `consensus.Peers`
  | selfRemoved  -- `PeerRemove(c.id)` succeeded at this very peer
  | startup      -- `NewCluster` / `ready()` gave up before the peer became ready (never cleans: `ready` is false)
  deriving DecidableEq, Repr

/-- the sites the model understands; anything else is `none` (fail-closed) -/
def classify (s : Site) : Option Trig :=
  if s.fn == "watchPeers" && s.path.contains "!hasMe" then some .absent
  else if s.fn == "PeerRemove" && s.path.contains "pid == c.id" then some .selfRemoved
  else if (s.fn == "NewCluster" || s.fn == "ready") && !s.readySet then some .startup
  else none

/-- Every site is understood; a site that fires BECAUSE the peer left the peerset has the flag assigned before it;
    and some site notices a removal decided elsewhere. (When two sites fire on one trigger two `Shutdown`s race for
    `shutdownLock`: each of them has to carry the flag.) -/
def sitesSafe (sites : List Site) : Bool :=
  sites.all (fun s => match classify s with
    | some .absent => s.flagged
    | some .selfRemoved => s.flagged
    | some .startup => true
    | none => false)
  && sites.any (fun s => classify s == some .absent)

/-- what happens to one ready peer -/
inductive DEv where
  | removedByOther                       -- a configuration without this peer reaches it (another member removed it)
  | selfRemove (ok : Bool) (peersOk rmOk : Bool)   -- `PeerRemove(self)` here; ok = `RmPeer` succeeded; the Bools = oracle of a spawned `Shutdown`
  | tick (peersOk : Bool) (sPeersOk sRmOk : Bool)  -- one `watchPeers` round (`consensus.Peers` answered?)
  | stop (peersOk rmOk : Bool)           -- the operator (signal, API) calls `Shutdown`; leaves when configured
  | write (snap : Bool)                  -- consensus writes its folder (log entries; a snapshot or not)
  | restart                              -- the operator starts the peer again on its identity and folders
  deriving DecidableEq, Repr

structure PSt where
  f : CFlags
  member : Bool      -- the peer is in the committed configuration
  acts : List Act    -- what its `Shutdown`s did, in order
  disk : Disk
  outside : Bool     -- the history left what the property speaks of (see `depStep`)
  consult : Bool     -- configuration of the machine: `Shutdown` looks at `consensus.Peers` itself (`effectsConsult`)
  deriving DecidableEq, Repr

/-- run `Cluster.Shutdown` (`shutdownActsC`, the closed form of the interpreted `Gen.shutdownEffects`) on the state: a successful leave ends the membership, `Clean` rotates the folder -/
def doShutdown (keep : Nat) (slash : Bool) (st : PSt) (peersOk rmOk : Bool) : PSt :=
  let r := shutdownActsC st.consult st.f st.member peersOk rmOk
  { st with
    f := r.1
    member := st.member && !(r.2.contains .rmSelf && rmOk)
    acts := st.acts ++ r.2
    disk := if r.2.contains .clean then cleanupRaft keep slash st.disk else st.disk }

/-- the sites of `sites` that fire on `t` start `Shutdown`; the flag is set iff every one of them carries it -/
def fire (sites : List Site) (keep : Nat) (slash : Bool) (t : Trig) (st : PSt) (peersOk rmOk : Bool) : PSt :=
  let hit := sites.filter (fun s => classify s == some t)
  if hit.isEmpty then st
  else doShutdown keep slash { st with f := { st.f with removed := st.f.removed || hit.all (·.flagged) } } peersOk rmOk

/-- One event. A stopped peer does nothing any more. Two situations are marked `outside`: the operator stops a peer
    that has been removed by somebody else BEFORE its next `watchPeers` round (unless `Shutdown` itself consults the
    peerset and gets an answer: `consult`), and a peer removed while it is down — in both the code keeps the data
    (witnesses in Props; reproduced on real peers by suite `depart`). -/
def depStep (sites : List Site) (keep : Nat) (slash : Bool) (st : PSt) : DEv → PSt
  | .removedByOther =>
      if st.f.shutdown then { st with member := false, outside := st.outside || st.member } else { st with member := false }
  | .selfRemove ok p r =>
      if st.f.shutdown || !st.member || !ok then st
      else fire sites keep slash .selfRemoved { st with member := false } p r
  | .tick peersOk p r =>
      if st.f.shutdown || !peersOk || st.member then st
      else fire sites keep slash .absent st p r
  | .stop p r =>
      if st.f.shutdown then st
      else doShutdown keep slash { st with outside := st.outside || (!st.member && !(st.consult && p)) } p r
  | .write sn =>
      if st.f.shutdown then st else { st with disk := { st.disk with data := true, snap := sn } }
  | .restart =>
      -- nothing to restart from (the folder was discarded: the peer has to join afresh), or still running
      if !st.f.shutdown || !st.disk.data then st
      -- a member comes back on its old configuration and becomes ready again
      else if st.member then { st with f := { st.f with shutdown := false, removed := false } }
      -- removed while down (or stopped before its watch round): it comes up on its OLD configuration, nobody
      -- votes for it or sends it entries, `ready()` gives up (`startup` site: `Shutdown` with ready = false,
      -- hence no `Clean`) and it is stopped again, with its data
      else { st with acts := st.acts ++ [.consShutdown, .done] }

def depRun (sites : List Site) (keep : Nat) (slash : Bool) (st : PSt) (evs : List DEv) : PSt :=
  evs.foldl (depStep sites keep slash) st

/-- a ready, running member with data -/
def freshPeer (leave : Bool) (backups : Nat) (consult : Bool := false) : PSt :=
  { f := { ready := true, removed := false, leaveOnShutdown := leave, shutdown := false },
    member := true, acts := [], disk := { data := true, snap := false, backups := backups }, outside := false,
    consult := consult }

/-- the property on the final state: a peer that is no member any more and has stopped holds no consensus data -/
def departedClean (st : PSt) : Bool := !(st.f.shutdown && !st.member) || !st.disk.data

/-- today's sites plus the seeded one: `PeerRemove` spawns `Shutdown` for `pid == c.id` without the flag -/
def earlyShutdownSites : List Site :=
  [⟨"watchPeers", ["case:<-ticker.C", "!hasMe"], true, false⟩, ⟨"PeerRemove", ["pid == c.id"], false, false⟩]

/-- the harmless variant of the same edit: the flag is assigned first -/
def earlyFlaggedSites : List Site :=
  [⟨"watchPeers", ["case:<-ticker.C", "!hasMe"], true, false⟩, ⟨"PeerRemove", ["pid == c.id"], true, false⟩]

/-! Round 8c — the two things a history can still contain that put it outside the statement on the repaired code
    (`consult = true`), as predicates of the HISTORY instead of the machine's `outside` marker. -/

/-- `consensus.Peers` answers the `Shutdown` the operator starts (every event other than `stop` asks nothing) -/
def DEv.answered : DEv → Bool
  | .stop p _ => p
  | _ => true

def DEv.isRmo : DEv → Bool
  | .removedByOther => true
  | _ => false

/-- somewhere in the history the peer is removed by another member WHILE IT IS DOWN (K17b: it cannot learn of it) -/
def removedWhileDown (sites : List Site) (keep : Nat) (slash : Bool) : PSt → List DEv → Bool
  | _, [] => false
  | st, e :: rest =>
    (e.isRmo && st.f.shutdown && st.member) || removedWhileDown sites keep slash (depStep sites keep slash st e) rest

end CV.C17
