/-
C03 — `ClusterRPCAPI.BlockAllocate` (rpc_api.go): the allocation the adders ask for before any pin exists
(`adder.BlockAllocate` sends `api.PinWithOpts(cid.Undef, opts)`), over the same `setupPin` checks as `Cluster.pin`
(C04 model) and the same `allocate()` (C03 model). Core Lean only.
-/
import ClusterVerif.Model.C04
namespace CV.C03
open CV

inductive BlockOut where
  | ok (peers : List Nat)
  | err
  deriving DecidableEq, Repr

structure BlockRes where
  out : BlockOut
  alloc : Option Input := none     -- allocate() was consulted with this input and returned `chosen`
  deriving Repr

/-- `BlockAllocate(in)`. `undef`: the request carries `cid.Undef` (PinGet finds nothing); `ping`: the peers of
    `LatestMetrics("ping")`, in order; `chosen`: what `allocate()` returned. -/
def blockAllocate (cfg : C04.Cfg) (pre : PinMap) (undef : Bool) (p : Pin) (ping : List Nat) (chosen : List Nat) : BlockRes :=
  if cfg.follower then { out := .err } else
  let existing := if undef then none else pre.get p.cid
  let p2 := C04.setupFactors cfg p
  if !factorsValid (C04.effRmin cfg p) (C04.effRmax cfg p) then { out := .err } else
  if p2.opts.expire.beforeNow then { out := .err } else
  if !C04.typeOk existing p2 then { out := .err } else
  if p2.opts.rmin < 0 then { out := .ok ping } else
  let ai := C04.allocIn cfg existing p2 []
  match allocate ai with
  | .ok _ => { out := .ok chosen, alloc := some ai }
  | _ => { out := .err, alloc := some ai }

/-- the property's reading for a block allocation, from the statement: the request is an allocation decision
    "with positive replication factors" for a CID with the stored holders (none for an add), nobody excluded,
    the user's peers preferred -/
def blockInput (cfg : C04.Cfg) (pre : PinMap) (undef : Bool) (p : Pin) : Input :=
  { desc := cfg.desc, rmin := C04.effRmin cfg p, rmax := C04.effRmax cfg p, peers := cfg.peers,
    current := if undef then [] else ((pre.get p.cid).map (·.allocs)).getD [],
    blacklist := [], priority := p.opts.ualloc }

end CV.C03
