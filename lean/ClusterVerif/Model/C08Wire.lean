/-
C08 — byte-level models of the wire forms ipfs-cluster writes or parses through
`Pin.ProtoMarshal/ProtoUnmarshal` (protobuf wire format of `pb.Pin`/`pb.PinOptions`,
google.golang.org/protobuf v1.27.1 `proto.Marshal/Unmarshal`) and through
`ToQuery/FromQuery` (`url.QueryEscape`, `url.Values.Encode`, `url.ParseQuery`).
Core Lean only.  All functions are total and structurally recursive (fuel where a
byte string is consumed), so the decoders are total by construction; what they can
return is characterised in `Lemmas/C08Wire.lean` (`decode_total_wf`).

Layers of the protobuf model:
  bytes ⇄ tokens `(field number, wire type, payload)`           `tokens` / `encodeToks`
  tokens → top-level tokens (unknown groups skipped, field-number range)  `topLevel`
  tokens → updates (`pinUpd`, `optUpd`; wrong wire type or unknown number = skip,
           invalid UTF-8 / malformed nested message = error)
  updates folded over the zero message (`applyP`, `applyO`): last scalar wins,
           repeated fields append, the nested message merges, map entries override by key.
-/
namespace CV.C08.Wire

abbrev Bytes := List UInt8

/-! ## varint, zigzag -/

/-- base-128 varint, little-endian groups, at most `k` bytes -/
def encodeVarintAux : Nat → Nat → Bytes
  | 0, _ => []
  | k + 1, n => if n < 128 then [UInt8.ofNat n] else UInt8.ofNat (n % 128 + 128) :: encodeVarintAux k (n / 128)

def encodeVarint (n : Nat) : Bytes := encodeVarintAux 10 n

/-- `protowire.ConsumeVarint`: at most ten bytes, the tenth at most 1 (else overflow); a missing
    terminator is an error. Non-canonical encodings (trailing zero groups) are accepted. -/
def decodeVarintAux : Nat → Bytes → Option (Nat × Bytes)
  | 0, _ => none
  | _, [] => none
  | k + 1, b :: rest =>
    if b.toNat < 128 then (if k == 0 && decide (b.toNat > 1) then none else some (b.toNat, rest))
    else match decodeVarintAux k rest with
      | some (v, r) => some (b.toNat - 128 + 128 * v, r)
      | none => none

def decodeVarint (bs : Bytes) : Option (Nat × Bytes) := decodeVarintAux 10 bs

def two32 : Nat := 4294967296
def two64 : Nat := 18446744073709551616

/-- `protowire.EncodeZigZag` of an int32 (as the uint64 that is written) -/
def zigzag32 (i : Int) : Nat := if i ≥ 0 then (2 * i).toNat else (-2 * i - 1).toNat
/-- `int32(protowire.DecodeZigZag(v & math.MaxUint32))` -/
def unzigzag32 (v : Nat) : Int :=
  let x := v % two32
  if x % 2 == 0 then ((x / 2 : Nat) : Int) else -(((x + 1) / 2 : Nat) : Int)
/-- `uint64(int32)` — how a (possibly negative) enum value is written -/
def enumToU64 (i : Int) : Nat := (i % (two64 : Int)).toNat
/-- `int32(v)` of a decoded varint -/
def u64ToI32 (v : Nat) : Int :=
  let x := v % two32
  if x < 2147483648 then (x : Int) else (x : Int) - (two32 : Int)

/-! ## tokens -/

inductive WVal where
  | varint (v : Nat)        -- wire type 0
  | fixed64 (bs : Bytes)    -- wire type 1 (eight bytes)
  | bytes (bs : Bytes)      -- wire type 2 (length-delimited)
  | sgroup                  -- wire type 3
  | egroup                  -- wire type 4
  | fixed32 (bs : Bytes)    -- wire type 5 (four bytes)
  deriving DecidableEq, Repr

structure Tok where
  num : Nat
  val : WVal
  deriving DecidableEq, Repr

def WVal.wtype : WVal → Nat
  | .varint _ => 0 | .fixed64 _ => 1 | .bytes _ => 2 | .sgroup => 3 | .egroup => 4 | .fixed32 _ => 5

def WVal.payload : WVal → Bytes
  | .varint v => encodeVarint v
  | .fixed64 bs => bs
  | .bytes bs => encodeVarint bs.length ++ bs
  | .sgroup => []
  | .egroup => []
  | .fixed32 bs => bs

def encodeTok (t : Tok) : Bytes := encodeVarint (t.num * 8 + t.val.wtype) ++ t.val.payload

def encodeToks : List Tok → Bytes
  | [] => []
  | t :: ts => encodeTok t ++ encodeToks ts

/-- largest field number a tag may carry anywhere (`protowire.DecodeTag`: above math.MaxInt32 is -1) -/
def maxTagNum : Nat := 2147483647
/-- `protowire.MaxValidNumber`: enforced for the tags of a message and of a map entry, not inside a skipped group -/
def maxValidNum : Nat := 536870911

/-- what a token must satisfy to be written and read back: the ranges of the wire format -/
def wfTok (t : Tok) : Bool :=
  decide (1 ≤ t.num) && decide (t.num ≤ maxTagNum) &&
  match t.val with
  | .varint v => decide (v < two64)
  | .fixed64 bs => bs.length == 8
  | .bytes bs => decide (bs.length < two64)
  | .sgroup => true
  | .egroup => true
  | .fixed32 bs => bs.length == 4

/-- one tag and its payload (`protowire.ConsumeTag` + the per-type part of `ConsumeFieldValue`) -/
def parseTok (bs : Bytes) : Option (Tok × Bytes) :=
  match decodeVarint bs with
  | none => none
  | some (tag, rest) =>
    let num := tag / 8
    if num < 1 || num > maxTagNum then none else
    match tag % 8 with
    | 0 => match decodeVarint rest with
           | some (v, r) => some (⟨num, .varint v⟩, r)
           | none => none
    | 1 => if rest.length < 8 then none else some (⟨num, .fixed64 (rest.take 8)⟩, rest.drop 8)
    | 2 => match decodeVarint rest with
           | some (n, r) => if n > r.length then none else some (⟨num, .bytes (r.take n)⟩, r.drop n)
           | none => none
    | 3 => some (⟨num, .sgroup⟩, rest)
    | 4 => some (⟨num, .egroup⟩, rest)
    | 5 => if rest.length < 4 then none else some (⟨num, .fixed32 (rest.take 4)⟩, rest.drop 4)
    | _ => none

def tokensAux : Nat → Bytes → Option (List Tok)
  | _, [] => some []
  | 0, _ :: _ => none
  | fuel + 1, bs =>
    match parseTok bs with
    | none => none
    | some (t, rest) => match tokensAux fuel rest with
      | some ts => some (t :: ts)
      | none => none

/-- the whole byte string as a token list (every token consumes at least one byte) -/
def tokens (bs : Bytes) : Option (List Tok) := tokensAux bs.length bs

/-- the tokens of a message proper: a start-group token opens an unknown group that is skipped up to the
    matching end-group token (`ConsumeFieldValue`, nesting allowed, numbers must match); an end-group
    outside a group, an unterminated group, or a message-level field number above `maxValidNum` is an error -/
def topLevelAux : List Nat → List Tok → Option (List Tok)
  | [], [] => some []
  | _ :: _, [] => none
  | [], t :: ts =>
    if t.num > maxValidNum then none else
    match t.val with
    | .sgroup => topLevelAux [t.num] ts
    | .egroup => none
    | _ => match topLevelAux [] ts with
      | some r => some (t :: r)
      | none => none
  | s :: st, t :: ts =>
    match t.val with
    | .sgroup => topLevelAux (t.num :: s :: st) ts
    | .egroup => if t.num == s then topLevelAux st ts else none
    | _ => topLevelAux (s :: st) ts

def topLevel (ts : List Tok) : Option (List Tok) := topLevelAux [] ts

/-- bytes → message-level tokens -/
def fields (bs : Bytes) : Option (List Tok) := (tokens bs).bind topLevel

def mapOpt (f : α → Option β) : List α → Option (List β)
  | [] => some []
  | a :: as => match f a with
    | none => none
    | some b => match mapOpt f as with
      | some bs => some (b :: bs)
      | none => none

/-! ## UTF-8 (`utf8.Valid`) -/

def isCont (b : UInt8) : Bool := decide (128 ≤ b.toNat) && decide (b.toNat ≤ 191)

def validUtf8Aux : Nat → Bytes → Bool
  | _, [] => true
  | 0, _ :: _ => false
  | fuel + 1, b0 :: rest =>
    let c := b0.toNat
    if c < 128 then validUtf8Aux fuel rest
    else if 194 ≤ c && c ≤ 223 then
      match rest with
      | b1 :: r => isCont b1 && validUtf8Aux fuel r
      | _ => false
    else if 224 ≤ c && c ≤ 239 then
      match rest with
      | b1 :: b2 :: r =>
        let lo := if c == 224 then 160 else 128
        let hi := if c == 237 then 159 else 191
        decide (lo ≤ b1.toNat) && decide (b1.toNat ≤ hi) && isCont b2 && validUtf8Aux fuel r
      | _ => false
    else if 240 ≤ c && c ≤ 244 then
      match rest with
      | b1 :: b2 :: b3 :: r =>
        let lo := if c == 240 then 144 else 128
        let hi := if c == 244 then 143 else 191
        decide (lo ≤ b1.toNat) && decide (b1.toNat ≤ hi) && isCont b2 && isCont b3 && validUtf8Aux fuel r
      | _ => false
    else false

def validUtf8 (bs : Bytes) : Bool := validUtf8Aux bs.length bs

/-! ## the messages `pb.PinOptions`, `pb.Pin` (leaves are byte strings) -/

structure OptsRaw where
  rmin : Int
  rmax : Int
  name : Bytes
  shardSize : Nat
  metadata : List (Bytes × Bytes)
  pinUpdate : Bytes
  expireAt : Nat
  origins : List Bytes
  deriving DecidableEq, Repr

structure PinRaw where
  cid : Bytes
  type : Int
  allocs : List Bytes
  maxDepth : Int
  reference : Bytes
  opts : Option OptsRaw       -- `Options *PinOptions`: nil when field 6 never occurs
  deriving DecidableEq, Repr

def OptsRaw.zero : OptsRaw := ⟨0, 0, [], 0, [], [], 0, []⟩
def PinRaw.zero : PinRaw := ⟨[], 0, [], 0, [], none⟩

/-- field numbers and wire kinds, as `Gen/C08Pb.lean` must list them (theorem `pb_schema_matches`) -/
def expectedSchema : List (String × String × Nat × String × Bool) :=
  [ ("Pin", "Cid", 1, "bytes", false), ("Pin", "Type", 2, "enum", false), ("Pin", "Allocations", 3, "bytes", true),
    ("Pin", "MaxDepth", 4, "zigzag32", false), ("Pin", "Reference", 5, "bytes", false), ("Pin", "Options", 6, "message", false),
    ("PinOptions", "ReplicationFactorMin", 1, "zigzag32", false), ("PinOptions", "ReplicationFactorMax", 2, "zigzag32", false),
    ("PinOptions", "Name", 3, "string", false), ("PinOptions", "ShardSize", 4, "varint", false),
    ("PinOptions", "Metadata", 6, "map:string:1:string:2", true), ("PinOptions", "PinUpdate", 7, "bytes", false),
    ("PinOptions", "ExpireAt", 8, "varint", false), ("PinOptions", "Origins", 9, "bytes", true) ]

/-! ### encoder (`proto.Marshal`: fields in field-number order, proto3 zero values omitted, a non-nil nested
message always written, map entries always with key and value; strings must be valid UTF-8) -/

def optTok (c : Bool) (t : Tok) : List Tok := if c then [t] else []

def entryToks (kv : Bytes × Bytes) : List Tok := [⟨1, .bytes kv.1⟩, ⟨2, .bytes kv.2⟩]

def toksOpts (o : OptsRaw) : List Tok :=
  optTok (o.rmin != 0) ⟨1, .varint (zigzag32 o.rmin)⟩ ++
  optTok (o.rmax != 0) ⟨2, .varint (zigzag32 o.rmax)⟩ ++
  optTok (!o.name.isEmpty) ⟨3, .bytes o.name⟩ ++
  optTok (o.shardSize != 0) ⟨4, .varint o.shardSize⟩ ++
  o.metadata.map (fun kv => ⟨6, .bytes (encodeToks (entryToks kv))⟩) ++
  optTok (!o.pinUpdate.isEmpty) ⟨7, .bytes o.pinUpdate⟩ ++
  optTok (o.expireAt != 0) ⟨8, .varint o.expireAt⟩ ++
  o.origins.map (fun b => ⟨9, .bytes b⟩)

def optsToks : Option OptsRaw → List Tok
  | none => []
  | some o => [⟨6, .bytes (encodeToks (toksOpts o))⟩]

def toksPin (p : PinRaw) : List Tok :=
  optTok (!p.cid.isEmpty) ⟨1, .bytes p.cid⟩ ++
  optTok (p.type != 0) ⟨2, .varint (enumToU64 p.type)⟩ ++
  p.allocs.map (fun b => ⟨3, .bytes b⟩) ++
  optTok (p.maxDepth != 0) ⟨4, .varint (zigzag32 p.maxDepth)⟩ ++
  optTok (!p.reference.isEmpty) ⟨5, .bytes p.reference⟩ ++
  optsToks p.opts

def stringsValid (o : OptsRaw) : Bool :=
  validUtf8 o.name && o.metadata.all fun kv => validUtf8 kv.1 && validUtf8 kv.2

/-- `proto.Marshal(&pb.Pin{…})`: `none` = "string field contains invalid UTF-8" -/
def encodePin (p : PinRaw) : Option Bytes :=
  match p.opts with
  | some o => if stringsValid o then some (encodeToks (toksPin p)) else none
  | none => some (encodeToks (toksPin p))

/-! ### decoder (`proto.Unmarshal` into a fresh message) -/

inductive OUpd where
  | rmin (i : Int) | rmax (i : Int) | name (bs : Bytes) | shard (n : Nat) | mput (k v : Bytes)
  | upd (bs : Bytes) | exp (n : Nat) | origin (bs : Bytes) | skip
  deriving DecidableEq, Repr

inductive PUpd where
  | cid (bs : Bytes) | type (i : Int) | alloc (bs : Bytes) | depth (i : Int) | ref (bs : Bytes)
  | opts (us : List OUpd) | skip
  deriving DecidableEq, Repr

/-- one key or value token of a map entry -/
def entryStep (kv : Bytes × Bytes) (t : Tok) : Option (Bytes × Bytes) :=
  match t.num, t.val with
  | 1, .bytes b => if validUtf8 b then some (b, kv.2) else none
  | 2, .bytes b => if validUtf8 b then some (kv.1, b) else none
  | _, _ => some kv

def entryFold : Bytes × Bytes → List Tok → Option (Bytes × Bytes)
  | kv, [] => some kv
  | kv, t :: ts => match entryStep kv t with
    | some kv' => entryFold kv' ts
    | none => none

/-- `consumeMap`: the entry is a message with key = 1 and value = 2, both strings; missing ones are empty -/
def mapEntry (b : Bytes) : Option (Bytes × Bytes) := (fields b).bind (entryFold ([], []))

def optUpd (t : Tok) : Option OUpd :=
  match t.num, t.val with
  | 1, .varint v => some (.rmin (unzigzag32 v))
  | 2, .varint v => some (.rmax (unzigzag32 v))
  | 3, .bytes b => if validUtf8 b then some (.name b) else none
  | 4, .varint v => some (.shard v)
  | 6, .bytes b => (mapEntry b).map fun kv => OUpd.mput kv.1 kv.2
  | 7, .bytes b => some (.upd b)
  | 8, .varint v => some (.exp v)
  | 9, .bytes b => some (.origin b)
  | _, _ => some .skip

def pinUpd (t : Tok) : Option PUpd :=
  match t.num, t.val with
  | 1, .bytes b => some (.cid b)
  | 2, .varint v => some (.type (u64ToI32 v))
  | 3, .bytes b => some (.alloc b)
  | 4, .varint v => some (.depth (unzigzag32 v))
  | 5, .bytes b => some (.ref b)
  | 6, .bytes b => ((fields b).bind (mapOpt optUpd)).map .opts
  | _, _ => some .skip

/-- a Go map assignment on an association list kept in first-insertion order -/
def putMeta (k v : Bytes) (m : List (Bytes × Bytes)) : List (Bytes × Bytes) :=
  if m.any (fun kv => kv.1 == k) then m.map (fun kv => if kv.1 == k then (k, v) else kv) else m ++ [(k, v)]

def applyO (o : OptsRaw) : OUpd → OptsRaw
  | .rmin i => { o with rmin := i }
  | .rmax i => { o with rmax := i }
  | .name b => { o with name := b }
  | .shard n => { o with shardSize := n }
  | .mput k v => { o with metadata := putMeta k v o.metadata }
  | .upd b => { o with pinUpdate := b }
  | .exp n => { o with expireAt := n }
  | .origin b => { o with origins := o.origins ++ [b] }
  | .skip => o

def applyP (p : PinRaw) : PUpd → PinRaw
  | .cid b => { p with cid := b }
  | .type i => { p with type := i }
  | .alloc b => { p with allocs := p.allocs ++ [b] }
  | .depth i => { p with maxDepth := i }
  | .ref b => { p with reference := b }
  | .opts us => { p with opts := some (us.foldl applyO (p.opts.getD OptsRaw.zero)) }
  | .skip => p

/-- message-level tokens → message -/
def pinOfToks (ts : List Tok) : Option PinRaw := (mapOpt pinUpd ts).map fun us => us.foldl applyP PinRaw.zero

/-- `proto.Unmarshal(bs, &pb.Pin{})`: `none` = error -/
def decodePin (bs : Bytes) : Option PinRaw := (fields bs).bind pinOfToks

/-! ### what a decoded message can look like (`decode_total_wf`) -/

def inI32 (i : Int) : Bool := decide (-2147483648 ≤ i) && decide (i < 2147483648)

def wfOptsRaw (o : OptsRaw) : Bool :=
  inI32 o.rmin && inI32 o.rmax && validUtf8 o.name && decide (o.shardSize < two64) && decide (o.expireAt < two64) &&
  o.metadata.all fun kv => validUtf8 kv.1 && validUtf8 kv.2

def wfPinRaw (p : PinRaw) : Bool :=
  inI32 p.type && inI32 p.maxDepth && match p.opts with | some o => wfOptsRaw o | none => true

/-- every payload of the canonical encoding fits the wire format's length fields (always true below 16 EiB) -/
def fitsWire (p : PinRaw) : Bool :=
  (toksPin p).all wfTok && (match p.opts with
    | some o => (toksOpts o).all wfTok && o.metadata.all fun kv => (entryToks kv).all wfTok
    | none => true)

def keysNodup : List (Bytes × Bytes) → Bool
  | [] => true
  | kv :: rest => !(rest.any fun kv' => kv'.1 == kv.1) && keysNodup rest

/-! ## query strings: `url.QueryEscape`, `url.QueryUnescape`, `url.Values.Encode`, `url.ParseQuery` -/

def hexDigit (n : Nat) : UInt8 := if n < 10 then UInt8.ofNat (48 + n) else UInt8.ofNat (55 + n)   -- 0-9 A-F

def unhex (b : UInt8) : Option Nat :=
  let c := b.toNat
  if 48 ≤ c && c ≤ 57 then some (c - 48)
  else if 65 ≤ c && c ≤ 70 then some (c - 55)
  else if 97 ≤ c && c ≤ 102 then some (c - 87)
  else none

/-- `shouldEscape(c, encodeQueryComponent)` is false: letters, digits, `-` `_` `.` `~` -/
def unreserved (b : UInt8) : Bool :=
  let c := b.toNat
  (48 ≤ c && c ≤ 57) || (65 ≤ c && c ≤ 90) || (97 ≤ c && c ≤ 122) || c == 45 || c == 95 || c == 46 || c == 126

/-- `url.QueryEscape` -/
def escape : Bytes → Bytes
  | [] => []
  | b :: bs =>
    if unreserved b then b :: escape bs
    else if b.toNat == 32 then 43 :: escape bs
    else 37 :: hexDigit (b.toNat / 16) :: hexDigit (b.toNat % 16) :: escape bs

/-- `url.QueryUnescape`: `+` is a space, `%XX` a byte, a `%` not followed by two hex digits an error -/
def unescape : Bytes → Option Bytes
  | [] => some []
  | b :: bs =>
    if b.toNat == 37 then
      match bs with
      | h :: l :: rest =>
        match unhex h, unhex l, unescape rest with
        | some x, some y, some r => some (UInt8.ofNat (x * 16 + y) :: r)
        | _, _, _ => none
      | _ => none
    else match unescape bs with
      | some r => some ((if b.toNat == 43 then 32 else b) :: r)
      | none => none

/-- split at every occurrence of `sep` (never the empty list) -/
def splitSep (sep : UInt8) : Bytes → List Bytes
  | [] => [[]]
  | b :: bs =>
    if b == sep then [] :: splitSep sep bs
    else match splitSep sep bs with
      | h :: t => (b :: h) :: t
      | [] => [[b]]

/-- split at the first `sep`: (before, after); no `sep` = (all, []) -/
def cutAt (sep : UInt8) : Bytes → Bytes × Bytes
  | [] => ([], [])
  | b :: bs => if b == sep then ([], bs) else let r := cutAt sep bs; (b :: r.1, r.2)

def amp : UInt8 := 38
def eqs : UInt8 := 61
def semi : UInt8 := 59

def joinPairs : List (Bytes × Bytes) → Bytes
  | [] => []
  | [kv] => escape kv.1 ++ eqs :: escape kv.2
  | kv :: rest => escape kv.1 ++ eqs :: escape kv.2 ++ amp :: joinPairs rest

def parsePart (part : Bytes) : Option (Bytes × Bytes) :=
  if part.contains semi then none else
  let kv := cutAt eqs part
  match unescape kv.1, unescape kv.2 with
  | some k, some v => some (k, v)
  | _, _ => none

/-- `url.ParseQuery` (strict: the first error is returned, as `FromQuery`'s callers since ec71f0a treat it):
    parts between `&`, empty parts skipped, a part holding `;` refused, key and value unescaped -/
def parseQuery (bs : Bytes) : Option (List (Bytes × Bytes)) :=
  mapOpt parsePart ((splitSep amp bs).filter fun p => !p.isEmpty)

/-- byte-wise lexicographic `<=` (Go string comparison, used by `sort.Strings` in `Values.Encode`) -/
def bytesLe : Bytes → Bytes → Bool
  | [], _ => true
  | _ :: _, [] => false
  | a :: as, b :: bs => if a.toNat < b.toNat then true else if b.toNat < a.toNat then false else bytesLe as bs

def insertKV (kv : Bytes × Bytes) : List (Bytes × Bytes) → List (Bytes × Bytes)
  | [] => [kv]
  | x :: xs => if bytesLe kv.1 x.1 then kv :: x :: xs else x :: insertKV kv xs

def sortKV : List (Bytes × Bytes) → List (Bytes × Bytes)
  | [] => []
  | kv :: rest => insertKV kv (sortKV rest)

/-- `url.Values.Encode` of single-valued parameters: sorted by key -/
def encodeQuery (kvs : List (Bytes × Bytes)) : Bytes := joinPairs (sortKV kvs)

/-- `url.Values.Get` on the parsed list: the first value of the key, "" when absent -/
def getQ (k : Bytes) : List (Bytes × Bytes) → Bytes
  | [] => []
  | kv :: rest => if kv.1 == k then kv.2 else getQ k rest

/-! ## comma-joined string lists (`TrackerStatus` filters, user allocations) -/

def comma : UInt8 := 44

def joinComma : List Bytes → Bytes
  | [] => []
  | [x] => x
  | x :: rest => x ++ comma :: joinComma rest

end CV.C08.Wire
