/-!
# C16 — the source text the hand-written model transcribes (snapshot)

Taken with `tools/snapshot_skeleton.py C16` from the translator output after the model was last read against the source.
`Gen/C16.lean` is regenerated from /repo on every run and `Props/C16.lean` proves `Gen.f = Expected.f` for every function below
(`rfl`): an edit to any of these functions breaks that obligation, and the check then searches for a failing input with the
correspondence run (a rewrite that keeps the behaviour ends as `no-failing-input-found`, see DESIGN 2.2).
-/
namespace CV.C16.Expected


/-- pinArgs -/
def pinArgs : List String := [
  "q := url.Values{}",
  "switch {",
  "case maxDepth < 0:",
  "q.Set(S, S)",
  "case maxDepth == 0:",
  "q.Set(S, S)",
  "default:",
  "q.Set(S, S)",
  "q.Set(S, strconv.Itoa(int(maxDepth)))",
  "}",
  "return q.Encode()"
]

/-- Connector.Pin -/
def pin : List String := [
  "hash := pin.Cid",
  "maxDepth := pin.MaxDepth",
  "pinStatus, err := ipfs.PinLsCid(ctx, pin)",
  "if err != nil {",
  "return err",
  "}",
  "if pinStatus.IsPinned(maxDepth) {",
  "return nil",
  "}",
  "defer ipfs.updateInformerMetric(ctx)",
  "ctx, cancelRequest := context.WithCancel(ctx)",
  "defer cancelRequest()",
  "bound := len(pin.Origins)",
  "if bound > 10 {",
  "bound = 10",
  "}",
  "for _, orig := range pin.Origins[0:bound] {",
  "go func(o string) {",
  "_, err := ipfs.postCtx(",
  "ctx,",
  "fmt.Sprintf(S, o),",
  "S,",
  "nil,",
  ")",
  "if err != nil {",
  "return",
  "}",
  "}(url.QueryEscape(orig.String()))",
  "}",
  "if from := pin.PinUpdate; from != cid.Undef {",
  "fromPin := api.PinWithOpts(from, pin.PinOptions)",
  "pinStatus, _ := ipfs.PinLsCid(ctx, fromPin)",
  "if pinStatus.IsPinned(-1) {",
  "return ipfs.pinUpdate(ctx, from, pin.Cid)",
  "}",
  "}",
  "outPins := make(chan int)",
  "go func() {",
  "var lastProgress int",
  "lastProgressTime := time.Now()",
  "ticker := time.NewTicker(ipfs.config.PinTimeout)",
  "defer ticker.Stop()",
  "for {",
  "select {",
  "case <-ticker.C:",
  "if time.Since(lastProgressTime) > ipfs.config.PinTimeout {",
  "cancelRequest()",
  "return",
  "}",
  "case p := <-outPins:",
  "if p > lastProgress {",
  "lastProgress = p",
  "lastProgressTime = time.Now()",
  "}",
  "case <-ctx.Done():",
  "return",
  "}",
  "}",
  "}()",
  "err = ipfs.pinProgress(ctx, hash, maxDepth, outPins)",
  "if err != nil {",
  "return err",
  "}",
  "stats.Record(ctx, observations.Pins.M(1))",
  "return nil"
]

/-- Connector.pinProgress -/
def pinProgress : List String := [
  "defer close(out)",
  "pinArgs := pinArgs(maxDepth)",
  "path := fmt.Sprintf(S, hash, pinArgs)",
  "res, err := ipfs.doPostCtx(ctx, ipfs.client, ipfs.apiURL(), path, S, nil)",
  "if err != nil {",
  "return err",
  "}",
  "defer res.Body.Close()",
  "_, err = checkResponse(path, res)",
  "if err != nil {",
  "return err",
  "}",
  "dec := json.NewDecoder(res.Body)",
  "for {",
  "var pins struct {",
  "ipfsPinsResp",
  "Message string",
  "Type string",
  "}",
  "if err := dec.Decode(&pins); err != nil {",
  "select {",
  "case <-ctx.Done():",
  "return ctx.Err()",
  "default:",
  "if err == io.EOF {",
  "if streamErr := res.Trailer.Get(S); streamErr != S {",
  "return ipfsError{path: path, code: res.StatusCode, Message: streamErr}",
  "}",
  "return nil",
  "}",
  "return err",
  "}",
  "}",
  "if pins.Type == S {",
  "return ipfsError{path: path, code: res.StatusCode, Message: pins.Message}",
  "}",
  "select {",
  "case out <- pins.Progress:",
  "default:",
  "}",
  "}"
]

/-- Connector.pinUpdate -/
def pinUpdate : List String := [
  "ctx, cancel := context.WithTimeout(ctx, ipfs.config.PinTimeout)",
  "defer cancel()",
  "path := fmt.Sprintf(S, from, to)",
  "_, err := ipfs.postCtx(ctx, path, S, nil)",
  "if err != nil {",
  "return err",
  "}",
  "stats.Record(ctx, observations.Pins.M(1))",
  "return nil"
]

/-- Connector.Unpin -/
def unpin : List String := [
  "if ipfs.config.UnpinDisable {",
  "return errors.New(S)",
  "}",
  "defer ipfs.updateInformerMetric(ctx)",
  "path := fmt.Sprintf(S, hash)",
  "ctx, cancel := context.WithTimeout(ctx, ipfs.config.UnpinTimeout)",
  "defer cancel()",
  "_, err := ipfs.postCtx(ctx, path, S, nil)",
  "if err != nil {",
  "ipfsErr, ok := err.(ipfsError)",
  "if !ok ||",
  "(ipfsErr.Message != dspinner.ErrNotPinned.Error() &&",
  "ipfsErr.Message != ipldpinner.ErrNotPinned.Error()) {",
  "return err",
  "}",
  "return nil",
  "}",
  "stats.Record(ctx, observations.Pins.M(-1))",
  "return nil"
]

/-- Connector.PinLs -/
def pinLs : List String := [
  "ctx, cancel := context.WithTimeout(ctx, ipfs.config.IPFSRequestTimeout)",
  "defer cancel()",
  "body, err := ipfs.postCtx(ctx, S+typeFilter, S, nil)",
  "if err != nil {",
  "return nil, err",
  "}",
  "var res ipfsPinLsResp",
  "err = json.Unmarshal(body, &res)",
  "if err != nil {",
  "return nil, err",
  "}",
  "statusMap := make(map[string]api.IPFSPinStatus)",
  "for k, v := range res.Keys {",
  "statusMap[k] = api.IPFSPinStatusFromString(v.Type)",
  "}",
  "return statusMap, nil"
]

/-- Connector.PinLsCid -/
def pinLsCid : List String := [
  "ctx, cancel := context.WithTimeout(ctx, ipfs.config.IPFSRequestTimeout)",
  "defer cancel()",
  "pinType := pin.MaxDepth.ToPinMode().String()",
  "lsPath := fmt.Sprintf(S, pin.Cid, pinType)",
  "body, err := ipfs.postCtx(ctx, lsPath, S, nil)",
  "if body == nil && err != nil {",
  "return api.IPFSPinStatusError, err",
  "}",
  "if err != nil {",
  "return api.IPFSPinStatusUnpinned, nil",
  "}",
  "var res ipfsPinLsResp",
  "err = json.Unmarshal(body, &res)",
  "if err != nil {",
  "return api.IPFSPinStatusError, err",
  "}",
  "for k, pinObj := range res.Keys {",
  "c, err := cid.Decode(k)",
  "if err != nil || !c.Equals(pin.Cid) {",
  "continue",
  "}",
  "return api.IPFSPinStatusFromString(pinObj.Type), nil",
  "}",
  "return api.IPFSPinStatusError, errors.New(S)"
]

/-- Connector.doPostCtx -/
def doPostCtx : List String := [
  "urlstr := fmt.Sprintf(S, apiURL, path)",
  "req, err := http.NewRequest(S, urlstr, postBody)",
  "if err != nil {",
  "}",
  "req.Header.Set(S, contentType)",
  "req = req.WithContext(ctx)",
  "res, err := ipfs.client.Do(req)",
  "if err != nil {",
  "}",
  "return res, err"
]

/-- Connector.postCtx -/
def postCtx : List String := [
  "res, err := ipfs.doPostCtx(ctx, ipfs.client, ipfs.apiURL(), path, contentType, postBody)",
  "if err != nil {",
  "return nil, err",
  "}",
  "defer res.Body.Close()",
  "errBody, err := checkResponse(path, res)",
  "if err != nil {",
  "return errBody, err",
  "}",
  "body, err := ioutil.ReadAll(res.Body)",
  "if err != nil {",
  "return nil, err",
  "}",
  "return body, nil"
]

/-- checkResponse -/
def checkResponse : List String := [
  "if res.StatusCode == http.StatusOK {",
  "return nil, nil",
  "}",
  "body, err := ioutil.ReadAll(res.Body)",
  "if err == nil {",
  "var ipfsErr ipfsError",
  "if err := json.Unmarshal(body, &ipfsErr); err == nil {",
  "ipfsErr.code = res.StatusCode",
  "ipfsErr.path = path",
  "return body, ipfsErr",
  "}",
  "}",
  "return nil, fmt.Errorf(",
  "S,",
  "path,",
  "res.StatusCode,",
  "string(body))"
]

/-- IPFSPinStatusFromString -/
def statusFromString : List String := [
  "switch {",
  "case strings.HasPrefix(t, S):",
  "return IPFSPinStatusIndirect",
  "case strings.HasPrefix(t, S):",
  "return IPFSPinStatusRecursive",
  "case t == S:",
  "return IPFSPinStatusDirect",
  "default:",
  "return IPFSPinStatusBug",
  "}"
]

/-- IPFSPinStatus.IsPinned -/
def isPinned : List String := [
  "switch {",
  "case maxDepth < 0:",
  "return ips == IPFSPinStatusRecursive",
  "case maxDepth == 0:",
  "return ips == IPFSPinStatusDirect",
  "case maxDepth > 0:",
  "return ips == IPFSPinStatusRecursive",
  "}",
  "return false"
]

/-- PinDepth.ToPinMode -/
def toPinMode : List String := [
  "switch pd {",
  "case -1:",
  "return PinModeRecursive",
  "case 0:",
  "return PinModeDirect",
  "default:",
  "return PinModeRecursive",
  "}"
]

end CV.C16.Expected
