/-
C04 — semantic tie of cluster.go's pin construction and guard order (round 8b).

`harness/extract_c04sem` reads the go/ast of `Cluster.Pin`, `PinPath`, `UnpinPath`, `pin`, `setupPin`,
`Unpin` and `PinUpdate` and emits, per function, the SEQUENCE of its statements as constructors of
`Stmt` (which constructor builds the pin, what is assigned to it afterwards, every guard with its
conjuncts, every early return, the case order of Unpin's switch). Logging / tracing / error-message
text is dropped, local names are canonicalised. A statement that is none of the known shapes becomes
`.unknown src`, which every interpreter below answers with `none` (fail-closed).

The interpreters RUN these sequences over the model's state: a dropped or reordered guard, another
constructor (`api.PinCid` instead of `api.PinWithOpts`: MaxDepth stays −1), an options assignment that
forgets the depth — all change what the model computes. `stepSem` is `step` with the interpreted
programs in place of the hand-written functions. Core Lean only.
-/
import ClusterVerif.Model.C04Faults
namespace CV.C04.Sem
open CV CV.C04

/-- the cid no request can carry: `cid.Undef` (the driver gives it this number) -/
def undefCid : Nat := 4294967295

/-- conjuncts of the two compound conditions of `pin()` -/
inductive Atom where
  | updSet        -- update != cid.Undef
  | updOther      -- !update.Equals(pin.Cid)
  | noBlacklist   -- len(blacklist) == 0
  | existingSet   -- existing != nil
  | optsEqual     -- pin.PinOptions.Equals(&existing.PinOptions)
  | unknown (src : String)
  deriving DecidableEq, Repr

inductive Stmt where
  -- Pin / PinPath / UnpinPath
  | construct (ctor : String)   -- pin := api.PinWithOpts(cid, opts) | api.PinCid(cid)
  | setOpts                     -- pin.PinOptions = opts
  | setDepthFromMode            -- pin.MaxDepth = <opts|pin>.Mode.ToPinDepth()
  | resolve                     -- ci, err := c.ipfs.Resolve(ctx, path)
  | guardErrNil                 -- if err != nil { return nil, err }
  | callPin                     -- result, _, err := c.pin(ctx, pin, []peer.ID{})
  | retResult                   -- return result, err
  | tailPin                     -- return c.Pin(ctx, ci, opts)
  | tailUnpin                   -- return c.Unpin(ctx, ci)
  -- pin()
  | guardFollower               -- if c.config.FollowerMode { return nil, …, errFollowerMode }
  | guardUndef                  -- if pin.Cid == cid.Undef { return pin, false, error }
  | updateBranch (conds : List Atom)  -- if update := pin.PinUpdate; conds { return PinUpdate(update, pin.Cid, pin.PinOptions) }
  | getExisting                 -- existing, err := c.PinGet(ctx, pin.Cid)
  | guardErrNotFoundOk          -- if err != nil && err != state.ErrNotFound { return pin, false, err }
  | setup                       -- err = c.setupPin(ctx, pin, existing)
  | guardErr                    -- if err != nil { return …, err }
  | metaShortcut                -- if pin.Type == api.MetaType { return pin, true, LogPin(pin) }
  | keepExisting (conds : List Atom)  -- if conds { pin = existing }
  | allocateIfNone              -- if len(pin.Allocations) == 0 { allocs, err := allocate(…); if err … ; pin.Allocations = allocs }
  | retLogPin                   -- return pin, true, c.consensus.LogPin(ctx, pin)
  -- setupPin()
  | factors                     -- err := c.setupReplicationFactor(pin)
  | expiry                      -- if !pin.ExpireAt.IsZero() && pin.ExpireAt.Before(time.Now()) { return error }
  | existingNilOk               -- if existing == nil { return nil }
  | typeDiffers                 -- if existing.Type != pin.Type { return error }
  | modeDowngrade               -- if existing.Mode == recursive && pin.Mode != recursive { return error }
  | retCheckType                -- return checkPinType(pin)
  -- Unpin()
  | getPin                      -- pin, err := c.PinGet(ctx, h)
  | caseOf (ty : String)        -- case api.<ty>:   ("default" for default:)
  | retLogUnpin                 -- return pin, c.consensus.LogUnpin(ctx, pin)
  | retErr                      -- return pin, errors.New(…)
  | unpinDag                    -- err := c.unpinClusterDag(pin)
  -- PinUpdate()
  | getSource                   -- existing, err := c.PinGet(ctx, from)
  | guardNotData                -- if existing.Type != api.DataType { return nil, error }
  | setCid                      -- existing.Cid = to
  | setUpdate                   -- existing.PinUpdate = from
  | setNameIf                   -- if opts.Name != "" { existing.Name = opts.Name }
  | setExpireIf                 -- if !opts.ExpireAt.IsZero() && opts.ExpireAt.After(time.Now()) { existing.ExpireAt = opts.ExpireAt }
  | retLogExisting              -- return existing, c.consensus.LogPin(ctx, existing)
  | unknown (src : String)
  deriving DecidableEq, Repr

structure Progs where
  pinPublic : List Stmt
  pinPath : List Stmt
  unpinPath : List Stmt
  pinInternal : List Stmt
  setupPin : List Stmt
  unpin : List Stmt
  pinUpdate : List Stmt
  deriving DecidableEq, Repr

/-! ### setupPin -/

/-- `some none` = an error is returned; `some (some p)` = nil, with the pin as setupPin left it -/
def runSetup (cfg : Cfg) (existing : Option Pin) : List Stmt → Pin → Bool → Option (Option Pin)
  | [], _, _ => none
  | .factors :: k, p, _ =>
      runSetup cfg existing k (setupFactors cfg p) (!C03.factorsValid (effRmin cfg p) (effRmax cfg p))
  | .guardErr :: k, p, f => if f then some none else runSetup cfg existing k p f
  | .expiry :: k, p, f => if p.opts.expire.beforeNow then some none else runSetup cfg existing k p f
  | .existingNilOk :: k, p, f => if existing.isNone then some (some p) else runSetup cfg existing k p f
  | .typeDiffers :: k, p, f =>
      match existing with
      | some e => if e.type != p.type then some none else runSetup cfg existing k p f
      | none => none                         -- nil dereference
  | .modeDowngrade :: k, p, f =>
      match existing with
      | some e => if e.opts.mode == .recursive && p.opts.mode != .recursive then some none else runSetup cfg existing k p f
      | none => none
  | .retCheckType :: _, p, _ => if checkPinType p then some (some p) else some none
  | _ :: _, _, _ => none

/-! ### PinUpdate -/

def runUpdate (cfg : Cfg) (pre : PinMap) (src dst : Nat) (o : Opts) : List Stmt → Option Pin → Bool → Option Out
  | [], _, _ => none
  | .guardFollower :: k, e, f => if cfg.follower then some (err pre) else runUpdate cfg pre src dst o k e f
  | .getSource :: k, _, _ => runUpdate cfg pre src dst o k (pre.get src) (pre.get src).isNone
  | .guardErrNil :: k, e, f => if f then some (err pre) else runUpdate cfg pre src dst o k e f
  | .guardNotData :: k, e, f =>
      match e with
      | some x => if x.type != .dataT then some (err pre) else runUpdate cfg pre src dst o k e f
      | none => none
  | .setCid :: k, e, f => runUpdate cfg pre src dst o k (e.map (fun x => { x with cid := dst })) f
  | .setUpdate :: k, e, f =>
      runUpdate cfg pre src dst o k (e.map (fun x => { x with opts := { x.opts with update := some src } })) f
  | .setNameIf :: k, e, f =>
      runUpdate cfg pre src dst o k (e.map (fun x => if o.name != 0 then { x with opts := { x.opts with name := o.name } } else x)) f
  | .setExpireIf :: k, e, f =>
      runUpdate cfg pre src dst o k
        (e.map (fun x => if o.expire.afterNow then { x with opts := { x.opts with expire := o.expire } } else x)) f
  | .retLogExisting :: _, e, _ => e.map (logPin pre)
  | _ :: _, _, _ => none

/-! ### pin() -/

def evalAtom (p : Pin) (existing : Option Pin) (blacklist : List Nat) : Atom → Option Bool
  | .updSet => some p.opts.update.isSome
  | .updOther => some (p.opts.update != some p.cid)
  | .noBlacklist => some blacklist.isEmpty
  | .existingSet => some existing.isSome
  | .optsEqual => existing.map (fun e => optsEquals p.opts e.opts)     -- nil dereference = unknown
  | .unknown _ => none

/-- Go's `&&`: left to right, stops at the first false conjunct -/
def evalConds (p : Pin) (existing : Option Pin) (blacklist : List Nat) : List Atom → Option Bool
  | [] => some true
  | a :: k => match evalAtom p existing blacklist a with
      | some true => evalConds p existing blacklist k
      | some false => some false
      | none => none

/-- error state of the last call: 0 = nil, 1 = state.ErrNotFound, 2 = another error -/
abbrev ErrV := Nat

def runPin (P : Progs) (cfg : Cfg) (pre : PinMap) (blacklist chosen : List Nat) :
    List Stmt → Pin → Option Pin → ErrV → Option C03.Input → Option Out
  | [], _, _, _, _ => none
  | .guardFollower :: k, p, e, f, a => if cfg.follower then some (err pre) else runPin P cfg pre blacklist chosen k p e f a
  | .guardUndef :: k, p, e, f, a => if p.cid == undefCid then some (err pre) else runPin P cfg pre blacklist chosen k p e f a
  | .updateBranch conds :: k, p, e, f, a =>
      match evalConds p e blacklist conds with
      | some true =>
          (match p.opts.update with
           | some u => runUpdate cfg pre u p.cid p.opts P.pinUpdate none false
           | none => some (err pre))            -- PinUpdate(cid.Undef, …): the source is not in the pinset
      | some false => runPin P cfg pre blacklist chosen k p e f a
      | none => none
  | .getExisting :: k, p, _, _, a =>
      runPin P cfg pre blacklist chosen k p (pre.get p.cid) (if (pre.get p.cid).isSome then 0 else 1) a
  | .guardErrNotFoundOk :: k, p, e, f, a => if f == 2 then some (err pre) else runPin P cfg pre blacklist chosen k p e f a
  | .setup :: k, p, e, _, a =>
      match runSetup cfg e P.setupPin p false with
      | some (some p') => runPin P cfg pre blacklist chosen k p' e 0 a
      | some none => runPin P cfg pre blacklist chosen k p e 2 a
      | none => none
  | .guardErr :: k, p, e, f, a => if f != 0 then some (err pre) else runPin P cfg pre blacklist chosen k p e f a
  | .metaShortcut :: k, p, e, f, a => if p.type == .metaT then some (logPin pre p) else runPin P cfg pre blacklist chosen k p e f a
  | .keepExisting conds :: k, p, e, f, a =>
      match evalConds p e blacklist conds, e with
      | some true, some x => runPin P cfg pre blacklist chosen k x e f a
      | some true, none => none                  -- pin = nil
      | some false, _ => runPin P cfg pre blacklist chosen k p e f a
      | none, _ => none
  | .allocateIfNone :: k, p, e, f, a =>
      if p.allocs.isEmpty then
        match C03.allocate (allocIn cfg e p blacklist) with
        | .ok _ => runPin P cfg pre blacklist chosen k { p with allocs := chosen } e f (some (allocIn cfg e p blacklist))
        | _ => some { err pre with alloc := some (allocIn cfg e p blacklist) }
      else runPin P cfg pre blacklist chosen k p e f a
  | .retLogPin :: _, p, _, _, a => some { logPin pre p with alloc := a }
  | _ :: _, _, _, _, _ => none

/-- `c.pin(ctx, pin, blacklist)` as the regenerated programs describe it -/
def pinSem (P : Progs) (cfg : Cfg) (pre : PinMap) (p : Pin) (blacklist chosen : List Nat) : Option Out :=
  runPin P cfg pre blacklist chosen P.pinInternal p none 0 none

/-! ### Unpin -/

/-- the statements of the case clause for `ty` (up to the next clause) -/
def caseBody (ty : String) : List Stmt → Option (List Stmt)
  | [] => none
  | .caseOf t :: k => if t == ty then some (k.takeWhile (fun s => match s with | .caseOf _ => false | _ => true)) else caseBody ty k
  | _ :: k => caseBody ty k

def typeName : PinType → String
  | .dataT => "DataType" | .metaT => "MetaType" | .clusterDagT => "ClusterDAGType" | .shardT => "ShardType" | .badT => "BadType"

/-- `unpinClusterDag(pin)` followed by the meta pin's own LogUnpin, as in the model (`unpinOp`) -/
def unpinMeta (cfg : Cfg) (pre : PinMap) (c : Nat) (p : Pin) : Option (List Nat) :=
  match p.ref with
  | none => none
  | some r =>
    match pre.get r, lookup cfg.blocks r with
    | some _, some links => some (links.reverse ++ [r, c])
    | _, _ => none

/-- the body of one case clause; `removed` = cids already unpinned by `unpinClusterDag` (none = it failed) -/
def runCase (pre : PinMap) (c : Nat) (p : Pin) (dag : Option (List Nat)) : List Stmt → Option (List Nat) → Bool → Option Out
  | [], _, _ => none
  | .retLogUnpin :: _, removed, _ =>
      let cids := removed.getD [] ++ [c]
      some { res := some p, post := cids.foldl PinMap.erase pre, log := cids.map .logUnpin }
  | .retErr :: _, _, _ => some (err pre)
  | .unpinDag :: k, _, _ => runCase pre c p dag k dag dag.isNone
  | .guardErr :: k, removed, f => if f then some (err pre) else runCase pre c p dag k removed f
  | _ :: _, _, _ => none

def runUnpin (cfg : Cfg) (pre : PinMap) (c : Nat) : List Stmt → Option Pin → Bool → Option Out
  | [], _, _ => none
  | .guardFollower :: k, e, f => if cfg.follower then some (err pre) else runUnpin cfg pre c k e f
  | .getPin :: k, _, _ => runUnpin cfg pre c k (pre.get c) (pre.get c).isNone
  | .guardErrNil :: k, e, f => if f then some (err pre) else runUnpin cfg pre c k e f
  | .caseOf t :: k, e, _ =>
      match e with
      | none => none
      | some p =>
        match caseBody (typeName p.type) (.caseOf t :: k) with
        | some body => runCase pre c p (unpinMeta cfg pre c p) body none false
        | none => (caseBody "default" (.caseOf t :: k)).bind (fun body => runCase pre c p (unpinMeta cfg pre c p) body none false)
  | _ :: _, _, _ => none

def unpinSem (P : Progs) (cfg : Cfg) (pre : PinMap) (c : Nat) : Option Out := runUnpin cfg pre c P.unpin none false

/-! ### Pin / PinPath / UnpinPath -/

/-- `Cluster.Pin(ctx, h, opts)`: how the pin object is built and what is done with it -/
def runPinPublic (P : Progs) (cfg : Cfg) (pre : PinMap) (c : Nat) (o : Opts) (chosen : List Nat) :
    List Stmt → Option Pin → Option (Option Out) → Option Out
  | [], _, _ => none
  | .construct ctor :: k, _, r =>
      if ctor == "PinWithOpts" then runPinPublic P cfg pre c o chosen k (some (pinWithOpts c o)) r
      else if ctor == "PinCid" then runPinPublic P cfg pre c o chosen k (some (pinCid c)) r
      else none
  | .setOpts :: k, p, r => runPinPublic P cfg pre c o chosen k (p.map (fun x => { x with opts := o })) r
  | .setDepthFromMode :: k, p, r => runPinPublic P cfg pre c o chosen k (p.map (fun x => { x with depth := modeToDepth o.mode })) r
  | .callPin :: k, p, _ =>
      match p with
      | some x => runPinPublic P cfg pre c o chosen k p (some (pinSem P cfg pre x [] chosen))
      | none => none
  | .retResult :: _, _, r => r.getD none
  | _ :: _, _, _ => none

def pinPublicSem (P : Progs) (cfg : Cfg) (pre : PinMap) (c : Nat) (o : Opts) (chosen : List Nat) : Option Out :=
  runPinPublic P cfg pre c o chosen P.pinPublic none none

/-- PinPath / UnpinPath: resolve, guard, tail call; a pin may also be built in place (as seeded C04g did) -/
def runPath (P : Progs) (cfg : Cfg) (pre : PinMap) (path : Nat) (o : Opts) (chosen : List Nat) :
    List Stmt → Nat → Bool → Option Pin → Option (Option Out) → Option Out
  | [], _, _, _, _ => none
  | .resolve :: k, _, _, p, r =>
      runPath P cfg pre path o chosen k ((lookup cfg.paths path).getD undefCid) (lookup cfg.paths path).isNone p r
  | .guardErrNil :: k, c, f, p, r => if f then some (err pre) else runPath P cfg pre path o chosen k c f p r
  | .tailPin :: _, c, _, _, _ => pinPublicSem P cfg pre c o chosen
  | .tailUnpin :: _, c, _, _, _ => unpinSem P cfg pre c
  | .construct ctor :: k, c, f, _, r =>
      if ctor == "PinWithOpts" then runPath P cfg pre path o chosen k c f (some (pinWithOpts c o)) r
      else if ctor == "PinCid" then runPath P cfg pre path o chosen k c f (some (pinCid c)) r
      else none
  | .setOpts :: k, c, f, p, r => runPath P cfg pre path o chosen k c f (p.map (fun x => { x with opts := o })) r
  | .setDepthFromMode :: k, c, f, p, r =>
      runPath P cfg pre path o chosen k c f (p.map (fun x => { x with depth := modeToDepth o.mode })) r
  | .callPin :: k, c, f, p, _ =>
      match p with
      | some x => runPath P cfg pre path o chosen k c f p (some (pinSem P cfg pre x [] chosen))
      | none => none
  | .retResult :: _, _, _, _, r => r.getD none
  | _ :: _, _, _, _, _ => none

def pinPathSem (P : Progs) (cfg : Cfg) (pre : PinMap) (path : Nat) (o : Opts) (chosen : List Nat) : Option Out :=
  runPath P cfg pre path o chosen P.pinPath undefCid false none none
def unpinPathSem (P : Progs) (cfg : Cfg) (pre : PinMap) (path : Nat) : Option Out :=
  runPath P cfg pre path noOptsSem [] P.unpinPath undefCid false none none
where noOptsSem : Opts :=
  { rmin := 0, rmax := 0, name := 0, mode := .recursive, shard := 0, expire := .zero,
    metadata := [], update := none, origins := [], ualloc := [] }

/-- one API call, run by the regenerated programs (none = a statement of unknown shape was reached) -/
def stepSem (P : Progs) (cfg : Cfg) (pre : PinMap) (op : Op) (chosen : List Nat) : Option Out :=
  match op with
  | .pin c o => pinPublicSem P cfg pre c o chosen
  | .pinPath path o => pinPathSem P cfg pre path o chosen
  | .update src dst o => runUpdate cfg pre src dst o P.pinUpdate none false
  | .unpin c => unpinSem P cfg pre c
  | .unpinPath path => unpinPathSem P cfg pre path
  | .rpcPin p => pinSem P cfg pre p [] chosen

/-- the programs the model was read against (cluster.go as of the snapshot) -/
def expected : Progs where
  pinPublic := [.construct "PinWithOpts", .callPin, .retResult]
  pinPath := [.resolve, .guardErrNil, .tailPin]
  unpinPath := [.resolve, .guardErrNil, .tailUnpin]
  pinInternal := [.guardFollower, .guardUndef, .updateBranch [.updSet, .updOther, .noBlacklist], .getExisting,
    .guardErrNotFoundOk, .setup, .guardErr, .metaShortcut, .keepExisting [.existingSet, .optsEqual, .noBlacklist],
    .allocateIfNone, .retLogPin]
  setupPin := [.factors, .guardErr, .expiry, .existingNilOk, .typeDiffers, .modeDowngrade, .retCheckType]
  unpin := [.guardFollower, .getPin, .guardErrNil, .caseOf "DataType", .retLogUnpin, .caseOf "ShardType", .retErr,
    .caseOf "MetaType", .unpinDag, .guardErr, .retLogUnpin, .caseOf "ClusterDAGType", .retErr, .caseOf "default", .retErr]
  pinUpdate := [.guardFollower, .getSource, .guardErrNil, .guardNotData, .setCid, .setUpdate, .setNameIf, .setExpireIf,
    .retLogExisting]

/-- `step` with the `cid.Undef` guard of `pin()` (the hand-written model has no undefined cid) -/
def stepU (cfg : Cfg) (pre : PinMap) (op : Op) (chosen : List Nat) : Out :=
  match op with
  | .pin c _ => if c == undefCid then err pre else step cfg pre op chosen
  | .rpcPin p => if p.cid == undefCid then err pre else step cfg pre op chosen
  | .pinPath path _ =>
      if lookup cfg.paths path == some undefCid then err pre else step cfg pre op chosen
  | _ => step cfg pre op chosen

/-- the call names defined cids only (every request that can be written down does) -/
def opDefined (cfg : Cfg) : Op → Bool
  | .pin c _ => c != undefCid
  | .rpcPin p => p.cid != undefCid
  | .pinPath path _ => lookup cfg.paths path != some undefCid
  | _ => true

/-! ### realistic wrong edits, as programs (refuted in Props/C04.lean) -/

/-- seeded C04g: PinPath builds the pin itself from `api.PinCid` and assigns the options -/
def progC04g : Progs := { expected with pinPath := [.resolve, .guardErrNil, .construct "PinCid", .setOpts, .callPin, .retResult] }
/-- the same with the depth set from the requested mode: harmless -/
def progC04gRepaired : Progs :=
  { expected with pinPath := [.resolve, .guardErrNil, .construct "PinCid", .setOpts, .setDepthFromMode, .callPin, .retResult] }
/-- `setupPin` without the recursive → direct guard -/
def progNoModeGuard : Progs :=
  { expected with setupPin := [.factors, .guardErr, .expiry, .existingNilOk, .typeDiffers, .retCheckType] }
/-- `pin()` with the same-options shortcut taken before `setupPin` (defaults not yet substituted) -/
def progShortcutBeforeSetup : Progs :=
  { expected with pinInternal := [.guardFollower, .guardUndef, .updateBranch [.updSet, .updOther, .noBlacklist], .getExisting,
      .guardErrNotFoundOk, .keepExisting [.existingSet, .optsEqual, .noBlacklist], .setup, .guardErr, .metaShortcut,
      .allocateIfNone, .retLogPin] }
/-- `Unpin` with the follower guard after the consensus calls' decision (dropped) -/
def progUnpinNoFollowerGuard : Progs := { expected with unpin := expected.unpin.drop 1 }

/-! ### round 8d: consensus faults over the interpreted sequences

Every interpreter above ends in a statement that issues the consensus calls of the API call, in source order, and
records them in `out.log` (`.retLogPin`, `.retLogExisting`, `.metaShortcut`: one `LogPin`; `.retLogUnpin`: one `LogUnpin`,
after `.unpinDag` one per shard, the cluster-DAG, the meta pin, then the meta pin again). Each of those calls consults
the fault position: the `k`-th (0-based) fails, the ones before it were applied to the pinset, the API call returns the
error. So a faulted call is compared with the REGENERATED code too (an edit that adds / drops / reorders a consensus call
moves the fault positions of the model). -/

def withFault (pre : PinMap) (fault : Option Nat) (out : Out) : Out :=
  match fault with
  | none => out
  | some k =>
    if k < out.log.length then
      { res := none, post := applyLog (out.log.take k) pre, log := out.log.take k, alloc := out.alloc }
    else out

/-- one API call run by the regenerated programs with the `fault`-th consensus call failing -/
def stepSemF (P : Progs) (cfg : Cfg) (pre : PinMap) (op : Op) (chosen : List Nat) (fault : Option Nat) : Option Out :=
  (stepSem P cfg pre op chosen).map (withFault pre fault)

end CV.C04.Sem

/-! ### round 8d: the clock of the expiry check

`setupPin`: `!pin.ExpireAt.IsZero() && pin.ExpireAt.Before(time.Now())`; `PinUpdate`: `!opts.ExpireAt.IsZero() &&
opts.ExpireAt.After(time.Now())`; `api.Pin.ExpiredAt(t)`: `IsZero() || Equal(unixZero)` → false, else `Before(t)`.
Instants are nanoseconds since the Unix epoch (Int); the clock `now` is an INPUT. -/
namespace CV.C04.Clock
open CV

/-- Go's zero `time.Time` (January 1, year 1, 00:00 UTC) as nanoseconds since the Unix epoch -/
def goZero : Int := -62135596800000000000
def isZero (t : Int) : Bool := t == goZero
/-- the refusal of `setupPin` ("pin.ExpireAt set before current time") -/
def refusedAt (now exp : Int) : Bool := !isZero exp && decide (exp < now)
/-- `PinUpdate` takes the request's expiry only when it is set and still ahead -/
def takenAt (now exp : Int) : Bool := !isZero exp && decide (now < exp)
/-- `api.Pin.ExpiredAt(now)` -/
def expiredAt (now exp : Int) : Bool := if isZero exp || exp == 0 then false else decide (exp < now)
/-- the abstract instant of `Model/Pin.lean` a concrete expiry is, seen from `now` -/
def abstract (now exp : Int) : Expiry :=
  if exp == goZero then .zero else if exp == 0 then .unixZero else if exp < now then .past else .future (exp - now).toNat
/-- the clock values the boundary is probed with: expiry − now in nanoseconds, `none` = the zero time -/
def probes : List (Option Int) := [none, some (-3600000000000), some (-1), some 0, some 1, some 3600000000000, some 253402300800000000000]
def probeExp (now : Int) : Option Int → Int
  | none => goZero
  | some d => now + d

end CV.C04.Clock
