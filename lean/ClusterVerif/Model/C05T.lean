/-
C05 (round 8b) — decision tables of the operation tracker, REGENERATED from the Go syntax tree and INTERPRETED here.

`harness/extract_c05t` walks `TrackNewOperation`, `Clean`, `applyPinF`, `trackerStatus`, `Operation.SetPhase / SetError / Cancel /
Cancelled` and the switch of `recoverWithPinInfo` with go/ast and prints, per function, its PATHS: the literals (atomic test, value)
that select the path — `&&` / `||` / `!` / `!=` expanded by short-circuit order, a tag switch as one literal per case — and the
sequence of actions executed on it (logging, tracing and mutex calls dropped). An expression or statement outside the small vocabulary
becomes `.unknown` (fail-closed: every theorem over the table then fails). This file gives the tables a meaning:
`firstRow` picks the path for an environment, `trackNewT` / `cleanT` / `runOp` / `statusT` / `recT` execute the actions over the model's
state / operation record. Props/C05.lean proves that the interpreted tables ARE the model's functions (for all inputs), so a
rewrite of the Go code that keeps the decisions changes nothing and an edit of a guard, a case or an action breaks a theorem.
Core Lean only.
-/
import ClusterVerif.Model.C05

namespace CV.C05.T

/-- Go's `OperationType` (5 values; the model's `OpType` has the three that reach the table) -/
inductive Ty where
  | unknown | pin | unpin | remote | shard
  deriving DecidableEq, Repr

def Ty.ofOp : OpType → Ty
  | .pin => .pin | .unpin => .unpin | .remote => .remote

inductive Atom where
  | found                 -- `ok` of `op, ok := opt.operations[c]`
  | typeEq                -- `op.Type() == typ`
  | phaseIs (p : Phase)   -- `op.Phase() == P`
  | samePtr               -- `op == op2`
  | cancelled (k : Nat)   -- `op.Cancelled()`, asked after k IPFS calls on this path
  | errNil                -- `err == nil`
  | typIs (t : Ty)        -- `switch typ` / `typ == T`
  | phIs (p : Phase)      -- `switch ph`
  | ctxDone               -- `<-op.ctx.Done()` ready
  | statusIs (s : Status) -- `switch pi.Status`
  | stateOk               -- `spt.getState` returned no error
  | getOk                 -- `st.Get` returned no error
  | opNil                 -- `op == nil` after `TrackNewOperation` (round 8c)
  | sendOk                -- `ch <- op` can proceed (non-blocking send in `enqueue`)
  | isMeta                -- `c.Type == api.MetaType`
  | isRemote              -- `c.IsRemotePin(spt.peerID)`
  | notFound              -- `err == state.ErrNotFound` after `st.Get`
  | lsOk                  -- `err == nil` after the RPC `IPFSConnector.PinLsCid`
  | ipfsUnpinned          -- `ips.ToTrackerStatus() == TrackerStatusUnpinned`
  | pinnedInIpfs          -- `localpis[own mode][cid]` present (localStatus)
  | incExtra              -- argument of localStatus
  | fMatch (s : Status)   -- `filter.Match(S)`
  | fMatchSelf            -- `pi.Status.Match(filter)` (statusAll's last filter)
  | unknown
  deriving DecidableEq, Repr

inductive Act where
  | lookup | retNil | retNew | retBool (b : Bool) | retStatus (s : Status) | retVoid | retStatusErr
  | cancelOld | newOp | store | delete
  | setPhase (p : Phase) | setPhaseArg | setError | setErrMsg | stamp
  | cancel | cancelCtx | call
  | pinDefault | pinRecorded | enqueuePin | enqueueUnpin
  | trackNewQ | trackNewRemote | chPin | chUnpin | send | errFull | retErr | clean       -- round 8c: enqueue / Track
  | retEnqueuePin | retEnqueueUnpinCid | getExists | retRecOp | retRecStatus
  | localAll | overlayOps | filterLoop | putOp                                            -- round 8c: statusAll
  | lookupOwnMode | skip | putInfo | putIpfs                                               -- round 8c: localStatus
  | listAll | forEach | recEntry | appendResp                                            -- round 8c: RecoverAll
  | retOp | addError | retInfo | setStatus (s : Status) | setIpfs | pinLsCid              -- round 8c: Tracker.Status
  | unknown
  deriving DecidableEq, Repr

structure Row where
  lits : List (Atom × Bool)
  acts : List Act
  deriving DecidableEq, Repr

abbrev Table := List Row

def holdsLits (env : Atom → Bool) (l : List (Atom × Bool)) : Bool := l.all (fun x => env x.1 == x.2)

/-- the path taken in environment `env`: the first row whose literals all hold -/
def firstRow (t : Table) (env : Atom → Bool) : Option (List Act) :=
  (t.find? (fun r => holdsLits env r.lits)).map (·.acts)

/-- nothing outside the vocabulary -/
def known (t : Table) : Bool :=
  t.all (fun r => r.lits.all (fun x => x.1 != .unknown) && r.acts.all (fun a => a != .unknown))

/-! ### TrackNewOperation -/

def envTN (found typeEq : Bool) (ph : Phase) : Atom → Bool
  | .found => found
  | .typeEq => typeEq
  | .phaseIs p => p == ph
  | _ => false

/-- executes a path of `TrackNewOperation` on the model state. `n` = the operation created so far. none = the path does something
    the model has no meaning for (store before create, no return, ...) -/
def execTN (p : PinSpec) (typ : OpType) (ph : Phase) : List Act → State → Option Nat → Option (State × Option Nat)
  | [], _, _ => none
  | .lookup :: r, s, n => execTN p typ ph r s n
  | .cancelOld :: r, s, n =>
    match s.cur p.cid with
    | some i => execTN p typ ph r (cancelOp s i) n
    | none => none
  | .newOp :: r, s, none =>
    execTN p typ ph r { s with ops := upd s.ops s.nextId { cid := p.cid, typ := typ, phase := ph, cancelled := false, pin := p },
                               nextId := s.nextId + 1 } (some s.nextId)
  | .store :: r, s, some i => execTN p typ ph r { s with cur := upd s.cur p.cid (some i) } (some i)
  | .retNil :: _, s, _ => some (s, none)
  | .retNew :: _, s, some i => some (s, some i)
  | _, _, _ => none

/-- `TrackNewOperation` as the regenerated table says -/
def trackNewT (t : Table) (s : State) (p : PinSpec) (typ : OpType) (ph : Phase) : Option (State × Option Nat) :=
  let env := match s.cur p.cid with
    | some i => envTN true (decide ((s.ops i).typ = typ)) (s.ops i).phase
    | none => envTN false false .error
  match firstRow t env with
  | some acts => execTN p typ ph acts s none
  | none => none

/-! ### Clean -/

def envClean (found same : Bool) : Atom → Bool
  | .found => found
  | .samePtr => same
  | _ => false

def execClean (c : Nat) : List Act → State → Option State
  | [], _ => none
  | .lookup :: r, s => execClean c r s
  | .delete :: r, s => execClean c r { s with cur := upd s.cur c none }
  | .retVoid :: _, s => some s
  | _, _ => none

/-- `Clean(op)` for the operation with identity `i` -/
def cleanT (t : Table) (s : State) (i : Nat) : Option State :=
  let c := (s.ops i).cid
  match firstRow t (envClean (s.cur c).isSome (decide (s.cur c = some i))) with
  | some acts => execClean c acts s
  | none => none

/-- what the model's `retOk` does to the table -/
def cleanM (s : State) (i : Nat) : State :=
  { s with cur := if s.cur (s.ops i).cid = some i then upd s.cur (s.ops i).cid none else s.cur }

/-! ### applyPinF and the Operation setters -/

def envApply (c0 errNil c1 : Bool) : Atom → Bool
  | .cancelled 0 => c0
  | .cancelled _ => c1
  | .errNil => errNil
  | _ => false

/-- the effect of a sequence of actions on the operation record -/
def runOp : List Act → Op → Op
  | [], o => o
  | .setPhase p :: r, o => runOp r { o with phase := p }
  | .setError :: r, o => runOp r { o with phase := .error }
  | .cancel :: r, o => runOp r { o with cancelled := true }
  | _ :: r, o => runOp r o

def retOf : List Act → Option Bool
  | [] => none
  | .retBool b :: _ => some b
  | _ :: r => retOf r

def beforeCall : List Act → List Act
  | [] => []
  | .call :: _ => []
  | a :: r => a :: beforeCall r

def afterCall : List Act → List Act
  | [] => []
  | .call :: r => r
  | _ :: r => afterCall r

def callsIn (l : List Act) : Nat := (l.filter (· == .call)).length

def applyT (t : Table) (c0 errNil c1 : Bool) : List Act := (firstRow t (envApply c0 errNil c1)).getD [.unknown]

/-- `Operation.Cancelled` -/
def envDone (b : Bool) : Atom → Bool
  | .ctxDone => b
  | _ => false

/-! ### trackerStatus -/

def envTS (t : Ty) (ph : Phase) : Atom → Bool
  | .typIs t' => t' == t
  | .phIs p => p == ph
  | _ => false

def statusT (tb : Table) (t : Ty) (ph : Phase) : Option Status :=
  match firstRow tb (envTS t ph) with
  | some [.retStatus s] => some s
  | _ => none

/-- `opStatus` as a function of type and phase -/
def opStatusTP (t : OpType) (ph : Phase) : Status :=
  opStatus { cid := 0, typ := t, phase := ph, cancelled := false, pin := pinCid 0 }

/-! ### the switch of recoverWithPinInfo -/

def envRec (st : Status) (stateOk getOk : Bool) : Atom → Bool
  | .statusIs s => s == st
  | .stateOk => stateOk
  | .getOk => getOk
  | _ => false

/-- what a path of `recoverWithPinInfo` enqueues: operation type and whether the pin is the recorded one -/
def recOf : List Act → Bool → Option (OpType × Bool)
  | [], _ => none
  | .pinDefault :: r, _ => recOf r false
  | .pinRecorded :: r, _ => recOf r true
  | .enqueuePin :: _, rec => some (.pin, rec)
  | .enqueueUnpin :: _, _ => some (.unpin, false)
  | _ :: r, rec => recOf r rec

def recT (t : Table) (st : Status) (stateOk getOk : Bool) : Option (Option (OpType × Bool)) :=
  (firstRow t (envRec st stateOk getOk)).map (fun a => recOf a false)

/-! ### round 8c: `Tracker.enqueue`, `Track`, `Untrack`, `Recover` -/

/-- the channel variable `ch` when the send / the default branch is reached: the last assignment on the path (none = Go's nil channel) -/
def chanOf : List Act → Option CallKind → Option CallKind
  | [], ch => ch
  | .chPin :: r, _ => chanOf r (some .pin)
  | .chUnpin :: r, _ => chanOf r (some .unpin)
  | .send :: _, ch => ch
  | _ :: r, ch => chanOf r ch

/-- `ch <- op` can proceed: the buffered channel has room. A send on the nil channel never proceeds. -/
def roomFor (cfg : Cfg) (s : State) : Option CallKind → Bool
  | some .pin => decide (s.pinQ.length < cfg.cap)
  | some .unpin => decide (s.unpinQ.length < cfg.cap)
  | none => false

def envEnq (opNil : Bool) (typ : OpType) (room : Bool) : Atom → Bool
  | .opNil => opNil
  | .typIs t => t == Ty.ofOp typ
  | .sendOk => room
  | _ => false

structure EnqSt where
  s : State
  op : Option Nat := none
  ch : Option CallKind := none
  err : Bool := false

/-- executes a path of `enqueue` on the model state (none = a path the model has no meaning for: send without an operation, `return err`
    without an error, no return) -/
def execEnq (p : PinSpec) (typ : OpType) : List Act → EnqSt → Option (State × Ret)
  | [], _ => none
  | .trackNewQ :: r, e =>
    match e.op with
    | none => execEnq p typ r { e with s := (trackNew e.s p typ .queued).1, op := (trackNew e.s p typ .queued).2 }
    | some _ => none
  | .chPin :: r, e => execEnq p typ r { e with ch := some .pin }
  | .chUnpin :: r, e => execEnq p typ r { e with ch := some .unpin }
  | .send :: r, e =>
    match e.op, e.ch with
    | some i, some .pin => execEnq p typ r { e with s := { e.s with pinQ := e.s.pinQ ++ [i] } }
    | some i, some .unpin => execEnq p typ r { e with s := { e.s with unpinQ := e.s.unpinQ ++ [i] } }
    | _, _ => none
  | .errFull :: r, e => execEnq p typ r { e with err := true }
  | .setError :: r, e =>
    match e.op with
    | some i => execEnq p typ r { e with s := { e.s with ops := upd e.s.ops i { e.s.ops i with phase := .error } } }
    | none => none
  | .cancel :: r, e =>
    match e.op with
    | some i => execEnq p typ r { e with s := cancelOp e.s i }
    | none => none
  | .retNil :: _, e => some (e.s, .nil)
  | .retErr :: _, e => if e.err then some (e.s, .full) else none
  | _, _ => none

/-- the path of `enqueue` taken: the first row whose literals hold, `sendOk` being judged for the channel THAT row assigned -/
def enqueueT (t : Table) (cfg : Cfg) (s : State) (p : PinSpec) (typ : OpType) : Option (State × Ret) :=
  let r := trackNew s p typ .queued
  match t.find? (fun row => holdsLits (envEnq r.2.isNone typ (roomFor cfg r.1 (chanOf row.acts none))) row.lits) with
  | some row => execEnq p typ row.acts { s := s }
  | none => none

def envTrack (k : Kind) (opNil errNil : Bool) : Atom → Bool
  | .isMeta => k == .sharded
  | .isRemote => k == .remote
  | .opNil => opNil
  | .errNil => errNil
  | _ => false

/-- `Track` up to the point where it returns or waits for the synchronous `unpin` call (`.call`): the rest (`afterCall`) runs when the
    daemon answers — the model's `retOk` / `retErr` on a `sync` call. -/
def execTrack (cfg : Cfg) (p : PinSpec) : List Act → State → Option Nat → Option (State × Ret)
  | [], _, _ => none
  | .trackNewRemote :: r, s, none => execTrack cfg p r (trackNew s p .remote .inProgress).1 (trackNew s p .remote .inProgress).2
  | .call :: _, s, some i => some ({ s with calls := s.calls ++ [{ op := i, kind := .unpin, sync := true, eff := false }] }, .nil)
  | .retNil :: _, s, _ => some (s, .nil)
  | .retEnqueuePin :: _, s, none => some (enqueue cfg s p .pin)
  | _, _, _ => none

/-- `Track(p)` as the regenerated table says (after the consensus component recorded `p` in the pinset, as in `track`). `errNil` = what the
    synchronous call WILL answer: it must not matter before the call. -/
def trackT (t : Table) (cfg : Cfg) (s0 : State) (p : PinSpec) (errNil : Bool) : Option (State × Ret) :=
  let s := { s0 with shared := upd s0.shared p.cid (some p),
                     failed := if p.kind = .here then upd s0.failed p.cid false else s0.failed }
  match firstRow t (envTrack p.kind (trackNew s p .remote .inProgress).2.isNone errNil) with
  | some acts => execTrack cfg p acts s none
  | none => none

/-- the remote branch of `Track` after the synchronous call answered -/
def trackAfter (t : Table) (errNil : Bool) : List Act := afterCall ((firstRow t (envTrack .remote false errNil)).getD [.unknown])

def envFound (b : Bool) : Atom → Bool
  | .found => b
  | _ => false

/-- `Recover(c)`: the status handed to `recoverWithPinInfo` — the table entry's when there is one, else `Status(c)` -/
def recoverT (t : Table) (cfg : Cfg) (s : State) (c : Nat) : Option (State × Ret) :=
  match firstRow t (envFound (s.cur c).isSome), s.cur c with
  | some [.getExists, .retRecOp], some i => some (recoverWith cfg s c (opStatus (s.ops i)))
  | some [.getExists, .retRecStatus], none => some (recoverWith cfg s c (statusOf s c))
  | _, _ => none

/-! ### round 8c: `Tracker.Status` -/

def envStatus (found stateOk notFound getOk : Bool) (k : Kind) (lsOk unp : Bool) : Atom → Bool
  | .found => found
  | .stateOk => stateOk
  | .notFound => notFound
  | .getOk => getOk
  | .isMeta => k == .sharded
  | .isRemote => k == .remote
  | .lsOk => lsOk
  | .ipfsUnpinned => unp
  | _ => false

/-- the `Status` field of the PinInfo a path of `Tracker.Status` returns. `op` = the table entry's status (`GetExists`), `ipfs` = what
    `ToTrackerStatus` made of the daemon's answer, `cur` = the field so far (zero value `TrackerStatusUndefined`), `asked` = the daemon was
    asked (`setIpfs` without a `PinLsCid` call has no meaning). `addError` writes cluster_error (table `addError`). -/
def execStatus (op ipfs : Status) : List Act → Status → Bool → Option Status
  | [], _, _ => none
  | .getExists :: r, cur, a => execStatus op ipfs r cur a
  | .pinLsCid :: r, cur, _ => execStatus op ipfs r cur true
  | .addError :: r, _, a => execStatus op ipfs r .clusterError a
  | .setStatus st :: r, _, a => execStatus op ipfs r st a
  | .setIpfs :: r, _, true => execStatus op ipfs r ipfs true
  | .retOp :: _, _, _ => some op
  | .retInfo :: _, cur, _ => some cur
  | _, _, _ => none

/-- `Tracker.Status(c)` as the regenerated table says, on a model state; `ls` = the daemon's read works; `stateOk` / `getOk` = the shared
    state can be read (always true in the model's runs: the harness's state never fails) -/
def statusTbl (t : Table) (s : State) (ls : Bool) (c : Nat) (stateOk getOk : Bool := true) : Option Status :=
  let op := match s.cur c with
    | some i => opStatus (s.ops i)
    | none => .undefined
  let k := match s.shared c with
    | some p => p.kind
    | none => .here
  let held := match s.shared c with
    | some p => heldAs s c p.mode
    | none => false
  match firstRow t (envStatus (s.cur c).isSome stateOk (s.shared c).isNone getOk k ls (!held)) with
  | some acts => execStatus op (if held then .pinned else .unpinned) acts .undefined false
  | none => none

/-! ### round 8c: `Tracker.RecoverAll` — listing, then the loop (one iteration = table `recoverAllBody`) -/

def envErr (b : Bool) : Atom → Bool
  | .errNil => b
  | _ => false

/-- one iteration on the listed entry `(c, st)`: the new state and `some r` when the loop is LEFT returning `r` (none = next entry) -/
def bodyT (t : Table) (cfg : Cfg) (s : State) (c : Nat) (st : Status) : Option (State × Option Ret) :=
  match firstRow t (envErr (decide ((recoverWith cfg s c st).2 = .nil))) with
  | some [.recEntry, .retErr] => some ((recoverWith cfg s c st).1, some (recoverWith cfg s c st).2)
  | some [.recEntry, .appendResp, .retVoid] => some ((recoverWith cfg s c st).1, none)
  | _ => none

/-- the loop over the listing `L` with the regenerated body (items as in `raLoop`: activity of the others before the entry, the cid) -/
def raLoopT (t : Table) (cfg : Cfg) (L : Nat → Option Status) : State → List (List Ev × Nat) → Option (State × Ret)
  | s, [] => some (s, .nil)
  | s, (pre, c) :: rest =>
    match L c with
    | none => raLoopT t cfg L (run cfg s pre) rest
    | some st =>
      match bodyT t cfg (run cfg s pre) c st with
      | some (s2, some r) => some (s2, r)
      | some (s2, none) => raLoopT t cfg L s2 rest
      | none => none

/-! ### round 8c: `localStatus`, one pin of the pinset -/

def envLocal (k : Kind) (pinned incExtra : Bool) (fm : Status → Bool) : Atom → Bool
  | .isMeta => k == .sharded
  | .isRemote => k == .remote
  | .pinnedInIpfs => pinned
  | .incExtra => incExtra
  | .fMatch s => fm s
  | _ => false

/-- what one iteration puts in the map: `some none` = nothing (`continue`), `some (some st)` = an entry with that status. The daemon's own
    entry (`putIpfs`, status pinned: `PinLs` lists pinned items) needs the lookup among the pins of the pin's OWN mode before it. -/
def execLocal : List Act → Status → Bool → Option (Option Status)
  | [], _, _ => none
  | .lookupOwnMode :: r, cur, _ => execLocal r cur true
  | .setStatus s :: r, _, l => execLocal r s l
  | .skip :: _, _, _ => some none
  | .putInfo :: .retVoid :: _, cur, _ => some (some cur)
  | .putIpfs :: .retVoid :: _, _, true => some (some .pinned)
  | _, _, _ => none

def localT (t : Table) (k : Kind) (pinned incExtra : Bool) (fm : Status → Bool) : Option (Option Status) :=
  (firstRow t (envLocal k pinned incExtra fm)).bind (fun a => execLocal a .undefined false)

/-! ### round 8c: `statusAll` — `localStatus`, then the operation table laid over it, then the filter -/

def envSelf (b : Bool) : Atom → Bool
  | .fMatchSelf => b
  | _ => false

/-- the entry of ONE cid through `statusAll`: `loc` = its entry from `localStatus`, `op` = the status of its table entry, `fm` = the filter.
    `some none` = not listed. -/
def execSA (overlay filt : Table) (op : Option Status) (fm : Status → Bool) : List Act → Option Status → Option (Option Status)
  | [], _ => none
  | .localAll :: r, e => execSA overlay filt op fm r e
  | .overlayOps :: r, e =>
    match firstRow overlay (fun _ => false) with
    | some [.putOp, .retVoid] => execSA overlay filt op fm r (match op with | some st => some st | none => e)
    | _ => none
  | .filterLoop :: r, e =>
    match e with
    | none => execSA overlay filt op fm r none
    | some st =>
      match firstRow filt (envSelf (fm st)) with
      | some [.appendResp, .retVoid] => execSA overlay filt op fm r (some st)
      | some [.retVoid] => execSA overlay filt op fm r none
      | _ => none
  | .retNil :: _, e => some e
  | .retErr :: _, _ => some none
  | _, _ => none

/-- `statusAll(ctx, filter)`'s entry for `c` on a model state; `ls` = `localStatus` could list (`PinLs` works) -/
def statusAllT (outer overlay filt : Table) (s : State) (ls : Bool) (fm : Status → Bool) (c : Nat) : Option (Option Status) :=
  match firstRow outer (envErr ls) with
  | some acts =>
    execSA overlay filt (match s.cur c with | some i => some (opStatus (s.ops i)) | none => none) fm acts
      (statusAllOf { s with cur := fun _ => none } c)
  | none => none

def allStatuses : List Status :=
  [.pinned, .pinning, .pinQueued, .pinError, .unpinned, .unpinning, .unpinQueued, .unpinError,
   .remote, .sharded, .unexpectedlyUnpinned, .clusterError, .undefined]

def allPhases : List Phase := [.error, .queued, .inProgress, .done]

end CV.C05.T
