/-
C04 — the RPC layer in front of the model (rpc_api.go: ClusterRPCAPI.Pin / Unpin / PinPath /
UnpinPath / PinGet / Pins). The REST API, the IPFS proxy, the adders and other peers reach the
pinset only through these entry points, so "exactly as requested" is decided here: which Cluster
method is called and which parts of the received object are handed on.

The layer is not transcribed by hand: `rpcOp` INTERPRETS the table that `harness/extract_c04`
regenerates from the go/ast of rpc_api.go on every run (`Gen.rpcTable`: method, callee, argument
expressions after ctx, index of the returned value, shape). An unknown callee, argument expression
or body shape makes the interpreter answer `none` (fail-closed). Core Lean only.
-/
import ClusterVerif.Model.C04Faults
namespace CV.C04
open CV

deriving instance DecidableEq for Op

/-- one row of the generated table -/
abbrev RpcEntry := String × String × List String × Nat × String

/-- what arrives at an RPC entry point -/
inductive RpcCall where
  | pin (p : Pin)                        -- Cluster.Pin        (in : *api.Pin)
  | unpin (p : Pin)                      -- Cluster.Unpin      (in : *api.Pin; only its Cid is meant)
  | pinPath (path : Nat) (o : Opts)      -- Cluster.PinPath    (in : *api.PinPath)
  | unpinPath (path : Nat) (o : Opts)    -- Cluster.UnpinPath  (in : *api.PinPath; options are not meant)
  | pinGet (c : Nat)                     -- Cluster.PinGet     (in : cid)
  | pins                                 -- Cluster.Pins
  deriving Repr

def RpcCall.method : RpcCall → String
  | .pin _ => "Pin" | .unpin _ => "Unpin" | .pinPath .. => "PinPath" | .unpinPath .. => "UnpinPath"
  | .pinGet _ => "PinGet" | .pins => "Pins"

/-- the zero value `api.PinOptions{}` -/
def noOpts : Opts :=
  { rmin := 0, rmax := 0, name := 0, mode := .recursive, shard := 0, expire := .zero,
    metadata := [], update := none, origins := [], ualloc := [] }

/-- values of the argument expressions that may appear in a call of the RPC layer -/
inductive ArgV where
  | pinV (p : Pin) | cidV (c : Nat) | pathV (p : Nat) | optsV (o : Opts) | noBlacklist
  deriving Repr

/-- evaluation of an argument expression (as written in the source) on the received object -/
def evalArg (call : RpcCall) (a : String) : Option ArgV :=
  if a == "[]peer.ID{}" || a == "nil" then some .noBlacklist else
  if a == "api.PinOptions{}" then some (.optsV noOpts) else
  match call with
  | .pin p | .unpin p =>
    if a == "in" then some (.pinV p) else if a == "in.Cid" then some (.cidV p.cid)
    else if a == "in.PinOptions" then some (.optsV p.opts) else none
  | .pinPath path o | .unpinPath path o =>
    if a == "in.Path" then some (.pathV path) else if a == "in.PinOptions" then some (.optsV o) else none
  | .pinGet c => if a == "in" then some (.cidV c) else none
  | .pins => none

/-- the Cluster method called, as an operation of the model -/
def calleeOp (callee : String) (args : List ArgV) : Option Op :=
  match callee, args with
  | "pin", [.pinV p, .noBlacklist] => some (.rpcPin p)              -- c.pin(ctx, in, []peer.ID{})
  | "Pin", [.cidV c, .optsV o] => some (.pin c o)                    -- c.Pin(ctx, h, opts): data pins only
  | "Unpin", [.cidV c] => some (.unpin c)
  | "PinPath", [.pathV p, .optsV o] => some (.pinPath p o)
  | "UnpinPath", [.pathV p] => some (.unpinPath p)
  | _, _ => none

def findEntry (tbl : List RpcEntry) (m : String) : Option RpcEntry := tbl.find? (fun e => e.1 == m)

/-- the operation a writing RPC call performs on the Cluster, according to the table -/
def rpcOp (tbl : List RpcEntry) (call : RpcCall) : Option Op :=
  match findEntry tbl call.method with
  | some (_, callee, args, idx, shape) =>
    if idx == 0 && shape == "copy" then
      match args.mapM (evalArg call) with
      | some vs => calleeOp callee vs
      | none => none
    else none
  | none => none

/-- a writing RPC call: the Cluster operation of the table, run by the model (with faults) -/
def rpcStepF (tbl : List RpcEntry) (cfg : Cfg) (pre : PinMap) (call : RpcCall) (chosen : List Nat)
    (fault : Option Nat) : Option Out :=
  (rpcOp tbl call).map (fun op => stepF cfg pre op chosen fault)

def rpcStep (tbl : List RpcEntry) (cfg : Cfg) (pre : PinMap) (call : RpcCall) (chosen : List Nat) : Option Out :=
  (rpcOp tbl call).map (fun op => step cfg pre op chosen)

/-- the reading entry points: what `PinGet` / `Pins` hand back (none = unknown shape; inner none = error) -/
def rpcRead (tbl : List RpcEntry) (pre : PinMap) (call : RpcCall) : Option (Option (List Pin)) :=
  match call, findEntry tbl call.method with
  | .pinGet c, some (_, "PinGet", ["in"], 0, "copy") => some ((pre.get c).map (fun p => [p]))
  | .pins, some (_, "Pins", [], 0, "assign") => some (some pre)
  | _, _ => none

/-- What the request MEANS (from the property text and the API contract, not from rpc_api.go):
    `Pin` of a plain data pin without preset allocations (what `api.PinWithOpts` builds: REST, proxy,
    ctl) is the user-facing Pin of that cid with those options; any other pin object is the adders'
    entry; `Unpin` names a cid; the path calls carry a path (and options for PinPath only). -/
def RpcCall.intended : RpcCall → Option Op
  | .pin p => some (if p == pinWithOpts p.cid p.opts then .pin p.cid p.opts else .rpcPin p)
  | .unpin p => some (.unpin p.cid)
  | .pinPath path o => some (.pinPath path o)
  | .unpinPath path _ => some (.unpinPath path)
  | .pinGet _ => none
  | .pins => none

/-- the table the model was read against (rpc_api.go as of the snapshot) -/
def expectedRpcTable : List RpcEntry := [
  ("Pin", "pin", ["in", "[]peer.ID{}"], 0, "copy"),
  ("Unpin", "Unpin", ["in.Cid"], 0, "copy"),
  ("PinPath", "PinPath", ["in.Path", "in.PinOptions"], 0, "copy"),
  ("UnpinPath", "UnpinPath", ["in.Path"], 0, "copy"),
  ("PinGet", "PinGet", ["in"], 0, "copy"),
  ("Pins", "Pins", [], 0, "assign")
]

/-- realistic wrong edits of the layer, as tables (used by the refutations in Props/C04.lean) -/
def tblPinPathDropsOptions : List RpcEntry :=
  expectedRpcTable.map (fun e => if e.1 == "PinPath" then ("PinPath", "PinPath", ["in.Path", "api.PinOptions{}"], 0, "copy") else e)
def tblPinViaPublicPin : List RpcEntry :=
  expectedRpcTable.map (fun e => if e.1 == "Pin" then ("Pin", "Pin", ["in.Cid", "in.PinOptions"], 0, "copy") else e)

end CV.C04
