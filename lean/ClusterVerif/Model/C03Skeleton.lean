/-!
# The decision skeleton of the allocation code, as the C03 model was written from it

`Gen/C03.lean` is regenerated on every run from `/repo/allocate.go`, `/repo/cluster_config.go` and the
shipped allocators (go/ast, one normalised line per deciding statement, message texts reduced to `S`).
These are the lines the hand-written model `Model/C03.lean` transcribes; `Props/C03.lean` proves by
`decide` that today's source still reads exactly like this. Each line is annotated with the model
clause it corresponds to. A harmless rewording of the source breaks the equality too: the check then
reports that the tie no longer holds and searches for a failing input with the correspondence run.
-/
namespace CV.C03.Expected

/-- `allowed`: factor guards (`badFactors`, everywhere), metrics = latest valid metrics of the first informer, `nil` result = keep current -/
def allocateSkeleton : List String := [
  "if (rplMin + rplMax) == 0 => return nil, fmt.Errorf(S, rplMin, rplMax)",
  "if rplMin < 0 && rplMax < 0 => return []peer.ID{}, nil",
  "if currentPin != nil => { currentAllocs = currentPin.Allocations }",
  "metrics := c.monitor.LatestMetrics(ctx, c.informers[0].Name())",
  "if err != nil => return newAllocs, err",
  "if newAllocs == nil => { newAllocs = currentAllocs }",
  "return newAllocs, nil"
]

/-- `curM` / `priM` / `candM`: blacklist first, then current holders, then the priority list, everything else a candidate -/
def classification : List String := [
  "containsPeer(blacklist, m.Peer) => continue",
  "containsPeer(currentAllocs, m.Peer) => currentMetrics[m.Peer] = m",
  "containsPeer(prioritylist, m.Peer) => priorityMetrics[m.Peer] = m",
  "default => candidatesMetrics[m.Peer] = m"
]

/-- `needed`, `wanted`, truncate when `wanted < 0`, keep when `needed ≤ 0`, error when too few candidates (before and after the allocator), take `min wanted` -/
def obtainSkeleton : List String := [
  "nCurrentValid := len(validAllocations)",
  "nCandidatesValid := len(candidatesMetrics) + len(priorityMetrics)",
  "needed := rplMin - nCurrentValid",
  "wanted := rplMax - nCurrentValid",
  "if wanted < 0 => return validAllocations[0 : len(validAllocations)+wanted], nil",
  "if needed <= 0 => return nil, nil",
  "if nCandidatesValid < needed => return nil, allocationError(hash, needed, wanted, candidatesValid)",
  "if err != nil => return nil, logError(err.Error())",
  "if got := len(finalAllocs); got < needed => return nil, allocationError(hash, needed, wanted, finalAllocs)",
  "allocationsToUse := minInt(wanted, len(finalAllocs))",
  "return append(validAllocations, finalAllocs[0:allocationsToUse]...), nil"
]

/-- `factorsValid` -/
def validSkeleton : List String := [
  "if rplMin == 0 || rplMax == 0 => return errors.New(S)",
  "if rplMin > rplMax => return errors.New(S)",
  "if rplMin < -1 => return errors.New(S)",
  "if rplMax < -1 => return errors.New(S)",
  "if (rplMin == -1 && rplMax != -1) || (rplMin != -1 && rplMax == -1) => return errors.New(S)",
  "return nil"
]

/-- priority peers first, each group sorted ascending -/
def ascendAllocate : List String := [
  "first := util.SortNumeric(priority, false)",
  "last := util.SortNumeric(candidates, false)",
  "return append(first, last...), nil"
]

/-- the same, descending -/
def descendAllocate : List String := [
  "first := util.SortNumeric(priority, true)",
  "last := util.SortNumeric(candidates, true)",
  "return append(first, last...), nil"
]

/-- `usable`: discarded (invalid/expired) and non-numeric metrics are dropped -/
def sortNumeric : List String := [
  "vMap := make(map[peer.ID]uint64)",
  "peers := make([]peer.ID, 0, len(candidates))",
  "for k, v := range candidates { if v.Discard() { continue } val, err := strconv.ParseUint(v.Value, 10, 64) if err != nil { continue } peers = append(peers, k) vMap[k] = val }",
  "sorter := &metricSorter{ m: vMap, peers: peers, reverse: reverse, }",
  "sort.Sort(sorter)",
  "return sorter.peers"
]

/-- strict comparison of the values: ties are left to the unstable sort (`isTopK` admits any order among equals) -/
def sorterLess : List String := [
  "peeri := s.peers[i]",
  "peerj := s.peers[j]",
  "x := s.m[peeri]",
  "y := s.m[peerj]",
  "if s.reverse { return x > y }",
  "return x < y"
]

/-! ### round 7: the metric pipeline in front of allocate(), BlockAllocate, and the call sites
(`Model/C03Pipeline.lean`: `window`/`windowLatest` ← Store.Add + Window.Add/Latest; `latestValid` ← Store.LatestValid;
`peersetFilter`, `latestMetrics` ← PeersetFilter, Monitor.LatestMetrics; `RawMetric.discard` ← Metric.Discard/Expired;
`Model/C03Block.lean`: `blockAllocate` ← ClusterRPCAPI.BlockAllocate; `C04.allocIn` ← the allocate() call of Cluster.pin) -/

/-- allocate(): which group goes to which parameter of obtainAllocations -/
def obtainCall : List String := [
  "c.obtainAllocations( ctx, hash, rplMin, rplMax, currentMetrics, candidatesMetrics, priorityMetrics, )"
]

/-- metrics.Store.Add, whole -/
def storeAdd : List String := [
  "mtrs.mux.Lock()",
  "defer mtrs.mux.Unlock()",
  "name := m.Name",
  "peer := m.Peer",
  "mbyp, ok := mtrs.byName[name]",
  "if !ok { mbyp = make(PeerMetrics) mtrs.byName[name] = mbyp }",
  "window, ok := mbyp[peer]",
  "if !ok { window = NewWindow(DefaultWindowCap) mbyp[peer] = window }",
  "window.Add(m)"
]

/-- metrics.Store.LatestValid, whole -/
def storeLatestValid : List String := [
  "mtrs.mux.RLock()",
  "defer mtrs.mux.RUnlock()",
  "byPeer, ok := mtrs.byName[name]",
  "if !ok { return []*api.Metric{} }",
  "metrics := make([]*api.Metric, 0, len(byPeer))",
  "for _, window := range byPeer { m, err := window.Latest() if err != nil || m.Discard() { continue } metrics = append(metrics, m) }",
  "sortedMetrics := api.MetricSlice(metrics)",
  "sort.Stable(sortedMetrics)",
  "return sortedMetrics"
]

/-- metrics.PeersetFilter, whole -/
def peersetFilter : List String := [
  "peerMap := make(map[peer.ID]struct{})",
  "for _, pid := range peerset { peerMap[pid] = struct{}{} }",
  "filtered := make([]*api.Metric, 0, len(metrics))",
  "for _, metric := range metrics { _, ok := peerMap[metric.Peer] if !ok { continue } filtered = append(filtered, metric) }",
  "return filtered"
]

/-- pubsubmon.Monitor.LatestMetrics, whole (tracing left in) -/
def monLatestMetrics : List String := [
  "ctx, span := trace.StartSpan(ctx, S)",
  "defer span.End()",
  "latest := mon.metrics.LatestValid(name)",
  "if mon.peers == nil { return latest }",
  "peers, err := mon.peers(ctx)",
  "if err != nil { return []*api.Metric{} }",
  "return metrics.PeersetFilter(latest, peers)"
]

/-- metrics.Window.Add, whole -/
def windowAdd : List String := [
  "m.ReceivedAt = time.Now().UnixNano()",
  "mw.wMu.Lock()",
  "mw.window.Value = m",
  "mw.window = mw.window.Next()",
  "mw.wMu.Unlock()"
]

/-- metrics.Window.Latest, whole -/
def windowLatest : List String := [
  "var last *api.Metric",
  "var ok bool",
  "mw.wMu.RLock()",
  "prevRing := mw.window.Prev()",
  "last, ok = prevRing.Value.(*api.Metric)",
  "mw.wMu.RUnlock()",
  "if !ok || last == nil { return nil, ErrNoMetrics }",
  "return last, nil"
]

/-- api.Metric.Discard, whole -/
def metricDiscard : List String := [
  "return !m.Valid || m.Expired()"
]

/-- api.Metric.Expired, whole -/
def metricExpired : List String := [
  "expDate := time.Unix(0, m.Expire)",
  "return time.Now().After(expDate)"
]

/-- ClusterRPCAPI.BlockAllocate, whole -/
def blockAllocate : List String := [
  "if rpcapi.c.config.FollowerMode { return errFollowerMode }",
  "existing, err := rpcapi.c.PinGet(ctx, in.Cid)",
  "if err != nil && err != state.ErrNotFound { return err }",
  "err = rpcapi.c.setupPin(ctx, in, existing)",
  "if err != nil { return err }",
  "if in.ReplicationFactorMin < 0 { metrics := rpcapi.c.monitor.LatestMetrics(ctx, pingMetricName) peers := make([]peer.ID, len(metrics)) for i, m := range metrics { peers[i] = m.Peer } *out = peers return nil }",
  "allocs, err := rpcapi.c.allocate( ctx, in.Cid, existing, in.ReplicationFactorMin, in.ReplicationFactorMax, []peer.ID{}, in.UserAllocations, )",
  "if err != nil { return err }",
  "*out = allocs",
  "return nil"
]

/-- Cluster.pin(): the arguments of its allocate() call -/
def pinAllocateCall : List String := [
  "c.allocate( ctx, pin.Cid, existing, pin.ReplicationFactorMin, pin.ReplicationFactorMax, blacklist, pin.UserAllocations, )"
]

/-- createCluster (cmd/ipfs-cluster-service/daemon.go): the statements that build the informer / allocator and the NewCluster call -/
def daemonWiringSource : List String := [
  "informer, err := disk.NewInformer(cfgs.Diskinf)",
  "alloc := descendalloc.NewAllocator()",
  "return ipfscluster.NewCluster( ctx, host, dht, cfgs.Cluster, store, cons, apis, connector, tracker, mon, alloc, []ipfscluster.Informer{informer}, tracer, )"
]

end CV.C03.Expected
