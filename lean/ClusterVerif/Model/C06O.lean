import ClusterVerif.Gen.C06
/-!
# C06, round 8c — the operation tracker's getters (pintracker/optracker)

`trackerStatus(typ, ph)` (what `Operation.ToTrackerStatus` returns), the type switch of `filter`, the shape of
`filterOpsMap` (`Filter` / `filterOps`) and the "an ongoing operation of the same sign exists" guard of
`TrackNewOperation`, all INTERPRETED from the tables `harness/extract_c06` reads from the source with go/ast
(`Gen.trackerSwitch`, `Gen.optFilterArms`, `Gen.optFilterShape`, `Gen.trackKeep`). Core Lean only.
The map `operations` is a list with at most one entry per cid (newest first); getters are compared as sets.
-/
namespace CV.C06.O

structure TOp where
  cid : Nat
  typ : Nat
  ph : Nat
  deriving DecidableEq, Repr

def lookupN {α : Type} : List (Nat × α) → Nat → Option α
  | [], _ => none
  | (k, v) :: r, x => if k = x then some v else lookupN r x

/-- `trackerStatus(typ, ph)` as today's nested switch computes it -/
def statusI (t ph : Nat) : Nat :=
  match lookupN Gen.trackerSwitch t with
  | none => Gen.trackerSwitchDefault
  | some (inner, d) => (lookupN inner ph).getD d

/-- a filter value given to `Filter(...)`: kind 0 = an `OperationType`, 1 = a `Phase` -/
structure Flt where
  kind : Nat
  val : Nat
  deriving DecidableEq, Repr

/-- one pass of `filter`: the first case of the type switch for the filter's dynamic type decides -/
def matchesF (f : Flt) (o : TOp) : Bool :=
  match Gen.optFilterArms.find? (fun a => a.1 == f.kind) with
  | some (_, acc, good) => good == 1 && (if acc == 0 then o.typ == f.val else if acc == 1 then o.ph == f.val else false)
  | none => false

def filterChain : List Flt → List TOp → List TOp
  | [], m => m
  | f :: fs, m => filterChain fs (m.filter (matchesF f))

/-- `filterOpsMap` (behind `Filter` and `filterOps`): nil below the minimum number of filters -/
def filterOps (fs : List Flt) (m : List TOp) : List TOp :=
  if fs.length < Gen.optFilterShape.headD 99 then [] else
  if Gen.optFilterShape.tail.headD 0 == 1 then filterChain fs m else []

/-- the guard of `TrackNewOperation`: the existing operation `e` is kept and no new one is made -/
def keeps (e : TOp) (typ : Nat) : Bool :=
  !Gen.trackKeep.isEmpty && Gen.trackKeep.all (fun c =>
    let l := if c.1 == 0 then e.typ else e.ph
    let r := if c.2.2.1 == 1 then typ else c.2.2.2
    c.1 ≤ 1 && c.2.2.1 ≤ 1 && (if c.2.1 == 3 then l == r else if c.2.1 == 4 then l != r else false))

def track (m : List TOp) (o : TOp) : List TOp :=
  match m.find? (fun e => e.cid == o.cid) with
  | some e => if keeps e o.typ then m else o :: m.filter (fun e => e.cid != o.cid)
  | none => o :: m

def trackAll (ops : List TOp) : List TOp := ops.foldl track []

/-- `GetAll`: one PinInfo per tracked operation, status = `ToTrackerStatus` -/
def getAll (m : List TOp) : List (Nat × Nat) := m.map (fun o => (o.cid, statusI o.typ o.ph))

/-- `Filter(filters...)` as PinInfos -/
def filterInfos (fs : List Flt) (m : List TOp) : List (Nat × Nat) := getAll (filterOps fs m)

/-- `Status(cid)` -/
def statusOf (m : List TOp) (c : Nat) : Option Nat := (m.find? (fun e => e.cid == c)).map (fun o => statusI o.typ o.ph)

end CV.C06.O
