import ClusterVerif.Model.C16
import ClusterVerif.Model.C16Aux
/-!
# C16 — which configured time ends which daemon request (round 8)

Core Lean only.  `Gen.ctxSites` (regenerated from `ipfshttp.go` by `harness/extract_c16/ctx.go`) lists,
for every call of a Connector method that takes a context, the deadlines and cancellations the context
handed over carries at that point.  A daemon request of an operation is reached through a *chain* of
such calls (`Pin → PinLsCid → postCtx → doPostCtx`); it is *governed* when, walking the chain from the
public method down, some hop adds a configured deadline (or the progress watchdog) and no later hop
replaces the context by something the translator does not understand (`Bound.unknown`).

`runCtx sites` is the conversation model with that table interpreted: a request that is never answered
(or, for `pin/add`, whose stream stays alive without progress) and that is **not** governed ends the call
only when the caller's own context does (`errctx`); governed, the result is `run`'s.  With today's table
every step is governed (`gen_steps_governed`, by `decide`) and `runCtx Gen.ctxSites = run`.
-/
namespace CV.C16
open Dec

/-- the configuration fields that are request deadlines (`ipfsconn/ipfshttp/config.go`) -/
def timeFields : List String := ["IPFSRequestTimeout", "PinTimeout", "UnpinTimeout", "RepoGCTimeout"]

/-- the condition of the progress watchdog of `Pin`: no progress was seen for `PinTimeout` -/
def watchdogCond : String := "time.Since(lastProgressTime) > ipfs.config.PinTimeout"

def isDeadline : Bound → Bool
  | .timeout f => timeFields.contains f
  | _ => false

def isWatchdog : Bound → Bool
  | .watchdog c => c == watchdogCond
  | _ => false

/-- a bound the translator did not understand: the context may have been replaced -/
def isUnknownBound : Bound → Bool
  | .unknown _ => true
  | _ => false

/-- one hop of a call chain: enclosing function, callee, endpoint ("" = any) -/
structure Hop where
  fn : String
  callee : String
  ep : String
  deriving DecidableEq, Repr

def sitesOf (sites : List CtxSite) (h : Hop) : List CtxSite :=
  sites.filter (fun s => s.fn == h.fn && s.callee == h.callee && (h.ep == "" || s.endpoint == h.ep))

/-- governed after this site, given whether the context was governed before it -/
def siteGoverned (p : Bound → Bool) (s : CtxSite) (g : Bool) : Bool :=
  s.bounds.foldl (fun g b => if isUnknownBound b then false else g || p b) g

/-- walking down the chain: (every hop has a site in the table, governed so far) -/
def chainFold (p : Bound → Bool) (sites : List CtxSite) (chain : List Hop) : Bool × Bool :=
  chain.foldl (fun (acc : Bool × Bool) h =>
      let l := sitesOf sites h
      (acc.1 && !l.isEmpty, l.all (fun s => siteGoverned p s acc.2))) (true, false)

/-- a hop with no site in the table is not understood (fail closed) -/
def chainGoverned (p : Bound → Bool) (sites : List CtxSite) (chain : List Hop) : Bool :=
  (chainFold p sites chain).1 && (chainFold p sites chain).2

/-- the daemon requests of the three operations -/
inductive Step | pinLs | pinLsSrc | pinUpd | pinAdd | unpinRm | lsLs
  deriving DecidableEq, Repr

def lsChain : List Hop := [⟨"PinLsCid", "postCtx", "pin/ls"⟩, ⟨"postCtx", "doPostCtx", ""⟩]

def Step.chain : Step → List Hop
  | .pinLs | .pinLsSrc => ⟨"Pin", "PinLsCid", ""⟩ :: lsChain
  | .pinUpd => [⟨"Pin", "pinUpdate", ""⟩, ⟨"pinUpdate", "postCtx", "pin/update"⟩, ⟨"postCtx", "doPostCtx", ""⟩]
  | .pinAdd => [⟨"Pin", "pinProgress", ""⟩, ⟨"pinProgress", "doPostCtx", "pin/add"⟩]
  | .unpinRm => [⟨"Unpin", "postCtx", "pin/rm"⟩, ⟨"postCtx", "doPostCtx", ""⟩]
  | .lsLs => lsChain

def Step.all : List Step := [.pinLs, .pinLsSrc, .pinUpd, .pinAdd, .unpinRm, .lsLs]

/-- an unanswered request is ended by a deadline or by the watchdog -/
def endsStall (b : Bound) : Bool := isDeadline b || isWatchdog b

/-- which step of which operation a request of the trace is -/
def stepOf (op : Op) (r : Req) (k : Nat) : Option Step :=
  match op, r with
  | .pin, .ls .. => some (if k = 0 then .pinLs else .pinLsSrc)
  | .pin, .upd .. => some .pinUpd
  | .pin, .add .. => some .pinAdd
  | .unpin, .rm .. => some .unpinRm
  | .ls, .ls .. => some .lsLs
  | _, _ => none

/-- is the request governed against the way `c` of not answering (`stall`: silence; `noProgress`: a
`pin/add` stream that stays alive — only the watchdog ends that) -/
def stepGoverned (sites : List CtxSite) (s : Step) (c : Cls) : Bool :=
  if c == .noProgress && s == .pinAdd then chainGoverned isWatchdog sites s.chain
  else chainGoverned endsStall sites s.chain

/-- every step is governed against silence, and `pin/add` also against a live stream without progress -/
def allGoverned (sites : List CtxSite) : Bool :=
  Step.all.all (fun s => chainGoverned endsStall sites s.chain) &&
    chainGoverned isWatchdog sites Step.pinAdd.chain

def waits (c : Cls) : Bool := c == .stall || c == .noProgress

/-- index of the first request of the trace that is not answered and not governed -/
def firstUngoverned (sites : List CtxSite) (i : Input) (tr : List Req) : Option Nat :=
  (List.range tr.length).find? (fun k =>
    match tr[k]? with
    | some r =>
      let c := clsAt r.isAdd (i.beh k)
      waits c && (match stepOf i.op r k with
                  | some s => !stepGoverned sites s c
                  | none => false)
    | none => false)

/-- the conversation model with the governance table interpreted -/
def runCtx (sites : List CtxSite) (i : Input) : MOut :=
  let m := run i
  match firstUngoverned sites i m.trace with
  | none => m
  | some k => ⟨.errctx, m.trace.take (k + 1), i.table, m.swarmMax⟩

/-- `allowed` over `runCtx` -/
def allowedCtx (sites : List CtxSite) (i : Input) (o : Output) : Bool :=
  let m := runCtx sites i
  o.res == m.res && o.trace == m.trace &&
    (List.range i.n).all (fun c => o.final c == m.final c) &&
    swarmOk m.swarmMax o.swarm

namespace Aux

def Op.chain : Op → List Hop
  | .blockGet => [⟨"BlockGet", "postCtx", "block/get"⟩, ⟨"postCtx", "doPostCtx", ""⟩]
  | .blockPut => [⟨"BlockPut", "postCtx", "block/put"⟩, ⟨"postCtx", "doPostCtx", ""⟩]
  | .resolve => [⟨"Resolve", "postCtx", "resolve"⟩, ⟨"postCtx", "doPostCtx", ""⟩]
  | .swarmPeers => [⟨"SwarmPeers", "postCtx", "swarm/peers"⟩, ⟨"postCtx", "doPostCtx", ""⟩]
  | .repoGC => [⟨"RepoGC", "doPostCtx", "repo/gc"⟩]
  | .configKey => [⟨"ConfigKey", "postCtx", "config/show"⟩, ⟨"postCtx", "doPostCtx", ""⟩]

def Op.all : List Op := [.blockGet, .blockPut, .resolve, .swarmPeers, .repoGC, .configKey]

def allGoverned (sites : List CtxSite) : Bool := Op.all.all (fun o => chainGoverned isDeadline sites o.chain)

/-- a stalled request of a method whose context carries no configured deadline ends with the caller's -/
def runCtx (sites : List CtxSite) (i : In) : Res :=
  if Beh.stallsAux i.beh && !chainGoverned isDeadline sites i.op.chain then .errctx else run i

end Aux

end CV.C16
