/-!
C13 — the operation alphabets of the statement-flow translator (`harness/extract_c13flow`).
Core Lean only. A statement of the Go source that is not one of the recognised shapes is `.other`.
-/
namespace CV.C13.Flow

/-- which destinations the single DAG service's BlockAdder is built with -/
inductive BA where
  | localOnly      -- `adder.NewBlockAdder(dgs.rpcClient, []peer.ID{""})`
  | dests          -- `adder.NewBlockAdder(dgs.rpcClient, dests)`
  | other
  deriving DecidableEq, Repr

/-- statements of adder/single/dag_service.go -/
inductive SOp where
  | forceRecursive            -- `opts.Mode = api.PinModeRecursive`
  | retNew                    -- `return &DAGService{rpcClient: rpc, dests: nil, pinOpts: opts, local: local}`
  | allocate                  -- `dests, err := adder.BlockAllocate(ctx, dgs.rpcClient, dgs.pinOpts)`
  | retIfErr                  -- `if err != nil { return err }`
  | storeDests                -- `dgs.dests = dests`
  | ifLocal (thn els : BA)    -- `if dgs.local { dgs.ba = … } else { dgs.ba = … }`
  | retPut                    -- `return dgs.ba.Add(ctx, node)`
  | mkPin                     -- `rootPin := api.PinWithOpts(root, dgs.pinOpts)`
  | allocsFromDests           -- `rootPin.Allocations = dgs.dests`
  | resetDests                -- `dgs.dests = nil`
  | retPin                    -- `return root, adder.Pin(ctx, dgs.rpcClient, rootPin)`
  | other
  deriving DecidableEq, Repr

/-- the guard of the allocation block in `Add` -/
inductive Guard where
  | destsNil                  -- `dgs.dests == nil`
  | other
  deriving DecidableEq, Repr

structure SingleFlow where
  newOps : List SOp           -- `New`
  guard : Guard               -- `Add`: `if <guard> { guarded }` then `tail`
  guarded : List SOp
  tail : List SOp
  finOps : List SOp           -- `Finalize`
  deriving DecidableEq, Repr

/-- statements of adder/sharding/shard.go (`AddLink`, `Flush`, `Size`, `Limit`) -/
inductive ShOp where
  | linkIndexIsLen | linkNameDecimal | storeLink | sizePlusBlock
  | makeDAG | retIfErr | putNodes | rootIsFirstNode | mkPin | pinName | pinAllocsShard | pinTypeShard
  | ifPrevDefined | pinRefPrev | endIf | depthLit | pinShardSizeIsSize | ifDepthGuard | retPin
  | retCurrentSize | retSizeLimit
  | other
  deriving DecidableEq, Repr

/-- statements of `(*Adder).FromFiles` (adder/adder.go) -/
inductive FOp where
  | setContext | ifCtxErr | retCtxErr | endIf | deferCancel | deferCloseOutput | declFormatter | declErr
  | switchFormat | labelUnixfs | newIpfsAdder | labelCar | newCarAdder | labelDefault | errBadFormat | endSwitch
  | ifErr | retErr | ifWrap | wrapInDir | entries | declRoot | forEntries | selectOpen | caseCtxDone | caseDefault
  | addEntry | endSelect | ifCar | breakLoop | endFor | ifItErr | retItErr | finalize | retRoot
  | other
  deriving DecidableEq, Repr

end CV.C13.Flow
