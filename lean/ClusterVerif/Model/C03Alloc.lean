/-
C03 (round 8) — the shipped allocators, the allocator call of `obtainAllocations` and the preparation of a re-pin
request (`repinFromPeer` / `vacatePeer`, cluster.go) as STRUCTURES the translator regenerates from the Go AST
(`Gen.ascShape`, `Gen.descShape`, `Gen.allocatorCallGroups`, `Gen.repinShape`), and the interpreters the theorems of
`Props/C03.lean` speak about. Core Lean only.

* `AllocShape.concat calls`: `Allocate` returns the concatenation, in order, of `util.SortNumeric(<map parameter>, <reverse>)`
  results. The map parameter is identified by its POSITION in the `PinAllocator` interface (`current, candidates, priority`),
  so a signature with swapped names is read as what it does, not as what it says.
* `allocateWith`: `Model/C03.allocate` with the allocator step replaced by the interpretation of a shape, the argument
  order of the `c.allocator.Allocate(...)` call being data too.
* `RepinShape`: does `repinFromPeer` clear the allocations of the pin it re-submits (without that `pin()` never re-allocates),
  is the failed peer the blacklist, is the very pin of the sweep re-submitted, and does `vacatePeer` only re-pin pins
  allocated to the peer.
-/
import ClusterVerif.Model.C03Block
namespace CV.C03
open CV

/-- one of the three metric-map parameters of `PinAllocator.Allocate`, by position -/
inductive Grp where
  | current | candidates | priority
  deriving DecidableEq, Repr

structure SortCall where
  grp : Grp
  reverse : Bool
  deriving DecidableEq, Repr

inductive AllocShape where
  | concat (calls : List SortCall)
  | unknown
  deriving DecidableEq, Repr

def Grp.sel (cur cand pri : List (Nat × MState)) : Grp → List (Nat × MState)
  | .current => cur
  | .candidates => cand
  | .priority => pri

/-- what an allocator of this shape returns on the three metric maps (`none`: shape not understood) -/
def allocatorWith (s : AllocShape) (cur cand pri : List (Nat × MState)) : Option (List Nat) :=
  match s with
  | .concat calls => some (calls.flatMap (fun c => sortNumeric c.reverse (c.grp.sel cur cand pri)))
  | .unknown => none

/-- the metrics of the healthy current holders (`currentValidMetrics`) -/
def curM (i : Input) : List (Nat × MState) :=
  (metrics i).filter (fun p => !i.blacklist.contains p.1 && i.current.contains p.1)

/-- `allocate` with the allocator step interpreted: `call` = which of obtainAllocations' maps is handed to the
    allocator's 1st/2nd/3rd map parameter, `asc`/`desc` = the shape of the configured allocator. An unknown shape or
    call is an error answer (fail-closed: no theorem about today's code goes through). -/
def allocateWith (asc desc : AllocShape) (call : List Grp) (i : Input) : Output :=
  if i.rmin + i.rmax == 0 then .err
  else if i.rmin < 0 && i.rmax < 0 then .ok []
  else
    let cur := curIds i
    let nCur : Int := cur.length
    let needed := i.rmin - nCur
    let wanted := i.rmax - nCur
    if wanted < 0 then
      if nCur + wanted < 0 then .panic else .ok (cur.take (nCur + wanted).toNat)
    else if needed ≤ 0 then .ok i.current
    else if ((priM i).length + (candM i).length : Int) < needed then .err
    else
      match call with
      | [a, b, c] =>
        let arg (g : Grp) := g.sel (curM i) (candM i) (priM i)
        match allocatorWith (if i.desc then desc else asc) (arg a) (arg b) (arg c) with
        | some final =>
          if (final.length : Int) < needed then .err
          else .ok (cur ++ final.take (min wanted.toNat final.length))
        | none => .err
      | _ => .err

/-! ### the re-pin request -/

structure RepinShape where
  clearsAllocations : Bool     -- `pin.Allocations = nil` before the call
  blacklistFailed : Bool       -- `c.pin(ctx, pin, []peer.ID{p})` with p the failed peer
  pinsGivenPin : Bool          -- the pin handed to c.pin is the function's pin parameter
  vacateGuard : Bool           -- vacatePeer: `if containsPeer(pin.Allocations, p) { c.repinFromPeer(ctx, p, pin) }`
  deriving DecidableEq, Repr

/-- the (pin, blacklist) that `repinFromPeer(failed, pin)` hands to `Cluster.pin`, under a shape -/
def repinRequest (s : RepinShape) (failed : Nat) (pin : Pin) : Pin × List Nat :=
  ({ pin with allocs := if s.clearsAllocations then [] else pin.allocs },
   if s.blacklistFailed then [failed] else [])

/-- `repinFromPeer` as a call on the pinset, under a shape (`chosen`: what allocate() answered) -/
def repinWith (s : RepinShape) (cfg : C04.Cfg) (pre : PinMap) (failed : Nat) (pin : Pin) (chosen : List Nat) : C04.Out :=
  C04.pinOp cfg pre (repinRequest s failed pin).1 (repinRequest s failed pin).2 chosen

/-- does `vacatePeer` re-pin this pin -/
def vacates (s : RepinShape) (failed : Nat) (pin : Pin) : Bool :=
  if s.vacateGuard then pin.allocs.contains failed else true

/-! ### whole sequences: pin, pin again with a changed option, a holder fails and its pins are vacated -/

/-- the input allocate() sees when a CID stored with `stored` holders is re-allocated (`bl`: excluded peers) -/
def reallocInput (i : Input) (stored bl : List Nat) : Input := { i with current := stored, blacklist := bl }

/-- replace the monitor's state of one peer -/
def setState (peers : List (Nat × MState)) (p : Nat) (s : MState) : List (Nat × MState) :=
  peers.map (fun q => if q.1 == p then (q.1, s) else q)

end CV.C03
