/-
C01 — the shutdown snapshot of `consensus/raft/raft.go` (round 8).

`Consensus.Shutdown(ctx)` → `raftWrapper.Shutdown(ctx)`: `rw.cancel()`, `snapshotOnShutdown()`, then
`rw.raft.Shutdown()` and `rw.boltdb.Close()`. `snapshotOnShutdown` waits (at most 5 s, `WaitForUpdates`)
until Raft has applied everything in its log and then asks Raft for a snapshot; when the wait fails it
"snapshots anyway". What `raft.OfflineState` / `LastStateRaw` (state export, `SnapshotSave`) read later is the
NEWEST snapshot in the data folder and nothing else — the log suffix is not replayed offline. So everything
a peer applied reaches an offline reader only through this snapshot: it has to be taken whatever context the
caller shuts down with (an application that cancels its root context and then calls Shutdown is the normal case).

The code is a function of a SHAPE regenerated from the source by `harness/extract_c01shut` (go/ast):
* `called`             — `Shutdown` calls `rw.snapshotOnShutdown(...)` unconditionally, before `rw.raft.Shutdown()`
* `waitFromBackground` — the context handed to `WaitForUpdates` is `context.WithTimeout(context.Background(), …)`:
                          the context of `Shutdown` cannot end the wait
* `arm`                — which errors of `WaitForUpdates` take the "timed out, snapshot anyway" arm:
                          any (`err != nil`), only `context.DeadlineExceeded`, or no such arm
* `armSnapshots`       — that arm is `return rw.Snapshot()`
* `snapshotAfterWait`  — after a successful wait `err = rw.Snapshot()`
* `offlineNewest`      — `latestSnapshot` opens `snapMetas[0]` (FileSnapshotStore.List: newest first)
and of the context `Shutdown` is called with. The driver interprets the EXTRACTED shape (`Gen.shape`): an edit
that makes the snapshot depend on the caller's context changes what the model does for `…dc` tokens.
Core Lean only.
-/
import ClusterVerif.Model.C01
namespace CV.C01.Shut
open CV CV.C01

/-- the context `Consensus.Shutdown` is called with -/
inductive Ctx where
  | live        -- context.Background() or any context that is not done
  | deadline    -- a context with a deadline that has not passed
  | expired     -- a context whose deadline has passed (Err() = DeadlineExceeded)
  | cancelled   -- a context that was cancelled before the call (Err() = Canceled)
  deriving DecidableEq, Repr

inductive TimeoutArm where
  | anyErr | deadlineOnly | absent
  deriving DecidableEq, Repr

structure Shape where
  recognised : Bool
  called : Bool
  waitFromBackground : Bool
  arm : TimeoutArm
  armSnapshots : Bool
  snapshotAfterWait : Bool
  offlineNewest : Bool
  deriving DecidableEq, Repr

/-- raft.go as it is -/
def expected : Shape :=
  { recognised := true, called := true, waitFromBackground := true, arm := .anyErr, armSnapshots := true,
    snapshotAfterWait := true, offlineNewest := true }

inductive WaitRes where
  | synced | deadlineExceeded | cancelled
  deriving DecidableEq, Repr

/-- `WaitForUpdates(wctx)`: `select { case <-wctx.Done(): return wctx.Err(); default: applied == last ? nil : sleep }`.
    `caughtUp` = Raft has applied its whole log (always so on a quiescent node). -/
def waitResult (sh : Shape) (ctx : Ctx) (caughtUp : Bool) : WaitRes :=
  match (if sh.waitFromBackground then Ctx.live else ctx) with
  | .cancelled => .cancelled
  | .expired => .deadlineExceeded
  | _ => if caughtUp then .synced else .deadlineExceeded

/-- does `raftWrapper.Shutdown(ctx)` ask Raft for a snapshot before it stops Raft? -/
def takesSnapshot (sh : Shape) (ctx : Ctx) (caughtUp : Bool) : Bool :=
  sh.recognised && sh.called &&
  (match waitResult sh ctx caughtUp, sh.arm with
   | .synced, _ => sh.snapshotAfterWait
   | .deadlineExceeded, .absent => sh.snapshotAfterWait
   | .deadlineExceeded, _ => sh.armSnapshots
   | .cancelled, .anyErr => sh.armSnapshots
   | .cancelled, .deadlineOnly => false            -- every other error is returned: no snapshot
   | .cancelled, .absent => sh.snapshotAfterWait)

/-- the replica event a `Shutdown(ctx)` is: the model's `shutdown` (snapshot if the FSM allows, then down) or,
    without the snapshot, what is left on disk is what a `kill` leaves -/
def shutEv (sh : Shape) (ctx : Ctx) (caughtUp : Bool) : Ev :=
  if takesSnapshot sh ctx caughtUp then .shutdown else .kill

/-- the seeded edit of round 8: the wait is bound to the caller's context and only a timeout snapshots anyway -/
def ctxBound : Shape := { expected with waitFromBackground := false, arm := .deadlineOnly }

/-- one of its two sites alone -/
def ctxBoundWaitOnly : Shape := { expected with waitFromBackground := false }
def deadlineOnlyArm : Shape := { expected with arm := .deadlineOnly }

/-- invariant of every reachable replica that the shutdown theorems need: no stored snapshot (and no
    pending one) is labelled beyond what the peer's Raft applied, and a peer whose FSM was never
    initialized has no snapshot at all -/
def snapBound (r : Replica) : Prop :=
  (∀ s ∈ r.snaps, s.idx ≤ r.applied) ∧ (∀ k, r.pending = some k → k ≤ r.applied) ∧
  (r.initialized = false → r.snaps = [] ∧ r.pending = none)

end CV.C01.Shut
