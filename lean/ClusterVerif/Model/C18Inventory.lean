/-
C18 (round 8b) — inventory of synchronisation fields (core Lean only).

`Gen.syncFields` (harness/extract_c18) lists EVERY struct field of the analysed packages whose type is a type of package `sync`
(also behind a pointer, also embedded), with a flag "is the designated mutex of some guard of the discipline L".
`inventoryOK` demands that every such field is either designated (then the lockset table speaks about what it guards) or
in the REVIEWED list below with the reason why it guards no field; and that the reviewed list has no stale entry.
A mutex (or any other `sync` object) added to a struct of the anchored packages therefore fails an obligation until somebody
says what it guards: the lock table cannot silently miss a new lock.
-/
namespace CV.C18

/-- owner `pkg|Type`, field, kind (`Mutex`, `RWMutex`, `WaitGroup`, `Map`, …), designated? -/
abbrev SyncField := String × String × String × Bool

/-- synchronisation fields that are deliberately NOT the mutex of a guard, with the review:
* `Cluster.paMux` — serialises `PeerAdd` calls (held across the whole call); guards no field. Its nested acquisitions are in the
  lock-order graph like those of every mutex (the extractor records `Lock` calls on any mutex-typed field);
* `Cluster.wg` — the wait group of the life-cycle model (`progC…`, wg 0);
* `stateless.Tracker.wg` — never `Add`ed; `Shutdown`'s `wg.Wait()` is in `progA` / `progT` (wg 0);
* `crdt.Consensus.trustedPeers` — a `sync.Map` (its own synchronisation). -/
def reviewedSyncFields : List (String × String) :=
  [(".|Cluster", "paMux"), (".|Cluster", "wg"), ("pintracker/stateless|Tracker", "wg"), ("consensus/crdt|Consensus", "trustedPeers")]

def isMutexKind (k : String) : Bool := k == "Mutex" || k == "RWMutex"

/-- every field designated or reviewed; only mutexes can be designated; no stale review -/
def inventoryOK (fs : List SyncField) (reviewed : List (String × String)) : Bool :=
  fs.all (fun f => (f.2.2.2 && isMutexKind f.2.2.1) || (!f.2.2.2 && reviewed.contains (f.1, f.2.1))) &&
  reviewed.all (fun r => fs.any (fun f => f.1 == r.1 && f.2.1 == r.2 && !f.2.2.2))

/-- the mutexes of the inventory that guard something -/
def designatedMutexes (fs : List SyncField) : List (String × String) :=
  (fs.filter (fun f => f.2.2.2)).map (fun f => (f.1, f.2.1))

end CV.C18
