/-
C04 — model of Cluster.Pin / PinPath / PinUpdate / Unpin / UnpinPath and the
RPC pin entry (cluster.go: pin, setupPin, setupReplicationFactor, checkPinType,
Unpin, unpinClusterDag, cidsFromMetaPin, PinUpdate) over the pinset of
Model/Pin.lean. Allocation is delegated to the C03 model: `step` receives the
allocation the implementation chose (`chosen`) and reports the C03 input it
must be admissible for. Core Lean only.
-/
import ClusterVerif.Model.Pin
import ClusterVerif.Model.C03
namespace CV.C04
open CV

structure Cfg where
  follower : Bool
  defMin : Int
  defMax : Int
  desc : Bool                          -- allocator strategy
  peers : List (Nat × C03.MState)      -- monitor's view of each peer
  paths : List (Nat × Nat)             -- IPFS path id ↦ cid (absent: resolve fails)
  blocks : List (Nat × List Nat)       -- cid ↦ links of the cluster-DAG block (absent: BlockGet fails)
  lost : List (Nat × List Nat) := []   -- cluster-DAG blocks that exist as content but cannot be fetched (BlockGet
                                       -- fails): invisible to the code and to the model, known to the property
  deriving Repr

inductive Op where
  | pin (c : Nat) (o : Opts)
  | pinPath (path : Nat) (o : Opts)
  | update (src dst : Nat) (o : Opts)
  | unpin (c : Nat)
  | unpinPath (path : Nat)
  | rpcPin (p : Pin)                   -- Cluster.Pin RPC entry: any type, preset allocations
  deriving Repr

inductive LogEntry where
  | logPin (p : Pin)
  | logUnpin (c : Nat)
  deriving DecidableEq, Repr

structure Out where
  res : Option Pin                     -- none = error
  post : PinMap
  log : List LogEntry
  alloc : Option C03.Input := none     -- allocate() was consulted with this input and returned `chosen`
  deriving Repr

def lookup {α} (l : List (Nat × α)) (k : Nat) : Option α := (l.find? (fun q => q.1 == k)).map (·.2)

/-- multiset equality of two peer lists (sorted joins compared in Go) -/
def sameMultiset (a b : List Nat) : Bool := a.length == b.length && a.isPerm b

/-- `PinOptions.Equals` (api/types.go), as of the current tree -/
def optsEquals (a b : Opts) : Bool :=
  a.name == b.name && a.mode == b.mode && a.rmax == b.rmax && a.rmin == b.rmin && a.shard == b.shard &&
  sameMultiset a.ualloc b.ualloc && a.expire == b.expire &&
  a.metadata.all (fun kv => kv.1 == 0 || lookup b.metadata kv.1 == some kv.2) &&
  b.metadata.all (fun kv => kv.1 == 0 || (lookup a.metadata kv.1).isSome) &&
  a.origins.length == b.origins.length &&
  a.origins.all b.origins.contains && b.origins.all a.origins.contains

/-- `checkPinType` -/
def checkPinType (p : Pin) : Bool :=
  match p.type with
  | .dataT => p.ref.isNone
  | .shardT => p.depth == 1
  | .clusterDagT => p.depth == 0 && p.ref.isSome
  | .metaT => p.allocs.isEmpty && p.ref.isSome
  | .badT => false

def err (pre : PinMap) : Out := { res := none, post := pre, log := [] }

def logPin (pre : PinMap) (p : Pin) : Out :=
  { res := some p, post := PinMap.put p.stored pre, log := [.logPin p] }

/-- the pin `PinUpdate` logs: the source with the new cid, the update source recorded,
    name / expiry taken from the options when given -/
def updPin (e : Pin) (src dst : Nat) (o : Opts) : Pin :=
  let e1 : Pin := { e with cid := dst, opts := { e.opts with update := some src } }
  let e2 : Pin := if o.name != 0 then { e1 with opts := { e1.opts with name := o.name } } else e1
  if o.expire.afterNow then { e2 with opts := { e2.opts with expire := o.expire } } else e2

/-- `Cluster.PinUpdate` -/
def pinUpdate (cfg : Cfg) (pre : PinMap) (src dst : Nat) (o : Opts) : Out :=
  if cfg.follower then err pre else
  match pre.get src with
  | none => err pre
  | some e => if e.type != .dataT then err pre else logPin pre (updPin e src dst o)

def effRmin (cfg : Cfg) (p : Pin) : Int := if p.opts.rmin == 0 then cfg.defMin else p.opts.rmin
def effRmax (cfg : Cfg) (p : Pin) : Int := if p.opts.rmax == 0 then cfg.defMax else p.opts.rmax

/-- `setupReplicationFactor`: defaults substituted; allocations dropped when pinning everywhere -/
def setupFactors (cfg : Cfg) (p : Pin) : Pin :=
  let p1 : Pin := { p with opts := { p.opts with rmin := effRmin cfg p, rmax := effRmax cfg p } }
  if effRmin cfg p == -1 && effRmax cfg p == -1 then { p1 with allocs := [] } else p1

/-- the checks `setupPin` makes against an existing entry -/
def typeOk (existing : Option Pin) (p : Pin) : Bool :=
  match existing with
  | none => true
  | some e => e.type == p.type && !(e.opts.mode == .recursive && p.opts.mode != .recursive) && checkPinType p

/-- "we did not change any options and the pin exists": re-submit what there is -/
def keepOrNew (existing : Option Pin) (p : Pin) (blacklist : List Nat) : Pin :=
  match existing with
  | some e => if optsEquals p.opts e.opts && blacklist.isEmpty then e else p
  | none => p

def allocIn (cfg : Cfg) (existing : Option Pin) (p : Pin) (blacklist : List Nat) : C03.Input :=
  { desc := cfg.desc, rmin := p.opts.rmin, rmax := p.opts.rmax, peers := cfg.peers,
    current := (existing.map (·.allocs)).getD [], blacklist := blacklist, priority := p.opts.ualloc }

/-- the body of `pin()` after the follower and pin-update branches -/
def pinBody (cfg : Cfg) (pre : PinMap) (p : Pin) (blacklist : List Nat) (chosen : List Nat) : Out :=
  let existing := pre.get p.cid
  let p2 := setupFactors cfg p
  if !C03.factorsValid (effRmin cfg p) (effRmax cfg p) then err pre else
  if p2.opts.expire.beforeNow then err pre else
  if !typeOk existing p2 then err pre else
  if p2.type == .metaT then logPin pre p2 else
  let p3 := keepOrNew existing p2 blacklist
  if p3.allocs.isEmpty then
    match C03.allocate (allocIn cfg existing p3 blacklist) with
    | .ok _ => { logPin pre { p3 with allocs := chosen } with alloc := some (allocIn cfg existing p3 blacklist) }
    | _ => { err pre with alloc := some (allocIn cfg existing p3 blacklist) }
  else logPin pre p3

/-- `Cluster.pin(ctx, pin, blacklist)` with the allocation the implementation chose -/
def pinOp (cfg : Cfg) (pre : PinMap) (p : Pin) (blacklist : List Nat) (chosen : List Nat) : Out :=
  if cfg.follower then err pre else
  match (if blacklist.isEmpty then p.opts.update else none) with
  | some u => if u != p.cid then pinUpdate cfg pre u p.cid p.opts else pinBody cfg pre p blacklist chosen
  | none => pinBody cfg pre p blacklist chosen

/-- `Cluster.Unpin` -/
def unpinOp (cfg : Cfg) (pre : PinMap) (c : Nat) : Out :=
  if cfg.follower then err pre else
  match pre.get c with
  | none => err pre
  | some p =>
    match p.type with
    | .dataT => { res := some p, post := pre.erase c, log := [.logUnpin c] }
    | .metaT =>
      match p.ref with
      | none => err pre
      | some r =>
        match pre.get r, lookup cfg.blocks r with
        | some _, some links =>
          let cids := links.reverse ++ [r, c]
          { res := some p, post := (cids ++ [c]).foldl PinMap.erase pre, log := (cids ++ [c]).map .logUnpin }
        | _, _ => err pre
    | _ => err pre

def step (cfg : Cfg) (pre : PinMap) (op : Op) (chosen : List Nat) : Out :=
  match op with
  | .pin c o => pinOp cfg pre (pinWithOpts c o) [] chosen
  | .pinPath path o =>
    match lookup cfg.paths path with
    | some c => pinOp cfg pre (pinWithOpts c o) [] chosen
    | none => err pre
  | .update src dst o => pinUpdate cfg pre src dst o
  | .unpin c => unpinOp cfg pre c
  | .unpinPath path =>
    match lookup cfg.paths path with
    | some c => unpinOp cfg pre c
    | none => err pre
  | .rpcPin p => pinOp cfg pre p [] chosen

end CV.C04
