/-!
# C08 — api/util.go: the peer-ID string helpers

`PeersToStrings` / `StringsToPeers` (used for `user-allocations` in the query form, by the REST client and the
ctl tool). A peer ID is its index in the harness's naming table (`none` = the empty `peer.ID("")`); a string is
classified by what `peer.Decode` makes of it. Core Lean only.
-/
namespace CV.C08.Util

/-- a string handed to `peer.Decode` -/
inductive SItem where
  | b58 (n : Nat)   -- `peer.Encode(p_n)`: base58 multihash, the form `PeersToStrings` writes
  | cid (n : Nat)   -- the CIDv1 (libp2p-key) text of the same peer: `peer.Decode` accepts it too
  | empty           -- ""
  | junk            -- anything `peer.Decode` refuses (not base58, not a multihash, leading space …)
  deriving DecidableEq, Repr

/-- `PeersToStrings`: one string per peer, the empty ID becomes "" (the `p != ""` guard) -/
def peersToStrings (ps : List (Option Nat)) : List SItem :=
  ps.map fun p => match p with | some n => .b58 n | none => .empty

/-- `peer.Decode` -/
def decodePeer : SItem → Option Nat
  | .b58 n => some n
  | .cid n => some n
  | .empty => none
  | .junk => none

/-- `StringsToPeers`: entries that do not decode are skipped (logged at debug level), order kept -/
def stringsToPeers (ss : List SItem) : List Nat := ss.filterMap decodePeer

end CV.C08.Util
