import ClusterVerif.Model.C02Hooks
/-!
# C02 round 8c (core Lean only): who writes which (key, value) pairs; the dsstate key namespace

**(W) well-formed writers.** `State.Add(pin)` writes `Put(key(pin.Cid), ProtoMarshal(pin))`: a cid key and a
decodable value carrying the key's cid; `State.Rm(c)` deletes `key(c)`. `wfKV` / `wfDelta` say that a pair / a delta
is one such a writer produces. The theorems (Props/C02.lean, section `Writers`) show that every store reachable by
local LogPin/LogUnpin histories and merges of deltas written by peers running this code holds only `wfKV` entries,
and every hook fired on the way is `wfHook` — the hypothesis of the round-8b hook theorems.

**(N) key namespace** of `dsstate.State` (state/dsstate/datastore.go): `key(c) = namespace.Child(cidToDsKey(c))`,
`unkey(k) = dsKeyToCid(NewKey(k.BaseNamespace()))` — ONLY THE LAST component of the key is looked at —, `List` =
`Query{Prefix: namespace.String()}`, entries whose key does not un-key or whose value does not decode are skipped.
consensus/crdt builds the state with namespace `""` on top of the crdt datastore, which itself lives under
`cfg.DatastoreNamespace` (`/c`) of the peer's store: `crdt.New(store, ds.NewKey(ns), …)`; go-ds-crdt keeps
`/c/s/<key>/<id>` (elements) `/c/t/…` (tombstones) `/c/k/<key>/{v,p}` (value, priority) `/c/h/…` (heads) there,
and its `Query` answers with the USER keys (`<key>`), so the state layer never sees the inner layout.
-/
namespace CV.C02.Hk

/-! ## (W) well-formed writers -/

/-- the pair is one `State.Add` writes: cid key, decodable value carrying the key's cid -/
def wfKV (enc : Enc) (k : Key) (v : Val) : Bool := wfHook enc (.put k v)

/-- the key is one `State.Add/Rm` address: a cid key -/
def wfKey (enc : Enc) (k : Key) : Bool := wfHook enc (.del k)

/-- a delta as a peer running this code writes it (every element a `State.Add` pair, every tombstone on a cid key) -/
def wfDelta (enc : Enc) (d : Delta) : Bool :=
  d.elems.all (fun e => wfKV enc e.1 e.2) && d.tombs.all (fun t => wfKey enc t.1)

/-- an operation as `LogPin` / `LogUnpin` hand it to the crdt datastore -/
def wfOp (enc : Enc) : BOp → Bool
  | .put k v => wfKV enc k v
  | .del k => wfKey enc k

/-- every stored (key, value) is a `State.Add` pair; every element / tombstone sits on a cid key -/
def wfRep (enc : Enc) (r : Rep) : Bool :=
  r.vals.all (fun e => wfKV enc e.1 e.2.2) && r.elems.all (fun e => wfKey enc e.1) && r.tombs.all (fun e => wfKey enc e.1)

def wfPend (enc : Enc) (p : Pend) : Bool :=
  p.elems.all (fun e => wfKV enc e.1 e.2) && p.tombs.all (fun t => wfKey enc t.1)

/-- hooks fired while merging `l` in list order -/
def mergeAllHooks : List Delta → Rep → List Hook
  | [], _ => []
  | d :: l, r => (r.merge d).2 ++ mergeAllHooks l (r.merge d).1

/-- the canonical reading: model key `k` is the cid key of cid `k`; model value `v` is the pin of cid `v / 1000`
    with content `v % 1000` (so `State.Add` of (cid c, content n < 1000) is the pair `(c, c * 1000 + n)`) -/
def encStd : Enc := { key := .cidKey, val := fun v => .pin (some (v / 1000)) (v % 1000) }

/-! ## (N) key namespace -/

/-- one component of a datastore key -/
inductive Comp where
  | cid (c : Nat)        -- `cidToDsKey(c)` (base32 of the cid bytes)
  | notBinary (n : Nat)  -- not base32
  | notCid (n : Nat)     -- base32 of bytes `cid.Cast` rejects
  | name (s : Nat)       -- any other name (also base32-undecodable in practice; kept apart for prefixes)
  deriving DecidableEq, Repr

/-- a datastore key = its components (`/a/b/c`) -/
abbrev DsKey := List Comp

/-- `State.key` -/
def stKey (ns : DsKey) (c : Nat) : DsKey := ns ++ [.cid c]

/-- `State.unkey`: `BaseNamespace()` = the last component only -/
def unkey (k : DsKey) : Option Nat :=
  match k.getLast? with
  | some (.cid c) => some c
  | _ => none

/-- `Query{Prefix: ns}` on a component-wise datastore (go-ds-crdt: `set.Elements` strips its own prefix and hands
    every user key to the query filters; the key-prefix filter of go-datastore compares STRINGS — for the empty
    namespace the crdt consensus uses every key passes) -/
def underPrefix (ns k : DsKey) : Bool := ns.isPrefixOf k

abbrev KStore := List (DsKey × RVal)

/-- `State.List` -/
def stList (ns : DsKey) (s : KStore) : List (Nat × Nat) :=
  (s.filter (fun e => underPrefix ns e.1)).filterMap (fun e =>
    match unkey e.1, e.2 with
    | some c, .pin _ n => some (c, n)
    | _, _ => none)

/-- `State.Get` / `State.Has`: reads `key(c)` only -/
def stGet (ns : DsKey) (s : KStore) (c : Nat) : Option Nat :=
  match s.lookup (stKey ns c) with
  | some (.pin _ n) => some n
  | _ => none

/-- `DeleteHook` on a full key: `BinaryFromDsKey(k)` decodes the WHOLE key string (minus the leading `/`) as base32:
    any key of more than one component fails (the `/` is not base32) -/
def delHookK : DsKey → List Call
  | [.cid c] => [.untrack c]
  | _ => []

/-- a store written only by `State.Add` / `State.Rm` of a state with namespace `ns` -/
def kstoreWf (ns : DsKey) (s : KStore) : Bool :=
  s.all (fun e => match unkey e.1, e.2 with
    | some c, .pin (some c') _ => e.1 == stKey ns c && c == c'
    | _, _ => false)

/-- the underlying-store key of a user key of the crdt datastore: `/<crdt ns>/k/<key>/v` (value entry) -/
def crdtValueKey (crdtNs : DsKey) (k : DsKey) : DsKey := crdtNs ++ [.name 0] ++ k ++ [.name 1]

end CV.C02.Hk
