/-
C18 (round 8c) — "never tears results", model level (core Lean only).

A guarded value with several fields (a `PinInfo`, a `Metric`, an alert list …) behind ONE mutex. Small-step machine over events:
`lock t` / `unlock t` (mutex semantics), `wr t i v` (thread `t` writes field `i`; ENABLED ONLY WHILE `t` HOLDS THE MUTEX — that is
the discipline the lockset table establishes for every designated field: `gen_table_disciplined`), `rd t i` (a read, any time).
`held_frame`: while a getter holds the mutex, no step of anybody else changes the value — so a getter that copies all fields inside
ONE critical section returns exactly the value present when it acquired the mutex (`copy_under_lock_whole`), which is a value some
writer left there at an `unlock` (or the initial one): whole, provided writers finish a value before they unlock (`Whole` is kept by
every writer critical section: hypothesis `hinv`, the writers' side of the discipline). The getters this applies to are the ones the
regenerated escape table classifies `copy` / `value` (`gen_escapes_copied`, `gen_copy_getters_present` in Props).
`tornTrace`: the alternative — a getter reading the fields without the mutex — returns a value nobody ever stored.
-/
namespace CV.C18.Torn

inductive Ev
  | lock (t : Nat) | unlock (t : Nat) | wr (t i v : Nat) | rd (t i : Nat)
  deriving DecidableEq, Repr

structure TS where
  cell : List Nat
  holder : Option Nat
  deriving DecidableEq, Repr

def step (s : TS) : Ev → Option TS
  | .lock t => if s.holder = none then some { s with holder := some t } else none
  | .unlock t => if s.holder = some t then some { s with holder := none } else none
  | .wr t i v => if s.holder = some t then some { s with cell := s.cell.set i v } else none
  | .rd _ _ => some s

def run (s : TS) : List Ev → Option TS
  | [] => some s
  | e :: es => match step s e with
    | none => none
    | some s' => run s' es

/-- the values thread `g` reads during `evs` (field index, value seen) -/
def readsOf (g : Nat) (s : TS) : List Ev → List (Nat × Nat)
  | [] => []
  | e :: es => match step s e with
    | none => []
    | some s' => (match e with
        | .rd t i => if t = g then [(i, s.cell.getD i 0)] else []
        | _ => []) ++ readsOf g s' es

/-- `g` neither unlocks nor writes in `evs` (a getter inside its critical section) -/
def quiet (g : Nat) : List Ev → Bool
  | [] => true
  | .unlock t :: es => t != g && quiet g es
  | .wr t _ _ :: es => t != g && quiet g es
  | _ :: es => quiet g es

/-- FRAME: while `g` holds the mutex and does not itself write or unlock, every accepted continuation leaves the value unchanged and
the mutex with `g`, and everything `g` reads is a field of that one value -/
theorem held_frame (g : Nat) : ∀ (evs : List Ev) (s s' : TS), s.holder = some g → quiet g evs = true → run s evs = some s' →
    s'.cell = s.cell ∧ s'.holder = some g ∧ ∀ p ∈ readsOf g s evs, p.2 = s.cell.getD p.1 0 := by
  intro evs
  induction evs with
  | nil => intro s s' _ _ hr; simp only [run, Option.some.injEq] at hr; subst hr; exact ⟨rfl, ‹_›, by simp [readsOf]⟩
  | cons e es ih =>
    intro s s' hh hq hr
    cases e with
    | lock t => simp [run, step, hh] at hr
    | unlock t =>
      have hne : t ≠ g := by simp [quiet] at hq; exact hq.1
      have : s.holder ≠ some t := by rw [hh]; intro h; exact hne (Option.some.inj h).symm
      simp [run, step, this] at hr
    | wr t i v =>
      have hne : t ≠ g := by simp [quiet] at hq; exact hq.1
      have : s.holder ≠ some t := by rw [hh]; intro h; exact hne (Option.some.inj h).symm
      simp [run, step, this] at hr
    | rd t i =>
      have hq' : quiet g es = true := by simpa [quiet] using hq
      have hr' : run s es = some s' := by simpa [run, step] using hr
      obtain ⟨h1, h2, h3⟩ := ih s s' hh hq' hr'
      refine ⟨h1, h2, ?_⟩
      intro p hp
      simp only [readsOf, step, List.mem_append] at hp
      rcases hp with hp | hp
      · by_cases htg : t = g
        · simp [htg] at hp; subst hp; rfl
        · simp [htg] at hp
      · exact h3 p hp

/-- COPY UNDER THE LOCK: a getter `lock g ; … ; unlock g` (inside: reads only, by anybody, and attempts of others) returns fields of
ONE value — the value of the state in which it acquired the mutex; if every unlocked state carries a `Whole` value, that value is whole -/
theorem copy_under_lock_whole (Whole : List Nat → Prop) (g : Nat) (s s' : TS) (evs : List Ev)
    (hfree : s.holder = none) (hinv : Whole s.cell) (hq : quiet g evs = true)
    (hr : run s (.lock g :: evs) = some s') :
    Whole s'.cell ∧ ∀ p ∈ readsOf g { s with holder := some g } evs, p.2 = s.cell.getD p.1 0 := by
  have hr' : run { s with holder := some g } evs = some s' := by simpa [run, step, hfree] using hr
  obtain ⟨h1, _, h3⟩ := held_frame g evs { s with holder := some g } s' rfl hq hr'
  exact ⟨by rw [h1]; exact hinv, h3⟩

/-- a writer storing the whole value [1,1] over [0,0] in one critical section, and a getter (thread 2) that reads both fields WITHOUT
the mutex in between: it returns (0 ↦ 1, 1 ↦ 0) — a value nobody stored -/
def tornTrace : List Ev := [.lock 1, .wr 1 0 1, .rd 2 0, .rd 2 1, .wr 1 1 1, .unlock 1]

theorem unlocked_getter_tears :
    (run ⟨[0, 0], none⟩ tornTrace).isSome = true ∧ readsOf 2 ⟨[0, 0], none⟩ tornTrace = [(0, 1), (1, 0)] := by decide

/-- the same getter with the mutex cannot be scheduled there: the trace is not an execution -/
example : run ⟨[0, 0], none⟩ [.lock 1, .wr 1 0 1, .lock 2, .rd 2 0, .rd 2 1, .unlock 2, .wr 1 1 1, .unlock 1] = none := by decide

/-- the hypotheses of `copy_under_lock_whole` on a concrete run: the getter 2 copies [1,1] while writer 1 is kept out -/
example : run ⟨[1, 1], none⟩ [.lock 2, .rd 2 0, .rd 3 1, .rd 2 1] = some ⟨[1, 1], some 2⟩ ∧
    quiet 2 [.rd 2 0, .rd 3 1, .rd 2 1] = true ∧ readsOf 2 ⟨[1, 1], some 2⟩ [.rd 2 0, .rd 3 1, .rd 2 1] = [(0, 1), (1, 1)] := by decide

end CV.C18.Torn
