/-
C17 — failure arms of Consensus.AddPeer / RmPeer / redirectToLeader in the correspondence.

* `redirectT` / `consLoopT`: the loops of `Model/C17.lean` with the trace of attempts they make
  (forwarded to the leader or executed here as leader; did the leader perform it; did its answer arrive).
  `consLoopT_eq` (Lemmas/C17Fault.lean): same result and log as `consLoop`.
* fault scripts (`FOp`, `fStep`, `fAllowed`): what harness suite `fault` does to three real Raft peers — the
  leader's RPC endpoint refuses (`f`) the first forwarded requests, or executes them and answers with an
  error (`l`, lost reply); at the leader `f` = the Raft call fails (hashicorp/raft refuses the request).
  The oracle of a step is built from its plan; attempts beyond the plan are healthy.
* concurrent phases (`CPhase`): operations issued at the same time from different members; the single log orders
  them somehow: the model admits an observation iff SOME order of the phase explains it.
Core Lean only.
-/
import ClusterVerif.Model.C17
namespace CV.C17
open CV

/-- one attempt of a call -/
structure Att where
  fwd : Bool        -- forwarded to the leader over RPC (else: the Raft call made here, as leader)
  executed : Bool   -- the leader performed the call
  answered : Bool   -- the caller received the attempt's own result
  res : Res         -- that result (what raftWrapper returned on the leader)
  deriving DecidableEq, Repr

/-- the caller saw this attempt succeed -/
def Att.ackOk (a : Att) : Bool := a.answered && a.res == .ok

def redirectT (self : Nat) (att : Attempt) (orc : Nat → Tick) :
    Nat → Nat → List Entry → (Redir × Nat × List Entry) × List Att
  | 0, pos, log => ((.failed, pos, log), [])
  | n+1, pos, log =>
    match (orc pos).leader with
    | none => ((.noLeader, pos + 1, log), [])
    | some l =>
      if l == self then ((.leading, pos, log), [])
      else
        let r := att (cfgAt log) true
        let log' := if (orc pos).ok || (orc pos).lost then log ++ r.2 else log
        let a : Att := { fwd := true, executed := (orc pos).ok || (orc pos).lost, answered := (orc pos).ok, res := r.1 }
        if (orc pos).ok && r.1 == .ok then ((.done, pos + 1, log'), [a])
        else ((redirectT self att orc n (pos + 1) log').1, a :: (redirectT self att orc n (pos + 1) log').2)

def consLoopT (self retries : Nat) (att : Attempt) (orc : Nat → Tick) :
    Nat → Nat → List Entry → (Res × List Entry) × List Att
  | 0, _, log => ((.err, log), [])
  | n+1, pos, log =>
    match redirectT self att orc (retries + 1) pos log with
    | ((.noLeader, _, log'), tr) => ((.err, log'), tr)
    | ((.done, _, log'), tr) => ((.ok, log'), tr)
    | ((.failed, _, log'), tr) => ((.err, log'), tr)
    | ((.leading, pos', log'), tr) =>
      let r := att (cfgAt log') (orc pos').ok
      let a : Att := { fwd := false, executed := true, answered := true, res := r.1 }
      if r.1 == .ok then ((.ok, log' ++ r.2), tr ++ [a])
      else ((consLoopT self retries att orc n (pos' + 1) log').1,
            tr ++ a :: (consLoopT self retries att orc n (pos' + 1) log').2)

def fwdCount (tr : List Att) : Nat := (tr.filter (·.fwd)).length
def locCount (tr : List Att) : Nat := (tr.filter (fun a => !a.fwd)).length

/-! ### fault scripts -/
inductive PT where
  | f   -- the attempt fails without effect
  | l   -- forwarded, executed by the leader, the answer is an error
  | x   -- the caller leads when it looks, but has lost the leadership when it makes its Raft call: the call fails
        -- (ErrNotLeader); from then on `lead` leads
  deriving DecidableEq, Repr

/-- which of the other running members list the subject peer after the step -/
inductive Has where
  | all | none | mixed
  deriving DecidableEq, Repr

/-- the oracle a plan stands for: `lead` leads (after an `x`: the caller led until then); attempts beyond the plan are healthy -/
def planOrc (self lead : Nat) (plan : List PT) : Nat → Tick := fun k =>
  match plan[k]? with
  | some .f => { leader := some lead, ok := false, lost := false }
  | some .l => { leader := some lead, ok := false, lost := true }
  | some .x => { leader := some self, ok := false, lost := false }
  | none => { leader := some lead, ok := true, lost := false }

inductive FOp where
  | add (at_ j lead : Nat) (plan : List PT) (res : Res) (fwd loc : Nat) (has : Has)
  | rm (at_ j lead : Nat) (plan : List PT) (res : Res) (fwd loc : Nat) (has : Has)
  | pin (at_ : Nat) (p : Pin)
  deriving Repr

structure FCase where
  retries : Nat
  init : List Nat
  ops : List FOp
  obs : Obs

def modelHas (log : List Entry) (j : Nat) : Has := if cfgHas (cfgAt log) j then .all else .none

/-- caller and leader are running servers of the current configuration -/
def fPlaced (init : List Nat) (log : List Entry) (a lead : Nat) : Bool :=
  init.contains a && init.contains lead && cfgHas (cfgAt log) a && cfgHas (cfgAt log) lead

/-- has an earlier attempt of the plan been executed by the leader (a lost reply)? -/
def executedBefore (plan : List PT) (k : Nat) : Bool := (plan.take k).contains .l

/-- removing ONESELF through a lost reply: the caller's Raft instance shuts down when it learns of its removal
    (it may or may not learn in time): from then on it finds no leader -/
def goneOrc (self lead : Nat) (plan : List PT) : Nat → Tick := fun k =>
  if executedBefore plan k then { leader := none, ok := false, lost := false } else planOrc self lead plan k

/-- removing THE LEADER through a lost reply: somebody else leads afterwards; if that is the caller itself the
    remaining attempts are its own Raft calls -/
def selfLeadsOrc (self lead : Nat) (plan : List PT) : Nat → Tick := fun k =>
  if executedBefore plan k then { leader := some self, ok := true, lost := false } else planOrc self lead plan k

def fCall (retries : Nat) (init : List Nat) (log : List Entry) (att : Attempt) (orc : Nat → Tick) (a j lead : Nat)
    (res : Res) (fwd loc : Nat) (has : Has) : Option (List Entry) :=
  let t := consLoopT a retries att orc (retries + 1) 0 log
  if fPlaced init log a lead && t.1.1 == res && fwdCount t.2 == fwd && locCount t.2 == loc && modelHas t.1.2 j == has
  then some t.1.2 else none

def fCallAny (retries : Nat) (init : List Nat) (log : List Entry) (att : Attempt) (a j lead : Nat)
    (res : Res) (fwd loc : Nat) (has : Has) : List (Nat → Tick) → Option (List Entry)
  | [] => none
  | orc :: rest => match fCall retries init log att orc a j lead res fwd loc has with
    | some l => some l
    | none => fCallAny retries init log att a j lead res fwd loc has rest

/-- the oracles a removal step may have met -/
def rmOrcs (a j lead : Nat) (plan : List PT) : List (Nat → Tick) :=
  [planOrc a lead plan] ++ (if a == j then [goneOrc a lead plan] else []) ++ (if j == lead then [selfLeadsOrc a lead plan] else [])

def fStep (retries : Nat) (init : List Nat) (log : List Entry) : FOp → Option (List Entry)
  | .add a j lead plan res fwd loc has =>
    fCallAny retries init log (rwAddPeer j) a j lead res fwd loc has [planOrc a lead plan]
  | .rm a j lead plan res fwd loc has =>
    fCallAny retries init log (rwRemovePeer j) a j lead res fwd loc has (rmOrcs a j lead plan)
  | .pin a p => if init.contains a && cfgHas (cfgAt log) a then some (log ++ [.pin p]) else none

def fReplay (retries : Nat) (init : List Nat) (log : List Entry) : List FOp → Option (List Entry)
  | [] => some log
  | op :: rest => match fStep retries init log op with
    | some log' => fReplay retries init log' rest
    | none => none

/-- every running server of the final configuration reports that configuration and the replayed pinset -/
def fObsOk (init : List Nat) (log : List Entry) (o : Obs) : Bool :=
  o.members.all (fun m =>
    !(init.contains m.id && cfgHas (cfgAt log) m.id) ||
      (m.peers == cfgIds (cfgAt log) && canonMap m.pins == canonMap (pinsAt log) && m.nonvoters == cfgNonvoters (cfgAt log))) &&
  init.all (fun i => !cfgHas (cfgAt log) i || o.members.any (fun m => m.id == i))

def fAllowed (k : FCase) : Bool :=
  match fReplay k.retries k.init [.boot k.init] k.ops with
  | some log => fObsOk k.init log k.obs
  | none => false

/-! ### concurrent phases

A phase = operations issued at the same instant at different members (each a healthy call); the harness waits for
all of them, then for everybody to catch up. Raft's single log orders them somehow. -/
inductive COp where
  | add (at_ j : Nat) (res : Res)
  | rm (at_ j : Nat) (res : Res)
  | pin (at_ : Nat) (p : Pin) (res : Res)
  | unpin (at_ c : Nat) (res : Res)
  deriving Repr

/-- one operation applied to the log: the logs that explain its outcome at this point of the order (none = impossible).
    An acknowledged call took effect as a healthy attempt does. A failed call of a running server normally left no
    trace, but the single log may still hold its entry (the answer was lost to a leadership change: removing the
    leader while the call is in flight): both are admitted. A caller that is no longer a server may fail. -/
def cApply (running : List Nat) (log : List Entry) (op : COp) : List (List Entry) :=
  let go (a : Nat) (att : Attempt) (res : Res) : List (List Entry) :=
    let r := direct att log
    if !running.contains a then []
    else match res with
      | .ok => if r.1 == .ok then [r.2] else []
      | .err =>
        if r.1 == .ok then [log, r.2]
        else [log]
  match op with
  | .add a j res => go a (rwAddPeer j) res
  | .rm a j res => go a (rwRemovePeer j) res
  | .pin a p res => go a (rwCommit (.pin p)) res
  | .unpin a c res => go a (rwCommit (.unpin c)) res

def cApplyAll (running : List Nat) (logs : List (List Entry)) : List COp → List (List Entry)
  | [] => logs
  | op :: rest => cApplyAll running (logs.flatMap (fun log => cApply running log op)) rest

/-- all ways of picking the operations of a phase one after the other -/
def perms {α : Type} : List α → List (List α)
  | [] => [[]]
  | x :: xs => (perms xs).flatMap (fun p => (List.range (p.length + 1)).map (fun i => p.take i ++ x :: p.drop i))

structure CCase where
  retries : Nat
  init : List Nat
  phases : List (List COp)
  obs : Obs

/-- the logs reachable after the phases: every phase in some order -/
def cLogs (running : List Nat) : List (List Entry) → List (List COp) → List (List Entry)
  | logs, [] => logs
  | logs, ph :: rest =>
    cLogs running ((perms ph).flatMap (fun order => cApplyAll running logs order)) rest

def cAllowed (k : CCase) : Bool :=
  (cLogs (normPeers k.init) [[.boot k.init]] k.phases).any (fun log => fObsOk k.init log k.obs)

/-! ### a joiner during a burst of pins (suite `join`)

`pre` pins are acknowledged one after the other; then `burst` pins are logged one after the other from one member WHILE a
staging peer is started, added (`acked` burst pins had been acknowledged when `AddPeer` was issued) and waited for.
All pins have distinct cids. `ready` = the joiner's pinset at the instant `Ready()` fired. -/
structure JCase where
  init : List Nat
  joiner : Nat
  pre : List Pin
  burst : List Pin
  acked : Nat
  addRes : Res
  bits : Bool × Bool × Bool     -- leader known / voter / applied == last, read when Ready() fired
  ready : PinMap
  obs : Obs

/-- the single log when Raft ordered the joiner's addition after the first `m` pins -/
def jLog (k : JCase) (m : Nat) : List Entry :=
  [.boot k.init] ++ ((k.pre ++ k.burst).take m).map Entry.pin ++ [.addVoter k.joiner] ++ ((k.pre ++ k.burst).drop m).map Entry.pin

/-- the observation is explained by some position `m` of the addition — after everything acknowledged before `AddPeer`
    was issued — and some prefix `h` of the log at which `WaitForSync` let the joiner through -/
def jAllowed (k : JCase) : Bool :=
  let total := (k.pre ++ k.burst).length
  k.addRes == .ok && k.bits.1 && k.bits.2.1 && k.bits.2.2 &&
  (List.range (total + 1)).any (fun m =>
    decide (k.pre.length + k.acked ≤ m) &&
    (List.range (total + 3)).any (fun h =>
      let mem : Member := { id := k.joiner, have_ := h, applied := h }
      syncReady (jLog k m) true mem && canonMap (mem.pins (jLog k m)) == canonMap k.ready) &&
    (k.obs.members.all (fun mo =>
      !(k.joiner :: k.init).contains mo.id ||
        (mo.peers == cfgIds (cfgAt (jLog k m)) && canonMap mo.pins == canonMap (pinsAt (jLog k m)))) &&
     (k.joiner :: k.init).all (fun i => k.obs.members.any (fun mo => mo.id == i))))

end CV.C17
