/-
C17 — failure arms of Consensus.AddPeer / RmPeer / redirectToLeader in the correspondence.

* `redirectT` / `consLoopT`: the loops of `Model/C17.lean` with the trace of attempts they make
  (forwarded to the leader or executed here as leader; did the leader perform it; did its answer arrive).
  `consLoopT_eq` (Lemmas/C17Fault.lean): same result and log as `consLoop`.
* fault scripts (`FOp`, `fStep`, `fAllowed`): what harness suite `fault` does to three real Raft peers — the
  leader's RPC endpoint refuses (`f`) the first forwarded requests, or executes them and answers with an
  error (`l`, lost reply); at the leader `f` = the Raft call fails (hashicorp/raft refuses the request).
  The oracle of a step is built from its plan; attempts beyond the plan are healthy.
* concurrent phases (`CPhase`): operations issued at the same time from different members; the single log orders
  them somehow: the model admits an observation iff SOME order of the phase explains it.
Core Lean only.
-/
import ClusterVerif.Model.C17
namespace CV.C17
open CV

/-- one attempt of a call -/
structure Att where
  fwd : Bool        -- forwarded to the leader over RPC (else: the Raft call made here, as leader)
  executed : Bool   -- the leader performed the call
  answered : Bool   -- the caller received the attempt's own result
  res : Res         -- that result (what raftWrapper returned on the leader)
  deriving DecidableEq, Repr

/-- the caller saw this attempt succeed -/
def Att.ackOk (a : Att) : Bool := a.answered && a.res == .ok

def redirectT (self : Nat) (att : Attempt) (orc : Nat → Tick) :
    Nat → Nat → List Entry → (Redir × Nat × List Entry) × List Att
  | 0, pos, log => ((.failed, pos, log), [])
  | n+1, pos, log =>
    match (orc pos).leader with
    | none => ((.noLeader, pos + 1, log), [])
    | some l =>
      if l == self then ((.leading, pos, log), [])
      else
        let r := att (cfgAt log) true
        let log' := if (orc pos).ok || (orc pos).lost then log ++ r.2 else log
        let a : Att := { fwd := true, executed := (orc pos).ok || (orc pos).lost, answered := (orc pos).ok, res := r.1 }
        if (orc pos).ok && r.1 == .ok then ((.done, pos + 1, log'), [a])
        else ((redirectT self att orc n (pos + 1) log').1, a :: (redirectT self att orc n (pos + 1) log').2)

def consLoopT (self retries : Nat) (att : Attempt) (orc : Nat → Tick) :
    Nat → Nat → List Entry → (Res × List Entry) × List Att
  | 0, _, log => ((.err, log), [])
  | n+1, pos, log =>
    match redirectT self att orc (retries + 1) pos log with
    | ((.noLeader, _, log'), tr) => ((.err, log'), tr)
    | ((.done, _, log'), tr) => ((.ok, log'), tr)
    | ((.failed, _, log'), tr) => ((.err, log'), tr)
    | ((.leading, pos', log'), tr) =>
      let r := att (cfgAt log') (orc pos').ok
      let a : Att := { fwd := false, executed := true, answered := true, res := r.1 }
      if r.1 == .ok then ((.ok, log' ++ r.2), tr ++ [a])
      else ((consLoopT self retries att orc n (pos' + 1) log').1,
            tr ++ a :: (consLoopT self retries att orc n (pos' + 1) log').2)

def fwdCount (tr : List Att) : Nat := (tr.filter (·.fwd)).length
def locCount (tr : List Att) : Nat := (tr.filter (fun a => !a.fwd)).length

/-! ### fault scripts -/
inductive PT where
  | f   -- the attempt fails without effect
  | l   -- forwarded, executed by the leader, the answer is an error
  | x   -- the caller leads when it looks, but has lost the leadership when it makes its Raft call: the call fails
        -- (ErrNotLeader); from then on `lead` leads
  | p   -- partition: the caller leads but is cut off from everybody right before the call; its Raft call appends the
        -- entry to its OWN log only, the future fails (leadership lost), the entry is never committed (the others
        -- elect `lead`, the entry is truncated when the network heals)
  deriving DecidableEq, Repr

/-- which of the other running members list the subject peer after the step -/
inductive Has where
  | all | none | mixed
  deriving DecidableEq, Repr

/-- the oracle a plan stands for: `lead` leads (after an `x`: the caller led until then); attempts beyond the plan are healthy -/
def planOrc (self lead : Nat) (plan : List PT) : Nat → Tick := fun k =>
  match plan[k]? with
  | some .f => { leader := some lead, ok := false, lost := false }
  | some .l => { leader := some lead, ok := false, lost := true }
  | some .x => { leader := some self, ok := false, lost := false }
  | some .p => { leader := some self, ok := false, lost := false }
  | none => { leader := some lead, ok := true, lost := false }

inductive FOp where
  | add (at_ j lead : Nat) (plan : List PT) (res : Res) (fwd loc : Nat) (has : Has)
  | rm (at_ j lead : Nat) (plan : List PT) (res : Res) (fwd loc : Nat) (has : Has)
  | pin (at_ : Nat) (p : Pin)
  deriving Repr

structure FCase where
  retries : Nat
  init : List Nat
  ops : List FOp
  obs : Obs

def modelHas (log : List Entry) (j : Nat) : Has := if cfgHas (cfgAt log) j then .all else .none

/-- caller and leader are running servers of the current configuration -/
def fPlaced (init : List Nat) (log : List Entry) (a lead : Nat) : Bool :=
  init.contains a && init.contains lead && cfgHas (cfgAt log) a && cfgHas (cfgAt log) lead

/-- has an earlier attempt of the plan been executed by the leader (a lost reply)? -/
def executedBefore (plan : List PT) (k : Nat) : Bool := (plan.take k).contains .l

/-- removing ONESELF through a lost reply: the caller's Raft instance shuts down when it learns of its removal
    (it may or may not learn in time): from then on it finds no leader -/
def goneOrc (self lead : Nat) (plan : List PT) : Nat → Tick := fun k =>
  if executedBefore plan k then { leader := none, ok := false, lost := false } else planOrc self lead plan k

/-- removing THE LEADER through a lost reply: from then on every further attempt of the caller meets one of three
    situations — it still believes in the deposed leader, whose endpoint can no longer serve the request (`stale`), it
    reaches the new leader (`fwd`), or it has been elected itself (`self`) -/
inductive After where
  | stale | fwd | self
  deriving DecidableEq, Repr

def afterTick (self lead : Nat) : After → Tick
  | .stale => { leader := some lead, ok := false, lost := false }
  | .fwd => { leader := some lead, ok := true, lost := false }
  | .self => { leader := some self, ok := true, lost := false }

/-- index of the first executed (lost) attempt of a plan -/
def firstExec (plan : List PT) : Nat := (plan.takeWhile (fun t => t != .l)).length

def afterOrc (self lead : Nat) (plan : List PT) (tail : List After) : Nat → Tick := fun k =>
  if executedBefore plan k then afterTick self lead (tail.getD (k - firstExec plan - 1) .fwd) else planOrc self lead plan k

/-- what the (at most three) attempts after the removal may meet -/
def tails : List (List After) :=
  [After.stale, .fwd, .self].flatMap (fun a => [After.stale, .fwd, .self].flatMap (fun b => [After.stale, .fwd, .self].map (fun c => [a, b, c])))

/-- a partitioned caller: after (or instead of) its own failed Raft call it finds no leader until its patience runs
    out, or — healed in time — reaches the new leader at once -/
def xNoneOrc (self : Nat) : Nat → Tick := fun k =>
  if k == 0 then { leader := some self, ok := false, lost := false } else { leader := none, ok := false, lost := false }
def noneOrc : Nat → Tick := fun _ => { leader := none, ok := false, lost := false }
def pExtra (self lead : Nat) (plan : List PT) : List (Nat → Tick) :=
  if plan.contains .p then [xNoneOrc self, noneOrc, planOrc self lead []] else []

def fCall (retries : Nat) (init : List Nat) (log : List Entry) (att : Attempt) (orc : Nat → Tick) (a j lead : Nat)
    (res : Res) (fwd loc : Nat) (has : Has) : Option (List Entry) :=
  let t := consLoopT a retries att orc (retries + 1) 0 log
  if fPlaced init log a lead && t.1.1 == res && fwdCount t.2 == fwd && locCount t.2 == loc && modelHas t.1.2 j == has
  then some t.1.2 else none

def fCallAny (retries : Nat) (init : List Nat) (log : List Entry) (att : Attempt) (a j lead : Nat)
    (res : Res) (fwd loc : Nat) (has : Has) : List (Nat → Tick) → Option (List Entry)
  | [] => none
  | orc :: rest => match fCall retries init log att orc a j lead res fwd loc has with
    | some l => some l
    | none => fCallAny retries init log att a j lead res fwd loc has rest

/-- the oracles a removal step may have met -/
def rmOrcs (a j lead : Nat) (plan : List PT) : List (Nat → Tick) :=
  [planOrc a lead plan] ++ (if a == j then [goneOrc a lead plan] else []) ++ (if j == lead then tails.map (afterOrc a lead plan) else []) ++ pExtra a lead plan

def fStep (retries : Nat) (init : List Nat) (log : List Entry) : FOp → Option (List Entry)
  | .add a j lead plan res fwd loc has =>
    fCallAny retries init log (rwAddPeer j) a j lead res fwd loc has ([planOrc a lead plan] ++ pExtra a lead plan)
  | .rm a j lead plan res fwd loc has =>
    fCallAny retries init log (rwRemovePeer j) a j lead res fwd loc has (rmOrcs a j lead plan)
  | .pin a p => if init.contains a && cfgHas (cfgAt log) a then some (log ++ [.pin p]) else none

def fReplay (retries : Nat) (init : List Nat) (log : List Entry) : List FOp → Option (List Entry)
  | [] => some log
  | op :: rest => match fStep retries init log op with
    | some log' => fReplay retries init log' rest
    | none => none

/-- every running server of the final configuration reports that configuration and the replayed pinset -/
def fObsOk (init : List Nat) (log : List Entry) (o : Obs) : Bool :=
  o.members.all (fun m =>
    !(init.contains m.id && cfgHas (cfgAt log) m.id) ||
      (m.peers == cfgIds (cfgAt log) && canonMap m.pins == canonMap (pinsAt log) && m.nonvoters == cfgNonvoters (cfgAt log))) &&
  init.all (fun i => !cfgHas (cfgAt log) i || o.members.any (fun m => m.id == i))

def fAllowed (k : FCase) : Bool :=
  match fReplay k.retries k.init [.boot k.init] k.ops with
  | some log => fObsOk k.init log k.obs
  | none => false

/-! ### raftWrapper.AddPeer / RemovePeer: what is returned when the Raft future fails

hashicorp/raft keeps two configurations: the COMMITTED one and the LATEST one (the last configuration entry in the
local log, committed or not). `raftWrapper.Peers` (`raft.GetConfiguration`) reads the latest. A leader that is cut off
appends the change to its own log — its latest configuration shows it — and the future fails with "leadership lost";
the entry is truncated when another leader takes over. -/
inductive Fut where
  | ok            -- committed
  | err           -- refused / not leader: nothing was appended
  | errAppended   -- the future failed AFTER the entry was appended locally: latest shows the change, no quorum accepted it
  deriving DecidableEq, Repr

/-- what `rw.Peers()` shows on the caller once the future has returned -/
def latestAfter (c : Config) (e : Entry) : Fut → Config
  | .ok => applyCfg c e
  | .err => c
  | .errAppended => applyCfg c e

/-- `raftWrapper.AddPeer` over the committed configuration `c`, returning what reaches the committed log.
    `recheck = false` is the code: a future error is returned as an error. `recheck = true` is the refuted alternative
    (seeded change C17e): on a future error re-read `rw.Peers()` and return nil when it already shows the peer. -/
def rwAddPeerW (recheck : Bool) (p : Nat) (c : Config) (fut : Fut) : Res × List Entry :=
  if cfgHas c p then (.ok, [])
  else if fut == .ok && raftAccepts c (.addVoter p) then (.ok, [.addVoter p])
  else if recheck && fut != .ok && cfgHas (latestAfter c (.addVoter p) fut) p then (.ok, [])
  else (.err, [])

def rwRemovePeerW (recheck : Bool) (p : Nat) (c : Config) (fut : Fut) : Res × List Entry :=
  if !cfgHas c p then (.ok, [])
  else if (cfgIds c).length == 1 && (cfgIds c).head? == some p then (.err, [])
  else if fut == .ok && raftAccepts c (.rmServer p) then (.ok, [.rmServer p])
  else if recheck && fut != .ok && !cfgHas (latestAfter c (.rmServer p) fut) p then (.ok, [])
  else (.err, [])

/-! ### concurrent phases

A phase = operations issued at the same instant at different members (each a healthy call); the harness waits for
all of them, then for everybody to catch up. Raft's single log orders them somehow. -/
inductive COp where
  | add (at_ j : Nat) (res : Res)
  | rm (at_ j : Nat) (res : Res)
  | pin (at_ : Nat) (p : Pin) (res : Res)
  | unpin (at_ c : Nat) (res : Res)
  deriving Repr

/-- one operation applied to the log: the logs that explain its outcome at this point of the order (none = impossible).
    An acknowledged call took effect as a healthy attempt does. In a phase that removes no running peer (`unstable = false`)
    a call issued at a server of the configuration has exactly the outcome of a healthy attempt. Otherwise — the
    leadership may move while the call is in flight, or the caller is no longer a server — a call may also fail, and a
    failed call may or may not have left its entry in the single log (the answer was lost to the leadership change). -/
def cApply (running : List Nat) (unstable : Bool) (log : List Entry) (op : COp) : List (List Entry) :=
  let go (a : Nat) (att : Attempt) (res : Res) : List (List Entry) :=
    let r := direct att log
    if !running.contains a then []
    else if cfgHas (cfgAt log) a && !unstable then (if r.1 == res then [r.2] else [])
    else match res with
      | .ok => if r.1 == .ok then [r.2] else []
      | .err =>
        if r.1 == .ok then [log, r.2]
        else [log]
  match op with
  | .add a j res => go a (rwAddPeer j) res
  | .rm a j res => go a (rwRemovePeer j) res
  | .pin a p res => go a (rwCommit (.pin p)) res
  | .unpin a c res => go a (rwCommit (.unpin c)) res

/-- only the state a log stands for matters from one phase to the next: one representative per (configuration, pinset) -/
def dedupLogs : List (List Entry) → List (List Entry)
  | [] => []
  | l :: rest =>
    let r := dedupLogs rest
    if r.any (fun l' => cfgAt l' == cfgAt l && pinsAt l' == pinsAt l) then r else l :: r

def cApplyAll (running : List Nat) (unstable : Bool) (logs : List (List Entry)) : List COp → List (List Entry)
  | [] => logs
  | op :: rest => cApplyAll running unstable (dedupLogs (logs.flatMap (fun log => cApply running unstable log op))) rest

/-- the phase removes a running peer (possibly the leader): leadership may move while its calls are in flight -/
def removesRunning (running : List Nat) (ph : List COp) : Bool :=
  ph.any (fun o => match o with | .rm _ j _ => running.contains j | _ => false)

/-- all ways of picking the operations of a phase one after the other -/
def perms {α : Type} : List α → List (List α)
  | [] => [[]]
  | x :: xs => (perms xs).flatMap (fun p => (List.range (p.length + 1)).map (fun i => p.take i ++ x :: p.drop i))

structure CCase where
  retries : Nat
  init : List Nat
  phases : List (List COp)
  obs : Obs

/-- the logs reachable after the phases: every phase in some order -/
def cLogs (running : List Nat) : List (List Entry) → List (List COp) → List (List Entry)
  | logs, [] => logs
  | logs, ph :: rest =>
    cLogs running (dedupLogs ((perms ph).flatMap (fun order => cApplyAll running (removesRunning running ph) logs order))) rest

def cAllowed (k : CCase) : Bool :=
  (cLogs (normPeers k.init) [[.boot k.init]] k.phases).any (fun log => fObsOk k.init log k.obs)

/-! ### a joiner during a burst of pins (suite `join`)

`pre` pins are acknowledged one after the other; then `burst` pins are logged one after the other from one member WHILE a
staging peer is started, added (`acked` burst pins had been acknowledged when `AddPeer` was issued) and waited for.
All pins have distinct cids. `ready` = the joiner's pinset at the instant `Ready()` fired. -/
structure JCase where
  init : List Nat
  joiner : Nat
  pre : List Pin
  burst : List Pin
  acked : Nat
  addRes : Res
  bits : Bool × Bool × Bool     -- leader known / voter / applied == last, read when Ready() fired
  ready : PinMap
  obs : Obs

/-- the single log when Raft ordered the joiner's addition after the first `m` pins -/
def jLog (k : JCase) (m : Nat) : List Entry :=
  [.boot k.init] ++ ((k.pre ++ k.burst).take m).map Entry.pin ++ [.addVoter k.joiner] ++ ((k.pre ++ k.burst).drop m).map Entry.pin

/-- the observation is explained by some position `m` of the addition — after everything acknowledged before `AddPeer`
    was issued — and some prefix `h` of the log at which `WaitForSync` let the joiner through -/
def jAllowed (k : JCase) : Bool :=
  let total := (k.pre ++ k.burst).length
  k.addRes == .ok && k.bits.1 && k.bits.2.1 && k.bits.2.2 &&
  (List.range (total + 1)).any (fun m =>
    decide (k.pre.length + k.acked ≤ m) &&
    (List.range (total + 3)).any (fun h =>
      let mem : Member := { id := k.joiner, have_ := h, applied := h }
      syncReady (jLog k m) true mem && canonMap (mem.pins (jLog k m)) == canonMap k.ready) &&
    (k.obs.members.all (fun mo =>
      !(k.joiner :: k.init).contains mo.id ||
        (mo.peers == cfgIds (cfgAt (jLog k m)) && canonMap mo.pins == canonMap (pinsAt (jLog k m)))) &&
     (k.joiner :: k.init).all (fun i => k.obs.members.any (fun mo => mo.id == i))))

end CV.C17
