/-
C03 (round 8b) — three more pieces of the anchored code as STRUCTURES the translator regenerates from the Go AST and the
model interprets. Core Lean only.

* `BlockShape` (`Gen.blockShape`): `ClusterRPCAPI.BlockAllocate` (rpc_api.go) statement by statement: the prologue
  (follower guard, `PinGet` tolerating only ErrNotFound, `setupPin`), which request field the "everywhere" guard tests,
  which metric the everywhere arm reads, and WHICH ARGUMENT goes to which parameter of `c.allocate(...)`.
  `blockAllocateWith` interprets it (`none` = shape not understood: fail-closed).
* `Wiring` (`Gen.wiring`): which informer and which allocator `cmd/ipfs-cluster-service/daemon.go: createCluster` builds
  and hands to `NewCluster` (informer LIST, in order), which element of `c.informers` `allocate()` asks the monitor
  about, the default metric of the disk informer and what its `GetMetric` computes for it.
* `History`: a whole history of metric changes, peerset changes, pins, re-pins and vacated peers over many CIDs, each
  allocation decision recorded with the input AT THE TIME IT WAS MADE.
-/
import ClusterVerif.Model.C03Alloc
import ClusterVerif.Spec.C03
namespace CV.C03
open CV

/-! ### BlockAllocate as a structure -/

/-- an argument expression of the `c.allocate(...)` call in BlockAllocate -/
inductive BArg where
  | ctx | cid | existing | nilPin | rmin | rmax | emptyPeers | ualloc | other
  deriving DecidableEq, Repr

/-- the metric name handed to `monitor.LatestMetrics` -/
inductive MetricSrc where
  | ping                      -- `pingMetricName`
  | informer (idx : Nat)      -- `c.informers[idx].Name()`
  | other
  deriving DecidableEq, Repr

structure BlockShape where
  /-- statements 1–5 are exactly: `if FollowerMode { return errFollowerMode }`, `existing, err := PinGet(ctx, in.Cid)`,
      `if err != nil && err != state.ErrNotFound { return err }`, `err = setupPin(ctx, in, existing)`, `if err != nil { return err }` -/
  prologue : Bool
  /-- the request field the everywhere guard compares `< 0` -/
  everywhereField : BArg
  everywhereMetric : MetricSrc
  /-- the everywhere arm returns exactly the `.Peer` of every returned metric, in order -/
  everywhereCopiesPeers : Bool
  /-- the arguments of `rpcapi.c.allocate(...)`, in order -/
  allocArgs : List BArg
  /-- `if err != nil { return err }; *out = allocs; return nil` -/
  returnsAllocs : Bool
  /-- nothing else in the body (a short-cut, an extra guard, a second call ⇒ false) -/
  noOtherStatements : Bool
  deriving DecidableEq, Repr

def BArg.int (p2 : Pin) : BArg → Option Int
  | .rmin => some p2.opts.rmin
  | .rmax => some p2.opts.rmax
  | _ => none

def BArg.pinArg (existing : Option Pin) : BArg → Option (Option Pin)
  | .existing => some existing
  | .nilPin => some none
  | _ => none

def BArg.peerList (p2 : Pin) : BArg → Option (List Nat)
  | .emptyPeers => some []
  | .ualloc => some p2.opts.ualloc
  | _ => none

/-- the interpretation. `metricPeers src` = the peers of `LatestMetrics(<src>)`, in order. -/
def blockAllocateWith (s : BlockShape) (cfg : C04.Cfg) (pre : PinMap) (undef : Bool) (p : Pin)
    (metricPeers : MetricSrc → List Nat) (chosen : List Nat) : Option BlockRes :=
  if !(s.prologue && s.everywhereCopiesPeers && s.returnsAllocs && s.noOtherStatements) then none else
  match s.allocArgs with
  | [.ctx, .cid, aCur, aMin, aMax, aBl, aPri] =>
    let existing := if undef then none else pre.get p.cid
    let p2 := C04.setupFactors cfg p
    match s.everywhereField.int p2, aCur.pinArg existing, aMin.int p2, aMax.int p2, aBl.peerList p2, aPri.peerList p2 with
    | some ev, some cur, some mn, some mx, some bl, some pri => some (
      if cfg.follower then { out := .err } else
      if !factorsValid (C04.effRmin cfg p) (C04.effRmax cfg p) then { out := .err } else
      if p2.opts.expire.beforeNow then { out := .err } else
      if !C04.typeOk existing p2 then { out := .err } else
      if ev < 0 then { out := .ok (metricPeers s.everywhereMetric) } else
      let ai : Input := { desc := cfg.desc, rmin := mn, rmax := mx, peers := cfg.peers,
                          current := (cur.map (·.allocs)).getD [], blacklist := bl, priority := pri }
      match allocate ai with
      | .ok _ => { out := .ok chosen, alloc := some ai }
      | _ => { out := .err, alloc := some ai })
    | _, _, _, _, _, _ => none
  | _ => none

/-- today's shape (what `Gen.blockShape` must be for the theorems to go through) -/
def blockShapeToday : BlockShape :=
  { prologue := true, everywhereField := .rmin, everywhereMetric := .ping, everywhereCopiesPeers := true,
    allocArgs := [.ctx, .cid, .existing, .rmin, .rmax, .emptyPeers, .ualloc], returnsAllocs := true, noOtherStatements := true }

/-! ### daemon wiring: informer ↔ allocator, and which informer's metric allocate() reads -/

inductive InformerKind where
  | disk | numpin | other
  deriving DecidableEq, Repr

inductive AllocKind where
  | ascend | descend | other
  deriving DecidableEq, Repr

inductive DiskMetric where
  | freespace | reposize | other
  deriving DecidableEq, Repr

structure Wiring where
  /-- `informer, err := <pkg>.NewInformer(...)` in createCluster -/
  informerBuilt : InformerKind
  /-- `alloc := <pkg>.NewAllocator()` -/
  allocatorBuilt : AllocKind
  /-- the `[]ipfscluster.Informer{…}` argument of NewCluster, in order (`informer` resolved to what was built) -/
  informersArg : List InformerKind
  /-- the allocator argument of NewCluster resolved likewise -/
  allocatorArg : AllocKind
  /-- allocate(): `c.monitor.LatestMetrics(ctx, c.informers[k].Name())` ⇒ `.informer k` -/
  allocateMetric : MetricSrc
  /-- disk.DefaultMetricType -/
  diskDefault : DiskMetric
  /-- disk.GetMetric, case MetricFreeSpace: `total - size` when `size < total`, else 0 (more free ⇒ larger value) -/
  diskFreeIsTotalMinusSize : Bool
  /-- disk.GetMetric, case MetricRepoSize: `RepoSize` (more used ⇒ larger value) -/
  diskRepoIsSize : Bool
  deriving DecidableEq, Repr

/-- what a LARGER value of the metric means for the peer's load (`none`: not understood) -/
def largerMeansLessLoaded (w : Wiring) (k : InformerKind) (d : DiskMetric) : Option Bool :=
  match k, d with
  | .disk, .freespace => if w.diskFreeIsTotalMinusSize then some true else none
  | .disk, .reposize => if w.diskRepoIsSize then some false else none
  | .numpin, _ => some false
  | _, _ => none

def AllocKind.desc : AllocKind → Option Bool
  | .ascend => some false
  | .descend => some true
  | .other => none

/-- the informer whose metric decides allocations under this wiring -/
def Wiring.allocationInformer (w : Wiring) : Option InformerKind :=
  match w.allocateMetric with
  | .informer k => w.informersArg[k]?
  | _ => none

/-- "least loaded first": the configured allocator ranks FIRST the peers the allocation informer reports as less loaded -/
def Wiring.leastLoadedFirst (w : Wiring) (d : DiskMetric) : Bool :=
  match w.allocationInformer, w.allocatorArg.desc with
  | some k, some desc => largerMeansLessLoaded w k d == some desc
  | _, _ => false

/-! ### whole histories -/

/-- one step of a cluster history, as far as allocations are concerned. Choices Go leaves open (`out`) are data. -/
inductive HOp where
  /-- the monitor's view changes arbitrarily: new metrics arrive, metrics expire, peers join or leave -/
  | setPeers (peers : List (Nat × MState))
  /-- the operator switches the allocation strategy (restart with another allocator) -/
  | setStrategy (desc : Bool)
  /-- a pin / re-pin / add decision for `cid`: factors, exclusion list, user allocations; `out` = what allocate() answered -/
  | decide (cid : Nat) (rmin rmax : Int) (blacklist priority : List Nat) (out : Output)
  /-- re-pin of `cid` away from `failed` (repinFromPeer): exclusion list `[failed]`, no user allocations -/
  | repin (cid : Nat) (rmin rmax : Int) (failed : Nat) (out : Output)
  /-- the pin is removed -/
  | unpin (cid : Nat)
  deriving Repr

structure HState where
  desc : Bool
  peers : List (Nat × MState)
  stored : List (Nat × List Nat)       -- cid ↦ stored allocation list (first entry wins)
  log : List (Input × Output)          -- every decision, newest first, with the input at the time it was made
  deriving Repr

def HState.allocsOf (s : HState) (cid : Nat) : List Nat := ((s.stored.find? (·.1 == cid)).map (·.2)).getD []

def HState.inputFor (s : HState) (cid : Nat) (rmin rmax : Int) (bl pri : List Nat) : Input :=
  { desc := s.desc, rmin := rmin, rmax := rmax, peers := s.peers, current := s.allocsOf cid, blacklist := bl, priority := pri }

/-- a decision is stored only when it succeeded ("if the request fails nothing changes") -/
def HState.record (s : HState) (cid : Nat) (i : Input) (o : Output) : HState :=
  match o with
  | .ok l => { s with stored := (cid, l) :: s.stored.filter (·.1 != cid), log := (i, o) :: s.log }
  | _ => { s with log := (i, o) :: s.log }

def hstep (s : HState) : HOp → HState
  | .setPeers ps => { s with peers := ps }
  | .setStrategy d => { s with desc := d }
  | .decide cid rmin rmax bl pri out => s.record cid (s.inputFor cid rmin rmax bl pri) out
  | .repin cid rmin rmax f out => s.record cid (s.inputFor cid rmin rmax [f] []) out
  | .unpin cid => { s with stored := s.stored.filter (·.1 != cid) }

def hrun (s : HState) (ops : List HOp) : HState := ops.foldl hstep s

/-- the history only contains answers the model of allocate() admits, and the monitor never lists a peer twice -/
def hAdmitted : HState → List HOp → Bool
  | _, [] => true
  | s, op :: rest =>
    (match op with
     | .setPeers ps => decide (ps.map (·.1)).Nodup
     | .decide cid rmin rmax bl pri out => allowed (s.inputFor cid rmin rmax bl pri) out
     | .repin cid rmin rmax f out => allowed (s.inputFor cid rmin rmax [f] []) out
     | _ => true) && hAdmitted (hstep s op) rest

/-- the invariant of a history: one monitor entry per peer; every decision ever made satisfied the property on the input
    at the time it was made; every stored allocation list is the answer of such a decision -/
def HInv (s : HState) : Prop :=
  (s.peers.map (·.1)).Nodup ∧ (∀ io ∈ s.log, holds io.1 io.2 = true) ∧
  (∀ cl ∈ s.stored, ∃ i, (i, Output.ok cl.2) ∈ s.log)


end CV.C03
