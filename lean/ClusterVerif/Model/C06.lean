/-!
# C06 model — the two status views of the stateless pin tracker and the
cluster-wide status maps

Executable model (core Lean only) of

* `pintracker/stateless/stateless.go`: `Status`, `StatusAll`, `localStatus`,
  `ipfsStatusAll` (two `PinLs` calls, "direct" and "recursive", kept per mode);
* `pintracker/optracker`: `Operation.ToTrackerStatus`, and the life cycle that
  decides which operations are still in the tracker's table (`Clean` after
  `PhaseDone`);
* `api/types.go`: the `TrackerStatus` bit mask, `Match`, the composite filters,
  `IPFSPinStatus.ToTrackerStatus`, `Pin.IsRemotePin`, `IsPinEverywhere`,
  `PinDepth.ToPinMode`; the way the IPFS connector answers `PinLsCid(pin)`
  (`pin/ls?arg=<cid>&type=<mode of the pin>`) and `PinLs(type)`;
* `cluster.go`: `globalPinInfoCid`, `globalPinInfoSlice`, `setTrackerStatus`,
  `GlobalPinInfo.Add`, `peersSubtract`.

Go maps are modelled as finite functions over the *universe* of the case (the
list of records, one per CID, in increasing CID order); a listing is the
enumeration of the map over that universe, i.e. the canonical (sorted) form the
harness prints.
-/
namespace CV.C06

/-! ## TrackerStatus (api/types.go:52-84): `1 << iota` starting at iota = 1 -/

def stUndefined : Nat := 0
def stClusterError : Nat := 2
def stPinError : Nat := 4
def stUnpinError : Nat := 8
def stPinned : Nat := 16
def stPinning : Nat := 32
def stUnpinning : Nat := 64
def stUnpinned : Nat := 128
def stRemote : Nat := 256
def stPinQueued : Nat := 512
def stUnpinQueued : Nat := 1024
def stSharded : Nat := 2048
def stUnexpectedlyUnpinned : Nat := 4096

/-- `TrackerStatusError` -/
def stError : Nat := stClusterError ||| stPinError ||| stUnpinError
/-- `TrackerStatusQueued` -/
def stQueued : Nat := stPinQueued ||| stUnpinQueued

/-- the twelve named single-bit values, in declaration order -/
def namedStatuses : List Nat :=
  [stClusterError, stPinError, stUnpinError, stPinned, stPinning, stUnpinning, stUnpinned,
   stRemote, stPinQueued, stUnpinQueued, stSharded, stUnexpectedlyUnpinned]

/-- `func (st TrackerStatus) Match(filter TrackerStatus) bool` -/
def matchF (st filter : Nat) : Bool :=
  filter == 0 || st == 0 || (st &&& filter) > 0

/-- the mask `localStatus` tests before listing the pinset -/
def maskState : Nat := stPinned ||| stUnexpectedlyUnpinned ||| stSharded ||| stRemote
/-- the mask `localStatus` tests before asking IPFS -/
def maskIpfs : Nat := stPinned ||| stUnexpectedlyUnpinned

/-! ## IPFS pin status (api/types.go) -/

inductive IpfsStatus where
  | bug | error | direct | recursive | indirect | unpinned
  deriving DecidableEq, Repr

/-- `ipfsPinStatus2TrackerStatusMap` -/
def ipfsToTracker : IpfsStatus → Nat
  | .direct => stPinned
  | .recursive => stPinned
  | .indirect => stUnpinned
  | .unpinned => stUnpinned
  | .bug => stUndefined
  | .error => stClusterError

/-- what the daemon holds for a CID -/
inductive Ipfs where
  | unpinned | direct | recursive | indirect
  deriving DecidableEq, Repr

/-! ## Pins of the shared pinset -/

structure Pin where
  isMeta : Bool          -- Type == MetaType
  rmin : Int             -- ReplicationFactorMin
  rmax : Int             -- ReplicationFactorMax
  allocs : List Nat      -- Allocations (peer indices)
  depth : Int            -- MaxDepth: -1 recursive, 0 direct
  deriving DecidableEq, Repr

/-- `Pin.IsPinEverywhere` -/
def Pin.everywhere (p : Pin) : Bool := p.rmin == -1 && p.rmax == -1

/-- `Pin.IsRemotePin(pid)` -/
def Pin.isRemote (p : Pin) (self : Nat) : Bool :=
  if p.everywhere then false else !(p.allocs.contains self)

/-- `PinDepth.ToPinMode() == PinModeDirect` (any depth other than 0 is recursive) -/
def Pin.direct (p : Pin) : Bool := p.depth == 0

/-- `IPFSConnector.PinLsCid(pin)`: `pin/ls?arg=<cid>&type=<recursive|direct>`.
The daemon answers with the pin when it holds one of the requested type;
anything else is "not pinned" (`indirect` is passed through: the tracker maps it
to unpinned as well). -/
def pinLsCid (p : Pin) (held : Ipfs) : IpfsStatus :=
  match held with
  | .indirect => .indirect
  | .direct => if p.direct then .direct else .unpinned
  | .recursive => if p.direct then .unpinned else .recursive
  | .unpinned => .unpinned

/-- `IPFSConnector.PinLs(type)`: the entry for one CID of the answer to
`pin/ls?type=direct` / `type=recursive`. -/
def pinLs (direct : Bool) (held : Ipfs) : Option IpfsStatus :=
  match held, direct with
  | .direct, true => some .direct
  | .recursive, false => some .recursive
  | _, _ => none

/-- `ipfsStatusAll`: one listing per pin mode (`PinLs("direct")`,
`PinLs("recursive")`); `localStatus` looks a pin up in the listing of its own
mode: `localpis[p.MaxDepth.ToPinMode()][p.Cid]`. -/
def ipfsListing (direct : Bool) (held : Ipfs) : Option IpfsStatus := pinLs direct held

/-! ## Operations (pintracker/optracker) -/

inductive OpType where
  | pin | unpin | remote
  deriving DecidableEq, Repr

inductive Phase where
  | error | queued | inProgress | done
  deriving DecidableEq, Repr

/-- the last operation the tracker was asked to perform on a CID and the phase
it is in now (`done` = it succeeded) -/
structure Op where
  typ : OpType
  phase : Phase
  deriving DecidableEq, Repr

/-- `Operation.ToTrackerStatus` -/
def opStatus (o : Op) : Nat :=
  match o.typ, o.phase with
  | .pin, .error => stPinError
  | .pin, .queued => stPinQueued
  | .pin, .inProgress => stPinning
  | .pin, .done => stPinned
  | .unpin, .error => stUnpinError
  | .unpin, .queued => stUnpinQueued
  | .unpin, .inProgress => stUnpinning
  | .unpin, .done => stUnpinned
  | .remote, _ => stRemote

/-! ## One record per CID, and the input of a tracker case -/

structure Rec where
  cid : Nat
  pin : Option Pin     -- entry of the shared pinset, if any
  ipfs : Ipfs          -- what the daemon holds
  op : Option Op       -- last operation on this CID, if any since start
  deriving DecidableEq, Repr

structure Input where
  self : Nat           -- this peer
  ipfsUp : Bool        -- the daemon answers `pin/ls` (false: every query fails)
  recs : List Rec
  deriving Repr

/-- The operation tracker's table: an operation that reached `PhaseDone` is
removed (`opWorker`/`Track` call `Clean`), every other one stays
(`GetExists`/`GetAll`). -/
def opEntry (r : Rec) : Option Nat :=
  match r.op with
  | none => none
  | some o => if o.phase == .done then none else some (opStatus o)

/-- `Tracker.Status(cid)` -/
def status (i : Input) (r : Rec) : Nat :=
  match opEntry r with
  | some s => s                                   -- optracker.GetExists
  | none =>
    match r.pin with
    | none => stUnpinned                          -- state.ErrNotFound
    | some p =>
      if p.isMeta then stSharded
      else if p.isRemote i.self then stRemote
      else if !i.ipfsUp then stClusterError       -- addError
      else
        let t := ipfsToTracker (pinLsCid p r.ipfs)
        if t == stUnpinned then stPinError        -- "unexpectedly unpinned" text, PinError status
        else t

/-- does `localStatus` list the pinset for this filter -/
def wantState (f : Nat) : Bool := matchF f maskState
/-- does `localStatus` ask IPFS for this filter -/
def wantIpfs (f : Nat) : Bool := matchF f maskIpfs

/-- `localStatus(incExtra, filter)`: the value stored under this CID in the
returned map (`none`: no key). -/
def localEntry (i : Input) (incExtra : Bool) (f : Nat) (r : Rec) : Option Nat :=
  if !wantState f then none                       -- statePins stays empty
  else
    match r.pin with
    | none => none                                -- not in the pinset: never visited
    | some p =>
      if p.isMeta then
        if !incExtra || !matchF f stSharded then none else some stSharded
      else if p.isRemote i.self then
        if !incExtra || !matchF f stRemote then none else some stRemote
      else
        match (if wantIpfs f then ipfsListing p.direct r.ipfs else none) with
        | some ips => some (ipfsToTracker ips)    -- case pinnedInIpfs
        | none => some stUnexpectedlyUnpinned     -- default

/-- `StatusAll(filter)`: the value for this CID after the operation table was
written over the local map and the last `Match` was applied. When the daemon
does not answer and the filter needs it, `localStatus` fails and `StatusAll`
returns nil. -/
def listEntry (i : Input) (f : Nat) (r : Rec) : Option Nat :=
  if wantIpfs f && !i.ipfsUp then none
  else
    let e := match opEntry r with
      | some s => some s
      | none => localEntry i true f r
    e.filter (fun s => matchF s f)

/-- `StatusAll(filter)` in canonical order -/
def statusAll (i : Input) (f : Nat) : List (Nat × Nat) :=
  i.recs.filterMap (fun r => (listEntry i f r).map (fun s => (r.cid, s)))

/-- `Status` of every CID of the universe -/
def statusEach (i : Input) : List (Nat × Nat) :=
  i.recs.map (fun r => (r.cid, status i r))

/-- strictly increasing CIDs: the universe is a set and the order is canonical -/
def sortedCids : List Rec → Bool
  | [] => true
  | [_] => true
  | a :: b :: t => decide (a.cid < b.cid) && sortedCids (b :: t)

def wf (i : Input) : Bool := sortedCids i.recs

/-! ## Cluster-wide views (cluster.go) -/

/-- answer of one destination peer to a broadcast call -/
inductive Reply (α : Type) where
  | ok (v : α)     -- the peer answered
  | err            -- could not be contacted / answered an error
  | auth           -- refused: gorpc authorization error
  deriving Repr

/-- `GlobalPinInfo.Add`: `PeerMap[peer] = info` -/
def gAdd (m : List (Nat × Nat)) (p st : Nat) : List (Nat × Nat) :=
  if m.any (fun e => e.1 == p) then m.map (fun e => if e.1 == p then (p, st) else e)
  else m ++ [(p, st)]

/-- `setTrackerStatus` -/
def setAll (m : List (Nat × Nat)) (peers : List Nat) (st : Nat) : List (Nat × Nat) :=
  peers.foldl (fun m p => gAdd m p st) m

/-- `peersSubtract` -/
def peersSubtract (a b : List Nat) : List Nat := a.filter (fun p => !b.contains p)

structure GCidInput where
  self : Nat
  follower : Bool
  members : List Nat                          -- consensus.Peers
  pin : Option Pin                            -- PinGet
  replies : List (Nat × Reply Nat)            -- what each peer answers to PinTracker.Status
  deriving Repr

/-- reply of a destination; a peer that is not in the table cannot be reached -/
def replyOf {α : Type} (t : List (Nat × Reply α)) (p : Nat) : Reply α :=
  match t.find? (fun e => e.1 == p) with
  | some e => e.2
  | none => .err

/-- the destinations and the un-allocated peers of `globalPinInfoCid` -/
def destsOf (i : GCidInput) (pin : Pin) : List Nat × List Nat :=
  if i.follower then ([i.self], [])
  else if !pin.everywhere then (pin.allocs, peersSubtract i.members pin.allocs)
  else (i.members, [])

/-- `globalPinInfoCid`: the PeerMap (insertion order of the model; the driver
compares it as a set) -/
def globalCid (i : GCidInput) : List (Nat × Nat) :=
  match i.pin with
  | none => setAll [] (if i.follower then [i.self] else i.members) stUnpinned
  | some pin =>
    let (dests, remote) := destsOf i pin
    let m := setAll [] remote stRemote
    dests.foldl (fun m p =>
      match replyOf i.replies p with
      | .ok st => gAdd m p st
      | .auth => m
      | .err => gAdd m p stClusterError) m

structure GSliceInput where
  self : Nat
  follower : Bool
  members : List Nat
  pins : List (Nat × Pin)                               -- the pinset (facts for the Spec; the code does not read it)
  replies : List (Nat × Reply (List (Nat × Nat)))       -- each peer's StatusAll answer: (cid, status)
  deriving Repr

/-- `setPinInfo` on the `fullMap` -/
def sAdd (m : List (Nat × List (Nat × Nat))) (c p st : Nat) : List (Nat × List (Nat × Nat)) :=
  if m.any (fun e => e.1 == c) then m.map (fun e => if e.1 == c then (c, gAdd e.2 p st) else e)
  else m ++ [(c, gAdd [] p st)]

/-- `globalPinInfoSlice` -/
def globalSlice (i : GSliceInput) : List (Nat × List (Nat × Nat)) :=
  let members := if i.follower then [i.self] else i.members
  let m := members.foldl (fun m p =>
    match replyOf i.replies p with
    | .ok l => l.foldl (fun m e => sAdd m e.1 p e.2) m
    | _ => m) []
  let errored := members.filter (fun p => match replyOf i.replies p with | .err => true | _ => false)
  errored.foldl (fun m p => m.map (fun e => (e.1, gAdd e.2 p stClusterError))) m

/-! ## Round 7: the same views when resources fail, for any daemon answer

`FInput`/`FRec` generalise `Input`/`Rec`: every call the two views make can
fail (`getState`, `State.List` — at once or mid-way, the partial result is
discarded —, `State.Get` of one CID, `PinLs("direct")`, `PinLs("recursive")`,
`PinLsCid` of one CID), and the daemon's answers are arbitrary: what
`IPFSPinStatusFromString` makes of the type string of the CID's entry in each
of the two listings (or no entry) and of the `pin/ls?arg=` answer. -/

/-- `IPFSPinStatusFromString` classes of a type string: prefix "indirect",
prefix "recursive", exactly "direct", anything else (`IPFSPinStatusBug`).
`Gen.fromStringSamples` is regenerated from the linked function. -/
def isPrefixOfChars : List Char → List Char → Bool
  | [], _ => true
  | _ :: _, [] => false
  | a :: as, b :: bs => a == b && isPrefixOfChars as bs

def ipfsFromString (t : String) : IpfsStatus :=
  if isPrefixOfChars "indirect".toList t.toList then .indirect
  else if isPrefixOfChars "recursive".toList t.toList then .recursive
  else if t == "direct" then .direct
  else .bug

/-- `IPFSPinStatus.IsPinned(maxDepth)` -/
def ipfsIsPinned (s : IpfsStatus) (depth : Int) : Bool :=
  if depth < 0 then s == .recursive
  else if depth == 0 then s == .direct
  else s == .recursive

/-- what the connector hands to the tracker about one CID -/
structure DaemonAns where
  lsD : Option IpfsStatus     -- entry of the CID in `PinLs("direct")`, if any
  lsR : Option IpfsStatus     -- entry of the CID in `PinLs("recursive")`, if any
  lsCid : IpfsStatus          -- `PinLsCid(pin)` (asked with the pin's own mode)
  deriving DecidableEq, Repr

structure FRec where
  cid : Nat
  pin : Option Pin
  ans : DaemonAns
  op : Option Op
  getErr : Bool               -- `State.Get(cid)` fails
  lsCidErr : Bool             -- `PinLsCid` for this CID fails
  deriving DecidableEq, Repr

structure FInput where
  self : Nat
  stateErr : Bool             -- `getState` (consensus `State()`) fails
  listErr : Bool              -- `State.List` fails (immediately or mid-way)
  lsDErr : Bool               -- `PinLs("direct")` fails
  lsRErr : Bool               -- `PinLs("recursive")` fails
  recs : List FRec
  deriving Repr

def opEntryO (o : Option Op) : Option Nat :=
  match o with
  | none => none
  | some o => if o.phase == .done then none else some (opStatus o)

/-- `Tracker.Status(cid)` with failing resources -/
def statusF (i : FInput) (r : FRec) : Nat :=
  match opEntryO r.op with
  | some s => s
  | none =>
    if i.stateErr then stClusterError             -- getState: addError
    else if r.getErr then stClusterError          -- st.Get: addError
    else
      match r.pin with
      | none => stUnpinned
      | some p =>
        if p.isMeta then stSharded
        else if p.isRemote i.self then stRemote
        else if r.lsCidErr then stClusterError    -- PinLsCid: addError
        else
          let t := ipfsToTracker r.ans.lsCid
          if t == stUnpinned then stPinError else t

/-- `localStatus` returns an error (and `StatusAll` nil) for this filter -/
def listFailed (i : FInput) (f : Nat) : Bool :=
  i.stateErr || (wantState f && i.listErr) || (wantIpfs f && (i.lsDErr || i.lsRErr))

def localEntryF (i : FInput) (incExtra : Bool) (f : Nat) (r : FRec) : Option Nat :=
  if !wantState f then none
  else
    match r.pin with
    | none => none
    | some p =>
      if p.isMeta then
        if !incExtra || !matchF f stSharded then none else some stSharded
      else if p.isRemote i.self then
        if !incExtra || !matchF f stRemote then none else some stRemote
      else
        match (if wantIpfs f then (if p.direct then r.ans.lsD else r.ans.lsR) else none) with
        | some ips => some (ipfsToTracker ips)
        | none => some stUnexpectedlyUnpinned

def listEntryF (i : FInput) (f : Nat) (r : FRec) : Option Nat :=
  if listFailed i f then none
  else
    let e := match opEntryO r.op with
      | some s => some s
      | none => localEntryF i true f r
    e.filter (fun s => matchF s f)

def statusAllF (i : FInput) (f : Nat) : List (Nat × Nat) :=
  i.recs.filterMap (fun r => (listEntryF i f r).map (fun s => (r.cid, s)))

def statusEachF (i : FInput) : List (Nat × Nat) :=
  i.recs.map (fun r => (r.cid, statusF i r))

def sortedCidsF : List FRec → Bool
  | [] => true
  | [_] => true
  | a :: b :: t => decide (a.cid < b.cid) && sortedCidsF (b :: t)

def wfF (i : FInput) : Bool := sortedCidsF i.recs

/-- a go-ipfs daemon: the answers follow from what it holds -/
def wellBehaved (p : Option Pin) (held : Ipfs) : DaemonAns :=
  { lsD := pinLs true held, lsR := pinLs false held,
    lsCid := match p with | some p => pinLsCid p held | none => .unpinned }

/-- the fault-free instance (a daemon that is down fails every query) -/
def Rec.toF (up : Bool) (r : Rec) : FRec :=
  { cid := r.cid, pin := r.pin, ans := wellBehaved r.pin r.ipfs, op := r.op, getErr := false, lsCidErr := !up }

def Input.toF (i : Input) : FInput :=
  { self := i.self, stateErr := false, listErr := false, lsDErr := !i.ipfsUp, lsRErr := !i.ipfsUp,
    recs := i.recs.map (Rec.toF i.ipfsUp) }

/-! ### PinInfo content (sequential reads)

`Error` text: set by `addError` (cluster_error), with `errUnexpectedlyUnpinned`
for pin_error / unexpectedly_unpinned, and by `Operation.SetError` for an
operation in the error phase — also the `OperationRemote` one, whose status
stays `remote`. -/

/-- does the `PinInfo` of `Status` carry an error text -/
def errTextS (i : FInput) (r : FRec) : Bool :=
  match r.op with
  | some o => if o.phase == .done then isErrSt (statusF i r) else o.phase == .error
  | none => isErrSt (statusF i r)
where isErrSt (s : Nat) : Bool :=
  s == stClusterError || s == stPinError || s == stUnpinError || s == stUnexpectedlyUnpinned

/-! ### Recover

`Recover(cid)`: the operation table's entry, else `Status`; pin_error /
unexpectedly_unpinned re-enqueue a pin, unpin_error an unpin; the answer is
`Status` read after that. `phase` is where the new operation is when that
`Status` is read (queued, or already picked up by a worker). -/

def recoverOp (s0 : Nat) (ph : Phase) : Option Op :=
  if s0 == stPinError || s0 == stUnexpectedlyUnpinned then some ⟨.pin, ph⟩
  else if s0 == stUnpinError then some ⟨.unpin, ph⟩
  else none

/-- the record after `Recover` was called when the view showed `s0` -/
def afterRecover (r : Rec) (s0 : Nat) (ph : Phase) : Rec :=
  match recoverOp s0 ph with
  | some o => { r with op := some o }
  | none => r

/-- answer of `Tracker.Recover(cid)` -/
def recover (i : Input) (r : Rec) (ph : Phase) : Nat := status i (afterRecover r (status i r) ph)

/-- answers of `Tracker.RecoverAll()`: one per entry of `StatusAll(0)` -/
def recoverAll (i : Input) (phs : Nat → Phase) : List (Nat × Nat) :=
  i.recs.filterMap (fun r => (listEntry i 0 r).map (fun s0 => (r.cid, status i (afterRecover r s0 (phs r.cid)))))

/-! ### cluster-wide views when `consensus.Peers` / the state fail -/

structure GCidF where
  base : GCidInput
  stateErr : Bool      -- `PinGet` fails with something else than not-found
  peersErr : Bool      -- `consensus.Peers` fails
  deriving Repr

/-- `globalPinInfoCid`: `none` = the call returns an error -/
def globalCidF (i : GCidF) : Option (List (Nat × Nat)) :=
  if i.stateErr then none
  else if !i.base.follower && i.peersErr then none
  else some (globalCid i.base)

structure GSliceF where
  base : GSliceInput
  peersErr : Bool
  deriving Repr

def globalSliceF (i : GSliceF) : Option (List (Nat × List (Nat × Nat))) :=
  if !i.base.follower && i.peersErr then none else some (globalSlice i.base)

/-- the members of `globalPinInfoSlice` whose call failed (not refused) -/
def erroredMembers (i : GSliceInput) : List Nat :=
  (if i.follower then [i.self] else i.members).filter
    (fun p => match replyOf i.replies p with | .err => true | _ => false)

end CV.C06
