import ClusterVerif.Model.C08
/-!
# C08 — the query form of the add parameters (api/add.go)

`AddParams.ToQueryString` / `AddParamsFromQuery`, field by field. The embedded `PinOptions` go through
the typed query model of `Model/C08.lean` (`toQuery`/`fromQuery`); this file models everything else at the
TEXT level of the parameter values: `fmt.Sprintf("%t")` / `strconv.ParseBool`, `fmt.Sprintf("%d")` /
`strconv.Atoi`, `url.Values.Get` (first value, "" when absent), the defaults of `DefaultAddParams`, the
validation of layout / format, the chunker / hash defaults for an empty value, the CIDv0-needs-sha2-256 rule
(6355d34), the raw-leaves default that follows the CID version, and the ORDER of these steps.

`expectedReads` / `expectedWrites` / `expectedDefaults` / `expectedEquals` are the parameter tables this
model is written for; `Gen/C08Add.lean` is what `harness/extract_c08add` reads from today's api/add.go and
`Props/C08.lean` compares the two (`add_table_matches`) and proves coverage theorems over the generated one.
Core Lean only.
-/
namespace CV.C08.Add
open CV.C08

/-- the fields of `AddParams` besides the embedded `PinOptions` (the embedded `IPFSAddParams` flattened) -/
structure AddX where
  local_ : Bool
  recursive : Bool
  hidden : Bool
  wrap : Bool
  shard : Bool
  streamChannels : Bool
  format : String
  layout : String
  chunker : String
  rawLeaves : Bool
  progress : Bool
  cidVersion : Int
  hashFun : String
  noCopy : Bool
  deriving DecidableEq, Repr

/-- `DefaultAddParams()` without the pin options -/
def defaultX : AddX :=
  { local_ := false, recursive := false, hidden := false, wrap := false, shard := false, streamChannels := true,
    format := "unixfs", layout := "", chunker := "size-262144", rawLeaves := false, progress := false,
    cidVersion := 0, hashFun := "sha2-256", noCopy := false }

/-! ## text forms -/

/-- `fmt.Sprintf("%t", b)` -/
def fmtBool (b : Bool) : String := if b then "true" else "false"

/-- `strconv.ParseBool`: exactly these twelve spellings -/
def parseBool (s : String) : Option Bool :=
  if ["1", "t", "T", "TRUE", "true", "True"].contains s then some true
  else if ["0", "f", "F", "FALSE", "false", "False"].contains s then some false
  else none

def inInt64 (i : Int) : Bool := decide (-9223372036854775808 ≤ i) && decide (i < 9223372036854775808)

/-- `fmt.Sprintf("%d", i)` -/
def showInt (i : Int) : String := toString i

/-- `strconv.Atoi` (a 64-bit int): an optional sign, at least one decimal digit, nothing else (no `_`, no
    spaces), within int64 -/
def atoi (s : String) : Option Int :=
  let cs := s.toList
  if cs.any (· == '_') then none else
  let r : Option Int := match cs with
    | '+' :: rest => (String.ofList rest).toNat?.map Int.ofNat
    | _ => s.toInt?
  r.bind fun i => if inInt64 i then some i else none

/-- `url.Values` restricted to what `Get` sees: key ↦ first value -/
abbrev Params := List (String × String)

/-- `Values.Get`: "" when the key is absent -/
def getP (q : Params) (k : String) : String := match q.find? (fun kv => kv.1 == k) with | some kv => kv.2 | none => ""

/-! ## the two directions -/

/-- the parameters `ToQueryString` sets besides those of the pin options, in source order -/
def toParams (x : AddX) : Params :=
  [ ("shard", fmtBool x.shard), ("local", fmtBool x.local_), ("recursive", fmtBool x.recursive),
    ("layout", x.layout), ("chunker", x.chunker), ("raw-leaves", fmtBool x.rawLeaves), ("hidden", fmtBool x.hidden),
    ("wrap-with-directory", fmtBool x.wrap), ("progress", fmtBool x.progress), ("cid-version", showInt x.cidVersion),
    ("hash", x.hashFun), ("stream-channels", fmtBool x.streamChannels), ("nocopy", fmtBool x.noCopy),
    ("format", x.format) ]

/-- `parseBoolParam`: absent or empty keeps `cur`; `none` = "parameter invalid" -/
def boolParam (q : Params) (k : String) (cur : Bool) : Option Bool :=
  let v := getP q k
  if v == "" then some cur else parseBool v

/-- `parseIntParam` -/
def intParam (q : Params) (k : String) (cur : Int) : Option Int :=
  let v := getP q k
  if v == "" then some cur else atoi v

/-- `strings.ToLower(h) == "sha2-256"` (ASCII letters; the name has no others) -/
def isSha256 (h : String) : Bool := h.toList.map Char.toLower == ['s', 'h', 'a', '2', '-', '2', '5', '6']

/-- `AddParamsFromQuery` after the pin options: the steps in source order. `none` = an error is returned. -/
def fromParams (q : Params) : Option AddX := do
  let d := defaultX
  let layout := getP q "layout"
  if !(["trickle", "balanced", ""].contains layout) then none
  let chunker := if getP q "chunker" != "" then getP q "chunker" else d.chunker
  let hashFun := if getP q "hash" != "" then getP q "hash" else d.hashFun
  let format := getP q "format"
  if !(["car", "unixfs", ""].contains format) then none
  let local_ ← boolParam q "local" d.local_
  let recursive ← boolParam q "recursive" d.recursive
  let hidden ← boolParam q "hidden" d.hidden
  let wrap ← boolParam q "wrap-with-directory" d.wrap
  let shard ← boolParam q "shard" d.shard
  let progress ← boolParam q "progress" d.progress
  let cidV0 ← intParam q "cid-version" d.cidVersion
  -- CIDv0 only carries sha2-256: refuse an explicit version 0, move to 1 when the version was not given
  if !isSha256 hashFun && cidV0 == 0 && getP q "cid-version" != "" then none
  let cidV := if !isSha256 hashFun && cidV0 == 0 then 1 else cidV0
  let rawDefault := if cidV > 0 then true else d.rawLeaves
  let rawLeaves ← boolParam q "raw-leaves" rawDefault
  let streamChannels ← boolParam q "stream-channels" d.streamChannels
  let noCopy ← boolParam q "nocopy" d.noCopy
  pure { local_, recursive, hidden, wrap, shard, streamChannels, format, layout, chunker, rawLeaves, progress,
         cidVersion := cidV, hashFun, noCopy }

/-- a realistic wrong variant: `raw-leaves` parsed BEFORE the version-dependent default is applied
    (the default then overwrites an explicit `raw-leaves=false`) -/
def fromParamsRawFirst (q : Params) : Option AddX :=
  (fromParams q).map fun x => if x.cidVersion > 0 then { x with rawLeaves := true } else x

/-- add parameters the server accepts and that survive: a known layout and format, a named chunker and hash
    function (the empty string means "the default"), no CIDv0 with another hash function, a 64-bit version -/
def wfX (x : AddX) : Bool :=
  ["trickle", "balanced", ""].contains x.layout && ["car", "unixfs", ""].contains x.format &&
  x.chunker != "" && x.hashFun != "" && (isSha256 x.hashFun || x.cidVersion != 0) && inInt64 x.cidVersion

/-! ## whole AddParams -/

structure AddParams where
  opts : PinOptions
  x : AddX
  deriving DecidableEq, Repr

/-- `AddParamsFromQuery(ParseQuery(p.ToQueryString()))`: the pin options through the typed query model, then
    `PinUpdate = cid.Undef`, then the other parameters -/
def addRoundtrip (p : AddParams) : Res AddParams :=
  match queryRoundtrip p.opts with
  | .ok po => (match fromParams (toParams p.x) with
               | some x => .ok { opts := { po with pinUpdate := none }, x := x }
               | none => .decErr)
  | .encErr => .encErr
  | .decErr => .decErr

/-- `AddParams.Equals` on the non-pin-options part: every field EXCEPT `Progress` -/
def equalsX (a b : AddX) : Bool :=
  a.local_ == b.local_ && a.recursive == b.recursive && a.shard == b.shard && a.layout == b.layout &&
  a.chunker == b.chunker && a.rawLeaves == b.rawLeaves && a.hidden == b.hidden && a.wrap == b.wrap &&
  a.cidVersion == b.cidVersion && a.hashFun == b.hashFun && a.streamChannels == b.streamChannels &&
  a.noCopy == b.noCopy && a.format == b.format

/-! ## the parameter tables this model transcribes (compared with `Gen/C08Add.lean` by `decide`) -/

abbrev Step := String × String × String × List String

def expectedReads : List Step := [
  ("defaults", "", "", []), ("pinOptions", "", "PinOptions", []), ("pinUpdateUndef", "", "PinUpdate", []),
  ("enum", "layout", "Layout", ["trickle", "balanced", ""]), ("strDefault", "chunker", "Chunker", []),
  ("strDefault", "hash", "HashFun", []), ("enum", "format", "Format", ["car", "unixfs", ""]),
  ("bool", "local", "Local", []), ("bool", "recursive", "Recursive", []), ("bool", "hidden", "Hidden", []),
  ("bool", "wrap-with-directory", "Wrap", []), ("bool", "shard", "Shard", []), ("bool", "progress", "Progress", []),
  ("int", "cid-version", "CidVersion", []), ("hashCidRule", "cid-version", "CidVersion", []),
  ("rawLeavesRule", "", "RawLeaves", []), ("bool", "raw-leaves", "RawLeaves", []),
  ("bool", "stream-channels", "StreamChannels", []), ("bool", "nocopy", "NoCopy", []), ("return", "", "", []) ]

def expectedWrites : List Step := [
  ("pinOptions", "", "PinOptions", []), ("bool", "shard", "Shard", []), ("bool", "local", "Local", []),
  ("bool", "recursive", "Recursive", []), ("str", "layout", "Layout", []), ("str", "chunker", "Chunker", []),
  ("bool", "raw-leaves", "RawLeaves", []), ("bool", "hidden", "Hidden", []), ("bool", "wrap-with-directory", "Wrap", []),
  ("bool", "progress", "Progress", []), ("int", "cid-version", "CidVersion", []), ("str", "hash", "HashFun", []),
  ("bool", "stream-channels", "StreamChannels", []), ("bool", "nocopy", "NoCopy", []), ("str", "format", "Format", []),
  ("return", "", "", []) ]

/-- the defaults of the non-pin-options fields (the pin-option defaults are overwritten by `FromQuery`'s result) -/
def expectedDefaults : List (String × String) := [
  ("Local", "false"), ("Recursive", "false"), ("Hidden", "false"), ("Wrap", "false"), ("Shard", "false"),
  ("StreamChannels", "true"), ("Format", "\"unixfs\""), ("IPFSAddParams.Layout", "\"\""),
  ("IPFSAddParams.Chunker", "\"size-262144\""), ("IPFSAddParams.RawLeaves", "false"), ("IPFSAddParams.Progress", "false"),
  ("IPFSAddParams.CidVersion", "0"), ("IPFSAddParams.HashFun", "\"sha2-256\""), ("IPFSAddParams.NoCopy", "false") ]

def expectedEquals : List String :=
  ["PinOptions", "Local", "Recursive", "Shard", "Layout", "Chunker", "RawLeaves", "Hidden", "Wrap", "CidVersion",
   "HashFun", "StreamChannels", "NoCopy", "Format"]

/-! ## generic checks over a parameter table (applied to the GENERATED one) -/

def isParam (s : Step) : Bool := ["bool", "int", "str", "enum", "strDefault"].contains s.1

/-- the kind a written parameter must be read with -/
def readKindOk (w r : String) : Bool :=
  (w == "bool" && r == "bool") || (w == "int" && r == "int") || (w == "str" && (r == "enum" || r == "strDefault"))

def nodupStr : List String → Bool
  | [] => true
  | a :: l => !l.contains a && nodupStr l

/-- every parameter written is read under the same key into the same field with a matching kind, and every
    parameter read is written; keys are written once and read once -/
def writesReadsAgree (reads writes : List Step) : Bool :=
  let rp := reads.filter isParam
  let wp := writes.filter isParam
  wp.all (fun w => rp.any fun r => r.2.1 == w.2.1 && r.2.2.1 == w.2.2.1 && readKindOk w.1 r.1) &&
  rp.all (fun r => wp.any fun w => r.2.1 == w.2.1 && r.2.2.1 == w.2.2.1 && readKindOk w.1 r.1) &&
  nodupStr (wp.map (·.2.1)) && nodupStr (rp.map (·.2.1)) && nodupStr (wp.map (·.2.2.1)) && nodupStr (rp.map (·.2.2.1))

/-- no unknown step on either side; both handle the pin options first; both end with the return -/
def allRecognised (reads writes : List Step) : Bool :=
  (reads ++ writes).all (fun s => s.1 != "unknown") &&
  reads.take 3 == [("defaults", "", "", []), ("pinOptions", "", "PinOptions", []), ("pinUpdateUndef", "", "PinUpdate", [])] &&
  writes.head? == some ("pinOptions", "", "PinOptions", []) &&
  reads.getLast? == some ("return", "", "", []) && writes.getLast? == some ("return", "", "", [])

/-- every declared field of AddParams / IPFSAddParams is written, read and has a default; the field's Go type fits
    the parameter kind -/
def fieldsCovered (fields : List (String × String × String)) (reads writes : List Step) (defaults : List (String × String)) : Bool :=
  (fields.filter fun f => f.2.2 != "embedded").all fun f =>
    let kindOk := fun (k : String) =>
      (f.2.2 == "bool" && k == "bool") || (f.2.2 == "int" && k == "int") || (f.2.2 == "string" && k == "str")
    writes.any (fun w => w.2.2.1 == f.2.1 && kindOk w.1) && reads.any (fun r => isParam r && r.2.2.1 == f.2.1) &&
    defaults.any (fun d => d.1 == (if f.1 == "AddParams" then f.2.1 else f.1 ++ "." ++ f.2.1))

/-- the cid-version rules come after the version and the hash are read and before raw-leaves is read -/
def ruleOrderOk (reads : List Step) : Bool :=
  let idx := fun (s : Step) => reads.idxOf s
  idx ("strDefault", "hash", "HashFun", []) < idx ("hashCidRule", "cid-version", "CidVersion", []) &&
  idx ("int", "cid-version", "CidVersion", []) < idx ("hashCidRule", "cid-version", "CidVersion", []) &&
  idx ("hashCidRule", "cid-version", "CidVersion", []) < idx ("rawLeavesRule", "", "RawLeaves", []) &&
  idx ("rawLeavesRule", "", "RawLeaves", []) < idx ("bool", "raw-leaves", "RawLeaves", []) &&
  idx ("bool", "raw-leaves", "RawLeaves", []) < reads.length

/-- Equals compares every field but `Progress` (a display flag) -/
def equalsCovers (fields : List (String × String × String)) (eq : List String) : Bool :=
  (fields.filter fun f => f.2.2 != "embedded" && f.2.1 != "Progress").all (fun f => eq.contains f.2.1) &&
  eq.contains "PinOptions" && eq.all (fun e => e == "PinOptions" || fields.any (fun f => f.2.1 == e))

end CV.C08.Add
