import ClusterVerif.Model.C16Http
/-!
# C16 — the rest of the connector: BlockGet, BlockPut, Resolve, SwarmPeers, RepoGC, ConfigKey

Core Lean only.  One request, answered by a behaviour of the product space of `Model/C16Http.lean`;
the result of each method is what `postCtx` returns (`postRef`, tied to the source by `post_eq`),
followed by the method's own reading of the body.  `RepoGC` does not go through `postCtx`: it calls
`doPostCtx`, then `checkResponse` (since the repair recorded in notes/C16.md), then decodes a stream.

`variant` chooses among well-formed bodies of the endpoint (the `expected` shape):
* Resolve: 0 = `/ipfs/<cid>`, 1 = `/ipfs/<cid>/some/sub/path` (the CID is the root either way);
* BlockPut: 0 = the key of the block sent, 1 = another valid CID (CIDv0 / CIDv1 of the same block: a warning only);
* SwarmPeers: 0 = two peers, 1 = no peers, 2 = a peer id that does not decode;
* RepoGC: 0 = two collected keys, 1 = a key and a per-key error object, 2 = nothing collected;
* ConfigKey: 0 = the key exists, 1 = it does not, 2 = the path runs through a value that is not an object.
-/
namespace CV.C16.Aux

inductive Op | blockGet | blockPut | resolve | swarmPeers | repoGC | configKey
  deriving DecidableEq, Repr

structure In where
  op : Op
  beh : Beh
  variant : Nat

/-- what the call returned -/
inductive Res
  | ok (a b : Nat)   -- nil error; a, b: BlockGet 1 = the block's bytes; Resolve a = 1: the CID the daemon named;
                     -- SwarmPeers a = number of peers; RepoGC a = keys listed, b = of which per-key errors
  | err
  | errctx | hang | panic
  deriving DecidableEq, Repr

def Res.isOk : Res → Bool
  | .ok .. => true
  | _ => false

/-- the method's own reading of a completely received 200 body -/
def readBody (op : Op) (body : Body) (v : Nat) : Res :=
  match op with
  | .blockGet => .ok (if body = .expected ∨ body = .expectedAny then 1 else 0) 0     -- any bytes are handed back
  | .blockPut =>
    (match body with
     | .expected | .expectedAny => .ok 0 0        -- a decodable Key (a different one is a warning only)
     | _ => .err)                                 -- not JSON, no Key, Key not a CID
  | .resolve =>
    (match body with
     | .expected | .expectedAny => .ok 1 0
     | _ => .err)                                 -- no Path / not an /ipfs/ path
  | .swarmPeers =>
    (match body with
     | .expected | .expectedAny => if v % 3 = 0 then .ok 2 0 else if v % 3 = 1 then .ok 0 0 else .err
     | .otherObj | .jnull | .errObj _ | .badMsg => .ok 0 0  -- an object without Peers: nobody connected
     | _ => .err)
  | .configKey =>
    (match body with
     | .expected | .expectedAny => if v % 3 = 0 then .ok 0 0 else .err
     | _ => .err)                                 -- not an object, or the key is not there
  | .repoGC => .err   -- not used: see `gcStream`

/-- RepoGC decodes a stream of `{Key, Error}` objects until EOF; any JSON object counts as an entry -/
def gcStream (body : Body) (v : Nat) : Res :=
  match body with
  | .expected | .expectedAny => if v % 3 = 0 then .ok 2 0 else if v % 3 = 1 then .ok 2 1 else .ok 0 0
  | .empty => .ok 0 0
  | .otherObj | .jnull | .errObj _ | .badMsg => .ok 1 0
  | _ => .err

def Beh.stallsAux (b : Beh) : Bool := b.transport == .stallHeaders || b.transport == .stallBody

/-- every method here runs under a request timeout of its own: a stall ends in an error -/
def run (i : In) : Res :=
  if Beh.stallsAux i.beh then .err
  else match i.op with
  | .repoGC =>
    (match (doPostRef i.beh.facts).err with
     | .none =>
       (match (checkRef i.beh.facts).err with
        | .none => (match i.beh.transport with
                    | .full => gcStream i.beh.body i.variant
                    | _ => .err)
        | _ => .err)
     | _ => .err)
  | op =>
    (match (postRef i.beh.facts).err with
     | .none => readBody op i.beh.body i.variant
     | _ => .err)

end CV.C16.Aux
