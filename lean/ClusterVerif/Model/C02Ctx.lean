import ClusterVerif.Model.C02
/-! # C02 (round 8): the CALLER'S CONTEXT of an accepted operation

`LogPin` / `LogUnpin` (consensus/crdt/consensus.go) put the context they were called with into the
`batchItem` and return nil as soon as the item is in `batchItemCh`; they do not look at the context
themselves (the `select` has the send arm and `default` only), so an operation submitted with a
context that is already done is accepted too. The worker later calls
`batchingState.Add/Rm(batchItem.ctx, …)` and `batchingState.Commit(css.ctx)`. Between the two moments
the submitter's context may be cancelled or run out (a request-scoped context is cancelled when the
API request returns) — at ANY point of the schedule: while the item is queued, while the worker is
held inside a `Commit`, after it was taken.

`Layer.honoursCtx` is what the state layer (state/dsstate/datastore.go `Add`, `Rm`, `Commit`) does
with the context it is given. As the code is (`Layer.asIs`) the context only feeds
`trace.StartSpan` — the go-datastore operations below take no context. A state layer that returns
`ctx.Err()` makes the worker's `Add/Rm` fail for an item whose context is done: the worker logs
"error batching" and drops the item (`take false` of the worker model).

Core Lean only. -/
namespace CV.C02
namespace Ctx

/-- what state/dsstate does with the context handed to `Add` / `Rm`: `false` = ignores it (the code as
    it is, regenerated: `Gen.dsstateCtxUses` lists no use), `true` = returns its error when it is done -/
structure Layer where
  honoursCtx : Bool
  deriving DecidableEq, Repr

/-- the state layer as it is in /repo -/
def Layer.asIs : Layer := ⟨false⟩

/-- derived from the regenerated uses of the context parameter in `Add`, `Rm`, `Commit` (and the
    readers): any use other than feeding the trace span counts as honouring it (fail-closed) -/
def layerOf (uses : List (String × List String)) : Layer := ⟨uses.any (fun u => !u.2.isEmpty)⟩

/-- worker state + the context id of every queued item (parallel to `s.queue`) + the contexts that
    are done -/
structure XSt where
  s : St := {}
  ctxs : List Nat := []
  done : List Nat := []
  deriving DecidableEq, Repr

inductive XEv where
  | log (o : BOp) (ctx : Nat)   -- LogPin / LogUnpin called with context `ctx` (done or not: not consulted)
  | cancel (ctx : Nat)          -- the caller's context is cancelled / its deadline passes
  | take                        -- worker receives an item and calls batchingState.Add/Rm(item.ctx, …)
  | timerFire
  | commit (out : Outcome)      -- batchingState.Commit(css.ctx): the consensus component's own context
  deriving DecidableEq, Repr

/-- does `Add/Rm` succeed for the item at the head of the queue? -/
def addOk (L : Layer) (x : XSt) : Bool :=
  !(L.honoursCtx && (match x.ctxs with | c :: _ => x.done.contains c | [] => false))

/-- the worker event an extended event stands for (`none`: context bookkeeping only) -/
def toEv (L : Layer) (x : XSt) : XEv → Option Ev
  | .log o _ => some (.log o)
  | .cancel _ => none
  | .take => some (.take (addOk L x))
  | .timerFire => some .timerFire
  | .commit out => some (.commit out)

/-- context bookkeeping of one event whose worker step gave result `r` -/
def ctxsAfter (x : XSt) (e : XEv) (r : Res) : List Nat :=
  match e with
  | .log _ c => if r == .accepted then x.ctxs ++ [c] else x.ctxs
  | .take => x.ctxs.drop 1
  | _ => x.ctxs

def xstep (cfg : Cfg) (L : Layer) (x : XSt) (e : XEv) : Option (XSt × List Res) :=
  match toEv L x e with
  | none => (match e with
    | .cancel c => some ({ x with done := c :: x.done }, [])
    | _ => none)
  | some ev => (step cfg x.s ev).map fun p => ({ x with s := p.1, ctxs := ctxsAfter x e p.2 }, [p.2])

def xrun (cfg : Cfg) (L : Layer) : XSt → List XEv → Option (XSt × List Res)
  | x, [] => some (x, [])
  | x, e :: es =>
    match xstep cfg L x e with
    | none => none
    | some (x1, r) =>
      match xrun cfg L x1 es with
      | none => none
      | some (x2, rs) => some (x2, r ++ rs)

/-- the run with every trace of the contexts removed: the `log`s without their context, every `take`
    succeeding, no `cancel` -/
def erase : List XEv → List Ev
  | [] => []
  | .log o _ :: es => .log o :: erase es
  | .cancel _ :: es => erase es
  | .take :: es => .take true :: erase es
  | .timerFire :: es => .timerFire :: erase es
  | .commit out :: es => .commit out :: erase es

/-- no publish failing at the head write (the hypothesis of `order_per_cid_partial`, K05d) -/
def XEv.benign : XEv → Bool
  | .commit .failHeads => false
  | _ => true

end Ctx
end CV.C02
